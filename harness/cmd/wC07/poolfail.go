package main

// Failed decodes as steps of the pool histories.
//
// ReadPack / ToPack acquire a pack from the pool and then run Read and Process on it. When a
// datagram is cut short, declares a version whose layout wants more bytes than it carries,
// or holds a payload Process cannot digest, the call panics with a pack that is already
// partly filled. Whatever the package does with that pack, the pool clause still holds for
// the acquisitions that FOLLOW: a pack obtained from the pool carries nothing of a previous
// use. The failure itself is not judged here (C04 owns the decoders' failure behaviour).
//
// Nothing in this file knows a layout. A failing datagram is made from a VALID one that
// golib's own Write produced for a pack whose every field holds a non-blank value:
//
//	empty            no bytes at all
//	cut-header/<F>   cut inside the encoding of field F of the embedded AbstractPack
//	cut-field/<F>    cut inside the encoding of the pack's own field F
//	                 (where F's encoding lies is MEASURED: the first byte of the datagram
//	                 that changes when only F is changed; for text the cut is also moved
//	                 into the value)
//	one-short        the last byte missing
//	cut-any          any other strict prefix
//	version-higher   the whole datagram, declared at a version whose measured carried set is
//	                 a strict superset of the written version's
//	process          the whole datagram with arbitrary (not well-formed) text in its fields
//
// and is used only if decoding it with a FRESH (never pooled) pack of the declared version
// panics too, in Read or in Process — which of the two is recorded. Types that have no
// failing input (UdpRelayPack: a pooled pack reads Len = 0 bytes) get no such steps.

import (
	"bytes"
	"fmt"
	"reflect"
	"sort"
	"strings"

	"github.com/whatap/golib/io"
	"github.com/whatap/golib/lang/pack/udp"

	"verif/vlib"
)

var failClasses = []string{"empty", "cut-header", "cut-field", "one-short", "cut-any", "version-higher", "process"}

type failedDatagram struct {
	wv, dv   int32
	b        []byte
	class    string // one of failClasses
	site     string // class, plus the field for the measured cuts
	stage    string // where a fresh pack fails on it: "read" | "process"
	restored int    // fields a fresh pack holds a non-blank value in when the decode fails
	pn       string
}

func (fd *failedDatagram) describe() string {
	return fmt.Sprintf("%s written@%d declared@%d %dB fails-in-%s fields-set-before-failure=%d", fd.site, fd.wv, fd.dv, len(fd.b), fd.stage, fd.restored)
}

// failInfo: what kinds of failing input a type has (probed on the tree under test with fresh
// packs) and the version relations measured at start-up.
type failInfo struct {
	readFailable    bool
	processFailable bool
	recipes         []processRecipe
	higher          [][2]int32 // (written, declared): carried(declared) ⊋ carried(written)
	nCarried        map[int32]int
}

// processRecipe: storing text in ONE field of a pack that otherwise decodes makes Process
// fail at the versions of one family (found by probing the tree under test, not listed).
type processRecipe struct {
	field int // index into k.Fields
	text  string
	fam   string
}

// decodeFresh runs Read and Process (what ReadPack does) on a pack that never was in a pool.
func decodeFresh(k *packKind, ver int32, b []byte) (p udp.UdpPack, stage string, pn interface{}) {
	p = k.New(ver)
	in := io.NewDataInputX(b)
	if pn = vlib.Catch(func() { p.Read(in) }); pn != nil {
		return p, "read", pn
	}
	if pn = vlib.Catch(func() { p.Process() }); pn != nil {
		return p, "process", pn
	}
	return p, "", nil
}

func firstDiff(a, b []byte) int {
	n := len(a)
	if len(b) < n {
		n = len(b)
	}
	for i := 0; i < n; i++ {
		if a[i] != b[i] {
			return i
		}
	}
	if len(a) == len(b) {
		return -1
	}
	return n
}

// text the post-processing steps have to cope with: no separators, only separators, …
var oddText = []string{"", "x", ",", ", ", "a, b", "a, b, c", "=", ";", "a=b", "password", "password=", "%zz", "://", "http://", "\n", "|", "1|2|3", "-", "0",
	"\xff", "\xff=", "k\xffy=v", "a=b \xc3=c", "\xe2\x84\xaa=1", "\u0130=x", "a, \xff", "%", "http://[::1", "\x00"}

func (k *packKind) oddFill(r *vlib.Rand, p udp.UdpPack) {
	e := elemOf(p)
	for i := range k.Fields {
		fi := &k.Fields[i]
		if fi.Type.Kind() == reflect.String && r.Intn(3) == 0 {
			e.FieldByIndex(fi.Index).SetString(oddText[r.Intn(len(oddText))])
		}
	}
}

func (k *packKind) probeFailInfo() *failInfo {
	fi := &failInfo{nCarried: map[int32]int{}}
	r := vlib.NewRand(0xFA11ED ^ vlib.HashStr(k.Name))
	for _, v := range []int32{10110, 20104, 30103, 40100, 50101} {
		src := k.New(v)
		k.fillResidue(r, src, nil)
		if b, pw := writeBytes(src); pw == nil && len(b) > 0 {
			if _, st, _ := decodeFresh(k, v, b[:len(b)-1]); st != "" {
				fi.readFailable = true
			}
		}
		// single substitutions into a pack that decodes
		var base udp.UdpPack
		for try := 0; try < 8 && base == nil; try++ {
			src := k.New(v)
			k.fillResidue(r, src, nil)
			if wf := wellFormed[k.Name]; wf != nil {
				elemOf(src).FieldByName("Data").SetString(wf(r))
			}
			if b, pw := writeBytes(k.copyPack(src)); pw == nil {
				if _, st, _ := decodeFresh(k, v, b); st == "" {
					base = src
				}
			}
		}
		if base != nil {
			for i := range k.Fields {
				if k.Fields[i].Type.Kind() != reflect.String {
					continue
				}
				for _, t := range oddText {
					cp := k.copyPack(base)
					elemOf(cp).FieldByIndex(k.Fields[i].Index).SetString(t)
					if b, pw := writeBytes(cp); pw == nil {
						if _, st, _ := decodeFresh(k, v, b); st == "process" {
							fi.recipes = append(fi.recipes, processRecipe{i, t, family(v)})
							fi.processFailable = true
						}
					}
				}
			}
		}
		for n := 0; n < 120 && !fi.processFailable; n++ {
			src := k.New(v)
			k.fillResidue(r, src, nil)
			if n%2 == 0 {
				k.oddFill(r, src)
			}
			if b, pw := writeBytes(src); pw == nil {
				if _, st, _ := decodeFresh(k, v, b); st == "process" {
					fi.processFailable = true
				}
			}
		}
	}
	if nowLayout != nil && nowLayout[k.Name] != nil {
		sets := map[int32]map[string]bool{}
		for _, v := range versions {
			m := map[string]bool{}
			for _, n := range nowLayout[k.Name][v] {
				m[n] = true
			}
			sets[v] = m
			fi.nCarried[v] = len(m)
		}
		for _, w := range versions {
			for _, d := range versions {
				if len(sets[d]) <= len(sets[w]) {
					continue
				}
				sub := true
				for n := range sets[w] {
					if !sets[d][n] {
						sub = false
						break
					}
				}
				if sub {
					fi.higher = append(fi.higher, [2]int32{w, d})
				}
			}
		}
	}
	return fi
}

// fewerVersion draws a version whose measured layout carries fewer fields than that of ver
// (any version if there is none).
func (fi *failInfo) fewerVersion(r *vlib.Rand, ver int32) (int32, bool) {
	var cand []int32
	for _, v := range versions {
		if fi.nCarried[v] < fi.nCarried[ver] {
			cand = append(cand, v)
		}
	}
	if len(cand) == 0 {
		return versions[r.Intn(len(versions))], false
	}
	return cand[r.Intn(len(cand))], true
}

// buildFailing draws one failing datagram of the type (nil: the drawn candidate does not
// fail on a fresh pack either, which is counted).
func (k *packKind) buildFailing(c *vlib.Ctx, r *vlib.Rand, fi *failInfo) *failedDatagram {
	class := ""
	switch x := r.Intn(100); {
	case x < 4:
		class = "empty"
	case x < 50:
		class = "cut"
	case x < 62:
		class = "one-short"
	case x < 70:
		class = "cut-any"
	case x < 85:
		class = "version-higher"
	default:
		class = "process"
	}
	if class == "process" && !fi.processFailable {
		class = "cut"
	}
	if class == "version-higher" && len(fi.higher) == 0 {
		class = "cut"
	}
	if class != "process" && !fi.readFailable {
		if !fi.processFailable {
			return nil
		}
		class = "process"
	}
	fd := &failedDatagram{}
	fd.wv = versions[r.Intn(len(versions))]
	fd.dv = fd.wv
	if class == "version-higher" {
		pr := fi.higher[r.Intn(len(fi.higher))]
		fd.wv, fd.dv = pr[0], pr[1]
	}
	var rc *processRecipe
	if class == "process" && len(fi.recipes) > 0 && r.Intn(5) != 0 {
		rc = &fi.recipes[r.Intn(len(fi.recipes))]
		var fv []int32
		for _, v := range versions {
			if family(v) == rc.fam {
				fv = append(fv, v)
			}
		}
		fd.wv = fv[r.Intn(len(fv))]
		fd.dv = fd.wv
	}
	src := k.New(fd.wv)
	k.fillResidue(r, src, nil)
	if rc != nil {
		if wf := wellFormed[k.Name]; wf != nil {
			elemOf(src).FieldByName("Data").SetString(wf(r))
		}
		elemOf(src).FieldByIndex(k.Fields[rc.field].Index).SetString(rc.text)
	} else if class == "process" {
		k.oddFill(r, src)
	}
	exp := k.copyPack(src)
	D, pw := writeBytes(src)
	if pw != nil || len(D) == 0 {
		c.Count("failed_decode_candidates_unwritable", 1)
		return nil
	}
	n := len(D)
	fd.site = class
	switch class {
	case "empty":
		n = 0
	case "one-short":
		n = len(D) - 1
	case "cut-any":
		n = r.Intn(len(D))
	case "cut":
		// the first byte of the datagram that depends on the drawn field lies inside that
		// field's encoding
		expE := elemOf(exp)
		nf := len(k.Fields)
		start := r.Intn(nf)
		found := false
		for t := 0; t < nf && !found; t++ {
			f := &k.Fields[(start+t)%nf]
			cur := expE.FieldByIndex(f.Index)
			for ai, alt := range alternates(cur) {
				cp := k.copyPack(exp)
				elemOf(cp).FieldByIndex(f.Index).Set(alt)
				b, pn := writeBytes(cp)
				if pn != nil {
					continue
				}
				o := firstDiff(D, b)
				if o < 0 {
					continue
				}
				if o >= len(D) {
					o = len(D) - 1
				}
				// text: alternate 0 changes the first byte of the value, so the value starts at o
				if ai == 0 && cur.Kind() == reflect.String && len(cur.String()) > 1 {
					lim := len(cur.String())
					if lim > 256 {
						lim = 256
					}
					switch r.Intn(3) {
					case 1:
						o++
					case 2:
						o += r.Intn(lim)
					}
					if o >= len(D) {
						o = len(D) - 1
					}
				}
				n = o
				if len(f.Index) > 1 {
					class = "cut-header"
				} else {
					class = "cut-field"
				}
				fd.site = class + "/" + f.Name
				found = true
				break
			}
		}
		if !found {
			c.Count("failed_decode_candidates_no_carried_field", 1)
			return nil
		}
	}
	fd.b = D[:n:n]
	p, stage, pn := decodeFresh(k, fd.dv, fd.b)
	if stage == "" {
		c.Count("failed_decode_candidates_not_failing", 1)
		c.Count("failed_decode_candidates_not_failing_"+class, 1)
		return nil
	}
	if stage == "process" && class != "process" {
		class, fd.site = "process", "process"
	} else if stage == "read" && class == "process" {
		class, fd.site = "cut-any", "cut-any" // cannot happen with a whole datagram of the same version; kept honest
	}
	fd.class, fd.stage, fd.pn = class, stage, fmt.Sprint(pn)
	if rc != nil && class == "process" {
		fd.site = "process/" + k.Fields[rc.field].Name
	}
	e := elemOf(p)
	for i := range k.Fields {
		if !k.isBlank(&k.Fields[i], e.FieldByIndex(k.Fields[i].Index)) {
			fd.restored++
		}
	}
	return fd
}

// goodDatagram writes a valid datagram of the type at ver: a drawn subset of the fields
// filled (the others blank on the wire), the payload of the post-processed types well-formed.
func (k *packKind) goodDatagram(r *vlib.Rand, ver int32) (b []byte, mode string) {
	src := k.New(ver)
	mode, mask, _ := k.fillPlan(r)
	k.fillResidue(r, src, mask)
	if wf := wellFormed[k.Name]; wf != nil {
		elemOf(src).FieldByName("Data").SetString(wf(r))
	}
	b, pw := writeBytes(src)
	if pw != nil {
		return nil, mode
	}
	return b, mode
}

// compareDecoded judges a pack that ReadPack decoded from a datagram against what two fresh
// packs (one decoded before, one after) make of the same bytes: a field on which the two
// fresh decodes differ is not deterministic (a time stamp) and is skipped; a field the fresh
// decode leaves blank must be blank (either blank value); every other field must be equal.
func (k *packKind) compareDecoded(got, a, b udp.UdpPack, bad func(f *fieldInfo, got, want reflect.Value)) (compared, skipped int64) {
	ge, ae, be := elemOf(got), elemOf(a), elemOf(b)
	for i := range k.Fields {
		f := &k.Fields[i]
		av, bv, gv := ae.FieldByIndex(f.Index), be.FieldByIndex(f.Index), ge.FieldByIndex(f.Index)
		if !eqVal(av, bv, 0) {
			skipped++
			continue
		}
		compared++
		if eqVal(gv, av, 0) || (k.isBlank(f, av) && k.isBlank(f, gv)) {
			continue
		}
		bad(f, gv, av)
	}
	return
}

func countFailed(c *vlib.Ctx, k *packKind, fd *failedDatagram, prefix string) {
	c.Count(prefix+"failed_decodes", 1)
	c.Count(prefix+"failed_decodes_"+k.Name, 1)
	c.Count(prefix+"failed_decodes_class_"+fd.class, 1)
	if fd.class == "process" {
		c.Count(prefix+"failed_decodes_class_process_"+k.Name, 1)
	}
	c.Count(prefix+"failed_decodes_stage_"+fd.stage, 1)
	if fd.restored > 0 {
		c.Count(prefix+"failed_decodes_leaving_a_partly_filled_pack", 1)
		c.Count(prefix+"failed_decodes_fields_set_before_failure", int64(fd.restored))
	}
	c.SetAdd(prefix+"failed_decode_sites", k.Name+"@"+fd.site)
	c.SetAdd(prefix+"failed_decode_type_classes", k.Name+"@"+fd.class)
}

// ---- the concurrent slice ----------------------------------------------------------------------

// frBase / frTag mark the values of the datagrams whose decode fails in the concurrent runs
// (the owners' values are "gNN/…" and 1000 + a small number).
const frBase = 7000000

func isFailedReadValue(v reflect.Value) bool {
	switch v.Kind() {
	case reflect.String:
		return strings.HasPrefix(v.String(), "fr/")
	case reflect.Slice:
		return v.Type().Elem().Kind() == reflect.Uint8 && bytes.HasPrefix(v.Bytes(), []byte("fr/"))
	case reflect.Int, reflect.Int64, reflect.Int32:
		return v.Int() >= frBase && v.Int() < frBase+1000
	}
	return false
}

func (k *packKind) carriesFailedReadValue(e reflect.Value) bool {
	for i := range k.Fields {
		if isFailedReadValue(e.FieldByIndex(k.Fields[i].Index)) {
			return true
		}
	}
	return false
}

// concFailing builds the failing datagrams the goroutines of one concurrent run feed to
// ToPack: for each of the run's versions the valid datagram of a pack holding a marked value
// in every field, cut inside every field that has bytes in it and one byte short, and the
// whole datagram where Process fails on it. Read-only once built.
func (k *packKind) concFailing(fi *failInfo) []*failedDatagram {
	var out []*failedDatagram
	for _, ver := range concVersions {
		src := k.New(ver)
		e := elemOf(src)
		for i := range k.Fields {
			f := &k.Fields[i]
			v, _ := ownValue(f.Type, "fr/"+k.Name+"."+f.Name, int64(frBase-1000+i), 0)
			e.FieldByIndex(f.Index).Set(v)
		}
		exp := k.copyPack(src)
		D, pw := writeBytes(src)
		if pw != nil || len(D) == 0 {
			continue
		}
		cuts := map[int]string{len(D) - 1: "one-short"}
		expE := elemOf(exp)
		for i := range k.Fields {
			f := &k.Fields[i]
			for _, alt := range alternates(expE.FieldByIndex(f.Index)) {
				cp := k.copyPack(exp)
				elemOf(cp).FieldByIndex(f.Index).Set(alt)
				b, pn := writeBytes(cp)
				if pn != nil {
					continue
				}
				if o := firstDiff(D, b); o >= 0 && o < len(D) {
					if _, ok := cuts[o]; !ok {
						cuts[o] = "cut/" + f.Name
					}
					break
				}
			}
		}
		offs := make([]int, 0, len(cuts))
		for o := range cuts {
			offs = append(offs, o)
		}
		sort.Ints(offs)
		for _, o := range offs {
			if _, st, _ := decodeFresh(k, ver, D[:o]); st != "" {
				out = append(out, &failedDatagram{wv: ver, dv: ver, b: D[:o:o], class: "cut", site: cuts[o], stage: st})
			}
		}
		if _, st, _ := decodeFresh(k, ver, D); st != "" {
			out = append(out, &failedDatagram{wv: ver, dv: ver, b: D, class: "process", site: "process", stage: st})
		}
		// the probed single-field texts Process fails on, in front of the marked value
		used := map[int]bool{}
		for _, rc := range fi.recipes {
			if rc.fam != family(ver) || used[rc.field] {
				continue
			}
			cp := k.copyPack(exp)
			f := elemOf(cp).FieldByIndex(k.Fields[rc.field].Index)
			f.SetString(rc.text)
			if b, pw := writeBytes(cp); pw == nil {
				if _, st, _ := decodeFresh(k, ver, b); st == "process" {
					used[rc.field] = true
					out = append(out, &failedDatagram{wv: ver, dv: ver, b: b, class: "process", site: "process/" + k.Fields[rc.field].Name, stage: st})
				}
			}
		}
	}
	return out
}

// poolFailFloors: observation floors of the failed-decode steps of the sequential histories
// (totals over the shards; a tenth or less of what a healthy quick run reaches).
func poolFailFloors(c *vlib.Ctx, pooled []*packKind, finfo map[string]*failInfo) {
	per := func(total int) int64 { return int64((total + c.NShards - 1) / c.NShards) }
	anyProcess, anyHigher := false, false
	for _, k := range pooled {
		fi := finfo[k.Name]
		if !fi.readFailable && !fi.processFailable {
			continue
		}
		c.Floor("failed_decodes_"+k.Name, per(60), c.Counter("failed_decodes_"+k.Name))
		c.Floor("acquisitions_judged_right_after_a_failed_decode_"+k.Name, per(60), c.Counter("acquisitions_judged_right_after_a_failed_decode_"+k.Name))
		anyProcess = anyProcess || fi.processFailable
		anyHigher = anyHigher || len(fi.higher) > 0
	}
	cls := map[string]int{"empty": 40, "cut-header": 200, "cut-field": 300, "one-short": 150, "cut-any": 60}
	if anyHigher {
		cls["version-higher"] = 100
	}
	if anyProcess {
		cls["process"] = 10
	}
	for _, k := range pooled {
		if len(finfo[k.Name].recipes) > 0 {
			c.Floor("failed_decodes_class_process_"+k.Name, per(10), c.Counter("failed_decodes_class_process_"+k.Name))
		}
	}
	for _, n := range failClasses {
		if min, ok := cls[n]; ok {
			c.Floor("failed_decodes_class_"+n, per(min), c.Counter("failed_decodes_class_"+n))
		}
	}
	c.Floor("failed_decodes_leaving_a_partly_filled_pack", per(500), c.Counter("failed_decodes_leaving_a_partly_filled_pack"))
	c.Floor("failed_decode_followed_by_CreatePack", per(500), c.Counter("failed_decode_followed_by_CreatePack"))
	c.Floor("failed_decode_followed_by_read_at_version_with_fewer_fields", per(200), c.Counter("failed_decode_followed_by_read_at_version_with_fewer_fields"))
	c.Floor("pool_acquires_by_read", per(1000), c.Counter("pool_acquires_by_read"))
}
