// wC07 — UDP tracer packs: writer and reader agree for every type and protocol version; a
// pooled pack carries nothing from its previous use; Process() leaves no password value of
// a connection string in a Go- or PHP-family SQL / SQL-param / DB-connection pack.
//
// Four monitors (DESIGN §4 C07, §8.6):
//  1. agreement: golib's Write against golib's Read of a FRESH pack, per (type, version);
//     which fields a version carries is MEASURED (single-field sensitivity of the written
//     bytes), not taken from a table; the measured sets are additionally compared with the
//     committed spec/udp_gates.json so that a field dropped on BOTH sides is seen.
//  2. pool histories: CreatePack(type, random version) / fill a random SUBSET of the fields
//     (all, one, all but one, each with probability q) / ClosePack / CreatePack at another
//     version; every acquired pack must be blank in every field. Also steps of the histories
//     (poolfail.go): a valid datagram through ReadPack / ToPack (the decoded pack must equal
//     what a never-pooled pack makes of the same bytes) and FAILED decodes — strict prefixes
//     of a valid datagram cut inside the header / inside each field / one byte short, a
//     declared version that wants more bytes than the datagram carries, payloads Process
//     fails on — under recover, followed by CreatePack at several versions and by a valid
//     datagram at a version carrying fewer fields.
//     2b (poolconc.go): the same pools used by 4…4×GOMAXPROCS goroutines at once: an acquired
//     pack must be blank and must keep its owner's values until the owner releases it; in a
//     slice of the configurations every 8th / 16th iteration starts with a ToPack that fails.
//  3. password masking: unique marker values under the key "password" must not occur in
//     any string of the pack after Process(). Strings of 1…8 tokens (section password) and of
//     up to 401 tokens (password-long): every pair of token counts 0,1,2,15,16,17,31,32,33,63,
//     64,65,127,128,129,200 before and after a designated password token, further password
//     tokens first / last / anywhere, texts of up to 64 KiB in keys, values and password values.
//  4. held results (held.go): every slice udp.ToBytesPack / udp.WritePack hands out is held as
//     returned next to a private copy through multi-object histories (encode A, B, C …, only
//     then decode in a drawn order) and re-verified after every later encode / decode; decoded
//     packs stay live and are re-verified too; also from 8 goroutines at once.
//
// Version gates found in the pinned code (lang/pack/udp):
//
//	family boundaries (every pack, AbstractPack): >50000 Go, >40000 batch, >30000 .NET,
//	  >20000 Python, otherwise PHP
//	AbstractPack  PHP >=10101 Pid, >=10104 ThreadId, >=10109 Index+Parent
//	TxStart       Python >=20104 HttpMethod; PHP >=10103 HttpMethod
//	TxEnd         Go >=50100 Status, >=50101 McallerStepId+XTraceId; .NET >=30102 Mcaller*,
//	              >=30103 Status+McallerStepId+XTraceId; Python >=20104 Status;
//	              PHP >=10102 body, >=10107 Status, >=10108 McallerStepId+XTraceId,
//	              >=10110 PeakMem..ProfIFuncCount
//	TxStartEnd    Go >=50100, >=50101; PHP >=10107, >=10108, >=10110 (Process: PHP >=10102)
//	TxSql         Python >=20102 Fetch; PHP >=10105 ErrorType+ErrorMessage+Stack
//	TxDbc         PHP >=10105 ErrorType+ErrorMessage+Stack
//	TxHttpc       PHP >=10102 StepId, >=10105 StepId+ErrorType+ErrorMessage+Stack
//	all others    family boundaries only (UDP_PACK_VERSION = 50100 is the pool default)
package main

import (
	"bytes"
	"encoding/json"
	"fmt"
	"math"
	"os"
	"path/filepath"
	"reflect"
	"runtime"
	"runtime/debug"
	"sort"
	"strconv"
	"strings"

	"github.com/whatap/golib/io"
	"github.com/whatap/golib/lang/pack/udp"

	"verif/vlib"
)

// ---- version set ---------------------------------------------------------------------------

// every gate constant and its neighbours, the family boundaries, some out-of-family values
var versions = []int32{
	math.MinInt32, -1, 0, 1, 9999, 10000,
	10100, 10101, 10102, 10103, 10104, 10105, 10106, 10107, 10108, 10109, 10110, 10111,
	19999, 20000, 20001,
	20100, 20101, 20102, 20103, 20104, 20105,
	30000, 30001,
	30100, 30101, 30102, 30103, 30104,
	40000, 40001, 40100,
	50000, 50001, 50099, 50100, 50101, 50102,
	60000, 99999, math.MaxInt32,
}

func family(v int32) string {
	switch {
	case v > 50000:
		return "go"
	case v > 40000:
		return "batch"
	case v > 30000:
		return "dotnet"
	case v > 20000:
		return "python"
	}
	return "php"
}

// ---- layout tables (which fields a (type, version) carries) ---------------------------------

type layoutTable map[string]map[int32][]string // type → version → sorted carried field names

var (
	specLayout layoutTable // committed spec/udp_gates.json (nil if absent)
	nowLayout  layoutTable // measured on the tree under test at start-up with a fixed filler
)

func (t layoutTable) key(kind string, ver int32) string {
	return strings.Join(t[kind][ver], ",")
}

// classOf names the version class of (type, version) as family + the lowest version of the
// run of consecutive versions (of the version set, inside the family) that share this
// type's layout — i.e. the gate that opened the layout; the family's first layout is
// "<family>-base". The pinned spec is used when present so that keys do not move when the
// tree under test moves a gate.
func classOf(k *packKind, ver int32) string {
	tbl := specLayout
	if tbl == nil || tbl[k.Name] == nil {
		tbl = nowLayout
	}
	fam := family(ver)
	var fv []int32
	for _, v := range versions {
		if family(v) == fam {
			fv = append(fv, v)
		}
	}
	j := 0
	for i, v := range fv {
		if v == ver {
			j = i
		}
	}
	for j > 0 && tbl.key(k.Name, fv[j-1]) == tbl.key(k.Name, fv[j]) {
		j--
	}
	if j == 0 {
		return fam + "-base"
	}
	return fam + strconv.Itoa(int(fv[j]))
}

type specRun struct {
	Versions []int32  `json:"versions"`
	Carried  []string `json:"carried"`
}
type specFile struct {
	Note     string               `json:"note"`
	Versions []int32              `json:"versions"`
	Types    map[string][]specRun `json:"types"`
}

func specPath() string { return filepath.Join(vlib.VerifRoot(), "spec", "udp_gates.json") }

func loadSpec() layoutTable {
	b, err := os.ReadFile(specPath())
	if err != nil {
		return nil
	}
	var sf specFile
	if json.Unmarshal(b, &sf) != nil {
		return nil
	}
	t := layoutTable{}
	for name, runs := range sf.Types {
		t[name] = map[int32][]string{}
		for _, run := range runs {
			c := append([]string{}, run.Carried...)
			sort.Strings(c)
			for _, v := range run.Versions {
				t[name][v] = c
			}
		}
	}
	return t
}

func writeSpec(t layoutTable) error {
	sf := specFile{
		Note: "carried fields per UDP pack type and version, measured on the pinned tree by cmd/wC07 (VERIF_WRITE_SPEC=1): " +
			"a field is carried iff changing only that field changes the bytes Write produces. Field order is the struct order.",
		Versions: versions, Types: map[string][]specRun{}}
	for _, k := range kinds {
		var runs []specRun
		for _, v := range versions {
			names := orderLike(k, t[k.Name][v])
			if n := len(runs); n > 0 && strings.Join(runs[n-1].Carried, ",") == strings.Join(names, ",") {
				runs[n-1].Versions = append(runs[n-1].Versions, v)
				continue
			}
			runs = append(runs, specRun{Versions: []int32{v}, Carried: names})
		}
		sf.Types[k.Name] = runs
	}
	b, err := json.MarshalIndent(&sf, "", " ")
	if err != nil {
		return err
	}
	return os.WriteFile(specPath(), append(b, '\n'), 0o644)
}

func orderLike(k *packKind, set []string) []string {
	in := map[string]bool{}
	for _, s := range set {
		in[s] = true
	}
	out := []string{}
	for _, f := range k.Fields {
		if in[f.Name] {
			out = append(out, f.Name)
		}
	}
	return out
}

// ---- writing, measuring ----------------------------------------------------------------------

func writeBytes(p udp.UdpPack) (b []byte, panicked interface{}) {
	panicked = vlib.Catch(func() {
		out := io.NewDataOutputX()
		p.Write(out)
		b = out.ToByteArray()
	})
	return
}

// measureCarried: for every data field, write copies of the pack that differ from it in
// that field only; the field is carried iff some copy writes different bytes.
func (k *packKind) measureCarried(exp udp.UdpPack, base []byte) (carried map[string]bool, writes int64) {
	carried = map[string]bool{}
	e := elemOf(exp)
	for i := range k.Fields {
		fi := &k.Fields[i]
		for _, alt := range alternates(e.FieldByIndex(fi.Index)) {
			cp := k.copyPack(exp)
			elemOf(cp).FieldByIndex(fi.Index).Set(alt)
			b, pn := writeBytes(cp)
			writes++
			if pn != nil || !bytes.Equal(b, base) {
				carried[fi.Name] = true
				break
			}
		}
	}
	return
}

func sortedSet(m map[string]bool) []string {
	out := make([]string, 0, len(m))
	for s := range m {
		out = append(out, s)
	}
	sort.Strings(out)
	return out
}

func measureLayout() layoutTable {
	t := layoutTable{}
	r := vlib.NewRand(0xC07C07C07)
	for _, k := range kinds {
		t[k.Name] = map[int32][]string{}
		for _, v := range versions {
			union := map[string]bool{}
			for rep := 0; rep < 3; rep++ {
				p := k.New(v)
				k.fillAll(r, p)
				exp := k.copyPack(p)
				b, _ := writeBytes(p)
				c, _ := k.measureCarried(exp, b)
				for n := range c {
					union[n] = true
				}
			}
			t[k.Name][v] = sortedSet(union)
		}
	}
	return t
}

// ---- documented caps and the two transport conventions ---------------------------------------

// Write-side length caps (bytes) that the expectation honours: the transaction-start
// fields (HTTP_HOST/URI/IP/UA/REF/METHOD_MAX_SIZE) and the message pack's title and
// description (HTTP_URI_MAX_SIZE, PACKET_MESSAGE_MAX_SIZE). Literal numbers on purpose:
// they are the documented values, not whatever the tree under test currently says.
var caps = map[string]int{
	"UdpTxStartPack.Host": 2048, "UdpTxStartPack.Uri": 2048, "UdpTxStartPack.Ipaddr": 256,
	"UdpTxStartPack.UAgent": 2048, "UdpTxStartPack.Ref": 2048, "UdpTxStartPack.WClientId": 2048,
	"UdpTxStartPack.HttpMethod": 256,
	"UdpTxMessagePack.Hash":     2048, "UdpTxMessagePack.Desc": 32768,
}

var canary = []byte{0xEE, 0xEE, 0xC7, 0x07, 0xEE, 0xEE, 0xA5, 0x5A, 0xEE, 0xEE, 0xC7, 0x07, 0xEE, 0xEE, 0xA5, 0x5A}

func joinInt16(a []int16) string {
	s := make([]string, len(a))
	for i, v := range a {
		s[i] = strconv.FormatInt(int64(v), 10)
	}
	return strings.Join(s, ",")
}

// ---- monitor 1: agreement -------------------------------------------------------------------------

func agreeOne(c *vlib.Ctx, k *packKind, ver int32, r *vlib.Rand, fill int) {
	class := classOf(k, ver)
	src := k.New(ver)
	k.fillAll(r, src)
	exp := k.copyPack(src) // snapshot: Write may rewrite derived fields of src
	B, pw := writeBytes(src)
	detail := func(extra map[string]interface{}) map[string]interface{} {
		m := map[string]interface{}{"type": k.Name, "version": ver, "class": class, "fill": fill,
			"written_pack": k.dump(exp), "written_bytes": vlib.Hex(B), "written_len": len(B)}
		for a, b := range extra {
			m[a] = b
		}
		return m
	}
	if pw != nil {
		c.Fail(k.Name+".Write:panic@"+class, fmt.Sprintf("%s.Write panicked at version %d: %v", k.Name, ver, pw), detail(nil))
		return
	}
	carried, writes := k.measureCarried(exp, B)
	c.Count("fields_sensitivity_checked", int64(len(k.Fields)))
	c.Count("sensitivity_writes", writes)
	c.DistinctBytes(append([]byte(fmt.Sprintf("%s@%d:", k.Name, ver)), B...))

	// committed layout: a field the pinned version carried must still be carried
	if specLayout != nil {
		if want, ok := specLayout[k.Name][ver]; ok {
			c.Count("spec_comparisons", 1)
			for _, n := range want {
				if !carried[n] {
					c.Fail(fmt.Sprintf("%s.%s:no-longer-carried@%d", k.Name, n, ver),
						fmt.Sprintf("%s.%s is carried at version %d in spec/udp_gates.json but changing it no longer changes the written bytes", k.Name, n, ver),
						detail(map[string]interface{}{"spec_carried": want, "measured_carried": sortedSet(carried)}))
				}
			}
			in := map[string]bool{}
			for _, n := range want {
				in[n] = true
			}
			for n := range carried {
				if !in[n] {
					c.Count("spec_extra_carried", 1)
					c.SetAdd("spec_extra_carried_fields", fmt.Sprintf("%s.%s@%d", k.Name, n, ver))
				}
			}
		}
	}

	// read into a FRESH pack of the same type and version, with a canary behind the body
	dst := k.New(ver)
	dstE, expE := elemOf(dst), elemOf(exp)
	if k.Name == "UdpRelayPack" {
		// the relay body has no length of its own: the datagram envelope supplies it
		dstE.FieldByName("Len").SetInt(int64(len(B)))
	}
	buf := append(append(make([]byte, 0, len(B)+len(canary)), B...), canary...)
	in := io.NewDataInputX(buf)
	pr := vlib.Catch(func() { dst.Read(in) })
	c.Count("reads", 1)
	consumed := false
	if pr != nil {
		c.Fail(k.Name+":not-consumed@"+class,
			fmt.Sprintf("%s.Read at version %d panicked on the bytes Write produced at the same version (reader wants more than was written): %v", k.Name, ver, pr),
			detail(map[string]interface{}{"read_panic": fmt.Sprint(pr), "measured_carried": sortedSet(carried)}))
	} else if av := in.Available(); int(av) != len(canary) {
		c.Fail(k.Name+":not-consumed@"+class,
			fmt.Sprintf("%s at version %d: writer produced %d bytes, reader consumed %d", k.Name, ver, len(B), len(buf)-int(av)),
			detail(map[string]interface{}{"consumed": len(buf) - int(av), "measured_carried": sortedSet(carried), "read_pack": k.dump(dst)}))
	} else {
		var tail []byte
		pt := vlib.Catch(func() { tail = in.ReadBytes(int32(len(canary))) })
		if pt != nil || !bytes.Equal(tail, canary) {
			c.Fail(k.Name+":not-consumed@"+class,
				fmt.Sprintf("%s at version %d: the bytes left after Read are not the canary", k.Name, ver),
				detail(map[string]interface{}{"tail": vlib.Hex(tail)}))
		} else {
			consumed = true
			c.Count("bytes_consumed_exactly", 1)
		}
	}
	if !consumed {
		return // fields behind a misaligned read are noise
	}

	var nCarried, nBlank int64
	for i := range k.Fields {
		fi := &k.Fields[i]
		full := k.Name + "." + fi.Name
		got := dstE.FieldByIndex(fi.Index)
		orig := expE.FieldByIndex(fi.Index)
		switch full {
		case "UdpRelayPack.Len":
			continue // set by the harness in place of the envelope
		case "UdpActiveStatsPack.Data":
			// Write recomputes Data from ActiveStats; Data is the wire image
			want := joinInt16(expE.FieldByName("ActiveStats").Interface().([]int16))
			if got.String() != want {
				c.Fail(full+":not-restored@"+class, fmt.Sprintf("%s at version %d: read %s, the counters written were %s", full, ver, short(got.String()), short(want)),
					detail(map[string]interface{}{"read_pack": k.dump(dst)}))
			}
			nCarried++
			continue
		case "UdpActiveStatsPack.ActiveStats":
			if carried[fi.Name] {
				// restored from Data by Process (five counters)
				if pp := vlib.Catch(func() { dst.Process() }); pp != nil {
					c.Fail(full+":not-restored@"+class, fmt.Sprintf("%s.Process panicked: %v", k.Name, pp), detail(nil))
					continue
				}
				got = dstE.FieldByIndex(fi.Index)
			}
		}
		if carried[fi.Name] {
			nCarried++
			want := orig
			if cp, ok := caps[full]; ok && orig.Kind() == reflect.String && len(orig.String()) > cp {
				want = reflect.ValueOf(orig.String()[:cp])
				c.Count("caps_applied", 1)
			}
			if !eqVal(got, want, 0) {
				c.Fail(full+":not-restored@"+class,
					fmt.Sprintf("%s is carried at version %d (changing it changes the written bytes) but Read restored %s where %s was written", full, ver, render(got), render(want)),
					detail(map[string]interface{}{"field": fi.Name, "written": render(want), "read": render(got), "read_pack": k.dump(dst), "measured_carried": sortedSet(carried)}))
			}
		} else {
			nBlank++
			if !k.isBlank(fi, got) {
				c.Fail(full+":not-zero@"+class,
					fmt.Sprintf("%s is not carried at version %d (the written bytes do not depend on it) but Read left %s in it", full, ver, render(got)),
					detail(map[string]interface{}{"field": fi.Name, "read": render(got), "read_pack": k.dump(dst), "measured_carried": sortedSet(carried)}))
			}
		}
	}
	c.Count("carried_fields_checked", nCarried)
	c.Count("noncarried_fields_checked", nBlank)
	c.SetAdd("layout_classes_covered", k.Name+"@"+class)
	if fill == 0 && c.WantSample() && len(B) < 400 && (k.Name == "UdpTxEndPack" || k.Name == "UdpTxSqlPack") {
		c.Sample(map[string]interface{}{"kind": "agreement", "type": k.Name, "version": ver, "class": class,
			"carried": orderLike(k, sortedSet(carried)), "bytes": vlib.Hex(B), "pack": k.dump(exp)})
	}
}

// ---- monitor 2: pool histories ---------------------------------------------------------------------

var wellFormed = map[string]func(r *vlib.Rand) string{
	"UdpActiveStackPack": func(r *vlib.Rand) string {
		return fmt.Sprintf("%s, %d, %s", r.Ident(), 1+r.Intn(1<<30), "at f()\nat g()")
	},
	"UdpActiveStatsPack": func(r *vlib.Rand) string {
		return fmt.Sprintf("%d,%d,%d,%d,%d", r.Intn(99), r.Intn(99), r.Intn(99), r.Intn(99), 1+r.Intn(99))
	},
	"UdpDBConPoolPack": func(r *vlib.Rand) string {
		return fmt.Sprintf("%d|jdbc:%s|%d|%d,%d|jdbc:%s|%d|%d", 1+r.Intn(9999), r.Ident(), 1+r.Intn(50), 1+r.Intn(50), 1+r.Intn(9999), r.Ident(), 1+r.Intn(50), 1+r.Intn(50))
	},
	"UdpConfigPack": func(r *vlib.Rand) string {
		s := ""
		for i, n := 0, r.Range(1, 5); i < n; i++ {
			s += r.Ident() + "=" + r.Ident() + "\n"
		}
		return s
	},
	"UdpTxParamPack": func(r *vlib.Rand) string { return r.Ident() + ", " + r.Ident() + ", " + r.Ident() },
}

func poolSection(c *vlib.Ctx) {
	var pooled []*packKind
	for _, k := range kinds {
		if k.Pooled {
			pooled = append(pooled, k)
		}
	}
	if c.Flavour != "plain" {
		c.Note("pool histories skipped: sync.Pool drops items at random under -race; this monitor runs in the plain flavour")
		return
	}
	// make sync.Pool reuse frequent: one P, no migration, no GC during a history
	runtime.LockOSThread()
	defer runtime.UnlockOSThread()
	defer runtime.GOMAXPROCS(runtime.GOMAXPROCS(1))
	defer debug.SetGCPercent(debug.SetGCPercent(-1))

	released := map[string]map[uintptr]udp.UdpPack{} // keeps released objects alive: an address identifies one object
	finfo := map[string]*failInfo{}
	for _, k := range pooled {
		released[k.Name] = map[uintptr]udp.UdpPack{}
		finfo[k.Name] = k.probeFailInfo()
		if !finfo[k.Name].readFailable && !finfo[k.Name].processFailable {
			c.SetAdd("failed_decode_types_without_failing_input", k.Name)
		}
		if finfo[k.Name].processFailable {
			c.SetAdd("failed_decode_types_whose_Process_can_fail", k.Name)
		}
		for _, rc := range finfo[k.Name].recipes {
			c.SetAdd("failed_decode_fields_whose_text_makes_Process_fail", k.Name+"."+k.Fields[rc.field].Name+"@"+rc.fam)
		}
	}
	objID := map[uintptr]int{}
	// what the previous use of a released object was: the version it was acquired at and how
	// it was filled (evidence only: which kinds of previous use the judged re-acquisitions had)
	type use struct {
		ver  int32
		mode string
	}
	lastUse := map[uintptr]use{}
	// failed decodes so far per type, and their number when an object was released: a failed
	// decode between an object's release and an acquisition (or an object this monitor never
	// released) puts a residue under the key …/after-failed-read
	failSeq := map[string]int{}
	relSeq := map[uintptr]int{}
	done := 0
	c.Cases("pool", c.N(len(pooled)*256, len(pooled)*8000), func(i int, r *vlib.Rand) {
		k := pooled[int(vlib.Mix(uint64(i))%uint64(len(pooled)))]
		rel := released[k.Name]
		fi := finfo[k.Name]
		var held []udp.UdpPack
		var ops []string
		sinceFail := 0 // 1: the last step was a failed decode, the next acquisition is the one right after it
		var lastFailed *failedDatagram
		failedDetail := func(m map[string]interface{}, suffix string) map[string]interface{} {
			if suffix != "" && lastFailed != nil {
				m["last_failed_datagram"] = fmt.Sprintf("%x", lastFailed.b)
				m["last_failed_decode"] = lastFailed.describe() + " panic: " + lastFailed.pn
			}
			return m
		}
		id := func(p udp.UdpPack) int {
			a := reflect.ValueOf(p).Pointer()
			if _, ok := objID[a]; !ok {
				objID[a] = len(objID) + 1
			}
			return objID[a]
		}
		closeOne := func(j int) {
			p := held[j]
			held = append(held[:j], held[j+1:]...)
			ops = append(ops, fmt.Sprintf("ClosePack(obj%d)", id(p)))
			udp.ClosePack(p)
			a := reflect.ValueOf(p).Pointer()
			rel[a] = p
			relSeq[a] = failSeq[k.Name]
			c.Count("pool_releases", 1)
		}
		// acquired: bookkeeping common to CreatePack and ReadPack; returns whether the object is
		// one this monitor released, and the key suffix a residue found in it gets
		acquired := func(p udp.UdpPack, ver int32, how string) (reused bool, suffix string) {
			addr := reflect.ValueOf(p).Pointer()
			_, reused = rel[addr]
			ops = append(ops, fmt.Sprintf("%s=obj%d reused=%v", how, id(p), reused))
			if failSeq[k.Name] > 0 && (!reused || failSeq[k.Name] > relSeq[addr]) {
				suffix = "/after-failed-read"
			}
			if sinceFail > 0 {
				c.Count("acquisitions_judged_right_after_a_failed_decode", 1)
				c.Count("acquisitions_judged_right_after_a_failed_decode_"+k.Name, 1)
				sinceFail = 0
			}
			if reused {
				delete(rel, addr)
				c.Count("pool_reuse_"+k.Name, 1)
				c.Count("pool_reuse_events", 1)
				if u, ok := lastUse[addr]; ok {
					c.Count("pool_reuse_after_fill_"+u.mode, 1)
					if u.mode != "none" && u.mode != "all" {
						c.Count("pool_reuse_after_partial_fill_"+k.Name, 1)
					}
					if u.ver != ver {
						c.Count("pool_reuse_at_other_version", 1)
					}
					if family(u.ver) != family(ver) {
						c.Count("pool_reuse_at_other_family", 1)
					}
					c.SetAdd("pool_version_transitions", family(u.ver)+">"+family(ver))
				}
			}
			return
		}
		create := func(ver int32) udp.UdpPack {
			p := udp.CreatePack(k.Code, ver)
			c.Count("pool_acquires", 1)
			_, suffix := acquired(p, ver, fmt.Sprintf("CreatePack(%d,%d)", k.Code, ver))
			// every acquisition is judged: a pack the pool hands out is blank whether this monitor
			// released it, something else did, or it is new
			e := elemOf(p)
			if p.GetVersion() != ver {
				c.Fail(k.Name+".Ver:pool-residue"+suffix, fmt.Sprintf("CreatePack(%d, %d) returned a pooled %s with version %d", k.Code, ver, k.Name, p.GetVersion()),
					failedDetail(map[string]interface{}{"type": k.Name, "history": ops}, suffix))
			}
			for fx := range k.Fields {
				f := &k.Fields[fx]
				got := e.FieldByIndex(f.Index)
				c.Count("pool_fields_compared", 1)
				if !k.isBlank(f, got) {
					what := fmt.Sprintf("%s re-acquired from the pool still holds %s = %s from its previous use (a new pack has %s)", k.Name, f.Name, render(got), render(k.fresh.FieldByIndex(f.Index)))
					if suffix != "" {
						what = fmt.Sprintf("%s acquired with CreatePack after a ReadPack/ToPack of the same type had failed holds %s = %s (a new pack has %s)", k.Name, f.Name, render(got), render(k.fresh.FieldByIndex(f.Index)))
					}
					c.Fail(k.Name+"."+f.Name+":pool-residue"+suffix, what,
						failedDetail(map[string]interface{}{"type": k.Name, "field": f.Name, "value": render(got), "fresh": render(k.fresh.FieldByIndex(f.Index)),
							"after_Clear_of_fresh": render(k.cleared.FieldByIndex(f.Index)), "history": ops, "pack": k.dump(p)}, suffix))
				}
			}
			lastUse[reflect.ValueOf(p).Pointer()] = use{ver, "none"}
			return p
		}
		// readGood: a valid datagram through ReadPack / ToPack — an acquisition whose fill is the
		// decode. The decoded pack must be what a fresh pack makes of the same bytes.
		readGood := func(ver int32) {
			b, mode := k.goodDatagram(r, ver)
			if b == nil {
				return
			}
			fa, st, _ := decodeFresh(k, ver, b)
			if st != "" {
				c.Count("pool_read_datagrams_not_decodable", 1)
				return
			}
			var p udp.UdpPack
			via := "ReadPack"
			if r.Bool() {
				via = "ToPack"
			}
			pn := vlib.Catch(func() {
				if via == "ToPack" {
					p = udp.ToPack(k.Code, ver, b)
				} else {
					p = udp.ReadPack(k.Code, ver, io.NewDataInputX(b))
				}
			})
			if pn != nil || p == nil {
				// a fresh pack decodes it: whatever made the pooled pack fail is not judged here
				c.Count("pool_read_failed_on_pooled_pack_only", 1)
				ops = append(ops, fmt.Sprintf("%s(%d,%d,%dB) panicked", via, k.Code, ver, len(b)))
				return
			}
			fb, _, _ := decodeFresh(k, ver, b)
			_, suffix := acquired(p, ver, fmt.Sprintf("%s(%d,%d,%s)", via, k.Code, ver, vlib.Hex(b)))
			c.Count("pool_acquires_by_read", 1)
			c.Count("pool_acquires_by_read_"+k.Name, 1)
			if p.GetVersion() != ver {
				c.Fail(k.Name+".Ver:pool-residue"+suffix, fmt.Sprintf("%s(%d, %d, …) returned a %s with version %d", via, k.Code, ver, k.Name, p.GetVersion()),
					map[string]interface{}{"type": k.Name, "history": ops})
			}
			cmp, skip := k.compareDecoded(p, fa, fb, func(f *fieldInfo, got, want reflect.Value) {
				c.Fail(k.Name+"."+f.Name+":pool-residue"+suffix,
					fmt.Sprintf("%s decoded by %s at version %d from a pooled pack holds %s = %s; a new pack decoding the same bytes holds %s", k.Name, via, ver, f.Name, render(got), render(want)),
					failedDetail(map[string]interface{}{"type": k.Name, "field": f.Name, "value": render(got), "fresh_decode": render(want), "version": ver,
						"datagram": fmt.Sprintf("%x", b), "history": ops, "pack": k.dump(p), "fresh_pack": k.dump(fa)}, suffix))
			})
			c.Count("pool_read_fields_compared", cmp)
			c.Count("pool_read_fields_not_deterministic", skip)
			lastUse[reflect.ValueOf(p).Pointer()] = use{ver, "read-" + mode}
			held = append(held, p)
		}
		// failedDecode: ToPack / ReadPack on a datagram that fails, under recover
		failedDecode := func() bool {
			fd := k.buildFailing(c, r, fi)
			if fd == nil {
				return false
			}
			var p udp.UdpPack
			via := "ReadPack"
			if r.Bool() {
				via = "ToPack"
			}
			pn := vlib.Catch(func() {
				if via == "ToPack" {
					p = udp.ToPack(k.Code, fd.dv, fd.b)
				} else {
					p = udp.ReadPack(k.Code, fd.dv, io.NewDataInputX(fd.b))
				}
			})
			if pn == nil && p != nil {
				// decoded by the pooled pack although a fresh one fails on it: not judged; the
				// pack is an acquisition like any other and is released later
				c.Count("failed_decode_succeeded_on_pooled_pack", 1)
				acquired(p, fd.dv, fmt.Sprintf("%s(%d,%d,%s)", via, k.Code, fd.dv, vlib.Hex(fd.b)))
				lastUse[reflect.ValueOf(p).Pointer()] = use{fd.dv, "read-all"}
				held = append(held, p)
				return false
			}
			failSeq[k.Name]++
			sinceFail = 1
			lastFailed = fd
			ops = append(ops, fmt.Sprintf("%s(%d,%d,%s) FAILED [%s]", via, k.Code, fd.dv, vlib.Hex(fd.b), fd.describe()))
			countFailed(c, k, fd, "")
			c.Count("failed_decodes_via_"+via, 1)
			// what follows: CreatePack at several versions and / or a valid datagram at a version
			// carrying fewer fields
			x := r.Intn(3)
			if x != 1 {
				for n := r.Range(1, 3); n > 0 && len(held) < 8; n-- {
					ver := versions[r.Intn(len(versions))]
					p := create(ver)
					c.Count("failed_decode_followed_by_CreatePack", 1)
					held = append(held, p)
				}
			}
			if x != 0 {
				ver, fewer := fi.fewerVersion(r, fd.dv)
				if fewer {
					c.Count("failed_decode_followed_by_read_at_version_with_fewer_fields", 1)
					c.Count("failed_decode_followed_by_read_at_version_with_fewer_fields_"+k.Name, 1)
				} else {
					c.Count("failed_decode_followed_by_read_at_any_version", 1)
				}
				readGood(ver)
			}
			return true
		}
		steps := r.Range(30, 80)
		for s := 0; s < steps; s++ {
			if len(held) > 0 && (len(held) >= 6 || r.Intn(100) < 55) {
				closeOne(r.Intn(len(held)))
				continue
			}
			switch y := r.Intn(100); {
			case y < 16:
				if failedDecode() {
					continue
				}
			case y < 24:
				readGood(versions[r.Intn(len(versions))])
				continue
			}
			ver := versions[r.Intn(len(versions))]
			p := create(ver)
			addr := reflect.ValueOf(p).Pointer()
			if r.Intn(10) != 0 {
				mode, mask, names := k.fillPlan(r)
				k.fillResidue(r, p, mask)
				lastUse[addr] = use{ver, mode}
				if mode == "all" {
					ops = append(ops, fmt.Sprintf("fill-all(obj%d)", id(p)))
				} else {
					ops = append(ops, fmt.Sprintf("fill(obj%d: %s)", id(p), strings.Join(names, ",")))
				}
				c.Count("pool_fills", 1)
				c.Count("pool_fills_"+mode, 1)
				c.Count("pool_fields_filled", int64(len(names)))
				c.Count("pool_fields_left_unfilled", int64(len(k.Fields)-len(names)))
				if mode == "single" {
					c.SetAdd("pool_single_field_fills", k.Name+"."+names[0])
				}
				if r.Intn(3) == 0 {
					if wf := wellFormed[k.Name]; wf != nil {
						elemOf(p).FieldByName("Data").SetString(wf(r))
					}
					if pp := vlib.Catch(func() { p.Process() }); pp == nil {
						ops = append(ops, fmt.Sprintf("Process(obj%d)", id(p)))
						c.Count("pool_process_calls", 1)
					}
				}
			}
			held = append(held, p)
		}
		for len(held) > 0 {
			closeOne(len(held) - 1)
		}
		c.Count("pool_histories", 1)
		c.SetAdd("pool_types_covered", k.Name)
		c.DistinctStr(fmt.Sprintf("pool/%s/%d/%s", k.Name, i, strings.Join(ops, ";")))
		if i < 2 && c.WantSample() {
			n := len(ops)
			if n > 14 {
				n = 14
			}
			c.Sample(map[string]interface{}{"kind": "pool-history", "type": k.Name, "first_ops": ops[:n], "ops": len(ops)})
		}
		done++
		if done%64 == 0 {
			runtime.GC() // bounded memory; pooled objects survive one cycle in the victim cache
		}
	})
	if c.Only == "" {
		min := int64((400 + c.NShards - 1) / c.NShards)
		for _, k := range pooled {
			c.Floor("pool_reuse_"+k.Name, min, c.Counter("pool_reuse_"+k.Name))
			// re-acquisitions whose previous use had populated only SOME of the fields
			c.Floor("pool_reuse_after_partial_fill_"+k.Name, min, c.Counter("pool_reuse_after_partial_fill_"+k.Name))
		}
		c.Floor("pool_reuse_at_other_version", min, c.Counter("pool_reuse_at_other_version"))
		poolFailFloors(c, pooled, finfo)
	}
}

// ---- monitor 3: password masking -------------------------------------------------------------------

var (
	plainKeys   = []string{"host", "user", "dbname", "port", "sslmode", "server", "database", "uid", "connect_timeout", "application_name", "charset", "x"}
	spacedKeys  = []string{"user id", "Data Source", "Initial Catalog", "Application Name"}
	nearMiss    = []string{"xpassword", "passwordx", "pass", "pwd", "password2", "my_password", "password_file", "passwor", "assword", "pass word"}
	caseVariant = []string{"Password", "PASSWORD", "PassWord", "pASSWORD"}
	pwdVersions = []int32{50001, 50099, 50100, 50101, 50102, 60000, math.MaxInt32, // Go
		math.MinInt32, 0, 9999, 10000, 10100, 10101, 10104, 10105, 10109, 10110, 10111, 20000} // PHP
	sepClasses = []string{"space", "semicolon", "semicolon-space", "mixed"}
)

// connection strings of the password-long section per tier
const (
	pwdLongQuick    = 16 * 16 * 3 * 16
	pwdLongThorough = 16 * 16 * 3 * 400
)

const alnum = "ABCDEFGHIJKLMNOPQRSTUVWXYZabcdefghijklmnopqrstuvwxyz0123456789"

func core(r *vlib.Rand, tag string) string {
	b := make([]byte, 12)
	for i := range b {
		b[i] = alnum[r.Intn(len(alnum))]
	}
	return "Pw" + tag + "z" + string(b) + "Q"
}

// marker is the unique core of one password value. Blanks says that the token is not the
// strict form password=VALUE: it has blanks next to '=' ("password = v", legal in the
// semicolon grammar and trimmed by ToPair) or inside the value.
type marker struct {
	Core   string
	Blanks bool
}

type connString struct {
	Text     string
	Class    string
	Exact    []marker // marker cores under the exact key "password"
	KeyCase  []string // marker cores under a case variant of the key (observed, not judged)
	Near     []string // values under near-miss keys (not passwords)
	Tokens   []string
	HasEqVal bool
	Beyond31 int // password tokens with 32 or more tokens in front of them
}

// connShape says how many tokens a connection string has and where its password tokens are.
type connShape struct {
	before, after int  // tokens before / after the designated password token
	first, last   bool // further password tokens in the first / last position
	extraDen      int  // every other token is a password token with chance 1/extraDen (0: never)
	long          string
	longLen       int
}

// tokenClasses: numbers of tokens before and after the designated password token (around the
// powers of two a bounded split, a fixed array or a length byte would use)
var tokenClasses = []int{0, 1, 2, 15, 16, 17, 31, 32, 33, 63, 64, 65, 127, 128, 129, 200}

// longModes: where a long text sits ("" = nowhere): in the value / the key of an ordinary
// token, behind / in front of the marker in the designated password value, or spread over
// every token. pwdLongLens are capped by what the 16-bit length of the field leaves.
var (
	pwdLongModes = []string{"value", "key", "pwd-tail", "pwd-head", "all-medium"}
	pwdLongLens  = []int{255, 256, 1024, 4096, 32767, 32768, 65535}
)

// maxTokenBytes bounds a token without long text plus its joint: key <= 16, blanks around
// '=' <= 3, a decorated marker value <= ~60.
const maxTokenBytes = 96

func smallShape(r *vlib.Rand) connShape {
	n := r.Range(1, 8)
	at := r.Intn(n)
	return connShape{before: at, after: n - 1 - at, extraDen: 12}
}

func buildConn(r *vlib.Rand, tag string, sh connShape) connString {
	cs := connString{Class: sepClasses[r.Intn(len(sepClasses))]}
	semi := cs.Class != "space" && cs.Class != "mixed"
	// characters a value may contain besides letters: '=' always; the OTHER grammar's
	// separator only where this grammar allows it
	extra := []string{"=", "==", "=b", "'", "\"", "@", ":", "/", "%", "#"}
	switch cs.Class {
	case "space":
		extra = append(extra, ";", ";;")
	case "semicolon", "semicolon-space":
		extra = append(extra, " ", "  ")
	}
	decorate := func(v string) string {
		switch r.Intn(8) {
		case 0:
			cs.HasEqVal = true
			x := extra[r.Intn(len(extra))]
			switch r.Intn(3) {
			case 0:
				return v + x + r.Ident()
			case 1:
				return r.Ident() + x + v
			default:
				return v + x
			}
		case 1:
			return "'" + v + "'"
		}
		return v
	}
	n := sh.before + 1 + sh.after
	pwAt := sh.before
	// what the 16-bit length of the Dbc field leaves for long text
	budget := 65535 - n*maxTokenBytes - 16
	longLen := sh.longLen
	if longLen > budget {
		longLen = budget
	}
	if longLen < 0 {
		longLen = 0
	}
	fill := func(m int) string {
		b := make([]byte, m)
		for i := range b {
			b[i] = alnum[r.Intn(len(alnum))]
		}
		return string(b)
	}
	type tok struct {
		key, eq, val string
		pw           bool
	}
	toks := make([]tok, 0, n)
	var used []string
	for i := 0; i < n; i++ {
		var key, val string
		exact, plain := -1, false
		isPw := i == pwAt || (sh.first && i == 0) || (sh.last && i == n-1) || (sh.extraDen > 0 && r.Intn(sh.extraDen) == 0)
		switch x := 1 + r.Intn(11); {
		case isPw:
			key = "password"
			m := core(r, tag+"t"+strconv.Itoa(i))
			val = decorate(m)
			if i == pwAt && longLen > 0 {
				switch sh.long {
				case "pwd-tail":
					val += fill(longLen)
				case "pwd-head":
					val = fill(longLen) + val
				}
			}
			cs.Exact = append(cs.Exact, marker{m, strings.ContainsAny(val, " \t")})
			exact = len(cs.Exact) - 1
			if i >= 32 {
				cs.Beyond31++
			}
		case x == 1:
			key = caseVariant[r.Intn(len(caseVariant))]
			m := core(r, tag+"c"+strconv.Itoa(i))
			cs.KeyCase = append(cs.KeyCase, m)
			val = decorate(m)
		case x <= 3:
			key = nearMiss[r.Intn(len(nearMiss))]
			if strings.Contains(key, " ") && !semi {
				key = "xpassword"
			}
			val = "nm" + r.Ident()
			cs.Near = append(cs.Near, val)
		case x == 4 && semi:
			key, plain = spacedKeys[r.Intn(len(spacedKeys))], true
			val = decorate(r.Ident())
		case x == 5:
			key, plain = plainKeys[r.Intn(len(plainKeys))], true
			val = "" // empty value
		default:
			key, plain = plainKeys[r.Intn(len(plainKeys))], true
			val = decorate(r.Ident())
		}
		if plain {
			// duplicates: re-use a key that already occurred
			if len(used) > 0 && r.Intn(3) == 0 {
				key = used[r.Intn(len(used))]
			}
			if len(used) < 64 {
				used = append(used, key)
			}
		}
		eq := "="
		if semi && r.Intn(4) == 0 {
			eq = []string{" = ", "= ", " =", "\t="}[r.Intn(4)]
			if exact >= 0 {
				cs.Exact[exact].Blanks = true
			}
		}
		toks = append(toks, tok{key, eq, val, isPw})
	}
	// long text in ordinary tokens (a password token keeps its key, and its value was made above)
	if longLen > 0 {
		var ord []int
		for i, t := range toks {
			if !t.pw {
				ord = append(ord, i)
			}
		}
		switch sh.long {
		case "value":
			if len(ord) > 0 {
				toks[ord[r.Intn(len(ord))]].val += fill(longLen)
			}
		case "key":
			if len(ord) > 0 {
				j := ord[r.Intn(len(ord))]
				toks[j].key = fill(longLen) + toks[j].key
			}
		case "all-medium":
			m := longLen / n
			if m > 300 {
				m = 300
			}
			for _, j := range ord {
				toks[j].val += fill(r.Range(0, m))
			}
		}
	}
	for _, t := range toks {
		cs.Tokens = append(cs.Tokens, t.key+t.eq+t.val)
	}
	var sb strings.Builder
	joint := func() string {
		switch cs.Class {
		case "space":
			if r.Intn(10) == 0 {
				return "  "
			}
			return " "
		case "semicolon":
			return ";"
		case "semicolon-space":
			return "; "
		}
		return []string{" ", ";", "; ", " ;"}[r.Intn(4)]
	}
	if r.Intn(12) == 0 {
		sb.WriteString(joint())
	}
	for i, t := range cs.Tokens {
		if i > 0 {
			sb.WriteString(joint())
		}
		sb.WriteString(t)
	}
	if r.Intn(6) == 0 {
		sb.WriteString(joint())
	}
	cs.Text = sb.String()
	return cs
}

func pwdOne(c *vlib.Ctx, k *packKind, ver int32, r *vlib.Rand, tag string, sh connShape, long bool) {
	cs := buildConn(r, tag, sh)
	if len(cs.Text) > 65535 {
		c.Count("pwd_strings_over_the_field_limit_skipped", 1)
		return
	}
	mk := func() udp.UdpPack {
		p := k.New(ver)
		e := elemOf(p)
		for i := range k.Fields {
			f := &k.Fields[i]
			if f.Type.Kind() == reflect.String {
				e.FieldByIndex(f.Index).SetString("f-" + r.Ident())
			}
		}
		e.FieldByName("Dbc").SetString(cs.Text)
		return p
	}
	check := func(path string, p udp.UdpPack) {
		scanStrings(elemOf(p), "", 0, func(where, s string) {
			for _, mk := range cs.Exact {
				m := mk.Core
				if strings.Contains(s, m) {
					class := cs.Class
					if mk.Blanks {
						class += "+blanks"
					}
					c.Fail(k.Name+":password-leak/"+class,
						fmt.Sprintf("%s (version %d, %s): the value of a password key of the connection string is still in %s after Process()", k.Name, ver, path, where),
						map[string]interface{}{"type": k.Name, "version": ver, "path": path, "separator_class": class, "connection_string": cs.Text,
							"tokens": cs.Tokens, "marker": m, "found_in": where, "field_after": s, "pack_after": k.dump(p)})
				}
			}
			for _, m := range cs.KeyCase {
				if strings.Contains(s, m) {
					c.Count("keycase_variant_values_left", 1)
				}
			}
		})
		c.Count("pwd_markers_checked", int64(len(cs.Exact)))
		for _, mk := range cs.Exact {
			if mk.Blanks {
				c.Count("pwd_markers_with_blanks", 1)
			}
		}
		c.Count("pwd_keycase_markers_seen", int64(len(cs.KeyCase)))
	}
	// (a) Process() on a pack holding the raw string
	p := mk()
	if pp := vlib.Catch(func() { p.Process() }); pp != nil {
		c.Fail(k.Name+".Process:panic", fmt.Sprintf("%s.Process panicked: %v", k.Name, pp), map[string]interface{}{"connection_string": cs.Text, "version": ver})
		return
	}
	check("Process", p)
	after := elemOf(p).FieldByName("Dbc").String()
	if after != cs.Text {
		c.Count("pwd_dbc_rewritten", 1)
	}
	// (b) the receive path: ToPack(type, version, ToBytesPack(pack)) = Read + Process
	var q udp.UdpPack
	if pp := vlib.Catch(func() { q = udp.ToPack(k.Code, ver, udp.ToBytesPack(mk())) }); pp != nil {
		c.Fail(k.Name+".ToPack:panic", fmt.Sprintf("ToPack(%s) panicked: %v", k.Name, pp), map[string]interface{}{"connection_string": cs.Text, "version": ver})
		return
	}
	check("ToPack", q)
	c.Count("pwd_cases", 1)
	c.Count("pwd_class_"+cs.Class, 1)
	c.Count("pwd_family_"+family(ver), 1)
	c.Count("pwd_tokens", int64(len(cs.Tokens)))
	c.Count("pwd_password_tokens_behind_32_or_more_tokens", int64(cs.Beyond31))
	if len(cs.Exact) >= 2 {
		c.Count("pwd_cases_with_several_password_tokens", 1)
	}
	if long {
		c.Count("pwd_long_cases", 1)
		c.Count("pwd_long_class_"+cs.Class, 1)
		c.Count("pwd_long_markers_checked", 2*int64(len(cs.Exact)))
		c.Count("pwd_long_text_bytes", int64(len(cs.Text)))
		c.Max("max_pwd_tokens", int64(len(cs.Tokens)))
		c.Max("max_pwd_text_bytes", int64(len(cs.Text)))
		c.SetAdd("pwd_long_token_shapes_before_x_after", fmt.Sprintf("%d+1+%d", sh.before, sh.after))
		if sh.long != "" {
			c.Count("pwd_long_text_"+sh.long, 1)
			if len(cs.Text) >= 32768 {
				c.Count("pwd_long_strings_of_32KiB_or_more", 1)
			}
		}
		if sh.first {
			c.Count("pwd_long_password_token_first", 1)
		}
		if sh.last {
			c.Count("pwd_long_password_token_last", 1)
		}
	}
	c.DistinctStr("pwd/" + k.Name + "/" + strconv.Itoa(int(ver)) + "/" + cs.Text)
	pick := r.Intn(50) == 0 // drawn unconditionally: the case stream must not depend on what was sampled before
	if pick && c.WantSample() && len(cs.Tokens) >= 3 {
		c.Sample(map[string]interface{}{"kind": "password", "type": k.Name, "version": ver, "separator_class": cs.Class,
			"connection_string": cs.Text, "dbc_after_process": after})
	}
}

// ---- main --------------------------------------------------------------------------------------------

func main() {
	c := vlib.Start("C07")
	for _, k := range kinds {
		k.init()
		c.SetAdd("types_covered", k.Name)
	}
	if c.Flavour == "race" {
		// the race flavour exists for the concurrent pool monitor only (the other monitors
		// are single-goroutine: the race detector has nothing to see there)
		poolConcSection(c)
		heldSections(c)
		c.Finish()
		fmt.Println("done")
		return
	}

	nowLayout = measureLayout()
	if os.Getenv("VERIF_WRITE_SPEC") == "1" {
		if c.Shard == 0 {
			os.MkdirAll(filepath.Dir(specPath()), 0o755)
			if err := writeSpec(nowLayout); err != nil {
				c.Inconclusive("spec", "cannot write spec/udp_gates.json: "+err.Error())
			} else {
				c.Note("spec/udp_gates.json written from the tree under test (VERIF_WRITE_SPEC=1)")
			}
		}
		specLayout = nowLayout
	} else {
		specLayout = loadSpec()
		if specLayout == nil {
			c.Inconclusive("spec", "spec/udp_gates.json is missing or unreadable: removal of a field on both sides cannot be seen")
		}
	}

	// 1. agreement: one case per (type, version), `fills` random fills inside
	fills := c.N(40, 2000)
	nv := len(versions)
	c.Cases("agree", len(kinds)*nv, func(i int, r *vlib.Rand) {
		k, ver := kinds[i/nv], versions[i%nv]
		for f := 0; f < fills; f++ {
			agreeOne(c, k, ver, r, f)
		}
		c.Eval(int64(fills - 1))
		c.Count("agree_type_version_pairs", 1)
		c.Count("agree_fills", int64(fills))
		c.SetAdd("versions_covered", strconv.Itoa(int(ver)))
	})

	// 2. pool histories
	poolSection(c)
	poolConcSection(c)

	// 4. held results, multi-object histories (held.go)
	heldSections(c)

	// 3. password masking
	var sqlKinds []*packKind
	for _, n := range []string{"UdpTxSqlPack", "UdpTxSqlParamPack", "UdpTxDbcPack"} {
		sqlKinds = append(sqlKinds, kindByName(n))
	}
	const perCase = 100
	c.Cases("password", c.N(400000, 8000000)/perCase, func(i int, r *vlib.Rand) {
		for j := 0; j < perCase; j++ {
			n := i*perCase + j
			k := sqlKinds[n%len(sqlKinds)]
			ver := pwdVersions[(n/len(sqlKinds))%len(pwdVersions)]
			pwdOne(c, k, ver, r, strconv.Itoa(n), smallShape(r), false)
		}
		c.Eval(perCase - 1)
	})
	// 3b. the same oracle on connection strings of up to 401 tokens: every pair of token-count
	// classes (before x after the designated password token) in turn, the type, version,
	// separator class, further password tokens and long texts drawn
	nc := len(tokenClasses)
	const perLong = 8
	c.Cases("password-long", c.N(pwdLongQuick, pwdLongThorough)/perLong, func(i int, r *vlib.Rand) {
		for j := 0; j < perLong; j++ {
			n := i*perLong + j
			sh := connShape{before: tokenClasses[n%nc], after: tokenClasses[(n/nc)%nc]}
			k := sqlKinds[(n/(nc*nc))%len(sqlKinds)]
			ver := pwdVersions[r.Intn(len(pwdVersions))]
			sh.first, sh.last = r.Intn(4) == 0, r.Intn(4) == 0
			sh.extraDen = []int{0, 0, 12, 40}[r.Intn(4)]
			if r.Intn(3) == 0 {
				sh.long = pwdLongModes[r.Intn(len(pwdLongModes))]
				sh.longLen = pwdLongLens[r.Intn(len(pwdLongLens))]
			}
			pwdOne(c, k, ver, r, "L"+strconv.Itoa(n), sh, true)
		}
		c.Eval(perLong - 1)
	})

	if c.Only == "" {
		c.Floor("agree_fills", int64(len(kinds)*nv*fills/10/c.NShards), c.Counter("agree_fills"))
		c.Floor("carried_fields_checked", int64(len(kinds)*nv*fills/2/c.NShards), c.Counter("carried_fields_checked"))
		c.Floor("pwd_markers_checked", int64(c.N(400000, 8000000)/10/c.NShards), c.Counter("pwd_markers_checked"))
		nl := int64(c.N(pwdLongQuick, pwdLongThorough) / c.NShards)
		c.Floor("pwd_long_cases", nl/10, c.Counter("pwd_long_cases"))
		c.Floor("pwd_long_markers_checked", nl/2, c.Counter("pwd_long_markers_checked"))
		c.Floor("pwd_password_tokens_behind_32_or_more_tokens", nl/4, c.Counter("pwd_password_tokens_behind_32_or_more_tokens"))
		c.Floor("pwd_cases_with_several_password_tokens", nl/4, c.Counter("pwd_cases_with_several_password_tokens"))
		c.Floor("pwd_long_strings_of_32KiB_or_more", nl/100, c.Counter("pwd_long_strings_of_32KiB_or_more"))
		if os.Getenv("VERIF_WRITE_SPEC") != "1" {
			c.Floor("spec_comparisons", int64(len(kinds)*nv*fills/10/c.NShards), c.Counter("spec_comparisons"))
		}
	}
	c.Finish()
	fmt.Println("done")
}
