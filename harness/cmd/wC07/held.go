package main

// Monitor 4 — held results and multi-object histories (sections held, held-parallel).
//
// "Reading what was written restores every field" is a statement about the bytes the writer
// handed out, whenever the caller gets round to reading them. A round trip that decodes each
// result right after its own encode cannot see an encoder that returns a slice of storage it
// uses again (a pooled or package-level output), nor a decoder that hands out objects sharing
// state with later decodes or with the caller's input buffer: the result is right when it is
// returned and changes LATER. So, per case:
//
//	prologue   2…6 objects of drawn types / versions / sizes (the section's type, the same object
//	           with a few leaves flipped = same type, same size, other bytes; the same fields at
//	           another version; other types; a blank pack; a pack with a very long field). Each
//	           alone: the bytes its own Write gives into an output of the harness (private copy =
//	           the reference bytes) and what a never-pooled pack decodes from them (reference
//	           object).
//	encode     the objects are encoded in a drawn order, some twice, through every encoder entry
//	           of the package (udp.ToBytesPack; udp.WritePack into an output of the caller +
//	           ToByteArray). Every returned slice is HELD AS RETURNED next to a private copy and
//	           must equal the reference bytes at once (<Type>:bytes-differ/multi-object); after
//	           every later encode and decode of the case, and at its end, every held slice must
//	           still equal its copy:            udp.ToBytesPack:result-altered-later
//	decode     only then (in a third of the cases interleaved with the encodes) the held slices
//	           are decoded in a drawn order — udp.ToPack straight from the returned slice,
//	           udp.ReadPack from a private input with a canary behind it, or Read+Process of a
//	           new pack — and compared with the reference object; the reader must consume
//	           exactly the bytes:               <Type>:not-restored/after-later-encode
//	           Decoded packs stay live (not released) and their every field is fingerprinted;
//	           after every later decode and encode, after the private inputs and the returned
//	           slices (the caller owns them) have been overwritten, and at the end of the case
//	           the fingerprints must be unchanged:
//	                                            <Type>:decoded-object-altered-later
//	end        everything re-verified, the decoded pooled packs are released.
//
// held-parallel runs the same cases on 8 goroutines at once (each case touches only its own
// objects): storage shared between callers shows as an altered held result there too.

import (
	"bytes"
	"fmt"
	"reflect"
	"sort"
	"strconv"
	"strings"
	"unsafe"

	"github.com/whatap/golib/io"
	"github.com/whatap/golib/lang/pack/udp"

	"verif/vlib"
)

// ---- a slice kept as returned ------------------------------------------------------------------

type heldBlob struct {
	fn   string // the function the slice came from: the finding key prefix
	what string
	b    []byte // as returned by the library
	cp   []byte // private copy taken when it was returned
	born int    // index into ops of the operation that produced it
	dead bool   // already reported or overwritten by the caller: not looked at again
}

type ledger struct {
	c     *vlib.Ctx
	where string
	items []*heldBlob
	ops   []string // what the case did, in order (goes into the replay detail)
	cnt   map[string]int64
}

func newLedger(c *vlib.Ctx, where string) *ledger {
	return &ledger{c: c, where: where, cnt: map[string]int64{}}
}

func (l *ledger) opf(format string, a ...interface{}) {
	l.ops = append(l.ops, fmt.Sprintf(format, a...))
}

func (l *ledger) lastOp() string {
	if len(l.ops) == 0 {
		return ""
	}
	return l.ops[len(l.ops)-1]
}

// hold keeps b as returned by fn. Empty results have no bytes that could change.
func (l *ledger) hold(fn, what string, b []byte) *heldBlob {
	l.cnt["held_results"]++
	if len(b) == 0 {
		l.cnt["held_results_empty"]++
		return nil
	}
	h := &heldBlob{fn: fn, what: what, b: b, cp: append(make([]byte, 0, len(b)), b...), born: len(l.ops) - 1}
	l.items = append(l.items, h)
	return h
}

func hexShort(b []byte) string {
	if len(b) <= 4096 {
		return fmt.Sprintf("%x", b)
	}
	return fmt.Sprintf("%x…(%d bytes)", b[:4096], len(b))
}

// verify compares every live held slice with its copy. Called after every encode or decode
// that follows the hand-out, and at the end of the case.
func (l *ledger) verify() {
	n := int64(0)
	for _, it := range l.items {
		if it.dead {
			continue
		}
		n++
		if bytes.Equal(it.b, it.cp) {
			continue
		}
		it.dead = true
		born := ""
		if it.born >= 0 && it.born < len(l.ops) {
			born = l.ops[it.born]
		}
		d := firstDiff(it.b, it.cp)
		l.c.Fail(it.fn+":result-altered-later",
			fmt.Sprintf("%s: the %d bytes %s returned for %s (operation %d: %s) changed in place at offset %d after operation %d (%s); the caller still holds that slice",
				l.where, len(it.cp), it.fn, it.what, it.born, born, d, len(l.ops)-1, l.lastOp()),
			map[string]interface{}{"where": l.where, "function": it.fn, "result_of": it.what, "history": l.ops, "produced_by_operation": it.born,
				"altered_after_operation": len(l.ops) - 1, "first_difference_at": d, "as_returned": hexShort(it.cp), "now": hexShort(it.b)})
	}
	l.cnt["held_reverifications"] += n
	l.cnt["held_reverify_points"]++
}

// scribble overwrites every live held slice — its whole capacity: what follows the length was
// handed out with it — and stops watching them. The caller owns these slices, so nothing the
// library produces or has produced may depend on them.
func (l *ledger) scribble() {
	for k, it := range l.items {
		if it.dead {
			continue
		}
		it.dead = true
		full := it.b[:cap(it.b)]
		for i := range full {
			full[i] = byte(0xE1 + k + i*7)
		}
		l.cnt["held_results_overwritten_by_the_caller"]++
		l.cnt["held_bytes_overwritten_by_the_caller"] += int64(len(full))
	}
}

func (l *ledger) flush() {
	for k, v := range l.cnt {
		l.c.Count(k, v)
	}
	l.cnt = map[string]int64{}
}

// ---- fingerprints of live objects ----------------------------------------------------------------

// canon writes a canonical rendering of everything reachable from v: unexported fields
// included (through unsafe, where the value is addressable), maps in sorted order, pointers
// followed once (linked structures contain cycles).
func canon(v reflect.Value, sb *strings.Builder, depth int, seen map[uintptr]bool) {
	if depth > 12 {
		sb.WriteString("<deep>")
		return
	}
	switch v.Kind() {
	case reflect.Bool:
		sb.WriteString(strconv.FormatBool(v.Bool()))
	case reflect.Int, reflect.Int8, reflect.Int16, reflect.Int32, reflect.Int64:
		sb.WriteString(strconv.FormatInt(v.Int(), 10))
	case reflect.Uint, reflect.Uint8, reflect.Uint16, reflect.Uint32, reflect.Uint64, reflect.Uintptr:
		sb.WriteString(strconv.FormatUint(v.Uint(), 10))
	case reflect.Float32, reflect.Float64:
		sb.WriteString(strconv.FormatFloat(v.Float(), 'g', -1, 64))
	case reflect.String:
		s := v.String()
		sb.WriteString(strconv.Itoa(len(s)))
		sb.WriteByte(':')
		sb.WriteString(s)
	case reflect.Slice:
		if v.IsNil() {
			sb.WriteString("[]")
			return
		}
		if v.Type().Elem().Kind() == reflect.Uint8 {
			sb.WriteString("b")
			sb.WriteString(strconv.Itoa(v.Len()))
			sb.WriteByte(':')
			sb.Write(v.Bytes())
			return
		}
		sb.WriteByte('[')
		for i := 0; i < v.Len(); i++ {
			canon(v.Index(i), sb, depth+1, seen)
			sb.WriteByte(',')
		}
		sb.WriteByte(']')
	case reflect.Array:
		sb.WriteByte('[')
		for i := 0; i < v.Len(); i++ {
			canon(v.Index(i), sb, depth+1, seen)
			sb.WriteByte(',')
		}
		sb.WriteByte(']')
	case reflect.Map:
		if v.IsNil() {
			sb.WriteString("{}")
			return
		}
		var ents []string
		it := v.MapRange()
		for it.Next() {
			var e strings.Builder
			canon(it.Key(), &e, depth+1, seen)
			e.WriteString("=>")
			canon(it.Value(), &e, depth+1, seen)
			ents = append(ents, e.String())
		}
		sort.Strings(ents)
		sb.WriteByte('{')
		for _, e := range ents {
			sb.WriteString(e)
			sb.WriteByte(';')
		}
		sb.WriteByte('}')
	case reflect.Ptr:
		if v.IsNil() {
			sb.WriteString("nil")
			return
		}
		a := v.Pointer()
		if seen[a] {
			sb.WriteString("<seen>")
			return
		}
		seen[a] = true
		sb.WriteByte('&')
		canon(v.Elem(), sb, depth+1, seen)
	case reflect.Interface:
		if v.IsNil() {
			sb.WriteString("nil")
			return
		}
		sb.WriteString(v.Elem().Type().String())
		sb.WriteByte('(')
		canon(v.Elem(), sb, depth+1, seen)
		sb.WriteByte(')')
	case reflect.Struct:
		sb.WriteByte('<')
		for i := 0; i < v.NumField(); i++ {
			f := v.Field(i)
			if !f.CanInterface() {
				if !f.CanAddr() {
					continue
				}
				f = reflect.NewAt(f.Type(), unsafe.Pointer(f.UnsafeAddr())).Elem()
			}
			sb.WriteString(v.Type().Field(i).Name)
			sb.WriteByte('=')
			canon(f, sb, depth+1, seen)
			sb.WriteByte('|')
		}
		sb.WriteByte('>')
	default:
		sb.WriteString("?" + v.Kind().String())
	}
}

// fingerprint: one rendering per data field, the version first.
func (k *packKind) fingerprint(p udp.UdpPack) []string {
	e := elemOf(p)
	out := make([]string, 0, len(k.Fields)+1)
	out = append(out, strconv.Itoa(int(p.GetVersion())))
	for i := range k.Fields {
		var sb strings.Builder
		canon(e.FieldByIndex(k.Fields[i].Index), &sb, 0, map[uintptr]bool{})
		out = append(out, sb.String())
	}
	return out
}

// ---- the objects of a case --------------------------------------------------------------------------

type hobj struct {
	id   int
	k    *packKind
	ver  int32
	rel  string      // how it relates to the other objects of the case
	src  udp.UdpPack // the built object
	ref  []byte      // the bytes it gives alone (own output of the harness), private
	ra   udp.UdpPack // what a never-pooled pack decodes from ref, alone
	held []*heldBlob // the encoder results of the history, as returned
	via  []string

	dec     udp.UdpPack // decoded in the history; stays live
	decFP   []string
	decDead bool
	pooled  bool
}

func (o *hobj) name() string {
	return fmt.Sprintf("obj%d(%s@%d,%s,%dB)", o.id, o.k.Name, o.ver, o.rel, len(o.ref))
}

// freshDecode: Read + Process on a pack that never was in a pool (the relay body has no length
// of its own, the datagram envelope supplies it).
func freshDecode(k *packKind, ver int32, b []byte, extra int) (p udp.UdpPack, in *io.DataInputX, stage string, pn interface{}) {
	p = k.New(ver)
	if k.Name == "UdpRelayPack" {
		elemOf(p).FieldByName("Len").SetInt(int64(len(b) - extra))
	}
	in = io.NewDataInputX(b)
	if pn = vlib.Catch(func() { p.Read(in) }); pn != nil {
		return p, in, "read", pn
	}
	if pn = vlib.Catch(func() { p.Process() }); pn != nil {
		return p, in, "process", pn
	}
	return p, in, "", nil
}

var heldLongLens = []int{2047, 2048, 2049, 4096, 32767, 32768, 65535}

// newObj builds one object and its references; nil when the type cannot be written or decoded
// alone with this fill (not judged here: monitor 1 and C04 own that).
func (l *ledger) newObj(r *vlib.Rand, id int, k *packKind, ver int32, rel string, from *hobj) *hobj {
	o := &hobj{id: id, k: k, ver: ver, rel: rel}
	switch rel {
	case "same-size":
		// the same object with a few leaves flipped: same type, same version, same size
		o.src = k.copyPack(from.src)
		e := elemOf(o.src)
		flipped := 0
		for i := range k.Fields {
			fv := e.FieldByIndex(k.Fields[i].Index)
			if fv.Kind() != reflect.String || fv.Len() == 0 || r.Intn(2) == 0 {
				continue
			}
			s := []byte(fv.String())
			j := r.Intn(len(s))
			if s[j] >= 0x80 || s[j] < 0x20 {
				continue // keep the text's encoding class as it is
			}
			if wellFormed[k.Name] != nil && k.Fields[i].Name == "Data" {
				continue // the payload must stay well-formed
			}
			c := byte('Z')
			if s[j] == 'Z' {
				c = 'Y'
			}
			if strings.ContainsRune(" ;=,|\n", rune(s[j])) {
				continue
			}
			s[j] = c
			fv.SetString(string(s))
			flipped++
		}
		l.cnt["held_same_size_leaves_flipped"] += int64(flipped)
	case "other-version":
		o.src = k.copyPack(from.src)
		o.src.SetVersion(ver)
	case "blank":
		o.src = k.New(ver)
	default: // "first", "other-type", "large"
		o.src = k.New(ver)
		if r.Bool() {
			k.fillAll(r, o.src)
		} else {
			_, mask, _ := k.fillPlan(r)
			k.fillResidue(r, o.src, mask)
		}
		if wf := wellFormed[k.Name]; wf != nil {
			elemOf(o.src).FieldByName("Data").SetString(wf(r))
		}
		if rel == "large" {
			var cand []int
			for i := range k.Fields {
				if k.Fields[i].Type.Kind() == reflect.String && !(wellFormed[k.Name] != nil && k.Fields[i].Name == "Data") {
					cand = append(cand, i)
				}
			}
			if len(cand) > 0 {
				fi := &k.Fields[cand[r.Intn(len(cand))]]
				elemOf(o.src).FieldByIndex(fi.Index).SetString(r.AsciiN(heldLongLens[r.Intn(len(heldLongLens))]))
			}
		}
	}
	b, pw := writeBytes(k.copyPack(o.src))
	if pw != nil {
		l.cnt["held_objects_not_writable"]++
		return nil
	}
	o.ref = append(make([]byte, 0, len(b)), b...)
	ra, _, st, _ := freshDecode(k, ver, append([]byte{}, o.ref...), 0)
	if st != "" {
		l.cnt["held_objects_not_decodable_alone"]++
		return nil
	}
	o.ra = ra
	l.opf("build %s", o.name())
	return o
}

func neighbourVersion(r *vlib.Rand, ver int32) int32 {
	fam := family(ver)
	var fv []int32
	for _, v := range versions {
		if family(v) == fam && v != ver {
			fv = append(fv, v)
		}
	}
	if len(fv) == 0 || r.Intn(4) == 0 {
		return versions[r.Intn(len(versions))]
	}
	return fv[r.Intn(len(fv))]
}

// ---- one case ------------------------------------------------------------------------------------------

type heldCase struct {
	l    *ledger
	c    *vlib.Ctx
	r    *vlib.Rand
	objs []*hobj
	ins  [][]byte // private inputs handed to ReadPack (overwritten later)
}

func (h *heldCase) detail(o *hobj, extra map[string]interface{}) map[string]interface{} {
	m := map[string]interface{}{"where": h.l.where, "history": h.l.ops, "object": o.name(), "type": o.k.Name, "version": o.ver,
		"built_object": o.k.dump(o.src), "reference_bytes": hexShort(o.ref)}
	for a, b := range extra {
		m[a] = b
	}
	return m
}

// encode writes o through one of the package's encoder entries and holds the result.
func (h *heldCase) encode(o *hobj) {
	l := h.l
	fn := "udp.ToBytesPack"
	var raw []byte
	var pn interface{}
	if h.r.Intn(4) == 0 {
		fn = "udp.WritePack"
		pn = vlib.Catch(func() { raw = udp.WritePack(io.NewDataOutputX(), o.src).ToByteArray() })
	} else {
		pn = vlib.Catch(func() { raw = udp.ToBytesPack(o.src) })
	}
	l.opf("%s(%s) -> %d bytes", fn, o.name(), len(raw))
	if pn != nil {
		h.c.Fail(o.k.Name+":bytes-differ/multi-object", fmt.Sprintf("%s: %s panicked although the object's own Write does not: %v", l.where, l.lastOp(), pn), h.detail(o, nil))
		return
	}
	// sizes of this encode relative to the results still held (what a reused buffer would be
	// overwritten with: less, as much, more)
	for _, it := range l.items {
		if it.dead {
			continue
		}
		switch {
		case len(raw) < len(it.cp):
			l.cnt["held_later_encode_smaller_than_a_held_result"]++
		case len(raw) == len(it.cp):
			l.cnt["held_later_encode_of_equal_size_as_a_held_result"]++
		default:
			l.cnt["held_later_encode_larger_than_a_held_result"]++
		}
	}
	if !bytes.Equal(raw, o.ref) {
		h.c.Fail(o.k.Name+":bytes-differ/multi-object",
			fmt.Sprintf("%s: %s gives other bytes (first difference at %d) than the same object's Write gave alone", l.where, l.lastOp(), firstDiff(raw, o.ref)),
			h.detail(o, map[string]interface{}{"returned": hexShort(raw)}))
	}
	if hb := l.hold(fn, o.name(), raw); hb != nil {
		o.held = append(o.held, hb)
		o.via = append(o.via, fn)
	}
	l.cnt["held_encodes"]++
	l.cnt["held_encodes_via_"+fn]++
	l.verify()
	h.verifyDecoded()
}

// decode reads the most recent held result of o back, compares with the reference object
// and keeps the decoded pack live.
func (h *heldCase) decode(o *hobj) {
	l := h.l
	if len(o.held) == 0 || o.dec != nil {
		return
	}
	hb := o.held[h.r.Intn(len(o.held))]
	if hb.dead {
		return
	}
	k := o.k
	// what never-pooled packs make of the reference bytes right before and right after: a field
	// on which they differ (a time stamp taken by Process) is not judged
	fa, _, _, _ := freshDecode(k, o.ver, append([]byte{}, o.ref...), 0)
	var p udp.UdpPack
	var in *io.DataInputX
	var pn interface{}
	mode := h.r.Intn(3)
	poolable := k.Pooled && k.Name != "UdpRelayPack"
	if !poolable {
		mode = 2
	}
	laterEncodes := int64(0)
	for _, it := range l.items {
		if it.born > hb.born {
			laterEncodes++
		}
	}
	switch mode {
	case 0:
		pn = vlib.Catch(func() { p = udp.ToPack(k.Code, o.ver, hb.b) })
		l.opf("ToPack(%d, %d, result of operation %d) for %s", k.Code, o.ver, hb.born, o.name())
		o.pooled = true
	case 1:
		buf := append(append(make([]byte, 0, len(hb.b)+len(canary)), hb.b...), canary...)
		h.ins = append(h.ins, buf)
		in = io.NewDataInputX(buf)
		pn = vlib.Catch(func() { p = udp.ReadPack(k.Code, o.ver, in) })
		l.opf("ReadPack(%d, %d, private copy of the result of operation %d + canary) for %s", k.Code, o.ver, hb.born, o.name())
		o.pooled = true
	default:
		var st string
		buf := append(append(make([]byte, 0, len(hb.b)+len(canary)), hb.b...), canary...)
		h.ins = append(h.ins, buf)
		p, in, st, pn = freshDecode(k, o.ver, buf, len(canary))
		l.opf("new %s at %d: Read+Process(private copy of the result of operation %d + canary) %s", k.Name, o.ver, hb.born, st)
	}
	fb, _, _, _ := freshDecode(k, o.ver, append([]byte{}, o.ref...), 0)
	l.cnt["held_decodes"]++
	l.cnt["held_decodes_mode_"+[]string{"ToPack-of-the-returned-slice", "ReadPack-of-a-private-input", "Read-of-a-new-pack"}[mode]]++
	if laterEncodes > 0 {
		l.cnt["held_decodes_after_a_later_encode"]++
		l.cnt["held_later_encodes_before_the_decode"] += laterEncodes
	}
	key := k.Name + ":not-restored/after-later-encode"
	if pn != nil || p == nil {
		h.c.Fail(key, fmt.Sprintf("%s: %s panicked on bytes the writer returned %d operations earlier (%d encodes in between): %v", l.where, l.lastOp(), len(l.ops)-1-hb.born, laterEncodes, pn),
			h.detail(o, map[string]interface{}{"decoded_from": hexShort(hb.b), "as_returned": hexShort(hb.cp), "panic": fmt.Sprint(pn)}))
		o.pooled = false
		l.verify()
		h.verifyDecoded()
		return
	}
	if in != nil {
		if av := int(in.Available()); av != len(canary) {
			h.c.Fail(key, fmt.Sprintf("%s: %s consumed %d bytes of the %d the writer returned", l.where, l.lastOp(), len(hb.b)+len(canary)-av, len(hb.b)),
				h.detail(o, map[string]interface{}{"decoded_from": hexShort(hb.b), "as_returned": hexShort(hb.cp)}))
		} else {
			l.cnt["held_decodes_consumed_exactly"]++
		}
	}
	// judged: the fields on which the alone-decode of the prologue and the two fresh decodes
	// around this one agree
	pe, rae, fae, fbe := elemOf(p), elemOf(o.ra), elemOf(fa), elemOf(fb)
	if p.GetVersion() != o.ver {
		h.c.Fail(key, fmt.Sprintf("%s: %s returned a pack of version %d", l.where, l.lastOp(), p.GetVersion()), h.detail(o, nil))
	}
	for i := range k.Fields {
		f := &k.Fields[i]
		if k.Name == "UdpRelayPack" && f.Name == "Len" {
			continue
		}
		want := rae.FieldByIndex(f.Index)
		if !eqVal(want, fae.FieldByIndex(f.Index), 0) || !eqVal(want, fbe.FieldByIndex(f.Index), 0) {
			l.cnt["held_decoded_fields_not_deterministic"]++
			continue
		}
		l.cnt["held_decoded_fields_compared"]++
		got := pe.FieldByIndex(f.Index)
		if eqVal(got, want, 0) || (k.isBlank(f, want) && k.isBlank(f, got)) {
			continue
		}
		h.c.Fail(key,
			fmt.Sprintf("%s: %s: %s.%s = %s; the same object written and read alone gives %s (%d encodes between its encode and this decode)", l.where, l.lastOp(), k.Name, f.Name, render(got), render(want), laterEncodes),
			h.detail(o, map[string]interface{}{"field": f.Name, "read": render(got), "alone": render(want), "decoded_from": hexShort(hb.b), "as_returned": hexShort(hb.cp),
				"read_pack": k.dump(p), "alone_pack": k.dump(o.ra)}))
		break
	}
	o.dec = p
	o.decFP = k.fingerprint(p)
	l.verify()
	h.verifyDecoded()
}

// verifyDecoded: every live decoded pack must still be what it was when it was decoded.
func (h *heldCase) verifyDecoded() {
	l := h.l
	for _, o := range h.objs {
		if o.dec == nil || o.decDead {
			continue
		}
		l.cnt["held_decoded_object_reverifications"]++
		now := o.k.fingerprint(o.dec)
		for i := range now {
			if now[i] == o.decFP[i] {
				continue
			}
			o.decDead = true
			fname := "Ver"
			if i > 0 {
				fname = o.k.Fields[i-1].Name
			}
			h.c.Fail(o.k.Name+":decoded-object-altered-later",
				fmt.Sprintf("%s: the %s decoded for %s was kept; after operation %d (%s) its field %s is %s, it was %s", l.where, o.k.Name, o.name(), len(l.ops)-1, l.lastOp(), fname, short(now[i]), short(o.decFP[i])),
				h.detail(o, map[string]interface{}{"field": fname, "was": short(o.decFP[i]), "now": short(now[i]), "pack_now": o.k.dump(o.dec)}))
			break
		}
	}
}

func heldCaseRun(c *vlib.Ctx, section string, i int, r *vlib.Rand) {
	l := newLedger(c, fmt.Sprintf("%s#%d", section, i))
	h := &heldCase{l: l, c: c, r: r}
	defer l.flush()

	// prologue: the objects, each alone
	k0 := kinds[i%len(kinds)]
	v0 := versions[r.Intn(len(versions))]
	n := r.Range(2, 6)
	add := func(o *hobj) {
		if o != nil {
			h.objs = append(h.objs, o)
			l.cnt["held_objects"]++
			l.cnt["held_objects_"+o.rel]++
		}
	}
	add(l.newObj(r, 0, k0, v0, "first", nil))
	for j := 1; j < n; j++ {
		var from *hobj
		if len(h.objs) > 0 {
			from = h.objs[r.Intn(len(h.objs))]
		}
		x := r.Intn(8)
		switch {
		case x <= 2 && from != nil:
			add(l.newObj(r, j, from.k, from.ver, "same-size", from))
		case x == 3 && from != nil:
			add(l.newObj(r, j, from.k, neighbourVersion(r, from.ver), "other-version", from))
		case x == 4:
			add(l.newObj(r, j, kinds[r.Intn(len(kinds))], versions[r.Intn(len(versions))], "blank", nil))
		case x == 5:
			add(l.newObj(r, j, kinds[r.Intn(len(kinds))], versions[r.Intn(len(versions))], "large", nil))
		case x == 6:
			add(l.newObj(r, j, k0, versions[r.Intn(len(versions))], "other-type", nil)) // the section's type again, another draw
		default:
			add(l.newObj(r, j, kinds[r.Intn(len(kinds))], versions[r.Intn(len(versions))], "other-type", nil))
		}
	}
	if len(h.objs) < 2 {
		l.cnt["held_cases_with_fewer_than_two_objects"]++
		return
	}

	// the history: encodes in a drawn order (some objects twice), decodes in a drawn order
	type step struct {
		enc bool
		o   *hobj
	}
	var encs, decs []step
	for _, o := range h.objs {
		encs = append(encs, step{true, o})
		if r.Intn(4) == 0 {
			encs = append(encs, step{true, o})
		}
		decs = append(decs, step{false, o})
	}
	r.Shuffle(len(encs), func(a, b int) { encs[a], encs[b] = encs[b], encs[a] })
	r.Shuffle(len(decs), func(a, b int) { decs[a], decs[b] = decs[b], decs[a] })
	var plan []step
	if r.Intn(3) == 0 {
		// interleaved: a decode may come as soon as its object has been encoded once
		l.cnt["held_cases_interleaved"]++
		done := map[*hobj]bool{}
		ei, pending := 0, decs
		for ei < len(encs) || len(pending) > 0 {
			if ei < len(encs) && (len(pending) == 0 || r.Intn(3) != 0) {
				plan = append(plan, encs[ei])
				done[encs[ei].o] = true
				ei++
				continue
			}
			moved := false
			for j, d := range pending {
				if done[d.o] {
					plan = append(plan, d)
					pending = append(pending[:j:j], pending[j+1:]...)
					moved = true
					break
				}
			}
			if !moved {
				if ei >= len(encs) {
					break
				}
				plan = append(plan, encs[ei])
				done[encs[ei].o] = true
				ei++
			}
		}
	} else {
		l.cnt["held_cases_all_encodes_before_the_first_decode"]++
		plan = append(append(plan, encs...), decs...)
	}
	for _, s := range plan {
		if s.enc {
			h.encode(s.o)
		} else {
			h.decode(s.o)
		}
	}

	// the caller overwrites its private inputs, then the slices it was given: decoded packs
	// must not depend on either
	for _, b := range h.ins {
		for j := range b {
			b[j] = byte(0x5A + j*13)
		}
	}
	l.opf("the caller overwrites the %d private inputs it decoded from", len(h.ins))
	h.verifyDecoded()
	l.verify()
	if r.Bool() {
		l.scribble()
		l.opf("the caller overwrites every slice the encoders returned")
		h.verifyDecoded()
		// and encodes once more: later results must not depend on the overwritten ones
		o := h.objs[r.Intn(len(h.objs))]
		h.encode(o)
	}
	l.opf("end of case")
	l.verify()
	h.verifyDecoded()
	for _, o := range h.objs {
		if o.dec != nil && o.pooled {
			udp.ClosePack(o.dec)
		}
	}
	l.cnt["held_cases"]++
	if len(h.objs) >= 3 {
		l.cnt["held_cases_with_three_or_more_objects"]++
	}
	c.SetAdd("held_types_covered", k0.Name)
	c.DistinctStr(l.where + strings.Join(l.ops, ";"))
	if i < 2 && c.WantSample() {
		c.Sample(map[string]interface{}{"kind": "held-history", "section": section, "ops": l.ops})
	}
}

func heldSections(c *vlib.Ctx) {
	race := c.Flavour == "race"
	if !race {
		c.Cases("held", c.N(len(kinds)*160, len(kinds)*6000), func(i int, r *vlib.Rand) {
			heldCaseRun(c, "held", i, r)
		})
	}
	np := c.N(len(kinds)*160, len(kinds)*6000)
	if race {
		np = c.N(len(kinds)*24, len(kinds)*400)
	}
	c.ParallelCases("held-parallel", np, 8, func(i int, r *vlib.Rand) {
		heldCaseRun(c, "held-parallel", i, r)
		c.Count("held_parallel_cases", 1)
	})
	if c.Only == "" {
		total := c.N(len(kinds)*160, len(kinds)*6000)
		if !race {
			total += np
		} else {
			total = np
		}
		per := int64(total / c.NShards) // cases of this shard; a case has 2…6 objects, each encoded once or twice
		c.Floor("held_cases", per/10, c.Counter("held_cases"))
		c.Floor("held_results", per/2, c.Counter("held_results"))
		c.Floor("held_reverifications", per*4, c.Counter("held_reverifications"))
		c.Floor("held_decodes_after_a_later_encode", per/4, c.Counter("held_decodes_after_a_later_encode"))
		c.Floor("held_decoded_object_reverifications", per*2, c.Counter("held_decoded_object_reverifications"))
		c.Floor("held_later_encode_of_equal_size_as_a_held_result", per/4, c.Counter("held_later_encode_of_equal_size_as_a_held_result"))
		c.Floor("held_later_encode_smaller_than_a_held_result", per/4, c.Counter("held_later_encode_smaller_than_a_held_result"))
		c.Floor("held_later_encode_larger_than_a_held_result", per/4, c.Counter("held_later_encode_larger_than_a_held_result"))
		c.Floor("held_results_overwritten_by_the_caller", per/5, c.Counter("held_results_overwritten_by_the_caller"))
		c.Floor("held_parallel_cases", int64(np/c.NShards)/10, c.Counter("held_parallel_cases"))
	}
}
