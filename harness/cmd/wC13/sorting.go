package main

// Sorting / Filtering oracle. The result of a sort is CHECKED (permutation, consecutive
// primary order, child order on primary ties); it is never recomputed by sorting.

import (
	"fmt"
	"sort"

	"github.com/whatap/golib/util/list"

	"verif/refcodec"
	"verif/vlib"
)

// column is a typed list together with its model, with the element type erased so that
// the 5×5 primary/child combinations can be driven uniformly.
type column struct {
	short string // "Int"
	name  string // "IntList"
	typ   byte
	n     int
	l     list.AnyList
	ctor  string
	cmp   func(i, j int) int  // exact order of model elements i and j
	tie53 func(i, j int) bool // different integers that are the same float64
	show  func(i int) string  // model element i
	all   func() []string     // the model, clipped
	// checkFiltered: res must be a list of the same type holding model[idx[0]], model[idx[1]], …
	checkFiltered func(res list.AnyList, idx []int) string
	// cmpIn / showIn: exact order / rendering of elements of ANOTHER list of this type
	cmpIn  func(l list.AnyList, i, j int) int
	showIn func(l list.AnyList, i int) string
	// unchanged: the list still equals the model
	unchanged func() string
	refBody   func(w *refcodec.W)
	// scribbleIn overwrites every element of a list of this type and appends one more
	scribbleIn func(l list.AnyList, r *vlib.Rand)
}

func makeColumn[T any, L tlist[T, L]](k *kind[T, L], vals []T, r *vlib.Rand) *column {
	n := len(vals)
	var l L
	var ctor string
	switch r.Intn(5) {
	case 0:
		l, ctor = k.newDef(), "Default"
	case 1:
		l, ctor = k.newCap(n), "cap n"
	case 2:
		e := r.Range(1, 40)
		l, ctor = k.newCap(n+e), fmt.Sprintf("cap n+%d", e) // spare capacity behind the elements
	case 3:
		l, ctor = k.newCap(10), "cap 10"
	default:
		l, ctor = k.newCap(30), "cap 30"
	}
	if r.Bool() {
		l.AddAllArray(append([]T(nil), vals...)) // vals is the model: the library never sees it
	} else {
		for _, v := range vals {
			k.add(l, v)
		}
	}
	col := &column{short: k.short, name: k.name, typ: k.typ, n: n, l: l, ctor: ctor}
	col.cmp = func(i, j int) int { return k.cmp(vals[i], vals[j]) }
	col.tie53 = func(i, j int) bool { return k.dblTie(vals[i], vals[j]) }
	col.show = func(i int) string { return k.show(vals[i]) }
	col.all = func() []string { return showAll(k.show, vals) }
	col.checkFiltered = func(res list.AnyList, idx []int) string {
		if res == nil {
			return "Filtering panicked or returned nil"
		}
		tl, ok := k.as(res)
		if !ok || res.GetType() != k.typ {
			return fmt.Sprintf("Filtering returned a %T (type %d), the source is a %s", res, res.GetType(), k.name)
		}
		if tl.Size() != len(idx) {
			return fmt.Sprintf("Filtering(%d indices) returned %d elements", len(idx), tl.Size())
		}
		arr := tl.ToArray()
		for p, ix := range idx {
			if !k.eq(arr[p], vals[ix]) {
				return fmt.Sprintf("position %d holds %s, the selected element [%d] is %s", p, k.show(arr[p]), ix, k.show(vals[ix]))
			}
			if g := k.get(tl, p); !k.eq(g, vals[ix]) {
				return fmt.Sprintf("Get%s(%d) of the filtered list is %s, the selected element [%d] is %s", k.short, p, k.show(g), ix, k.show(vals[ix]))
			}
		}
		return ""
	}
	col.cmpIn = func(o list.AnyList, i, j int) int {
		tl, _ := k.as(o)
		return k.cmp(k.get(tl, i), k.get(tl, j))
	}
	col.showIn = func(o list.AnyList, i int) string {
		tl, ok := k.as(o)
		if !ok {
			return fmt.Sprintf("<%T>", o)
		}
		return k.show(k.get(tl, i))
	}
	col.unchanged = func() string {
		if l.Size() != n {
			return fmt.Sprintf("size changed from %d to %d", n, l.Size())
		}
		arr := l.ToArray()
		for i := range vals {
			if !k.eq(arr[i], vals[i]) {
				return fmt.Sprintf("element %d changed from %s to %s", i, k.show(vals[i]), k.show(arr[i]))
			}
		}
		return ""
	}
	col.refBody = func(w *refcodec.W) { refListInto(w, vals, k.enc) }
	col.scribbleIn = func(o list.AnyList, r *vlib.Rand) {
		if tl, ok := k.as(o); ok {
			scribbleList(k, tl, r)
		}
	}
	return col
}

// genVals draws n values: from a small pool (ties are common), or all distinct draws;
// optionally arranged ascending / descending / with a few swaps (the shapes a pattern-
// defeating sort treats specially).
func genVals[T any, L tlist[T, L]](k *kind[T, L], r *vlib.Rand, n, pool int, safe bool, shape int) []T {
	draw := k.draw
	if safe {
		draw = k.drawSafe
	}
	vals := make([]T, n)
	if pool > 0 {
		p := make([]T, pool)
		for i := range p {
			p[i] = draw(r)
		}
		for i := range vals {
			vals[i] = p[r.Intn(pool)]
		}
	} else {
		for i := range vals {
			vals[i] = draw(r)
		}
	}
	switch shape {
	case 1:
		sort.SliceStable(vals, func(a, b int) bool { return k.cmp(vals[a], vals[b]) < 0 })
	case 2:
		sort.SliceStable(vals, func(a, b int) bool { return k.cmp(vals[a], vals[b]) > 0 })
	case 3:
		sort.SliceStable(vals, func(a, b int) bool { return k.cmp(vals[a], vals[b]) < 0 })
		for s := 0; s < 3 && n > 1; s++ {
			a, b := r.Intn(n), r.Intn(n)
			vals[a], vals[b] = vals[b], vals[a]
		}
	}
	return vals
}

var kindShorts = []string{"Int", "Long", "Float", "Double", "String"}

func genColumn(ki int, r *vlib.Rand, n, pool int, safe bool, shape int) *column {
	switch ki {
	case 0:
		return makeColumn(kInt, genVals(kInt, r, n, pool, safe, shape), r)
	case 1:
		return makeColumn(kLong, genVals(kLong, r, n, pool, safe, shape), r)
	case 2:
		return makeColumn(kFloat, genVals(kFloat, r, n, pool, safe, shape), r)
	case 3:
		return makeColumn(kDouble, genVals(kDouble, r, n, pool, safe, shape), r)
	default:
		return makeColumn(kString, genVals(kString, r, n, pool, safe, shape), r)
	}
}

func clipInts(p []int) []int {
	if len(p) > 400 {
		return p[:400]
	}
	return p
}

// checkPermutation: each index 0..n-1 exactly once.
func checkPermutation(perm []int, n int) string {
	if len(perm) != n {
		return fmt.Sprintf("result has %d indices, the list has %d elements", len(perm), n)
	}
	seen := make([]bool, n)
	for p, ix := range perm {
		if ix < 0 || ix >= n {
			return fmt.Sprintf("result[%d]=%d is not an index of a %d-element list", p, ix, n)
		}
		if seen[ix] {
			return fmt.Sprintf("index %d occurs more than once (second time at position %d)", ix, p)
		}
		seen[ix] = true
	}
	return ""
}

type orderStats struct{ primTies, childDecided int }

// checkOrder walks consecutive pairs of the permutation. dir(+1 asc, -1 desc).
// Returns kind ("" ok, "primary-order", "child-order"), whether the failing pair is in the
// beyond-2^53 class, and a message.
func checkOrder(perm []int, prim *column, asc bool, child *column, childAsc bool, st *orderStats) (string, bool, string) {
	for p := 0; p+1 < len(perm); p++ {
		a, b := perm[p], perm[p+1]
		pc := prim.cmp(a, b)
		if !asc {
			pc = -pc
		}
		if pc > 0 {
			return "primary-order", false, fmt.Sprintf("positions %d,%d: primary %s (index %d) precedes %s (index %d) although %s was requested",
				p, p+1, prim.show(a), a, prim.show(b), b, dirName(asc))
		}
		if pc == 0 {
			st.primTies++
			if child != nil {
				cc := child.cmp(a, b)
				if cc != 0 {
					st.childDecided++
				}
				if !childAsc {
					cc = -cc
				}
				if cc > 0 {
					return "child-order", child.tie53(a, b), fmt.Sprintf("positions %d,%d: primaries tie (%s), child %s (index %d) precedes %s (index %d) although child order %s was requested",
						p, p+1, prim.show(a), child.show(a), a, child.show(b), b, dirName(childAsc))
				}
			}
		}
	}
	return "", false, ""
}

func dirName(asc bool) string {
	if asc {
		return "ascending"
	}
	return "descending"
}

// sortCase runs Sorting, SortingAnyList and Filtering on one primary/child pair.
func sortCase(c *vlib.Ctx, r *vlib.Rand, prim, child *column, asc, childAsc bool, what string) {
	detail := func(perm []int) map[string]interface{} {
		d := map[string]interface{}{"what": what, "primary_type": prim.name, "primary_ctor": prim.ctor, "primary": prim.all(),
			"asc": asc, "result": clipInts(perm)}
		if child != nil {
			d["child_type"], d["child"], d["child_asc"] = child.name, child.all(), childAsc
		}
		return d
	}
	n := prim.n
	combo := prim.short + "×" + child.short
	// lists derived from the two columns: each must stay the selection it was, whatever
	// happens to its source or to the other derived lists afterwards (see the end)
	type derived struct {
		col  *column
		res  list.AnyList
		idx  []int
		what string
	}
	var ders []derived
	var lentIdx []*lentArr[int]
	failed := false // any finding of this case: the independence epilogue is skipped then
	fail := func(key, what string, d interface{}) {
		failed = true
		c.Fail(key, what, d)
	}
	// one call in three hands the index list over as a window of a larger array whose other
	// elements are no indices of the list; the array must come back as it was
	filtered := func(col *column, idx []int, what string) (list.AnyList, []int) {
		arg := idx
		var li *lentArr[int]
		if pre, post, lent := lendShape(r); lent && idx != nil && r.Chance(2, 3) {
			li = lendArr(idx, pre, post, func(j int) int { return col.n + 1000 + j })
			arg = li.arg()
			c.Count("filtering_lent_window", 1)
		}
		res, _ := catchFiltering(col.l, arg)
		if li != nil {
			if msg := li.changed(eqInt, showInt); msg != "" {
				d := detail(nil)
				d["step"] = what
				fail(col.name+".Filtering:writes-callers-slice", what+": Filtering wrote to the caller's index array: "+msg, d)
			}
			lentIdx = append(lentIdx, li)
		}
		if res != nil {
			ders = append(ders, derived{col, res, append([]int(nil), idx...), what})
		}
		return res, idx
	}

	// Sorting(asc)
	var perm []int
	if p := vlib.Catch(func() { perm = prim.l.Sorting(asc) }); p != nil {
		fail(prim.name+".Sorting:panic", fmt.Sprintf("Sorting(%v) panicked: %v", asc, p), detail(nil))
		return
	}
	c.Count("sorting_calls", 1)
	var st orderStats
	if msg := checkPermutation(perm, n); msg != "" {
		fail(prim.name+".Sorting:not-permutation", msg, detail(perm))
	} else if kd, _, msg := checkOrder(perm, prim, asc, nil, false, &st); kd != "" {
		fail(prim.name+".Sorting:"+kd, msg, detail(perm))
	} else if msg := prim.checkFiltered(filtered(prim, perm, "Filtering(Sorting result) of the primary")); msg != "" {
		fail(prim.name+".Filtering:filtering", "Filtering(Sorting result): "+msg, detail(perm))
	}

	// SortingAnyList(asc, child, childAsc)
	var perm2 []int
	if p := vlib.Catch(func() { perm2 = prim.l.SortingAnyList(asc, child.l, childAsc) }); p != nil {
		fail(prim.name+".SortingAnyList:panic", fmt.Sprintf("SortingAnyList(%v, %s, %v) panicked: %v", asc, child.name, childAsc, p), detail(nil))
		return
	}
	c.Count("sorting_anylist_calls", 1)
	c.SetAdd("sort_combos", fmt.Sprintf("%s:%s/%s", combo, dirName(asc)[:3], dirName(childAsc)[:3]))
	var st2 orderStats
	if msg := checkPermutation(perm2, n); msg != "" {
		fail(prim.name+".SortingAnyList:not-permutation", msg, detail(perm2))
	} else {
		kd, in53, msg := checkOrder(perm2, prim, asc, child, childAsc, &st2)
		switch {
		case kd == "child-order" && in53:
			fail("SortingAnyList:child-order/"+combo+":beyond-2^53", msg, detail(perm2))
		case kd != "":
			fail(prim.name+".SortingAnyList:"+kd, msg, detail(perm2))
		}
		c.Count("adjacent_primary_ties", int64(st2.primTies))
		c.Count("adjacent_ties_decided_by_child", int64(st2.childDecided))
		// the child column filtered by the same permutation (what the pack does with every column)
		if msg := child.checkFiltered(filtered(child, perm2, "Filtering(SortingAnyList result) of the child")); msg != "" {
			fail(child.name+".Filtering:filtering", "Filtering(SortingAnyList result) of the child: "+msg, detail(perm2))
		}
	}
	if msg := prim.unchanged(); msg != "" {
		fail(prim.name+".Sorting:wrong-value", "sorting modified the list: "+msg, detail(perm2))
	}
	if msg := child.unchanged(); msg != "" {
		fail(child.name+".Sorting:wrong-value", "sorting modified the child list: "+msg, detail(perm2))
	}

	// Filtering with arbitrary index lists: duplicates, any order, empty, nil, longer than n
	if n > 0 {
		var idx []int
		switch r.Intn(6) {
		case 0:
			idx = nil
		case 1:
			idx = []int{}
		case 2:
			idx = make([]int, r.Range(n, 2*n+3))
		default:
			idx = make([]int, r.Range(1, n))
		}
		for j := range idx {
			idx[j] = r.Intn(n)
		}
		if msg := prim.checkFiltered(filtered(prim, idx, "Filtering(random index list) of the primary")); msg != "" {
			d := detail(nil)
			d["index_list"] = clipInts(idx)
			fail(prim.name+".Filtering:filtering", msg, d)
		}
		c.Count("filtering_calls", 1)
		if msg := prim.unchanged(); msg != "" {
			fail(prim.name+".Filtering:wrong-value", "Filtering modified the source list: "+msg, detail(nil))
		}
	}
	// an index list that selects a slot outside [0,size) must be reported
	{
		tl, _ := tableLen(prim.l)
		bad := []int{n, -1, n + 1, tl - 1, tl}[r.Intn(5)]
		if bad >= 0 && bad < n {
			bad = n
		}
		idx := []int{}
		if n > 0 {
			idx = append(idx, r.Intn(n))
		}
		idx = append(idx, bad)
		var res list.AnyList
		p := vlib.Catch(func() { res = prim.l.Filtering(idx) })
		c.Count("filtering_oor_probes", 1)
		if p == nil {
			kd := "wrong-value"
			if bad >= n && bad < tl {
				kd = "stale-slot"
			}
			d := detail(nil)
			d["index_list"] = idx
			sz := -1
			if res != nil {
				sz = res.Size()
			}
			fail(prim.name+".Filtering:"+kd, fmt.Sprintf("Filtering(%v) on a list of size %d (backing length %d) did not report the index; it returned %d elements", idx, n, tl, sz), d)
		} else {
			// reported: the list is as it was and still usable
			if msg := prim.unchanged(); msg != "" {
				fail(prim.name+".Filtering:wrong-value", "a Filtering call that reported an out-of-range index modified the list: "+msg, detail(nil))
			}
			if !colUsable(c, r, prim, "Filtering", func() map[string]interface{} { d := detail(nil); d["index_list"] = idx; return d }) {
				return
			}
		}
	}
	// a two-level sort whose child is shorter than the primary, or nil: the tie-break needs a
	// child element that does not exist, which is reported (unless no tie reaches it); either
	// way both lists are as they were and usable afterwards
	if n >= 1 && !tooManyLeaks(prim.name, "SortingAnyList") {
		var short *column
		var childL list.AnyList
		desc := "nil"
		if !r.Chance(1, 4) {
			short = genColumn(int(child.typ)-1, r, r.Intn(n), 3, false, 0)
			childL, desc = short.l, fmt.Sprintf("%s of %d elements %v", short.name, short.n, short.all())
		}
		det3 := func(perm []int) map[string]interface{} {
			d := detail(perm)
			d["child_type"], d["child"] = "short or nil child", desc
			return d
		}
		var perm3 []int
		p := vlib.Catch(func() { perm3 = prim.l.SortingAnyList(asc, childL, childAsc) })
		c.Count("sorting_short_or_nil_child_calls", 1)
		if msg := prim.unchanged(); msg != "" {
			fail(prim.name+".Sorting:wrong-value", "a two-level sort with a short or nil child modified the list: "+msg, det3(nil))
		}
		if short != nil {
			if msg := short.unchanged(); msg != "" {
				fail(short.name+".Sorting:wrong-value", "a two-level sort with a short child modified the child list: "+msg, det3(nil))
			}
		}
		if p != nil {
			c.Count("sorting_child_reports", 1)
			if !colUsable(c, r, prim, "SortingAnyList", func() map[string]interface{} { return det3(nil) }) {
				return
			}
			if short != nil && !colUsable(c, r, short, "SortingAnyList", func() map[string]interface{} { return det3(nil) }) {
				return
			}
		} else if msg := checkPermutation(perm3, n); msg != "" {
			fail(prim.name+".SortingAnyList:not-permutation", msg, det3(perm3))
		} else {
			for q := 0; q+1 < n; q++ {
				a, b := perm3[q], perm3[q+1]
				pc := prim.cmp(a, b)
				if !asc {
					pc = -pc
				}
				if pc > 0 {
					fail(prim.name+".SortingAnyList:primary-order", fmt.Sprintf("positions %d,%d: primary %s precedes %s although %s was requested", q, q+1, prim.show(a), prim.show(b), dirName(asc)), det3(perm3))
					break
				}
				if pc == 0 && short != nil && a < short.n && b < short.n && !short.tie53(a, b) {
					cc := short.cmp(a, b)
					if !childAsc {
						cc = -cc
					}
					if cc > 0 {
						fail(prim.name+".SortingAnyList:child-order", fmt.Sprintf("positions %d,%d: primaries tie (%s), child %s precedes %s although child order %s was requested", q, q+1, prim.show(a), short.show(a), short.show(b), dirName(childAsc)), det3(perm3))
						break
					}
				}
			}
		}
	}
	// independence of sources, derived lists and index slices (this changes the lists, so it
	// is the last thing done with them; the models prim/child hold are not touched)
	permShown, perm2Shown := append([]int(nil), perm...), append([]int(nil), perm2...)
	if !failed {
		aliased := func(col *column, step, msg string) {
			d := detail(nil)
			d["step"] = step
			fail(col.name+".Filtering:aliased", step+": "+msg, d)
		}
		stillOK := func(step string, from int) bool {
			if msg := prim.unchanged(); msg != "" {
				aliased(prim, step+", the primary list changed", msg)
				return false
			}
			if msg := child.unchanged(); msg != "" {
				aliased(child, step+", the child list changed", msg)
				return false
			}
			for _, d := range ders[from:] {
				if msg := d.col.checkFiltered(d.res, d.idx); msg != "" {
					aliased(d.col, step+", the list from "+d.what+" changed", msg)
					return false
				}
			}
			return true
		}
		ok := true
		// the index slices handed to Filtering / returned by Sorting are overwritten
		for j := range perm {
			perm[j] = -1 - j
		}
		for j := range perm2 {
			perm2[j] = -1 - j
		}
		for _, li := range lentIdx {
			for j := range li.arr {
				li.arr[j] = -1 - j
			}
		}
		ok = stillOK("after overwriting the index slices returned by Sorting and SortingAnyList (and the arrays that index lists were windows of)", 0)
		// every derived list is overwritten in turn
		for j := 0; ok && j < len(ders); j++ {
			ders[j].col.scribbleIn(ders[j].res, r)
			ok = stillOK("after changing every element of the list from "+ders[j].what, j+1)
		}
		// and the other direction: the sources are overwritten, fresh derived lists stay
		if ok {
			ders = ders[:0]
			if n > 0 {
				ident := make([]int, n)
				for j := range ident {
					ident[j] = j
				}
				filtered(prim, ident, "Filtering(identity) of the primary")
				filtered(child, ident[:minI(n, child.n)], "Filtering(identity) of the child")
			}
			prim.scribbleIn(prim.l, r)
			child.scribbleIn(child.l, r)
			for _, d := range ders {
				if msg := d.col.checkFiltered(d.res, d.idx); msg != "" {
					aliased(d.col, "after changing every element of the source, the list from "+d.what+" changed", msg)
					break
				}
			}
		}
		c.Count("sort_independence_checks", 1)
	}
	if wantSample(c, "sort") && n >= 4 && n <= 8 && st2.childDecided > 0 {
		tookSample("sort")
		c.Sample(map[string]interface{}{"kind": "sort", "primary_type": prim.name, "primary": prim.all(), "child_type": child.name, "child": child.all(),
			"asc": asc, "child_asc": childAsc, "Sorting": permShown, "SortingAnyList": perm2Shown})
	}
}

func catchFiltering(l list.AnyList, idx []int) (list.AnyList, []int) {
	var res list.AnyList
	if p := vlib.Catch(func() { res = l.Filtering(idx) }); p != nil {
		return nil, idx
	}
	return res, idx
}

// colUsable: col (or a call that was given col) just reported an error in `method` by
// panicking; a sort of col made from a follow-up goroutine returns an ordering permutation.
func colUsable(c *vlib.Ctx, r *vlib.Rand, col *column, method string, detail func() map[string]interface{}) bool {
	asc := r.Bool()
	var perm []int
	what := fmt.Sprintf("Sorting(%v) on the %s", asc, col.name)
	ok, pv := followUp(c, col.name, method, what, func() { perm = col.l.Sorting(asc) }, detail)
	if !ok {
		return false
	}
	if pv != nil {
		c.Fail(col.name+".Sorting:panic", fmt.Sprintf("%s, the call after %s reported an error, panicked: %v", what, method, pv), detail())
		return false
	}
	var st orderStats
	if msg := checkPermutation(perm, col.n); msg != "" {
		c.Fail(col.name+".Sorting:not-permutation", fmt.Sprintf("%s, the call after %s reported an error: %s", what, method, msg), detail())
		return false
	}
	if kd, _, msg := checkOrder(perm, col, asc, nil, false, &st); kd != "" {
		c.Fail(col.name+".Sorting:"+kd, fmt.Sprintf("%s, the call after %s reported an error: %s", what, method, msg), detail())
		return false
	}
	c.Count("followup_sorts_checked", 1)
	return true
}
