package main

// LinkedList against a slice model (single goroutine). A program runs on a small pool of
// lists (every operation picks one); after every operation ALL lists and all arrays returned
// by ToArray earlier are compared with their models: distinct lists are independent.

import (
	"fmt"
	"reflect"
	"strings"
	"unsafe"

	"github.com/whatap/golib/util/list"

	"verif/vlib"
)

func prevOf(e *list.LinkedListEntity) *list.LinkedListEntity {
	f := reflect.ValueOf(e).Elem().FieldByName("prev")
	return *(**list.LinkedListEntity)(unsafe.Pointer(f.UnsafeAddr()))
}

type lnk struct {
	id int
	l  *list.LinkedList
	m  []interface{}
}

type linkedRun struct {
	c     *vlib.Ctx
	pool  []*lnk
	t     *lnk // target of the current operation
	helds []*heldArr
	ops   []string
	dead  bool
	// while the lists that an operation did not touch are verified: the key of a difference
	foreign, foreignKind string
	noText               bool // skip the textual form (verification of untouched lists)
}

// heldArr: an array returned by ToArray earlier; it keeps its contents.
type heldArr struct {
	from      int
	arr, want []interface{}
}

func (s *linkedRun) logf(format string, a ...interface{}) {
	s.ops = append(s.ops, fmt.Sprintf(format, a...))
}

func (s *linkedRun) fail(method, kindStr, msg string) {
	if s.foreign != "" {
		// s.t is (temporarily) a list that the operation did not touch
		method, kindStr = s.foreign, s.foreignKind
		msg = fmt.Sprintf("the list K%d, which this operation does not touch, changed: %s", s.t.id, msg)
	}
	var actual []interface{}
	vlib.Catch(func() { actual = s.t.l.ToArray() })
	if len(actual) > 100 {
		actual = actual[:100]
	}
	m := s.t.m
	if len(m) > 100 {
		m = m[:100]
	}
	others := map[string]string{}
	for _, p := range s.pool {
		if p != s.t {
			om := p.m
			if len(om) > 100 {
				om = om[:100]
			}
			others[fmt.Sprintf("K%d", p.id)] = fmt.Sprint(om)
		}
	}
	s.c.Fail("LinkedList."+method+":"+kindStr, msg, map[string]interface{}{"list": fmt.Sprintf("K%d", s.t.id),
		"ops": s.ops, "model": fmt.Sprint(m), "actual": fmt.Sprint(actual), "actual_size": s.t.l.Size(), "other_models": others})
}

// nodeAt walks k steps from the first node, checking the values passed on the way.
func (s *linkedRun) nodeAt(k int) *list.LinkedListEntity {
	e := s.t.l.GetFirst()
	for j := 0; j < k && e != nil; j++ {
		e = s.t.l.GetNext(e)
	}
	if e == nil {
		s.fail("GetNext", "wrong-size", fmt.Sprintf("forward walk ended before position %d of %d", k, len(s.t.m)))
		s.dead = true
		return nil
	}
	if e.Value != s.t.m[k] {
		s.fail("GetNext", "wrong-value", fmt.Sprintf("node at position %d holds %v, model says %v", k, e.Value, s.t.m[k]))
		s.dead = true
		return nil
	}
	return e
}

// verify checks size, ToArray, the forward chain, the backward chain and both ends.
func (s *linkedRun) verify(after string, full bool) bool {
	n := len(s.t.m)
	if sz := s.t.l.Size(); sz != n {
		s.fail(after, "wrong-size", fmt.Sprintf("after %s: Size()=%d, model has %d", after, sz, n))
		return false
	}
	f, la := s.t.l.GetFirst(), s.t.l.GetLast()
	if n == 0 {
		if f != nil || la != nil {
			s.fail(after, "wrong-value", fmt.Sprintf("after %s: empty list but GetFirst/GetLast are not nil", after))
			return false
		}
	} else {
		if f == nil || f.Value != s.t.m[0] {
			s.fail("GetFirst", "wrong-value", fmt.Sprintf("after %s: GetFirst is %v, model says %v", after, entVal(f), s.t.m[0]))
			return false
		}
		if la == nil || la.Value != s.t.m[n-1] {
			s.fail("GetLast", "wrong-value", fmt.Sprintf("after %s: GetLast is %v, model says %v", after, entVal(la), s.t.m[n-1]))
			return false
		}
	}
	if !full {
		return true
	}
	var arr []interface{}
	if p := vlib.Catch(func() { arr = s.t.l.ToArray() }); p != nil {
		s.fail("ToArray", "panic", fmt.Sprintf("ToArray panicked after %s: %v", after, p))
		return false
	}
	if len(arr) != n {
		s.fail("ToArray", "wrong-size", fmt.Sprintf("after %s: len(ToArray())=%d, model has %d", after, len(arr), n))
		return false
	}
	for i := range arr {
		if arr[i] != s.t.m[i] {
			s.fail(after, "wrong-value", fmt.Sprintf("after %s: ToArray()[%d]=%v, model says %v", after, i, arr[i], s.t.m[i]))
			return false
		}
	}
	// forward chain: exactly n nodes, then nil
	e := f
	for i := 0; i < n; i++ {
		if e == nil || e.Value != s.t.m[i] {
			s.fail("GetNext", "wrong-value", fmt.Sprintf("after %s: forward chain position %d is %v, model says %v", after, i, entVal(e), s.t.m[i]))
			return false
		}
		e = s.t.l.GetNext(e)
	}
	if e != nil {
		s.fail("GetNext", "wrong-size", fmt.Sprintf("after %s: forward chain continues past %d nodes", after, n))
		return false
	}
	// backward chain through the private prev pointers
	e = la
	for i := n - 1; i >= 0; i-- {
		if e == nil || e.Value != s.t.m[i] {
			s.fail(after, "wrong-value", fmt.Sprintf("after %s: backward chain position %d is %v, model says %v", after, i, entVal(e), s.t.m[i]))
			return false
		}
		e = prevOf(e)
	}
	if e != nil {
		s.fail(after, "wrong-size", fmt.Sprintf("after %s: backward chain continues past %d nodes", after, n))
		return false
	}
	if s.noText {
		return true
	}
	// textual form: the elements in order
	parts := make([]string, n)
	for i, v := range s.t.m {
		if v == nil {
			parts[i] = "" // the entity's own ToString renders a nil element as the empty string
			continue
		}
		parts[i] = fmt.Sprint(v)
	}
	if ts := s.t.l.ToString(); ts != strings.Join(parts, ",") {
		s.fail("ToString", "wrong-value", fmt.Sprintf("after %s: ToString()=%q, model says %q", after, ts, strings.Join(parts, ",")))
		return false
	}
	return true
}

func entVal(e *list.LinkedListEntity) interface{} {
	if e == nil {
		return "<nil node>"
	}
	return e.Value
}

// verifyAll: the target (fully when full), then every other list of the pool (chains in
// both directions, ends, size, ToArray) and every array handed out by ToArray earlier.
func (s *linkedRun) verifyAll(after string, full bool, blame string) bool {
	t := s.t
	if blame == "" {
		// the target: always both chains, ends, size and ToArray; the textual form when full
		s.noText = !full
		ok := s.verify(after, true)
		s.noText = false
		if !ok {
			return false
		}
	}
	ok := true
	s.foreign, s.foreignKind, s.noText = after, "changed-other-list", true
	if blame != "" {
		s.foreign, s.foreignKind = blame, "aliased"
	}
	for _, p := range s.pool {
		if p == t && blame == "" {
			continue
		}
		s.t = p
		s.c.Count("linked_other_lists_verified", 1)
		if !s.verify(after, true) {
			ok = false
			break
		}
	}
	s.t, s.foreign, s.foreignKind, s.noText = t, "", "", false
	if !ok {
		return false
	}
	for _, h := range s.helds {
		s.c.Count("linked_held_arrays_verified", 1)
		for j := range h.want {
			if h.arr[j] != h.want[j] {
				s.fail("ToArray", "aliased", fmt.Sprintf("after %s on K%d, an array returned earlier by K%d.ToArray changed: element %d is now %v, it was %v", after, t.id, h.from, j, h.arr[j], h.want[j]))
				return false
			}
		}
	}
	return true
}

func opName(op string) string {
	if j := strings.IndexByte(op, '('); j > 0 {
		op = op[:j]
	}
	if j := strings.IndexByte(op, '.'); j >= 0 {
		op = op[j+1:]
	}
	return op
}

func runLinked(c *vlib.Ctx, i int, r *vlib.Rand) {
	s := &linkedRun{c: c}
	npool := r.Range(2, 3)
	for j := 0; j < npool; j++ {
		s.pool = append(s.pool, &lnk{id: j, l: list.NewLinkedList()})
	}
	s.t = s.pool[0]
	nops := r.Range(1, 60)
	if r.Chance(1, 4) {
		nops = r.Range(60, 400)
	}
	next := 0
	fresh := func() interface{} { // values are distinct across the lists of the pool
		next++
		// the element type is interface{}: nil, zero values and empty strings are elements like
		// any other (added after seeded change C13r7-3: Remove(node) took a node holding nil
		// for one that was "already removed")
		switch x := r.Intn(24); {
		case x == 0 || x == 1:
			c.Count("linked_nil_elements_added", 1)
			return nil
		case x == 2:
			return ""
		case x == 3:
			return 0
		case x == 4:
			return false
		}
		if r.Chance(1, 5) {
			return fmt.Sprintf("s%d", next)
		}
		return next
	}
	// bias: phases that grow and phases that drain, so that empty/one-element states recur
	drain := false
	for step := 0; step < nops && !s.dead; step++ {
		if r.Chance(1, 25) {
			drain = !drain
		}
		s.t = s.pool[0]
		if r.Chance(2, 5) {
			s.t = s.pool[r.Intn(len(s.pool))]
		}
		id := s.t.id
		n := len(s.t.m)
		op := r.Intn(100)
		if drain && op < 45 {
			op = 45 + r.Intn(40)
		}
		var p interface{}
		nlog := len(s.ops)
		switch {
		case op < 12:
			v := fresh()
			s.logf("K%d.AddFirst(%v)", id, v)
			p = vlib.Catch(func() { s.t.l.AddFirst(v) })
			s.t.m = append([]interface{}{v}, s.t.m...)
			c.SetAdd("linked_ops", "AddFirst")
		case op < 24:
			v := fresh()
			s.logf("K%d.AddLast(%v)", id, v)
			p = vlib.Catch(func() { s.t.l.AddLast(v) })
			s.t.m = append(s.t.m, v)
			c.SetAdd("linked_ops", "AddLast")
		case op < 30:
			v := fresh()
			s.logf("K%d.Add(%v)", id, v)
			var ok bool
			p = vlib.Catch(func() { ok = s.t.l.Add(v) })
			s.t.m = append(s.t.m, v)
			if p == nil && !ok {
				s.fail("Add", "wrong-value", "Add returned false")
			}
			c.SetAdd("linked_ops", "Add")
		case op < 45:
			if n == 0 {
				continue
			}
			k := r.Intn(n)
			if r.Chance(1, 4) {
				k = []int{0, n - 1}[r.Intn(2)]
			}
			node := s.nodeAt(k)
			if node == nil {
				break
			}
			v := fresh()
			s.logf("K%d.PutBefore(%v, node@%d)", id, v, k)
			var nn *list.LinkedListEntity
			p = vlib.Catch(func() { nn = s.t.l.PutBefore(v, node) })
			s.t.m = append(s.t.m[:k:k], append([]interface{}{v}, s.t.m[k:]...)...)
			if p == nil && (nn == nil || nn.Value != v) {
				s.fail("PutBefore", "wrong-value", fmt.Sprintf("PutBefore returned %v, not the node holding %v", entVal(nn), v))
			}
			c.SetAdd("linked_ops", "PutBefore")
		case op < 60:
			if n == 0 {
				continue
			}
			k := r.Intn(n)
			if r.Chance(1, 3) {
				k = []int{0, n - 1}[r.Intn(2)]
			}
			node := s.nodeAt(k)
			if node == nil {
				break
			}
			s.logf("K%d.Remove(node@%d)", id, k)
			var got interface{}
			p = vlib.Catch(func() { got = s.t.l.Remove(node) })
			want := s.t.m[k]
			s.t.m = append(s.t.m[:k:k], s.t.m[k+1:]...)
			if p == nil && got != want {
				s.fail("Remove", "wrong-value", fmt.Sprintf("Remove(node@%d) returned %v, the node held %v", k, got, want))
			}
			c.SetAdd("linked_ops", "Remove")
		case op < 72:
			s.logf("K%d.RemoveFirst()", id)
			var got interface{}
			p = vlib.Catch(func() { got = s.t.l.RemoveFirst() })
			var want interface{}
			if n > 0 {
				want = s.t.m[0]
				s.t.m = s.t.m[1:]
			} else {
				c.Count("linked_remove_on_empty", 1)
			}
			if p == nil && got != want {
				s.fail("RemoveFirst", "wrong-value", fmt.Sprintf("RemoveFirst returned %v, model says %v", got, want))
			}
			c.SetAdd("linked_ops", "RemoveFirst")
		case op < 84:
			s.logf("K%d.RemoveLast()", id)
			var got interface{}
			p = vlib.Catch(func() { got = s.t.l.RemoveLast() })
			var want interface{}
			if n > 0 {
				want = s.t.m[n-1]
				s.t.m = s.t.m[:n-1]
			} else {
				c.Count("linked_remove_on_empty", 1)
			}
			if p == nil && got != want {
				s.fail("RemoveLast", "wrong-value", fmt.Sprintf("RemoveLast returned %v, model says %v", got, want))
			}
			c.SetAdd("linked_ops", "RemoveLast")
		case op < 87:
			s.logf("K%d.Clear()", id)
			p = vlib.Catch(func() { s.t.l.Clear() })
			s.t.m = nil
			c.SetAdd("linked_ops", "Clear")
		case op < 90: // an invalid argument (a nil node) is reported; the list is as it was and usable
			which := r.Intn(3)
			name := []string{"PutBefore", "Remove", "GetNext"}[which]
			if tooManyLeaks("LinkedList", name) {
				continue
			}
			s.logf("K%d.%s(nil node)", id, name)
			l := s.t.l
			v := fresh()
			pe := vlib.Catch(func() {
				switch which {
				case 0:
					l.PutBefore(v, nil)
				case 1:
					l.Remove(nil)
				default:
					l.GetNext(nil)
				}
			})
			c.SetAdd("linked_ops", name+"(nil)")
			if pe == nil {
				// accepted: what the list holds now is not stated anywhere; the program ends here
				c.Count("linked_nil_node_accepted", 1)
				s.dead = true
				break
			}
			c.Count("linked_error_reports", 1)
			sz := -1
			ok, pv := followUp(c, "LinkedList", name, fmt.Sprintf("K%d.Size()", id), func() { sz = l.Size() }, func() map[string]interface{} {
				return map[string]interface{}{"list": fmt.Sprintf("K%d", id), "ops": s.ops, "model": fmt.Sprint(s.t.m)}
			})
			if !ok {
				s.dead = true // every other method of this list takes the same mutex
				break
			}
			if pv != nil || sz != n {
				s.fail(name, "wrong-size", fmt.Sprintf("after %s(nil node) reported an error, Size() gave %d (panic: %v); the list has %d elements", name, sz, pv, n))
				s.dead = true
				break
			}
			if !s.verifyAll(name, true, "") {
				s.dead = true
			}
			c.Count("linked_op_count", 1)
			continue
		default:
			s.logf("K%d.ToArray()", id)
			if !s.verify("ToArray", true) {
				s.dead = true
				break
			}
			// the returned array stays under observation; writing to it changes no list
			var arr []interface{}
			p = vlib.Catch(func() { arr = s.t.l.ToArray() })
			if p == nil && len(arr) > 0 {
				h := &heldArr{from: id, arr: arr, want: append([]interface{}(nil), arr...)}
				s.helds = append(s.helds, h)
				if len(s.helds) > 4 {
					s.helds = s.helds[1:]
				}
				if r.Bool() {
					s.logf("scribble on the array returned by K%d.ToArray()", id)
					for j := range arr {
						arr[j] = "scribbled"
						h.want[j] = arr[j]
					}
					if !s.verifyAll("writing to an array returned by ToArray", true, "ToArray") {
						s.dead = true
					}
				}
				c.Count("linked_held_arrays", 1)
			}
			c.SetAdd("linked_ops", "ToArray")
		}
		if s.dead || len(s.ops) == nlog {
			break
		}
		name := opName(s.ops[nlog])
		if p != nil {
			s.fail(name, "panic", fmt.Sprintf("%s panicked: %v", s.ops[nlog], p))
			s.dead = true
			break
		}
		if !s.verifyAll(name, r.Chance(1, 3), "") {
			s.dead = true
		}
		c.Count("linked_op_count", 1)
		c.Max("max_linked_size", int64(len(s.t.m)))
	}
	if !s.dead {
		s.verifyAll("end", true, "")
	}
	c.Count("linked_programs", 1)
	c.SetAdd("types_covered", "LinkedList")
	c.Distinct(vlib.HashStr("linked" + fmt.Sprint(s.ops)))
	if wantSample(c, "linked") && len(s.ops) >= 6 && len(s.ops) <= 16 {
		tookSample("linked")
		final := map[string]string{}
		for _, p := range s.pool {
			final[fmt.Sprintf("K%d", p.id)] = fmt.Sprint(p.m)
		}
		c.Sample(map[string]interface{}{"kind": "linked", "ops": s.ops, "final": final})
	}
}
