package main

// LinkedList against a slice model (single goroutine).

import (
	"fmt"
	"reflect"
	"strings"
	"unsafe"

	"github.com/whatap/golib/util/list"

	"verif/vlib"
)

func prevOf(e *list.LinkedListEntity) *list.LinkedListEntity {
	f := reflect.ValueOf(e).Elem().FieldByName("prev")
	return *(**list.LinkedListEntity)(unsafe.Pointer(f.UnsafeAddr()))
}

type linkedRun struct {
	c    *vlib.Ctx
	l    *list.LinkedList
	m    []interface{}
	ops  []string
	dead bool
}

func (s *linkedRun) logf(format string, a ...interface{}) {
	s.ops = append(s.ops, fmt.Sprintf(format, a...))
}

func (s *linkedRun) fail(method, kindStr, msg string) {
	var actual []interface{}
	vlib.Catch(func() { actual = s.l.ToArray() })
	if len(actual) > 100 {
		actual = actual[:100]
	}
	m := s.m
	if len(m) > 100 {
		m = m[:100]
	}
	s.c.Fail("LinkedList."+method+":"+kindStr, msg, map[string]interface{}{
		"ops": s.ops, "model": fmt.Sprint(m), "actual": fmt.Sprint(actual), "actual_size": s.l.Size()})
}

// nodeAt walks k steps from the first node, checking the values passed on the way.
func (s *linkedRun) nodeAt(k int) *list.LinkedListEntity {
	e := s.l.GetFirst()
	for j := 0; j < k && e != nil; j++ {
		e = s.l.GetNext(e)
	}
	if e == nil {
		s.fail("GetNext", "wrong-size", fmt.Sprintf("forward walk ended before position %d of %d", k, len(s.m)))
		s.dead = true
		return nil
	}
	if e.Value != s.m[k] {
		s.fail("GetNext", "wrong-value", fmt.Sprintf("node at position %d holds %v, model says %v", k, e.Value, s.m[k]))
		s.dead = true
		return nil
	}
	return e
}

// verify checks size, ToArray, the forward chain, the backward chain and both ends.
func (s *linkedRun) verify(after string, full bool) bool {
	n := len(s.m)
	if sz := s.l.Size(); sz != n {
		s.fail(after, "wrong-size", fmt.Sprintf("after %s: Size()=%d, model has %d", after, sz, n))
		return false
	}
	f, la := s.l.GetFirst(), s.l.GetLast()
	if n == 0 {
		if f != nil || la != nil {
			s.fail(after, "wrong-value", fmt.Sprintf("after %s: empty list but GetFirst/GetLast are not nil", after))
			return false
		}
	} else {
		if f == nil || f.Value != s.m[0] {
			s.fail("GetFirst", "wrong-value", fmt.Sprintf("after %s: GetFirst is %v, model says %v", after, entVal(f), s.m[0]))
			return false
		}
		if la == nil || la.Value != s.m[n-1] {
			s.fail("GetLast", "wrong-value", fmt.Sprintf("after %s: GetLast is %v, model says %v", after, entVal(la), s.m[n-1]))
			return false
		}
	}
	if !full {
		return true
	}
	var arr []interface{}
	if p := vlib.Catch(func() { arr = s.l.ToArray() }); p != nil {
		s.fail("ToArray", "panic", fmt.Sprintf("ToArray panicked after %s: %v", after, p))
		return false
	}
	if len(arr) != n {
		s.fail("ToArray", "wrong-size", fmt.Sprintf("after %s: len(ToArray())=%d, model has %d", after, len(arr), n))
		return false
	}
	for i := range arr {
		if arr[i] != s.m[i] {
			s.fail(after, "wrong-value", fmt.Sprintf("after %s: ToArray()[%d]=%v, model says %v", after, i, arr[i], s.m[i]))
			return false
		}
	}
	// forward chain: exactly n nodes, then nil
	e := f
	for i := 0; i < n; i++ {
		if e == nil || e.Value != s.m[i] {
			s.fail("GetNext", "wrong-value", fmt.Sprintf("after %s: forward chain position %d is %v, model says %v", after, i, entVal(e), s.m[i]))
			return false
		}
		e = s.l.GetNext(e)
	}
	if e != nil {
		s.fail("GetNext", "wrong-size", fmt.Sprintf("after %s: forward chain continues past %d nodes", after, n))
		return false
	}
	// backward chain through the private prev pointers
	e = la
	for i := n - 1; i >= 0; i-- {
		if e == nil || e.Value != s.m[i] {
			s.fail(after, "wrong-value", fmt.Sprintf("after %s: backward chain position %d is %v, model says %v", after, i, entVal(e), s.m[i]))
			return false
		}
		e = prevOf(e)
	}
	if e != nil {
		s.fail(after, "wrong-size", fmt.Sprintf("after %s: backward chain continues past %d nodes", after, n))
		return false
	}
	// textual form: the elements in order
	parts := make([]string, n)
	for i, v := range s.m {
		parts[i] = fmt.Sprint(v)
	}
	if ts := s.l.ToString(); ts != strings.Join(parts, ",") {
		s.fail("ToString", "wrong-value", fmt.Sprintf("after %s: ToString()=%q, model says %q", after, ts, strings.Join(parts, ",")))
		return false
	}
	return true
}

func entVal(e *list.LinkedListEntity) interface{} {
	if e == nil {
		return "<nil node>"
	}
	return e.Value
}

func runLinked(c *vlib.Ctx, i int, r *vlib.Rand) {
	s := &linkedRun{c: c, l: list.NewLinkedList()}
	nops := r.Range(1, 60)
	if r.Chance(1, 4) {
		nops = r.Range(60, 400)
	}
	next := 0
	fresh := func() interface{} {
		next++
		if r.Chance(1, 5) {
			return fmt.Sprintf("s%d", next)
		}
		return next
	}
	// bias: phases that grow and phases that drain, so that empty/one-element states recur
	drain := false
	for step := 0; step < nops && !s.dead; step++ {
		if r.Chance(1, 25) {
			drain = !drain
		}
		n := len(s.m)
		op := r.Intn(100)
		if drain && op < 45 {
			op = 45 + r.Intn(40)
		}
		var p interface{}
		switch {
		case op < 12:
			v := fresh()
			s.logf("AddFirst(%v)", v)
			p = vlib.Catch(func() { s.l.AddFirst(v) })
			s.m = append([]interface{}{v}, s.m...)
			c.SetAdd("linked_ops", "AddFirst")
		case op < 24:
			v := fresh()
			s.logf("AddLast(%v)", v)
			p = vlib.Catch(func() { s.l.AddLast(v) })
			s.m = append(s.m, v)
			c.SetAdd("linked_ops", "AddLast")
		case op < 30:
			v := fresh()
			s.logf("Add(%v)", v)
			var ok bool
			p = vlib.Catch(func() { ok = s.l.Add(v) })
			s.m = append(s.m, v)
			if p == nil && !ok {
				s.fail("Add", "wrong-value", "Add returned false")
			}
			c.SetAdd("linked_ops", "Add")
		case op < 45:
			if n == 0 {
				continue
			}
			k := r.Intn(n)
			if r.Chance(1, 4) {
				k = []int{0, n - 1}[r.Intn(2)]
			}
			node := s.nodeAt(k)
			if node == nil {
				break
			}
			v := fresh()
			s.logf("PutBefore(%v, node@%d)", v, k)
			var nn *list.LinkedListEntity
			p = vlib.Catch(func() { nn = s.l.PutBefore(v, node) })
			s.m = append(s.m[:k], append([]interface{}{v}, s.m[k:]...)...)
			if p == nil && (nn == nil || nn.Value != v) {
				s.fail("PutBefore", "wrong-value", fmt.Sprintf("PutBefore returned %v, not the node holding %v", entVal(nn), v))
			}
			c.SetAdd("linked_ops", "PutBefore")
		case op < 60:
			if n == 0 {
				continue
			}
			k := r.Intn(n)
			if r.Chance(1, 3) {
				k = []int{0, n - 1}[r.Intn(2)]
			}
			node := s.nodeAt(k)
			if node == nil {
				break
			}
			s.logf("Remove(node@%d)", k)
			var got interface{}
			p = vlib.Catch(func() { got = s.l.Remove(node) })
			want := s.m[k]
			s.m = append(s.m[:k:k], s.m[k+1:]...)
			if p == nil && got != want {
				s.fail("Remove", "wrong-value", fmt.Sprintf("Remove(node@%d) returned %v, the node held %v", k, got, want))
			}
			c.SetAdd("linked_ops", "Remove")
		case op < 72:
			s.logf("RemoveFirst()")
			var got interface{}
			p = vlib.Catch(func() { got = s.l.RemoveFirst() })
			var want interface{}
			if n > 0 {
				want = s.m[0]
				s.m = s.m[1:]
			} else {
				c.Count("linked_remove_on_empty", 1)
			}
			if p == nil && got != want {
				s.fail("RemoveFirst", "wrong-value", fmt.Sprintf("RemoveFirst returned %v, model says %v", got, want))
			}
			c.SetAdd("linked_ops", "RemoveFirst")
		case op < 84:
			s.logf("RemoveLast()")
			var got interface{}
			p = vlib.Catch(func() { got = s.l.RemoveLast() })
			var want interface{}
			if n > 0 {
				want = s.m[n-1]
				s.m = s.m[:n-1]
			} else {
				c.Count("linked_remove_on_empty", 1)
			}
			if p == nil && got != want {
				s.fail("RemoveLast", "wrong-value", fmt.Sprintf("RemoveLast returned %v, model says %v", got, want))
			}
			c.SetAdd("linked_ops", "RemoveLast")
		case op < 87:
			s.logf("Clear()")
			p = vlib.Catch(func() { s.l.Clear() })
			s.m = nil
			c.SetAdd("linked_ops", "Clear")
		default:
			s.logf("ToArray()")
			if !s.verify("ToArray", true) {
				s.dead = true
			}
			c.SetAdd("linked_ops", "ToArray")
		}
		if s.dead || len(s.ops) == 0 {
			break
		}
		if p != nil {
			name := s.ops[len(s.ops)-1]
			if j := strings.IndexByte(name, '('); j > 0 {
				name = name[:j]
			}
			s.fail(name, "panic", fmt.Sprintf("%s panicked: %v", s.ops[len(s.ops)-1], p))
			s.dead = true
			break
		}
		name := s.ops[len(s.ops)-1]
		if j := strings.IndexByte(name, '('); j > 0 {
			name = name[:j]
		}
		if !s.dead && !s.verify(name, r.Chance(1, 3)) {
			s.dead = true
		}
		c.Count("linked_op_count", 1)
		c.Max("max_linked_size", int64(len(s.m)))
	}
	if !s.dead {
		s.verify("end", true)
	}
	c.Count("linked_programs", 1)
	c.SetAdd("types_covered", "LinkedList")
	c.Distinct(vlib.HashStr("linked" + fmt.Sprint(s.ops)))
	if wantSample(c, "linked") && len(s.ops) >= 6 && len(s.ops) <= 16 {
		tookSample("linked")
		c.Sample(map[string]interface{}{"kind": "linked", "ops": s.ops, "final": fmt.Sprint(s.m)})
	}
}
