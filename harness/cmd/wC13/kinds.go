package main

// Per-type descriptions of the five growable typed lists. Everything the oracles need
// about a type (how to draw a value, exact equality, exact order, the reference element
// codec) is written here from the property text and the wire layout, not taken from golib.

import (
	"fmt"
	"math"
	"reflect"
	"regexp"
	"strconv"

	"github.com/whatap/golib/lang/value"
	"github.com/whatap/golib/util/list"

	"verif/refcodec"
	"verif/vlib"
)

// tlist is the method set shared by the five concrete list types (L is the pointer type
// itself, e.g. *list.IntList, because AddAll takes the same concrete type).
type tlist[T any, L any] interface {
	list.AnyList
	AddAll(L)
	AddAllArray([]T)
	ToArray() []T
}

type kind[T any, L tlist[T, L]] struct {
	name   string // "IntList"
	short  string // "Int"
	typ    byte   // type code of the wire form (layout: 1 int, 2 long, 3 float, 4 double, 5 string)
	newDef func() L
	newCap func(int) L
	zero   func() L // zero-value struct (backing array nil)
	add    func(L, T)
	set    func(L, int, T)
	get    func(L, int) T
	as     func(list.AnyList) (L, bool)
	eq     func(a, b T) bool // floats by bits
	cmp    func(a, b T) int  // exact order: numbers by value, strings by byte order
	show   func(T) string
	draw   func(r *vlib.Rand) T // boundary-biased, NaN-free
	// drawSafe: like draw, but integers stay below 2^52 in magnitude (exact as float64)
	drawSafe func(r *vlib.Rand) T
	enc      func(w *refcodec.W, v T)
	// dblTie: a != b but both convert to the same float64 (only possible for int/long
	// beyond 2^53): the input class of the child comparison through GetDouble.
	dblTie func(a, b T) bool
	// acceptSmall: after Add<via>(k) / Set<via>(i,k) of the small integer k the stored
	// element is the T representation of k.
	acceptSmall func(actual T, k int, via int) bool
	// smallOf: the element is a small integer (exactly representable in every numeric
	// type); intOK tells whether the integer getters are defined for its stored form.
	smallOf func(v T) (k int, intOK bool, ok bool)
	// exactGetters: the lossless accessors for an arbitrary element; returns method, message.
	exactGetters func(l L, i int, v T) (string, string)
}

const (
	viaInt = iota
	viaLong
	viaFloat
	viaDouble
	viaString
)

var viaNames = []string{"Int", "Long", "Float", "Double", "String"}

const smallLimit = 1 << 24 // integers up to here are exact in float32

func clipStr(s string) string {
	if len(s) > 48 {
		return fmt.Sprintf("%s…(%d bytes)", strconv.Quote(s[:48]), len(s))
	}
	return strconv.Quote(s)
}

func cmpOrdered[T int | int64 | float32 | float64 | string](a, b T) int {
	switch {
	case a < b:
		return -1
	case a > b:
		return 1
	}
	return 0
}

func isSmallF(f float64) (int, bool) {
	if f != math.Trunc(f) || math.Abs(f) > smallLimit {
		return 0, false
	}
	return int(f), true
}

var canonInt = regexp.MustCompile(`^(0|-?[1-9][0-9]{0,8})$`)

func drawInt(r *vlib.Rand) int {
	if r.Bool() {
		return int(r.I32())
	}
	return int(r.I64())
}

func drawString(r *vlib.Rand) string {
	switch r.Intn(8) {
	case 0:
		return strconv.Itoa(r.Range(-300, 300))
	case 1:
		return strconv.FormatFloat(float64(r.Range(-4000, 4000))/8, 'f', -1, 64)
	default:
		return r.Str(300)
	}
}

var kInt = &kind[int, *list.IntList]{
	name: "IntList", short: "Int", typ: 1,
	newDef: list.NewIntListDefault, newCap: list.NewIntList, zero: func() *list.IntList { return new(list.IntList) },
	add: func(l *list.IntList, v int) { l.AddInt(v) },
	set: func(l *list.IntList, i int, v int) { l.SetInt(i, v) },
	get: func(l *list.IntList, i int) int { return l.GetInt(i) },
	as:  func(a list.AnyList) (*list.IntList, bool) { l, ok := a.(*list.IntList); return l, ok },
	eq:  func(a, b int) bool { return a == b }, cmp: cmpOrdered[int],
	show: func(v int) string { return strconv.Itoa(v) },
	draw: drawInt, drawSafe: func(r *vlib.Rand) int { return int(r.I32()) },
	enc:         func(w *refcodec.W, v int) { w.Decimal(int64(v)) },
	dblTie:      func(a, b int) bool { return a != b && float64(a) == float64(b) },
	acceptSmall: func(actual int, k int, via int) bool { return actual == k },
	smallOf: func(v int) (int, bool, bool) {
		if v > smallLimit || v < -smallLimit {
			return 0, false, false
		}
		return v, true, true
	},
	exactGetters: func(l *list.IntList, i int, v int) (string, string) {
		if g := l.GetLong(i); g != int64(v) {
			return "GetLong", fmt.Sprintf("GetLong(%d)=%d, element is %d", i, g, v)
		}
		if s := l.GetString(i); s != strconv.FormatInt(int64(v), 10) {
			return "GetString", fmt.Sprintf("GetString(%d)=%q, element is %d", i, s, v)
		}
		if dv, ok := l.GetValue(i).(*value.DecimalValue); !ok || dv.Val != int64(v) {
			return "GetValue", fmt.Sprintf("GetValue(%d)=%#v, element is %d", i, l.GetValue(i), v)
		}
		return "", ""
	},
}

var kLong = &kind[int64, *list.LongList]{
	name: "LongList", short: "Long", typ: 2,
	newDef: list.NewLongListDefault, newCap: list.NewLongList, zero: func() *list.LongList { return new(list.LongList) },
	add: func(l *list.LongList, v int64) { l.AddLong(v) },
	set: func(l *list.LongList, i int, v int64) { l.SetLong(i, v) },
	get: func(l *list.LongList, i int) int64 { return l.GetLong(i) },
	as:  func(a list.AnyList) (*list.LongList, bool) { l, ok := a.(*list.LongList); return l, ok },
	eq:  func(a, b int64) bool { return a == b }, cmp: cmpOrdered[int64],
	show: func(v int64) string { return strconv.FormatInt(v, 10) },
	draw: func(r *vlib.Rand) int64 { return r.I64() }, drawSafe: func(r *vlib.Rand) int64 { return r.I64() >> 12 },
	enc:         func(w *refcodec.W, v int64) { w.Decimal(v) },
	dblTie:      func(a, b int64) bool { return a != b && float64(a) == float64(b) },
	acceptSmall: func(actual int64, k int, via int) bool { return actual == int64(k) },
	smallOf: func(v int64) (int, bool, bool) {
		if v > smallLimit || v < -smallLimit {
			return 0, false, false
		}
		return int(v), true, true
	},
	exactGetters: func(l *list.LongList, i int, v int64) (string, string) {
		if g := l.GetInt(i); int64(g) != v { // int is 64 bits wide on this platform
			return "GetInt", fmt.Sprintf("GetInt(%d)=%d, element is %d", i, g, v)
		}
		if s := l.GetString(i); s != strconv.FormatInt(v, 10) {
			return "GetString", fmt.Sprintf("GetString(%d)=%q, element is %d", i, s, v)
		}
		if dv, ok := l.GetValue(i).(*value.DecimalValue); !ok || dv.Val != v {
			return "GetValue", fmt.Sprintf("GetValue(%d)=%#v, element is %d", i, l.GetValue(i), v)
		}
		return "", ""
	},
}

var kFloat = &kind[float32, *list.FloatList]{
	name: "FloatList", short: "Float", typ: 3,
	newDef: list.NewFloatListDefault, newCap: list.NewFloatList, zero: func() *list.FloatList { return new(list.FloatList) },
	add: func(l *list.FloatList, v float32) { l.AddFloat(v) },
	set: func(l *list.FloatList, i int, v float32) { l.SetFloat(i, v) },
	get: func(l *list.FloatList, i int) float32 { return l.GetFloat(i) },
	as:  func(a list.AnyList) (*list.FloatList, bool) { l, ok := a.(*list.FloatList); return l, ok },
	eq:  func(a, b float32) bool { return math.Float32bits(a) == math.Float32bits(b) }, cmp: cmpOrdered[float32],
	show: func(v float32) string { return fmt.Sprintf("%g(0x%08x)", v, math.Float32bits(v)) },
	draw: func(r *vlib.Rand) float32 { return r.F32NoNaN() }, drawSafe: func(r *vlib.Rand) float32 { return r.F32NoNaN() },
	enc:    func(w *refcodec.W, v float32) { w.F32(v) },
	dblTie: func(a, b float32) bool { return false },
	acceptSmall: func(actual float32, k int, via int) bool {
		return math.Float32bits(actual) == math.Float32bits(float32(k))
	},
	smallOf: func(v float32) (int, bool, bool) {
		k, ok := isSmallF(float64(v))
		return k, ok, ok
	},
	exactGetters: func(l *list.FloatList, i int, v float32) (string, string) {
		if g := l.GetDouble(i); math.Float64bits(g) != math.Float64bits(float64(v)) {
			return "GetDouble", fmt.Sprintf("GetDouble(%d)=%g, element is %g", i, g, v)
		}
		if fv, ok := l.GetValue(i).(*value.FloatValue); !ok || math.Float32bits(fv.Val) != math.Float32bits(v) {
			return "GetValue", fmt.Sprintf("GetValue(%d)=%#v, element is %g", i, l.GetValue(i), v)
		}
		return "", ""
	},
}

var kDouble = &kind[float64, *list.DoubleList]{
	name: "DoubleList", short: "Double", typ: 4,
	newDef: list.NewDoubleListDefault, newCap: list.NewDoubleList, zero: func() *list.DoubleList { return new(list.DoubleList) },
	add: func(l *list.DoubleList, v float64) { l.AddDouble(v) },
	set: func(l *list.DoubleList, i int, v float64) { l.SetDouble(i, v) },
	get: func(l *list.DoubleList, i int) float64 { return l.GetDouble(i) },
	as:  func(a list.AnyList) (*list.DoubleList, bool) { l, ok := a.(*list.DoubleList); return l, ok },
	eq:  func(a, b float64) bool { return math.Float64bits(a) == math.Float64bits(b) }, cmp: cmpOrdered[float64],
	show: func(v float64) string { return fmt.Sprintf("%g(0x%016x)", v, math.Float64bits(v)) },
	draw: func(r *vlib.Rand) float64 { return r.F64NoNaN() }, drawSafe: func(r *vlib.Rand) float64 { return r.F64NoNaN() },
	enc:    func(w *refcodec.W, v float64) { w.F64(v) },
	dblTie: func(a, b float64) bool { return false },
	acceptSmall: func(actual float64, k int, via int) bool {
		return math.Float64bits(actual) == math.Float64bits(float64(k))
	},
	smallOf: func(v float64) (int, bool, bool) {
		k, ok := isSmallF(v)
		return k, ok, ok
	},
	exactGetters: func(l *list.DoubleList, i int, v float64) (string, string) {
		if dv, ok := l.GetValue(i).(*value.DoubleValue); !ok || math.Float64bits(dv.Val) != math.Float64bits(v) {
			return "GetValue", fmt.Sprintf("GetValue(%d)=%#v, element is %g", i, l.GetValue(i), v)
		}
		return "", ""
	},
}

var kString = &kind[string, *list.StringList]{
	name: "StringList", short: "String", typ: 5,
	newDef: list.NewStringListDefault, newCap: list.NewStringList, zero: func() *list.StringList { return new(list.StringList) },
	add: func(l *list.StringList, v string) { l.AddString(v) },
	set: func(l *list.StringList, i int, v string) { l.SetString(i, v) },
	get: func(l *list.StringList, i int) string { return l.GetString(i) },
	as:  func(a list.AnyList) (*list.StringList, bool) { l, ok := a.(*list.StringList); return l, ok },
	eq:  func(a, b string) bool { return a == b }, cmp: cmpOrdered[string],
	show: clipStr,
	draw: drawString, drawSafe: drawString,
	enc:    func(w *refcodec.W, v string) { w.Text(v) },
	dblTie: func(a, b string) bool { return false },
	acceptSmall: func(actual string, k int, via int) bool {
		switch via {
		case viaString:
			return actual == strconv.Itoa(k)
		case viaInt, viaLong:
			n, err := strconv.ParseInt(actual, 10, 64)
			return err == nil && n == int64(k)
		default:
			f, err := strconv.ParseFloat(actual, 64)
			return err == nil && f == float64(k)
		}
	},
	smallOf: func(v string) (int, bool, bool) {
		if canonInt.MatchString(v) {
			n, _ := strconv.Atoi(v)
			if n <= smallLimit && n >= -smallLimit {
				return n, true, true
			}
			return 0, false, false
		}
		if len(v) == 0 || len(v) > 24 {
			return 0, false, false
		}
		// plain fixed-point decimals only ("5.000000"), nothing exotic
		for i := 0; i < len(v); i++ {
			ch := v[i]
			if !(ch >= '0' && ch <= '9' || ch == '.' || (ch == '-' && i == 0)) {
				return 0, false, false
			}
		}
		f, err := strconv.ParseFloat(v, 64)
		if err != nil {
			return 0, false, false
		}
		k, ok := isSmallF(f)
		return k, false, ok
	},
	exactGetters: func(l *list.StringList, i int, v string) (string, string) {
		if tv, ok := l.GetValue(i).(*value.TextValue); !ok || tv.Val != v {
			return "GetValue", fmt.Sprintf("GetValue(%d)=%#v, element is %s", i, l.GetValue(i), clipStr(v))
		}
		return "", ""
	},
}

// ---- private state read with reflect (Len/IsNil are legal on unexported fields) ---------

// tableLen returns len(table) of a typed list and whether the backing array is nil.
func tableLen(l interface{}) (int, bool) {
	f := reflect.ValueOf(l).Elem().FieldByName("table")
	if !f.IsValid() {
		return -1, false
	}
	return f.Len(), f.IsNil()
}

func showAll[T any](show func(T) string, m []T) []string {
	n := len(m)
	if n > 80 {
		n = 80
	}
	out := make([]string, 0, n+1)
	for i := 0; i < n; i++ {
		out = append(out, show(m[i]))
	}
	if len(m) > n {
		out = append(out, fmt.Sprintf("…(%d elements)", len(m)))
	}
	return out
}
