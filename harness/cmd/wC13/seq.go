package main

// Sequence model: random operation programs on a small POOL of live typed lists of one
// element type, each list against its own plain Go slice. Operations pick a target list and,
// where they take or produce another sequence (AddAll, AddAllArray, Filtering, Sorting +
// Filtering, ToArray, Write/Read), a source from the pool; every derived list joins the pool.
// After EVERY mutation ALL lists of the pool are compared with their models, and so are all
// arrays that were handed out by or passed into the library earlier (ToArray results, index
// slices, AddAllArray arguments, wire byte slices): distinct lists are independent sequences.

import (
	"bytes"
	"fmt"
	"math"
	"strconv"

	"github.com/whatap/golib/io"
	"github.com/whatap/golib/util/list"

	"verif/vlib"
)

var canary = []byte{0xC1, 0x3C, 0xA5}

const (
	maxPool  = 6   // live lists under observation in one program
	maxHeld  = 8   // arrays / byte slices under observation in one program
	maxJoint = 600 // bulk adds from pool sources keep target+source below this size
)

// plist is one live list of the pool together with its model.
type plist[T any, L tlist[T, L]] struct {
	id   int
	l    L
	m    []T
	ctor string
}

// held is an array or byte slice that crossed the library boundary earlier (returned by it
// or passed into it). It must keep its contents whatever happens to the lists later, and
// writing to it must not change any list.
type held struct {
	origin   string // the method that handed it out / took it: the key of an aliasing report
	desc     string
	check    func() string // "" while the contents are what they were
	scribble func()        // overwrite the contents (the expectation follows)
}

// seqRun is the state of one sequence case.
type seqRun[T any, L tlist[T, L]] struct {
	c       *vlib.Ctx
	k       *kind[T, L]
	r       *vlib.Rand
	pool    []*plist[T, L]
	t       *plist[T, L] // target of the current operation
	helds   []*held
	links   map[[2]int]string // pair of list ids → the operation that last related them
	nextID  int
	ops     []string
	mutated bool   // the current step changed (or may have changed) some list
	last    string // method of the last mutation
	dead    bool   // some list's state is unknown after a failed mutator: stop the program
}

func pairOf(a, b int) [2]int {
	if a > b {
		a, b = b, a
	}
	return [2]int{a, b}
}

func (s *seqRun[T, L]) logf(format string, a ...interface{}) {
	s.ops = append(s.ops, fmt.Sprintf(format, a...))
}

func (s *seqRun[T, L]) fail(method, kindStr, msg string) {
	s.c.Fail(s.k.name+"."+method+":"+kindStr, msg, s.detail())
}

// detail: the program so far and every list of the pool (model and actual contents).
func (s *seqRun[T, L]) detail() map[string]interface{} {
	pool := make([]map[string]interface{}, 0, len(s.pool))
	for _, p := range s.pool {
		var actual []string
		sz := -1
		vlib.Catch(func() { sz = p.l.Size(); actual = showAll(s.k.show, p.l.ToArray()) })
		tl, _ := tableLen(p.l)
		pool = append(pool, map[string]interface{}{"list": fmt.Sprintf("L%d", p.id), "constructor": p.ctor,
			"model": showAll(s.k.show, p.m), "actual_size": sz, "actual": actual, "backing_len": tl})
	}
	target := ""
	if s.t != nil {
		target = fmt.Sprintf("L%d", s.t.id)
	}
	return map[string]interface{}{"list": s.k.name, "ops": s.ops, "target": target, "pool": pool}
}

// construct builds an empty list with one of the constructors.
func (s *seqRun[T, L]) construct(ctorIdx int) (L, string) {
	k := s.k
	switch ctorIdx {
	case 0:
		return k.newDef(), "Default"
	case 1:
		return k.newCap(0), "cap 0"
	case 2:
		return k.newCap(1), "cap 1"
	case 3:
		return k.newCap(10), "cap 10"
	case 4:
		return k.newCap(30), "cap 30"
	case 5:
		return k.zero(), "zero-value struct"
	case 6:
		n := s.r.Range(2, 70)
		return k.newCap(n), fmt.Sprintf("cap %d (other)", n)
	}
	return k.newCap(10), "cap 10"
}

func (s *seqRun[T, L]) indexOf(p *plist[T, L]) int {
	for j, q := range s.pool {
		if q == p {
			return j
		}
	}
	return -1
}

// join puts a list under observation. A full pool drops one list that is neither the
// primary list (index 0) nor the current target.
func (s *seqRun[T, L]) join(l L, m []T, ctor string) *plist[T, L] {
	p := &plist[T, L]{id: s.nextID, l: l, m: m, ctor: ctor}
	s.nextID++
	s.c.Count("pool_lists", 1)
	if len(s.pool) < maxPool {
		s.pool = append(s.pool, p)
		return p
	}
	ti := s.indexOf(s.t)
	j := 1 + s.r.Intn(len(s.pool)-1)
	if j == ti {
		j = 1 + j%(len(s.pool)-1)
	}
	s.pool[j] = p
	return p
}

func (s *seqRun[T, L]) hold(h *held) {
	s.helds = append(s.helds, h)
	if len(s.helds) > maxHeld {
		s.helds = s.helds[1:]
	}
	s.c.Count("held_arrays", 1)
	s.c.SetAdd("held_array_origins", h.origin)
}

func (s *seqRun[T, L]) holdVals(origin, desc string, arr []T) {
	if len(arr) == 0 {
		return
	}
	k, r := s.k, s.r
	want := append([]T(nil), arr...)
	s.hold(&held{origin: origin, desc: desc,
		check: func() string {
			for j := range want {
				if !k.eq(arr[j], want[j]) {
					return fmt.Sprintf("element %d is now %s, it was %s", j, k.show(arr[j]), k.show(want[j]))
				}
			}
			return ""
		},
		scribble: func() {
			for j := range arr {
				arr[j] = k.draw(r)
				want[j] = arr[j]
			}
		}})
}

func (s *seqRun[T, L]) holdInts(origin, desc string, arr []int) {
	if len(arr) == 0 {
		return
	}
	r := s.r
	want := append([]int(nil), arr...)
	s.hold(&held{origin: origin, desc: desc,
		check: func() string {
			for j := range want {
				if arr[j] != want[j] {
					return fmt.Sprintf("index %d is now %d, it was %d", j, arr[j], want[j])
				}
			}
			return ""
		},
		scribble: func() {
			for j := range arr {
				arr[j] = int(r.I32())
				want[j] = arr[j]
			}
		}})
}

func (s *seqRun[T, L]) holdBytes(origin, desc string, b []byte) {
	if len(b) == 0 {
		return
	}
	r := s.r
	want := append([]byte(nil), b...)
	s.hold(&held{origin: origin, desc: desc,
		check: func() string {
			for j := range want {
				if b[j] != want[j] {
					return fmt.Sprintf("byte %d is now %02x, it was %02x", j, b[j], want[j])
				}
			}
			return ""
		},
		scribble: func() {
			for j := range b {
				b[j] ^= byte(1 + r.Intn(255))
				want[j] = b[j]
			}
		}})
}

// relation: the operation that related list b to the target a, directly or through a chain
// of earlier lists (the operation on the last edge of the chain, the one that produced or
// fed b); "" when nothing relates them.
func (s *seqRun[T, L]) relation(a, b int) string {
	if op := s.links[pairOf(a, b)]; op != "" {
		return op
	}
	seen := map[int]bool{a: true}
	queue := []int{a}
	for len(queue) > 0 {
		x := queue[0]
		queue = queue[1:]
		// deterministic order: ids ascending
		for y := 0; y < s.nextID; y++ {
			if seen[y] {
				continue
			}
			op := s.links[pairOf(x, y)]
			if op == "" {
				continue
			}
			if y == b {
				return op
			}
			seen[y] = true
			queue = append(queue, y)
		}
	}
	return ""
}

// diff compares one list with its model: size, ToArray, every element.
func (s *seqRun[T, L]) diff(p *plist[T, L]) (method, kindStr, msg string) {
	if sz := p.l.Size(); sz != len(p.m) {
		return "", "wrong-size", fmt.Sprintf("L%d: Size()=%d, model has %d elements", p.id, sz, len(p.m))
	}
	var arr []T
	if pn := vlib.Catch(func() { arr = p.l.ToArray() }); pn != nil {
		return "ToArray", "panic", fmt.Sprintf("L%d: ToArray panicked: %v", p.id, pn)
	}
	if len(arr) != len(p.m) {
		return "ToArray", "wrong-size", fmt.Sprintf("L%d: len(ToArray())=%d, model has %d", p.id, len(arr), len(p.m))
	}
	for i := range arr {
		if !s.k.eq(arr[i], p.m[i]) {
			return "", "wrong-value", fmt.Sprintf("L%d: element %d is %s, model says %s", p.id, i, s.k.show(arr[i]), s.k.show(p.m[i]))
		}
	}
	return "", "", ""
}

// verify compares the TARGET list with its model.
func (s *seqRun[T, L]) verify(after string) bool {
	method, kd, msg := s.diff(s.t)
	if kd == "" {
		return true
	}
	if method == "" {
		method = after
	}
	s.fail(method, kd, "after "+after+": "+msg)
	return false
}

// verifyAll compares EVERY list of the pool and every held array with its model. A
// difference in the target is the operation's own fault; a difference anywhere else means
// two sequences are not independent: it is keyed by the operation that related the two lists
// (blame, or the recorded link) with kind "aliased", or by the mutator with kind
// "changed-other-list" when nothing relates them.
func (s *seqRun[T, L]) verifyAll(after, blame string) bool {
	s.c.Count("pool_verifications", 1)
	for _, p := range s.pool {
		s.c.Count("lists_verified", 1)
		method, kd, msg := s.diff(p)
		if kd == "" {
			continue
		}
		switch {
		case blame != "":
			s.fail(blame, "aliased", fmt.Sprintf("after %s: %s", after, msg))
		case p == s.t:
			if method == "" {
				method = after
			}
			s.fail(method, kd, "after "+after+": "+msg)
		default:
			if link := s.relation(s.t.id, p.id); link != "" {
				s.fail(link, "aliased", fmt.Sprintf("after %s on L%d the list L%d, which this operation does not touch (the two were related by an earlier %s), changed: %s", after, s.t.id, p.id, link, msg))
			} else {
				s.fail(after, "changed-other-list", fmt.Sprintf("after %s on L%d the list L%d, which this operation does not touch, changed: %s", after, s.t.id, p.id, msg))
			}
		}
		s.dead = true
		return false
	}
	for _, h := range s.helds {
		s.c.Count("held_arrays_verified", 1)
		if msg := h.check(); msg != "" {
			s.fail(h.origin, "aliased", fmt.Sprintf("after %s on L%d, %s changed: %s", after, s.t.id, h.desc, msg))
			s.dead = true
			return false
		}
	}
	return true
}

func (s *seqRun[T, L]) noteCap() {
	if tl, _ := tableLen(s.t.l); tl >= 0 {
		if tl <= 256 {
			s.c.SetAdd("backing_lengths_seen", strconv.Itoa(tl))
		}
		s.c.Max("max_backing_length", int64(tl))
	}
}

// mutate runs a mutator of the target that must succeed; growth events are counted from the
// backing length.
func (s *seqRun[T, L]) mutate(method string, fn func()) bool {
	before, wasNil := tableLen(s.t.l)
	s.mutated, s.last = true, method
	if p := vlib.Catch(fn); p != nil {
		kindStr := "panic"
		if wasNil && (method == "AddAll" || method == "AddAllArray") {
			kindStr = "panic/nil-table"
		}
		s.fail(method, kindStr, fmt.Sprintf("%s panicked on a valid call: %v", method, p))
		s.dead = true
		return false
	}
	if after, _ := tableLen(s.t.l); after != before {
		s.c.Count("growth_events", 1)
		s.noteCap()
	}
	return true
}

func callAddVia(l list.AnyList, via, k int) {
	switch via {
	case viaInt:
		l.AddInt(k)
	case viaLong:
		l.AddLong(int64(k))
	case viaFloat:
		l.AddFloat(float32(k))
	case viaDouble:
		l.AddDouble(float64(k))
	default:
		l.AddString(strconv.Itoa(k))
	}
}

func callSetVia(l list.AnyList, via, i, k int) {
	switch via {
	case viaInt:
		l.SetInt(i, k)
	case viaLong:
		l.SetLong(i, int64(k))
	case viaFloat:
		l.SetFloat(i, float32(k))
	case viaDouble:
		l.SetDouble(i, float64(k))
	default:
		l.SetString(i, strconv.Itoa(k))
	}
}

func drawSmall(r *vlib.Rand) int {
	switch r.Intn(6) {
	case 0:
		return []int{0, 1, -1, smallLimit, -smallLimit, smallLimit - 1, 127, 128, -128, -129, 32767, 32768}[r.Intn(12)]
	default:
		return r.Range(-1000, 1000)
	}
}

// checkSmallGetters: the element is the small integer k, so every typed accessor must
// return k in its own type.
func checkSmallGetters(l list.AnyList, i, k int, intOK bool) (string, string) {
	if intOK {
		if g := l.GetInt(i); g != k {
			return "GetInt", fmt.Sprintf("GetInt(%d)=%d, element is %d", i, g, k)
		}
		if g := l.GetLong(i); g != int64(k) {
			return "GetLong", fmt.Sprintf("GetLong(%d)=%d, element is %d", i, g, k)
		}
	}
	if g := l.GetFloat(i); g != float32(k) {
		return "GetFloat", fmt.Sprintf("GetFloat(%d)=%g, element is %d", i, g, k)
	}
	if g := l.GetDouble(i); g != float64(k) {
		return "GetDouble", fmt.Sprintf("GetDouble(%d)=%g, element is %d", i, g, k)
	}
	s := l.GetString(i)
	if f, err := strconv.ParseFloat(s, 64); err != nil || f != float64(k) {
		return "GetString", fmt.Sprintf("GetString(%d)=%q does not denote the element %d", i, s, k)
	}
	return "", ""
}

// oorMethods are the accessors probed with out-of-range indices.
var oorMethods = []string{"GetInt", "GetLong", "GetFloat", "GetDouble", "GetString", "GetValue",
	"SetInt", "SetLong", "SetFloat", "SetDouble", "SetString"}

func callOOR(l list.AnyList, method string, idx int) (ret string) {
	switch method {
	case "GetInt":
		return fmt.Sprint(l.GetInt(idx))
	case "GetLong":
		return fmt.Sprint(l.GetLong(idx))
	case "GetFloat":
		return fmt.Sprint(l.GetFloat(idx))
	case "GetDouble":
		return fmt.Sprint(l.GetDouble(idx))
	case "GetString":
		return strconv.Quote(l.GetString(idx))
	case "GetValue":
		return fmt.Sprintf("%#v", l.GetValue(idx))
	case "SetInt":
		l.SetInt(idx, 7)
	case "SetLong":
		l.SetLong(idx, 7)
	case "SetFloat":
		l.SetFloat(idx, 7)
	case "SetDouble":
		l.SetDouble(idx, 7)
	case "SetString":
		l.SetString(idx, "7")
	}
	return "(stored 7)"
}

// probeOOR: an index outside [0,size) must be reported (the code's way of reporting is a
// panic), whether or not it falls inside the backing array's spare capacity.
func (s *seqRun[T, L]) probeOOR() {
	size := len(s.t.m)
	tl, _ := tableLen(s.t.l)
	var idx int
	switch s.r.Intn(10) {
	case 0, 1:
		idx = size // first slot past the end (inside the spare capacity when there is any)
	case 2, 3:
		if tl > size {
			idx = size + s.r.Intn(tl-size) // somewhere in the spare capacity
		} else {
			idx = size + s.r.Intn(4)
		}
	case 4:
		if tl > size {
			idx = tl - 1 // last spare slot
		} else {
			idx = size
		}
	case 5:
		idx = tl // first index past the backing array
		if idx < size {
			idx = size
		}
	case 6:
		idx = size + s.r.Range(1, 1000)
	case 7:
		idx = -1
	case 8:
		idx = -s.r.Range(1, 1000)
	default:
		idx = []int{math.MaxInt64, math.MinInt64, math.MaxInt32, math.MinInt32, size + 1}[s.r.Intn(5)]
	}
	method := oorMethods[s.r.Intn(len(oorMethods))]
	s.logf("L%d.%s(%d) [out of range: size %d, backing %d]", s.t.id, method, idx, size, tl)
	inSpare := idx >= size && idx < tl
	s.c.Count("oor_probes", 1)
	if inSpare {
		s.c.Count("oor_probes_in_spare_capacity", 1)
	}
	if idx < 0 {
		s.c.Count("oor_probes_negative", 1)
	}
	var ret string
	p := vlib.Catch(func() { ret = callOOR(s.t.l, method, idx) })
	if p == nil {
		kindStr := "wrong-value"
		if inSpare {
			kindStr = "stale-slot"
		}
		s.fail(method, kindStr, fmt.Sprintf("%s(%d) on a list of size %d (backing length %d) did not report the index; it returned %s", method, idx, size, tl, ret))
		return
	}
	// a rejected call must leave this list and all others as they were, and usable
	if s.verifyAll(method, "") {
		s.usable(method, s.t)
	}
}

// wire: the target is written, the bytes must be the reference encoding, and the list read
// back from them joins the pool: it must be independent of the list that was written and of
// the byte slice it was read from.
func (s *seqRun[T, L]) wire() {
	k, src := s.k, s.t
	s.logf("L%d.Write; Read of the bytes gives L%d", src.id, s.nextID)
	out := io.NewDataOutputX()
	if p := vlib.Catch(func() { src.l.Write(out) }); p != nil {
		s.fail("Write", "panic", fmt.Sprintf("Write panicked: %v", p))
		return
	}
	got := out.ToByteArray()
	want := refList(src.m, k.enc)
	if !bytes.Equal(got, want) {
		s.c.Fail(k.name+".Write:wire-bytes", fmt.Sprintf("Write of %d elements differs from the reference encoding", len(src.m)),
			map[string]interface{}{"list": k.name, "ops": s.ops, "model": showAll(k.show, src.m), "got": vlib.Hex(got), "want": vlib.Hex(want)})
		return
	}
	back, buf, ok := checkRead(s.c, k, want, src.m, s.ops)
	s.c.Count("wire_roundtrips", 1)
	if !ok {
		return
	}
	p := s.join(back, append([]T(nil), src.m...), fmt.Sprintf("Read(bytes written by L%d)", src.id))
	s.links[pairOf(src.id, p.id)] = "Read"
	s.holdBytes("Write", fmt.Sprintf("the byte slice produced by L%d.Write", src.id), got)
	s.holdBytes("Read", fmt.Sprintf("the byte slice L%d was read from", p.id), buf)
	s.c.Count("decoded_lists_joined", 1)
	if s.r.Bool() {
		s.logf("scribble on the byte slice L%d was read from", p.id)
		s.helds[len(s.helds)-1].scribble()
		s.verifyAll("writing to the byte slice a list was read from", "Read")
	}
	s.mutated = true
}

// checkRead decodes enc (followed by a canary) into a fresh list and compares with vals.
// It returns the decoded list and the byte slice the reader was given.
func checkRead[T any, L tlist[T, L]](c *vlib.Ctx, k *kind[T, L], enc []byte, vals []T, ops []string) (L, []byte, bool) {
	buf := append(append([]byte(nil), enc...), canary...)
	in := io.NewDataInputX(buf)
	back := k.newDef()
	detail := func() map[string]interface{} {
		return map[string]interface{}{"list": k.name, "ops": ops, "model": showAll(k.show, vals), "bytes": vlib.Hex(enc)}
	}
	if p := vlib.Catch(func() { back.Read(in) }); p != nil {
		c.Fail(k.name+".Read:panic", fmt.Sprintf("Read of a valid encoding panicked: %v", p), detail())
		return back, buf, false
	}
	if back.Size() != len(vals) {
		c.Fail(k.name+".Read:wire-roundtrip", fmt.Sprintf("Read gave %d elements, %d were written", back.Size(), len(vals)), detail())
		return back, buf, false
	}
	arr := back.ToArray()
	for i := range vals {
		if !k.eq(arr[i], vals[i]) {
			c.Fail(k.name+".Read:wire-roundtrip", fmt.Sprintf("element %d read back as %s, written %s", i, k.show(arr[i]), k.show(vals[i])), detail())
			return back, buf, false
		}
	}
	if av := in.Available(); av != int32(len(canary)) {
		c.Fail(k.name+".Read:wire-roundtrip", fmt.Sprintf("reader left %d bytes, the canary has %d: it did not consume exactly the encoding", av, len(canary)), detail())
		return back, buf, false
	}
	var rest []byte
	if p := vlib.Catch(func() { rest = in.ReadBytes(int32(len(canary))) }); p != nil || !bytes.Equal(rest, canary) {
		c.Fail(k.name+".Read:wire-roundtrip", fmt.Sprintf("canary after the encoding reads as %x", rest), detail())
		return back, buf, false
	}
	return back, buf, true
}

// scribbleList overwrites every element of l and appends one more; it returns the new model.
func scribbleList[T any, L tlist[T, L]](k *kind[T, L], l L, r *vlib.Rand) []T {
	n := l.Size()
	m := make([]T, 0, n+1)
	for i := 0; i < n; i++ {
		v := k.draw(r)
		k.set(l, i, v)
		m = append(m, v)
	}
	v := k.draw(r)
	k.add(l, v)
	return append(m, v)
}

// sameAs: the list holds exactly vals.
func sameAs[T any, L tlist[T, L]](k *kind[T, L], l L, vals []T) string {
	if l.Size() != len(vals) {
		return fmt.Sprintf("size is %d, expected %d", l.Size(), len(vals))
	}
	arr := l.ToArray()
	if len(arr) != len(vals) {
		return fmt.Sprintf("len(ToArray()) is %d, expected %d", len(arr), len(vals))
	}
	for i := range vals {
		if !k.eq(arr[i], vals[i]) {
			return fmt.Sprintf("element %d is %s, expected %s", i, k.show(arr[i]), k.show(vals[i]))
		}
	}
	return ""
}

// addAllSelf: the target appended to itself.
func (s *seqRun[T, L]) addAllSelf() {
	size := len(s.t.m)
	s.logf("L%d.AddAll(L%d) [itself]", s.t.id, s.t.id)
	s.c.Count("addall_self", 1)
	s.mutated, s.last = true, "AddAll"
	if p := vlib.Catch(func() { s.t.l.AddAll(s.t.l) }); p != nil {
		s.fail("AddAll", "panic/self-alias", fmt.Sprintf("l.AddAll(l) on a list of %d elements panicked: %v", size, p))
		s.dead = true
		return
	}
	s.t.m = append(s.t.m, s.t.m...)
	s.noteCap()
}

// pickOther returns a pool list other than the target (nil when there is none).
func (s *seqRun[T, L]) pickOther() *plist[T, L] {
	if len(s.pool) < 2 {
		return nil
	}
	ti := s.indexOf(s.t)
	j := s.r.Intn(len(s.pool) - 1)
	if j >= ti && ti >= 0 {
		j++
	}
	return s.pool[j]
}

// step: one operation on one target of the pool, then (after a mutation) the whole pool is verified.
func (s *seqRun[T, L]) step(bigBulk bool) {
	c, k, r := s.c, s.k, s.r
	s.t = s.pool[0]
	if len(s.pool) > 1 && r.Chance(9, 20) {
		s.t = s.pool[1+r.Intn(len(s.pool)-1)]
	}
	s.mutated = false
	t := s.t
	size := len(t.m)
	op := r.Intn(100)
	switch {
	case op < 26: // native add
		v := k.draw(r)
		s.logf("L%d.Add%s(%s)", t.id, k.short, k.show(v))
		if s.mutate("Add"+k.short, func() { k.add(t.l, v) }) {
			t.m = append(t.m, v)
			if sz := t.l.Size(); sz != len(t.m) {
				s.fail("Add"+k.short, "wrong-size", fmt.Sprintf("Size()=%d after add, model %d", sz, len(t.m)))
				s.dead = true
			}
		}
	case op < 31: // add through another type's accessor
		via, kv := r.Intn(5), drawSmall(r)
		method := "Add" + viaNames[via]
		s.logf("L%d.%s(%d)", t.id, method, kv)
		if s.mutate(method, func() { callAddVia(t.l, via, kv) }) {
			if t.l.Size() != size+1 {
				s.fail(method, "wrong-size", fmt.Sprintf("Size()=%d after %s on a list of %d", t.l.Size(), method, size))
				s.dead = true
				break
			}
			var actual T
			if p := vlib.Catch(func() { actual = k.get(t.l, size) }); p != nil {
				s.fail("Get"+k.short, "panic", fmt.Sprintf("Get%s(%d) panicked after %s: %v", k.short, size, method, p))
				s.dead = true
				break
			}
			if !k.acceptSmall(actual, kv, via) {
				s.fail(method, "wrong-value", fmt.Sprintf("%s(%d) stored %s", method, kv, k.show(actual)))
			}
			t.m = append(t.m, actual)
		}
	case op < 38: // AddAllArray: a fresh array, nil, empty, or the ToArray() of a pool list (the target included)
		var arr []T
		what := ""
		n := r.Intn(8)
		if bigBulk && r.Chance(1, 3) {
			n = r.Range(8, 60)
		}
		switch r.Intn(10) {
		case 0:
			arr = nil
		case 1:
			arr = []T{}
		case 2, 3, 4:
			src := s.pool[r.Intn(len(s.pool))]
			if size+len(src.m) <= maxJoint {
				if p := vlib.Catch(func() { arr = src.l.ToArray() }); p != nil {
					s.fail("ToArray", "panic", fmt.Sprintf("L%d.ToArray panicked: %v", src.id, p))
					s.dead = true
					return
				}
				what = fmt.Sprintf("L%d.ToArray()=", src.id)
				c.Count("addallarray_from_pool_list", 1)
				break
			}
			fallthrough
		default:
			arr = make([]T, n)
			for j := range arr {
				arr[j] = k.draw(r)
			}
		}
		// the caller's array: as it is, or a window of a larger array (spare capacity behind it)
		var la *lentArr[T]
		if pre, post, lent := lendShape(r); lent && arr != nil {
			la = lendArr(arr, pre, post, func(int) T { return k.draw(r) })
			arr = la.arg()
			what += fmt.Sprintf("array[%d:%d] of %d elements=", la.lo, la.hi, len(la.arr))
			c.Count("addallarray_lent_window", 1)
		}
		s.logf("L%d.AddAllArray(%s%v)", t.id, what, showAll(k.show, arr))
		cp := append([]T(nil), arr...)
		if s.mutate("AddAllArray", func() { t.l.AddAllArray(arr) }) {
			t.m = append(t.m, cp...)
			for j := range arr {
				if !k.eq(arr[j], cp[j]) {
					s.fail("AddAllArray", "wrong-value", "the argument array was modified")
					break
				}
			}
			if la != nil {
				if msg := la.changed(k.eq, k.show); msg != "" {
					s.fail("AddAllArray", "writes-callers-slice", "AddAllArray wrote to the caller's array: "+msg)
				}
				// the whole array stays under observation
				s.holdVals("AddAllArray", fmt.Sprintf("the array a window of which was passed to L%d.AddAllArray", t.id), la.arr)
			} else {
				s.holdVals("AddAllArray", fmt.Sprintf("the array that was passed to L%d.AddAllArray", t.id), arr)
			}
		}
	case op < 46: // AddAll: another pool list, the target itself, or a new list (which joins the pool)
		var src *plist[T, L]
		switch how := r.Intn(20); {
		case how < 8:
			if o := s.pickOther(); o != nil && size+len(o.m) <= maxJoint {
				src = o
				c.Count("addall_from_pool_list", 1)
			}
		case how < 10:
			if size > 0 && size <= 300 {
				s.addAllSelf()
				break
			}
		}
		if s.mutated { // self
			break
		}
		if src == nil {
			n := r.Intn(8)
			if bigBulk && r.Chance(1, 3) {
				n = r.Range(8, 60)
			}
			vals := make([]T, n)
			for j := range vals {
				vals[j] = k.draw(r)
			}
			var other L
			var ctor string
			switch r.Intn(3) {
			case 0:
				other, ctor = k.newDef(), "Default"
			case 1:
				e := n + r.Intn(12) // spare capacity behind the elements
				other, ctor = k.newCap(e), fmt.Sprintf("cap %d", e)
			default:
				e := r.Intn(4)
				other, ctor = k.newCap(e), fmt.Sprintf("cap %d", e)
			}
			for _, v := range vals {
				k.add(other, v)
			}
			s.logf("L%d := %s with %v", s.nextID, ctor, showAll(k.show, vals))
			src = s.join(other, vals, ctor)
		}
		if size == 0 {
			c.Count("addall_into_empty_list", 1)
			if tl, _ := tableLen(t.l); tl < len(src.m) {
				c.Count("addall_into_empty_too_small_list", 1)
			}
		}
		s.logf("L%d.AddAll(L%d)", t.id, src.id)
		if s.mutate("AddAll", func() { t.l.AddAll(src.l) }) {
			t.m = append(t.m, src.m...)
			s.links[pairOf(t.id, src.id)] = "AddAll"
			if _, kd, msg := s.diff(src); kd != "" {
				s.fail("AddAll", kd, "the argument list was modified: "+msg)
				s.dead = true
			}
		}
	case op < 54: // native set
		if size == 0 {
			return
		}
		idx, v := r.Intn(size), k.draw(r)
		if r.Chance(1, 4) {
			idx = size - 1
		}
		s.logf("L%d.Set%s(%d, %s)", t.id, k.short, idx, k.show(v))
		if s.mutate("Set"+k.short, func() { k.set(t.l, idx, v) }) {
			t.m[idx] = v
		}
	case op < 58: // set through another type's accessor
		if size == 0 {
			return
		}
		idx, via, kv := r.Intn(size), r.Intn(5), drawSmall(r)
		method := "Set" + viaNames[via]
		s.logf("L%d.%s(%d, %d)", t.id, method, idx, kv)
		if s.mutate(method, func() { callSetVia(t.l, via, idx, kv) }) {
			var actual T
			if p := vlib.Catch(func() { actual = k.get(t.l, idx) }); p != nil {
				s.fail("Get"+k.short, "panic", fmt.Sprintf("Get%s(%d) panicked after %s: %v", k.short, idx, method, p))
				s.dead = true
				break
			}
			if !k.acceptSmall(actual, kv, via) {
				s.fail(method, "wrong-value", fmt.Sprintf("%s(%d,%d) stored %s", method, idx, kv, k.show(actual)))
			}
			t.m[idx] = actual
		}
	case op < 66: // native get
		if size == 0 {
			return
		}
		idx := r.Intn(size)
		if r.Chance(1, 4) {
			idx = size - 1
		}
		s.logf("L%d.Get%s(%d)", t.id, k.short, idx)
		var g T
		if p := vlib.Catch(func() { g = k.get(t.l, idx) }); p != nil {
			s.fail("Get"+k.short, "panic", fmt.Sprintf("Get%s(%d) panicked on a list of %d: %v", k.short, idx, size, p))
		} else if !k.eq(g, t.m[idx]) {
			s.fail("Get"+k.short, "wrong-value", fmt.Sprintf("Get%s(%d)=%s, model says %s", k.short, idx, k.show(g), k.show(t.m[idx])))
		}
		c.Count("gets_checked", 1)
	case op < 72: // typed-conversion accessors
		if size == 0 {
			return
		}
		idx := r.Intn(size)
		s.logf("L%d: typed accessors at %d", t.id, idx)
		var method, msg string
		if p := vlib.Catch(func() {
			method, msg = k.exactGetters(t.l, idx, t.m[idx])
			if method == "" {
				if kv, intOK, ok := k.smallOf(t.m[idx]); ok {
					method, msg = checkSmallGetters(t.l, idx, kv, intOK)
					c.Count("small_value_accessor_checks", 1)
				}
			}
		}); p != nil {
			s.fail("Get*", "panic", fmt.Sprintf("a typed accessor panicked at valid index %d (element %s): %v", idx, k.show(t.m[idx]), p))
		} else if method != "" {
			s.fail(method, "wrong-value", msg)
		}
		c.Count("accessor_checks", 1)
	case op < 79: // out-of-range probe
		s.probeOOR()
	case op < 83: // the other error reports: bad index list, short / nil child, text that does not parse, nil source
		s.probeErr()
	case op < 87: // ToArray is a copy; the array stays under observation
		s.logf("L%d.ToArray + scribble", t.id)
		if !s.verify("ToArray") {
			s.dead = true
			break
		}
		arr := t.l.ToArray()
		s.holdVals("ToArray", fmt.Sprintf("an array returned by L%d.ToArray", t.id), arr)
		if len(arr) > 0 {
			s.helds[len(s.helds)-1].scribble()
		}
		s.verifyAll("writing to an array returned by ToArray", "ToArray")
	case op < 90: // write to an array that crossed the library boundary earlier
		if len(s.helds) == 0 {
			return
		}
		h := s.helds[r.Intn(len(s.helds))]
		s.logf("scribble on %s", h.desc)
		h.scribble()
		c.Count("held_array_scribbles", 1)
		s.verifyAll("writing to "+h.desc, h.origin)
	case op < 94: // Filtering (by a random index list, the identity, or a Sorting result): the result joins the pool
		var idx []int
		how, blame := "", "Filtering"
		switch r.Intn(4) {
		case 0:
			asc := r.Bool()
			var perm []int
			if p := vlib.Catch(func() { perm = t.l.Sorting(asc) }); p != nil {
				s.fail("Sorting", "panic", fmt.Sprintf("Sorting(%v) panicked: %v", asc, p))
				s.dead = true
				return
			}
			if msg := checkPermutation(perm, size); msg != "" {
				s.fail("Sorting", "not-permutation", msg)
				return
			}
			idx, how, blame = perm, fmt.Sprintf("L%d.Sorting(%v)=", t.id, asc), "Sorting"
			c.Count("seq_sortings", 1)
		case 1:
			idx = make([]int, size)
			for j := range idx {
				idx[j] = j
			}
			how = "identity "
		default:
			if size > 0 {
				idx = make([]int, r.Intn(minI(2*size+3, 300)))
				for j := range idx {
					idx[j] = r.Intn(size)
				}
			} else if r.Bool() {
				idx = []int{}
			}
		}
		// the index list: as it is, or a window of a larger array whose other elements are no
		// indices of this list
		var li *lentArr[int]
		if pre, post, lent := lendShape(r); lent && idx != nil && blame == "Filtering" {
			li = lendArr(idx, pre, post, func(j int) int { return size + 1000 + j })
			idx = li.arg()
			how += fmt.Sprintf("array[%d:%d] of %d elements=", li.lo, li.hi, len(li.arr))
			c.Count("filtering_lent_window", 1)
		}
		s.logf("L%d := L%d.Filtering(%s%v)", s.nextID, t.id, how, clipInts(idx))
		var res list.AnyList
		if p := vlib.Catch(func() { res = t.l.Filtering(idx) }); p != nil {
			s.fail("Filtering", "panic", fmt.Sprintf("Filtering with valid indices panicked: %v", p))
			s.dead = true
			return
		}
		if li != nil {
			if msg := li.changed(eqInt, showInt); msg != "" {
				s.fail("Filtering", "writes-callers-slice", "Filtering wrote to the caller's index array: "+msg)
			}
		}
		fl, ok := k.as(res)
		if !ok {
			s.fail("Filtering", "filtering", fmt.Sprintf("Filtering returned a %T", res))
			return
		}
		fm := make([]T, len(idx))
		for j, ix := range idx {
			fm[j] = t.m[ix]
		}
		p := s.join(fl, fm, fmt.Sprintf("L%d.Filtering", t.id))
		if _, kd, msg := s.diff(p); kd != "" {
			s.fail("Filtering", "filtering", "the filtered list is not the selection: "+msg)
			s.dead = true
			return
		}
		s.links[pairOf(t.id, p.id)] = "Filtering"
		if blame == "Sorting" {
			s.holdInts(blame, fmt.Sprintf("the index slice returned by L%d.Sorting (and passed to Filtering)", t.id), idx)
		} else if li != nil {
			s.holdInts(blame, fmt.Sprintf("the array a window of which was passed to L%d.Filtering as index list", t.id), li.arr)
		} else {
			s.holdInts(blame, fmt.Sprintf("the index slice passed to L%d.Filtering", t.id), idx)
		}
		c.Count("seq_filterings", 1)
		s.mutated, s.last = true, "Filtering"
	case op < 97: // wire form
		s.last = "Read"
		s.wire()
	case op < 99: // a pool list is replaced by a new empty one (empty destinations recur)
		if len(s.pool) < 2 {
			return
		}
		j := 1 + r.Intn(len(s.pool)-1)
		l, ctor := s.construct(r.Intn(8))
		old := s.pool[j]
		s.pool[j] = &plist[T, L]{id: s.nextID, l: l, ctor: ctor}
		s.nextID++
		s.logf("L%d := %s (takes the place of L%d)", s.pool[j].id, ctor, old.id)
		c.Count("pool_lists", 1)
	default:
		if r.Bool() {
			s.probeErr()
		} else {
			s.probeOOR()
		}
	}
	if !s.dead && s.mutated {
		if !s.verifyAll(s.last, "") {
			s.dead = true
		}
	}
	c.Count("ops", 1)
}

func runSeq[T any, L tlist[T, L]](c *vlib.Ctx, k *kind[T, L], i int, r *vlib.Rand) {
	s := &seqRun[T, L]{c: c, k: k, r: r, links: map[[2]int]string{}}
	ctorIdx := r.Intn(8)
	{
		l, ctor := s.construct(ctorIdx)
		s.t = s.join(l, nil, ctor)
	}
	prim := s.pool[0]
	if ctorIdx == 6 {
		c.SetAdd("constructors", k.short+":cap other")
	} else {
		c.SetAdd("constructors", k.short+":"+prim.ctor)
	}
	s.noteCap()
	if prim.l.GetType() != k.typ {
		s.fail("GetType", "wrong-value", fmt.Sprintf("GetType()=%d, layout says %d", prim.l.GetType(), k.typ))
	}
	// the other lists of the pool: different initial capacities, about half of them empty
	npool := r.Range(3, 5)
	for len(s.pool) < npool {
		l, ctor := s.construct(r.Intn(8))
		var m []T
		if r.Bool() {
			m = make([]T, r.Range(1, 24))
			for j := range m {
				m[j] = k.draw(r)
			}
			if r.Bool() {
				l.AddAllArray(append([]T(nil), m...))
			} else {
				for _, v := range m {
					k.add(l, v)
				}
			}
		}
		s.logf("L%d := %s with %v", s.nextID, ctor, showAll(k.show, m))
		p := s.join(l, m, ctor)
		if _, kd, msg := s.diff(p); kd != "" {
			s.fail("Add"+k.short, kd, "building a pool list: "+msg)
			return
		}
	}
	// program length: most programs are short (all small sizes are crossed one by one),
	// some long (several growth steps), bulk adds jump over steps.
	nops := r.Range(1, 40)
	if r.Chance(1, 3) {
		nops = r.Range(40, 260)
	}
	bigBulk := r.Chance(1, 4)
	directed := 0
	if ctorIdx == 5 && r.Chance(1, 4) {
		directed = 1 + r.Intn(2)
	}
	if directed != 0 {
		// directed: the first operation on the zero-value struct is a bulk add of more than
		// the default capacity
		s.t = prim
		arr := make([]T, r.Range(11, 40))
		for j := range arr {
			arr[j] = k.draw(r)
		}
		if directed == 1 {
			s.logf("L0.AddAllArray(%v)", showAll(k.show, arr))
			if s.mutate("AddAllArray", func() { prim.l.AddAllArray(arr) }) {
				prim.m = append(prim.m, arr...)
			}
		} else {
			other := k.newDef()
			other.AddAllArray(arr)
			s.logf("L0.AddAll(list%v)", showAll(k.show, arr))
			if s.mutate("AddAll", func() { prim.l.AddAll(other) }) {
				prim.m = append(prim.m, arr...)
			}
		}
		c.Count("bulk_add_on_nil_table", 1)
		if !s.dead {
			s.verifyAll(s.last, "")
		}
	}
	for step := 0; step < nops && !s.dead; step++ {
		s.step(bigBulk)
	}
	// the sequence appended to itself (last operation of some programs)
	s.t = prim
	if !s.dead && r.Chance(1, 3) && len(prim.m) <= 400 {
		s.addAllSelf()
		if !s.dead {
			s.verifyAll("AddAll", "")
		}
	}
	if !s.dead && s.verifyAll("end", "") {
		// every element through the native accessor, and the first index past the end
		for j := range prim.m {
			var g T
			if p := vlib.Catch(func() { g = k.get(prim.l, j) }); p != nil || !k.eq(g, prim.m[j]) {
				s.fail("Get"+k.short, "wrong-value", fmt.Sprintf("final sweep: Get%s(%d)=%s (panic %v), model says %s", k.short, j, k.show(g), p, k.show(prim.m[j])))
				break
			}
		}
		s.probeOOR()
	}
	c.Max("max_list_size", int64(len(prim.m)))
	c.Max("max_pool_size", int64(len(s.pool)))
	c.Count("seq_programs", 1)
	c.SetAdd("types_covered", k.name)
	c.Distinct(vlib.HashStr(k.name + prim.ctor + fmt.Sprint(s.ops)))
	if wantSample(c, "sequence") && len(s.ops) >= 8 && len(s.ops) <= 16 {
		tookSample("sequence")
		final := map[string]interface{}{}
		for _, p := range s.pool {
			final[fmt.Sprintf("L%d", p.id)] = showAll(k.show, p.m)
		}
		c.Sample(map[string]interface{}{"kind": "sequence", "list": k.name, "constructor": prim.ctor, "ops": s.ops, "final": final})
	}
}

func minI(a, b int) int {
	if a < b {
		return a
	}
	return b
}

// wantSample: at most one written-out case of each kind per child process.
var sampled = map[string]bool{}

func wantSample(c *vlib.Ctx, kind string) bool {
	if sampled[kind] || !c.WantSample() {
		return false
	}
	return true
}

func tookSample(kind string) { sampled[kind] = true }
