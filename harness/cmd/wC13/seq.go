package main

// Sequence model: random operation programs on one typed list against a plain Go slice.

import (
	"bytes"
	"fmt"
	"math"
	"strconv"

	"github.com/whatap/golib/io"
	"github.com/whatap/golib/util/list"

	"verif/vlib"
)

var canary = []byte{0xC1, 0x3C, 0xA5}

// seqRun is the state of one sequence case.
type seqRun[T any, L tlist[T, L]] struct {
	c    *vlib.Ctx
	k    *kind[T, L]
	r    *vlib.Rand
	l    L
	m    []T
	ops  []string
	ctor string
	dead bool // the list's state is unknown after a failed mutator: stop the program
}

func (s *seqRun[T, L]) logf(format string, a ...interface{}) {
	s.ops = append(s.ops, fmt.Sprintf(format, a...))
}

func (s *seqRun[T, L]) fail(method, kindStr, msg string) {
	key := s.k.name + "." + method + ":" + kindStr
	var actual []string
	sz := -1
	vlib.Catch(func() { sz = s.l.Size(); actual = showAll(s.k.show, s.l.ToArray()) })
	tl, _ := tableLen(s.l)
	s.c.Fail(key, msg, map[string]interface{}{
		"list": s.k.name, "constructor": s.ctor, "ops": s.ops, "model": showAll(s.k.show, s.m),
		"actual_size": sz, "actual": actual, "backing_len": tl,
	})
}

// verify compares size and content with the model.
func (s *seqRun[T, L]) verify(after string) bool {
	if sz := s.l.Size(); sz != len(s.m) {
		s.fail(after, "wrong-size", fmt.Sprintf("after %s: Size()=%d, model has %d elements", after, sz, len(s.m)))
		return false
	}
	var arr []T
	if p := vlib.Catch(func() { arr = s.l.ToArray() }); p != nil {
		s.fail("ToArray", "panic", fmt.Sprintf("ToArray panicked after %s: %v", after, p))
		return false
	}
	if len(arr) != len(s.m) {
		s.fail("ToArray", "wrong-size", fmt.Sprintf("after %s: len(ToArray())=%d, model has %d", after, len(arr), len(s.m)))
		return false
	}
	for i := range arr {
		if !s.k.eq(arr[i], s.m[i]) {
			s.fail(after, "wrong-value", fmt.Sprintf("after %s: element %d is %s, model says %s", after, i, s.k.show(arr[i]), s.k.show(s.m[i])))
			return false
		}
	}
	return true
}

func (s *seqRun[T, L]) noteCap() {
	if tl, _ := tableLen(s.l); tl >= 0 {
		if tl <= 256 {
			s.c.SetAdd("backing_lengths_seen", strconv.Itoa(tl))
		}
		s.c.Max("max_backing_length", int64(tl))
	}
}

// mutate runs a mutator that must succeed; growth events are counted from the backing length.
func (s *seqRun[T, L]) mutate(method string, fn func()) bool {
	before, wasNil := tableLen(s.l)
	if p := vlib.Catch(fn); p != nil {
		kindStr := "panic"
		if wasNil && (method == "AddAll" || method == "AddAllArray") {
			kindStr = "panic/nil-table"
		}
		s.fail(method, kindStr, fmt.Sprintf("%s panicked on a valid call: %v", method, p))
		s.dead = true
		return false
	}
	if after, _ := tableLen(s.l); after != before {
		s.c.Count("growth_events", 1)
		s.noteCap()
	}
	return true
}

func callAddVia(l list.AnyList, via, k int) {
	switch via {
	case viaInt:
		l.AddInt(k)
	case viaLong:
		l.AddLong(int64(k))
	case viaFloat:
		l.AddFloat(float32(k))
	case viaDouble:
		l.AddDouble(float64(k))
	default:
		l.AddString(strconv.Itoa(k))
	}
}

func callSetVia(l list.AnyList, via, i, k int) {
	switch via {
	case viaInt:
		l.SetInt(i, k)
	case viaLong:
		l.SetLong(i, int64(k))
	case viaFloat:
		l.SetFloat(i, float32(k))
	case viaDouble:
		l.SetDouble(i, float64(k))
	default:
		l.SetString(i, strconv.Itoa(k))
	}
}

func drawSmall(r *vlib.Rand) int {
	switch r.Intn(6) {
	case 0:
		return []int{0, 1, -1, smallLimit, -smallLimit, smallLimit - 1, 127, 128, -128, -129, 32767, 32768}[r.Intn(12)]
	default:
		return r.Range(-1000, 1000)
	}
}

// checkSmallGetters: the element is the small integer k, so every typed accessor must
// return k in its own type.
func checkSmallGetters(l list.AnyList, i, k int, intOK bool) (string, string) {
	if intOK {
		if g := l.GetInt(i); g != k {
			return "GetInt", fmt.Sprintf("GetInt(%d)=%d, element is %d", i, g, k)
		}
		if g := l.GetLong(i); g != int64(k) {
			return "GetLong", fmt.Sprintf("GetLong(%d)=%d, element is %d", i, g, k)
		}
	}
	if g := l.GetFloat(i); g != float32(k) {
		return "GetFloat", fmt.Sprintf("GetFloat(%d)=%g, element is %d", i, g, k)
	}
	if g := l.GetDouble(i); g != float64(k) {
		return "GetDouble", fmt.Sprintf("GetDouble(%d)=%g, element is %d", i, g, k)
	}
	s := l.GetString(i)
	if f, err := strconv.ParseFloat(s, 64); err != nil || f != float64(k) {
		return "GetString", fmt.Sprintf("GetString(%d)=%q does not denote the element %d", i, s, k)
	}
	return "", ""
}

// oorMethods are the accessors probed with out-of-range indices.
var oorMethods = []string{"GetInt", "GetLong", "GetFloat", "GetDouble", "GetString", "GetValue",
	"SetInt", "SetLong", "SetFloat", "SetDouble", "SetString"}

func callOOR(l list.AnyList, method string, idx int) (ret string) {
	switch method {
	case "GetInt":
		return fmt.Sprint(l.GetInt(idx))
	case "GetLong":
		return fmt.Sprint(l.GetLong(idx))
	case "GetFloat":
		return fmt.Sprint(l.GetFloat(idx))
	case "GetDouble":
		return fmt.Sprint(l.GetDouble(idx))
	case "GetString":
		return strconv.Quote(l.GetString(idx))
	case "GetValue":
		return fmt.Sprintf("%#v", l.GetValue(idx))
	case "SetInt":
		l.SetInt(idx, 7)
	case "SetLong":
		l.SetLong(idx, 7)
	case "SetFloat":
		l.SetFloat(idx, 7)
	case "SetDouble":
		l.SetDouble(idx, 7)
	case "SetString":
		l.SetString(idx, "7")
	}
	return "(stored 7)"
}

// probeOOR: an index outside [0,size) must be reported (the code's way of reporting is a
// panic), whether or not it falls inside the backing array's spare capacity.
func (s *seqRun[T, L]) probeOOR() {
	size := len(s.m)
	tl, _ := tableLen(s.l)
	var idx int
	switch s.r.Intn(10) {
	case 0, 1:
		idx = size // first slot past the end (inside the spare capacity when there is any)
	case 2, 3:
		if tl > size {
			idx = size + s.r.Intn(tl-size) // somewhere in the spare capacity
		} else {
			idx = size + s.r.Intn(4)
		}
	case 4:
		if tl > size {
			idx = tl - 1 // last spare slot
		} else {
			idx = size
		}
	case 5:
		idx = tl // first index past the backing array
		if idx < size {
			idx = size
		}
	case 6:
		idx = size + s.r.Range(1, 1000)
	case 7:
		idx = -1
	case 8:
		idx = -s.r.Range(1, 1000)
	default:
		idx = []int{math.MaxInt64, math.MinInt64, math.MaxInt32, math.MinInt32, size + 1}[s.r.Intn(5)]
	}
	method := oorMethods[s.r.Intn(len(oorMethods))]
	s.logf("%s(%d) [out of range: size %d, backing %d]", method, idx, size, tl)
	inSpare := idx >= size && idx < tl
	s.c.Count("oor_probes", 1)
	if inSpare {
		s.c.Count("oor_probes_in_spare_capacity", 1)
	}
	if idx < 0 {
		s.c.Count("oor_probes_negative", 1)
	}
	var ret string
	p := vlib.Catch(func() { ret = callOOR(s.l, method, idx) })
	if p == nil {
		kindStr := "wrong-value"
		if inSpare {
			kindStr = "stale-slot"
		}
		s.fail(method, kindStr, fmt.Sprintf("%s(%d) on a list of size %d (backing length %d) did not report the index; it returned %s", method, idx, size, tl, ret))
		return
	}
	// a rejected call must leave the list as it was
	s.verify(method)
}

func (s *seqRun[T, L]) wire() {
	k := s.k
	s.logf("Write/Read")
	out := io.NewDataOutputX()
	if p := vlib.Catch(func() { s.l.Write(out) }); p != nil {
		s.fail("Write", "panic", fmt.Sprintf("Write panicked: %v", p))
		return
	}
	got := out.ToByteArray()
	want := refList(s.m, k.enc)
	if !bytes.Equal(got, want) {
		s.c.Fail(k.name+".Write:wire-bytes", fmt.Sprintf("Write of %d elements differs from the reference encoding", len(s.m)),
			map[string]interface{}{"list": k.name, "ops": s.ops, "model": showAll(k.show, s.m), "got": vlib.Hex(got), "want": vlib.Hex(want)})
		return
	}
	checkRead(s.c, k, want, s.m, s.ops)
	s.c.Count("wire_roundtrips", 1)
}

// checkRead decodes enc (followed by a canary) into a fresh list and compares with vals.
func checkRead[T any, L tlist[T, L]](c *vlib.Ctx, k *kind[T, L], enc []byte, vals []T, ops []string) bool {
	in := io.NewDataInputX(append(append([]byte(nil), enc...), canary...))
	back := k.newDef()
	detail := func() map[string]interface{} {
		return map[string]interface{}{"list": k.name, "ops": ops, "model": showAll(k.show, vals), "bytes": vlib.Hex(enc)}
	}
	if p := vlib.Catch(func() { back.Read(in) }); p != nil {
		c.Fail(k.name+".Read:panic", fmt.Sprintf("Read of a valid encoding panicked: %v", p), detail())
		return false
	}
	if back.Size() != len(vals) {
		c.Fail(k.name+".Read:wire-roundtrip", fmt.Sprintf("Read gave %d elements, %d were written", back.Size(), len(vals)), detail())
		return false
	}
	arr := back.ToArray()
	for i := range vals {
		if !k.eq(arr[i], vals[i]) {
			c.Fail(k.name+".Read:wire-roundtrip", fmt.Sprintf("element %d read back as %s, written %s", i, k.show(arr[i]), k.show(vals[i])), detail())
			return false
		}
	}
	if av := in.Available(); av != int32(len(canary)) {
		c.Fail(k.name+".Read:wire-roundtrip", fmt.Sprintf("reader left %d bytes, the canary has %d: it did not consume exactly the encoding", av, len(canary)), detail())
		return false
	}
	var rest []byte
	if p := vlib.Catch(func() { rest = in.ReadBytes(int32(len(canary))) }); p != nil || !bytes.Equal(rest, canary) {
		c.Fail(k.name+".Read:wire-roundtrip", fmt.Sprintf("canary after the encoding reads as %x", rest), detail())
		return false
	}
	return true
}

func runSeq[T any, L tlist[T, L]](c *vlib.Ctx, k *kind[T, L], i int, r *vlib.Rand) {
	s := &seqRun[T, L]{c: c, k: k, r: r}
	ctorIdx := r.Intn(8)
	switch ctorIdx {
	case 0:
		s.l, s.ctor = k.newDef(), "Default"
	case 1:
		s.l, s.ctor = k.newCap(0), "cap 0"
	case 2:
		s.l, s.ctor = k.newCap(1), "cap 1"
	case 3:
		s.l, s.ctor = k.newCap(10), "cap 10"
	case 4:
		s.l, s.ctor = k.newCap(30), "cap 30"
	case 5:
		s.l, s.ctor = k.zero(), "zero-value struct"
	case 6:
		n := r.Range(2, 70)
		s.l, s.ctor = k.newCap(n), fmt.Sprintf("cap %d (other)", n)
	default:
		s.l, s.ctor = k.newCap(10), "cap 10"
	}
	if ctorIdx == 6 {
		c.SetAdd("constructors", k.short+":cap other")
	} else {
		c.SetAdd("constructors", k.short+":"+s.ctor)
	}
	s.noteCap()
	if s.l.GetType() != k.typ {
		s.fail("GetType", "wrong-value", fmt.Sprintf("GetType()=%d, layout says %d", s.l.GetType(), k.typ))
	}
	// program length: most programs are short (all small sizes are crossed one by one),
	// some long (several growth steps), bulk adds jump over steps.
	nops := r.Range(1, 40)
	if r.Chance(1, 3) {
		nops = r.Range(40, 260)
	}
	bigBulk := r.Chance(1, 4)
	directed := 0
	if ctorIdx == 5 && r.Chance(1, 4) {
		directed = 1 + r.Intn(2)
	}
	if directed != 0 {
		// directed: the first operation on the zero-value struct is a bulk add of more than
		// the default capacity
		arr := make([]T, r.Range(11, 40))
		for j := range arr {
			arr[j] = k.draw(r)
		}
		if directed == 1 {
			s.logf("AddAllArray(%v)", showAll(k.show, arr))
			if s.mutate("AddAllArray", func() { s.l.AddAllArray(arr) }) {
				s.m = append(s.m, arr...)
			}
		} else {
			other := k.newDef()
			other.AddAllArray(arr)
			s.logf("AddAll(list%v)", showAll(k.show, arr))
			if s.mutate("AddAll", func() { s.l.AddAll(other) }) {
				s.m = append(s.m, arr...)
			}
		}
		c.Count("bulk_add_on_nil_table", 1)
	}
	for step := 0; step < nops && !s.dead; step++ {
		size := len(s.m)
		op := r.Intn(100)
		switch {
		case op < 30: // native add
			v := k.draw(r)
			s.logf("Add%s(%s)", k.short, k.show(v))
			if s.mutate("Add"+k.short, func() { k.add(s.l, v) }) {
				s.m = append(s.m, v)
				if sz := s.l.Size(); sz != len(s.m) {
					s.fail("Add"+k.short, "wrong-size", fmt.Sprintf("Size()=%d after add, model %d", sz, len(s.m)))
					s.dead = true
				}
			}
		case op < 36: // add through another type's accessor
			via, kv := r.Intn(5), drawSmall(r)
			{
				method := "Add" + viaNames[via]
				s.logf("%s(%d)", method, kv)
				if s.mutate(method, func() { callAddVia(s.l, via, kv) }) {
					if s.l.Size() != size+1 {
						s.fail(method, "wrong-size", fmt.Sprintf("Size()=%d after %s on a list of %d", s.l.Size(), method, size))
						s.dead = true
						break
					}
					var actual T
					if p := vlib.Catch(func() { actual = k.get(s.l, size) }); p != nil {
						s.fail("Get"+k.short, "panic", fmt.Sprintf("Get%s(%d) panicked after %s: %v", k.short, size, method, p))
						s.dead = true
						break
					}
					if !k.acceptSmall(actual, kv, via) {
						s.fail(method, "wrong-value", fmt.Sprintf("%s(%d) stored %s", method, kv, k.show(actual)))
					}
					s.m = append(s.m, actual)
				}
			}
		case op < 43: // AddAllArray
			var arr []T
			n := r.Intn(8)
			if bigBulk && r.Chance(1, 3) {
				n = r.Range(8, 60)
			}
			switch r.Intn(8) {
			case 0:
				arr = nil
			case 1:
				arr = []T{}
			default:
				arr = make([]T, n)
				for j := range arr {
					arr[j] = k.draw(r)
				}
			}
			s.logf("AddAllArray(%v)", showAll(k.show, arr))
			cp := append([]T(nil), arr...)
			if s.mutate("AddAllArray", func() { s.l.AddAllArray(arr) }) {
				s.m = append(s.m, cp...)
				for j := range arr {
					if !k.eq(arr[j], cp[j]) {
						s.fail("AddAllArray", "wrong-value", "the argument array was modified")
					}
				}
			}
		case op < 50: // AddAll(other list)
			n := r.Intn(8)
			if bigBulk && r.Chance(1, 3) {
				n = r.Range(8, 60)
			}
			vals := make([]T, n)
			for j := range vals {
				vals[j] = k.draw(r)
			}
			var other L
			switch r.Intn(3) {
			case 0:
				other = k.newDef()
			case 1:
				other = k.newCap(n + r.Intn(12)) // spare capacity behind the elements
			default:
				other = k.newCap(r.Intn(4))
			}
			for _, v := range vals {
				k.add(other, v)
			}
			s.logf("AddAll(list%v)", showAll(k.show, vals))
			if s.mutate("AddAll", func() { s.l.AddAll(other) }) {
				s.m = append(s.m, vals...)
				oa := other.ToArray()
				if other.Size() != n || len(oa) != n {
					s.fail("AddAll", "wrong-size", fmt.Sprintf("the argument list changed size to %d", other.Size()))
				} else {
					for j := range oa {
						if !k.eq(oa[j], vals[j]) {
							s.fail("AddAll", "wrong-value", "the argument list was modified")
							break
						}
					}
				}
			}
		case op < 58: // native set
			if size == 0 {
				continue
			}
			idx, v := r.Intn(size), k.draw(r)
			if r.Chance(1, 4) {
				idx = size - 1
			}
			s.logf("Set%s(%d, %s)", k.short, idx, k.show(v))
			if s.mutate("Set"+k.short, func() { k.set(s.l, idx, v) }) {
				s.m[idx] = v
			}
		case op < 62: // set through another type's accessor
			if size == 0 {
				continue
			}
			idx, via, kv := r.Intn(size), r.Intn(5), drawSmall(r)
			method := "Set" + viaNames[via]
			s.logf("%s(%d, %d)", method, idx, kv)
			if s.mutate(method, func() { callSetVia(s.l, via, idx, kv) }) {
				var actual T
				if p := vlib.Catch(func() { actual = k.get(s.l, idx) }); p != nil {
					s.fail("Get"+k.short, "panic", fmt.Sprintf("Get%s(%d) panicked after %s: %v", k.short, idx, method, p))
					s.dead = true
					break
				}
				if !k.acceptSmall(actual, kv, via) {
					s.fail(method, "wrong-value", fmt.Sprintf("%s(%d,%d) stored %s", method, idx, kv, k.show(actual)))
				}
				s.m[idx] = actual
			}
		case op < 72: // native get
			if size == 0 {
				continue
			}
			idx := r.Intn(size)
			if r.Chance(1, 4) {
				idx = size - 1
			}
			s.logf("Get%s(%d)", k.short, idx)
			var g T
			if p := vlib.Catch(func() { g = k.get(s.l, idx) }); p != nil {
				s.fail("Get"+k.short, "panic", fmt.Sprintf("Get%s(%d) panicked on a list of %d: %v", k.short, idx, size, p))
			} else if !k.eq(g, s.m[idx]) {
				s.fail("Get"+k.short, "wrong-value", fmt.Sprintf("Get%s(%d)=%s, model says %s", k.short, idx, k.show(g), k.show(s.m[idx])))
			}
			c.Count("gets_checked", 1)
		case op < 80: // typed-conversion accessors
			if size == 0 {
				continue
			}
			idx := r.Intn(size)
			s.logf("typed accessors at %d", idx)
			var method, msg string
			if p := vlib.Catch(func() {
				method, msg = k.exactGetters(s.l, idx, s.m[idx])
				if method == "" {
					if kv, intOK, ok := k.smallOf(s.m[idx]); ok {
						method, msg = checkSmallGetters(s.l, idx, kv, intOK)
						c.Count("small_value_accessor_checks", 1)
					}
				}
			}); p != nil {
				s.fail("Get*", "panic", fmt.Sprintf("a typed accessor panicked at valid index %d (element %s): %v", idx, k.show(s.m[idx]), p))
			} else if method != "" {
				s.fail(method, "wrong-value", msg)
			}
			c.Count("accessor_checks", 1)
		case op < 92: // out-of-range probe
			s.probeOOR()
		case op < 96: // ToArray is a copy
			s.logf("ToArray + scribble")
			if !s.verify("ToArray") {
				s.dead = true
				break
			}
			arr := s.l.ToArray()
			for j := range arr {
				arr[j] = k.draw(r)
			}
			if !s.verify("ToArray") {
				s.dead = true
			}
		default:
			s.wire()
		}
		if !s.dead && r.Chance(1, 4) {
			if !s.verify("step") {
				s.dead = true
			}
		}
		c.Count("ops", 1)
	}
	// the sequence appended to itself (last operation of some programs)
	if !s.dead && r.Chance(1, 3) && len(s.m) <= 400 {
		size := len(s.m)
		s.logf("AddAll(self)")
		c.Count("addall_self", 1)
		if p := vlib.Catch(func() { s.l.AddAll(s.l) }); p != nil {
			s.fail("AddAll", "panic/self-alias", fmt.Sprintf("l.AddAll(l) on a list of %d elements panicked: %v", size, p))
			s.dead = true
		} else {
			s.m = append(s.m, s.m...)
			s.noteCap()
		}
	}
	if !s.dead && s.verify("end") {
		// every element through the native accessor, and the first index past the end
		for j := range s.m {
			var g T
			if p := vlib.Catch(func() { g = k.get(s.l, j) }); p != nil || !k.eq(g, s.m[j]) {
				s.fail("Get"+k.short, "wrong-value", fmt.Sprintf("final sweep: Get%s(%d)=%s (panic %v), model says %s", k.short, j, k.show(g), p, k.show(s.m[j])))
				break
			}
		}
		s.probeOOR()
	}
	c.Max("max_list_size", int64(len(s.m)))
	c.Count("seq_programs", 1)
	c.SetAdd("types_covered", k.name)
	c.Distinct(vlib.HashStr(k.name + s.ctor + fmt.Sprint(s.ops)))
	if wantSample(c, "sequence") && len(s.ops) >= 6 && len(s.ops) <= 14 {
		tookSample("sequence")
		c.Sample(map[string]interface{}{"kind": "sequence", "list": k.name, "constructor": s.ctor, "ops": s.ops, "final": showAll(k.show, s.m)})
	}
}

func minI(a, b int) int {
	if a < b {
		return a
	}
	return b
}

// wantSample: at most one written-out case of each kind per child process.
var sampled = map[string]bool{}

func wantSample(c *vlib.Ctx, kind string) bool {
	if sampled[kind] || !c.WantSample() {
		return false
	}
	return true
}

func tookSample(kind string) { sampled[kind] = true }
