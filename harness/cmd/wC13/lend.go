package main

// Slice arguments stay the caller's: AddAllArray's array and Filtering's index list are read,
// never written, neither inside their length nor in the spare capacity behind it. In a share
// of the calls the argument is a window of a larger array with sentinel elements around it;
// the whole array is compared afterwards (and stays under observation where arrays are held).

import (
	"fmt"

	"verif/vlib"
)

type lentArr[T any] struct {
	arr, want []T
	lo, hi    int
}

// lendArr copies xs into a new array behind pre sentinels and before post sentinels.
func lendArr[T any](xs []T, pre, post int, sentinel func(k int) T) *lentArr[T] {
	arr := make([]T, pre+len(xs)+post)
	for k := 0; k < pre; k++ {
		arr[k] = sentinel(k)
	}
	copy(arr[pre:], xs)
	for k := 0; k < post; k++ {
		arr[pre+len(xs)+k] = sentinel(pre + k)
	}
	return &lentArr[T]{arr: arr, want: append([]T(nil), arr...), lo: pre, hi: pre + len(xs)}
}

// arg is the window handed to the library: len = len(xs), cap = len(xs)+post; never nil.
func (l *lentArr[T]) arg() []T { return l.arr[l.lo:l.hi] }

// changed: "" while the caller's array is what the caller put there.
func (l *lentArr[T]) changed(eq func(a, b T) bool, show func(T) string) string {
	for k := range l.arr {
		if !eq(l.arr[k], l.want[k]) {
			where := "inside the argument"
			if k < l.lo {
				where = "before the argument"
			} else if k >= l.hi {
				where = fmt.Sprintf("in the spare capacity behind the argument (offset %d past its length)", k-l.hi)
			}
			return fmt.Sprintf("the argument was array[%d:%d] of a %d-element array (cap %d); array[%d], %s, was %s and is now %s",
				l.lo, l.hi, len(l.arr), len(l.arr)-l.lo, k, where, show(l.want[k]), show(l.arr[k]))
		}
	}
	return ""
}

// lendShape: none / spare capacity behind / elements on both sides.
func lendShape(r *vlib.Rand) (pre, post int, lent bool) {
	switch r.Intn(4) {
	case 0, 1:
		return 0, 0, false
	case 2:
		return 0, 1 + r.Intn(4), true
	default:
		return 1 + r.Intn(3), 1 + r.Intn(4), true
	}
}

func eqInt(a, b int) bool  { return a == b }
func showInt(v int) string { return fmt.Sprint(v) }
