package main

// The one consumer of the typed lists: StatGeneralPack stores named columns (typed lists),
// writes them as a table (int16 count; per column text key, type byte, list) and sorts all
// columns by the permutation obtained from one (or two) of them.

import (
	"bytes"
	"fmt"
	"strings"

	"github.com/whatap/golib/io"
	"github.com/whatap/golib/lang/pack"
	"github.com/whatap/golib/util/list"

	"verif/vlib"
)

func runPack(c *vlib.Ctx, i int, r *vlib.Rand) {
	ncols := r.Range(1, 5)
	n := r.Intn(40)
	if r.Chance(1, 5) {
		n = r.Range(40, 200)
	}
	cols := make([]*column, ncols)
	keys := make([]string, ncols)
	used := map[string]bool{}
	for j := range cols {
		pool := []int{1, 2, 3, 5, 0}[r.Intn(5)]
		cols[j] = genColumn(r.Intn(5), r, n, pool, true, r.Intn(3))
		for {
			keys[j] = r.Ident()
			if !used[keys[j]] {
				used[keys[j]] = true
				break
			}
		}
	}
	withStart := i%2 == 1
	var p, q *pack.StatGeneralPack
	if withStart {
		p, q = pack.NewStatGeneralPackType(pack.PACK_STAT_GENERAL_1), pack.NewStatGeneralPackType(pack.PACK_STAT_GENERAL_1)
	} else {
		p, q = pack.NewStatGeneralPack(), pack.NewStatGeneralPack()
	}
	h := refPackHeader{pcode: r.I64(), oid: r.I32(), time: r.I64(), id: r.Str(40), withStart: withStart, startTime: r.I64()}
	if r.Chance(1, 3) {
		h.okind, h.onode = r.I32(), r.I32()
	}
	p.Pcode, p.Oid, p.Okind, p.Onode, p.Time, p.Id, p.DataStartTime = h.pcode, h.oid, h.okind, h.onode, h.time, h.id, h.startTime
	var rcols []refColumn
	colDesc := map[string]interface{}{}
	for j, col := range cols {
		p.Put(keys[j], col.l)
		rcols = append(rcols, refColumn{key: keys[j], typ: col.typ, body: col.refBody})
		colDesc[fmt.Sprintf("%d:%s:%s", j, keys[j], col.name)] = col.all()
	}
	detail := func(extra map[string]interface{}) map[string]interface{} {
		d := map[string]interface{}{"columns": colDesc, "rows": n, "header": fmt.Sprintf("%+v", h)}
		for k, v := range extra {
			d[k] = v
		}
		return d
	}
	out := io.NewDataOutputX()
	if pn := vlib.Catch(func() { p.Write(out) }); pn != nil {
		c.Fail("StatGeneralPack.Write:panic", fmt.Sprintf("Write panicked: %v", pn), detail(nil))
		return
	}
	got, want := out.ToByteArray(), refStatGeneralPack(h, rcols)
	if !bytes.Equal(got, want) {
		c.Fail("StatGeneralPack.Write:wire-bytes", "the pack bytes differ from the reference encoding of header, id, table length and table of typed lists",
			detail(map[string]interface{}{"got": vlib.Hex(got), "want": vlib.Hex(want)}))
		return
	}
	in := io.NewDataInputX(append(append([]byte(nil), want...), canary...))
	if pn := vlib.Catch(func() { q.Read(in) }); pn != nil {
		c.Fail("StatGeneralPack.Read:panic", fmt.Sprintf("Read panicked: %v", pn), detail(map[string]interface{}{"bytes": vlib.Hex(want)}))
		return
	}
	if av := in.Available(); av != int32(len(canary)) {
		c.Fail("StatGeneralPack.Read:wire-roundtrip", fmt.Sprintf("reader left %d bytes, the canary has %d", av, len(canary)), detail(map[string]interface{}{"bytes": vlib.Hex(want)}))
		return
	}
	ident := make([]int, n)
	for j := range ident {
		ident[j] = j
	}
	getCol := func(pk *pack.StatGeneralPack, key string) (l list.AnyList, pn interface{}) {
		pn = vlib.Catch(func() { l = pk.Get(key) })
		return
	}
	decoded := make([]list.AnyList, ncols)
	for j, col := range cols {
		l, pn := getCol(q, keys[j])
		decoded[j] = l
		if pn != nil {
			c.Fail("StatGeneralPack.Get:panic", fmt.Sprintf("Get(%q) after Read panicked: %v", keys[j], pn), detail(nil))
			return
		}
		if msg := col.checkFiltered(l, ident); msg != "" {
			c.Fail("StatGeneralPack.Read:wire-roundtrip", fmt.Sprintf("column %q (%s) read back differently: %s", keys[j], col.name, strings.Replace(msg, "Filtering", "Read", 1)), detail(nil))
			return
		}
	}
	c.Count("pack_roundtrips", 1)
	c.Count("pack_columns", int64(ncols))

	// sort the decoded table
	sk := r.Intn(ncols)
	ck := r.Intn(ncols)
	asc, casc := r.Bool(), r.Bool()
	two := r.Bool()
	method := "Sort"
	if pn := vlib.Catch(func() {
		if two {
			method = "SortAnyList"
			q.SortAnyList(keys[sk], asc, keys[ck], casc)
		} else {
			q.Sort(keys[sk], asc)
		}
	}); pn != nil {
		c.Fail("StatGeneralPack."+method+":panic", fmt.Sprintf("%s panicked: %v", method, pn), detail(nil))
		return
	}
	res := make([]list.AnyList, ncols)
	for j := range cols {
		l, pn := getCol(q, keys[j])
		if pn != nil || l == nil {
			c.Fail("StatGeneralPack."+method+":filtering", fmt.Sprintf("column %q is missing after %s (%v)", keys[j], method, pn), detail(nil))
			return
		}
		if l.Size() != n || l.GetType() != cols[j].typ {
			c.Fail("StatGeneralPack."+method+":filtering", fmt.Sprintf("column %q has %d elements of type %d after %s; it had %d of type %d", keys[j], l.Size(), l.GetType(), method, n, cols[j].typ), detail(nil))
			return
		}
		res[j] = l
	}
	// rows are preserved as a multiset
	rows := map[string]int{}
	for rw := 0; rw < n; rw++ {
		var sb strings.Builder
		for j, col := range cols {
			sb.WriteString(col.show(rw))
			if j+1 < ncols {
				sb.WriteByte(0x1f)
			}
		}
		rows[sb.String()]++
	}
	var outRows []string
	for rw := 0; rw < n; rw++ {
		var sb strings.Builder
		for j, col := range cols {
			sb.WriteString(col.showIn(res[j], rw))
			if j+1 < ncols {
				sb.WriteByte(0x1f)
			}
		}
		sig := sb.String()
		if len(outRows) < 60 {
			outRows = append(outRows, strings.ReplaceAll(sig, "\x1f", " | "))
		}
		rows[sig]--
		if rows[sig] < 0 {
			c.Fail("StatGeneralPack."+method+":filtering", fmt.Sprintf("row %d of the sorted table (%s) is not a row of the original table (or occurs more often)", rw, strings.ReplaceAll(sig, "\x1f", " | ")),
				detail(map[string]interface{}{"sort_key": keys[sk], "asc": asc, "child_key": keys[ck], "child_asc": casc, "sorted_rows": outRows}))
			return
		}
	}
	// and ordered by the key column(s)
	for rw := 0; rw+1 < n; rw++ {
		pc := cols[sk].cmpIn(res[sk], rw, rw+1)
		if !asc {
			pc = -pc
		}
		if pc > 0 {
			c.Fail("StatGeneralPack."+method+":primary-order", fmt.Sprintf("rows %d,%d: key column %q is %s then %s, %s requested", rw, rw+1, keys[sk], cols[sk].showIn(res[sk], rw), cols[sk].showIn(res[sk], rw+1), dirName(asc)),
				detail(map[string]interface{}{"sort_key": keys[sk], "asc": asc}))
			return
		}
		if pc == 0 && two {
			cc := cols[ck].cmpIn(res[ck], rw, rw+1)
			if !casc {
				cc = -cc
			}
			if cc > 0 {
				c.Fail("StatGeneralPack.SortAnyList:child-order", fmt.Sprintf("rows %d,%d tie on %q; second key %q is %s then %s, %s requested", rw, rw+1, keys[sk], keys[ck], cols[ck].showIn(res[ck], rw), cols[ck].showIn(res[ck], rw+1), dirName(casc)),
					detail(map[string]interface{}{"sort_key": keys[sk], "asc": asc, "child_key": keys[ck], "child_asc": casc}))
				return
			}
		}
	}
	// the sorted columns are new lists: changing them leaves the decoded columns they were
	// selected from, and the lists that were put into the written pack, as they were
	for j, col := range cols {
		col.scribbleIn(res[j], r)
	}
	for j, col := range cols {
		if msg := col.checkFiltered(decoded[j], ident); msg != "" {
			c.Fail("StatGeneralPack."+method+":aliased", fmt.Sprintf("after changing every element of the sorted columns, the decoded column %q (%s) changed: %s", keys[j], col.name, strings.Replace(msg, "Filtering", method, 1)), detail(nil))
			return
		}
		if msg := col.unchanged(); msg != "" {
			c.Fail("StatGeneralPack."+method+":aliased", fmt.Sprintf("after changing every element of the sorted columns, the list put into the written pack as %q (%s) changed: %s", keys[j], col.name, msg), detail(nil))
			return
		}
	}
	c.Count("pack_sorts", 1)
	c.SetAdd("types_covered", "StatGeneralPack")
	c.Distinct(vlib.HashBytes(want))
}
