// wC13 — typed lists are faithful sequences; sorting yields an ordering permutation.
//
// Sections
//
//	(everywhere)    every call that ends in a recovered panic (error report) is followed by a
//	                call on the same object from a goroutine with a bounded wait (follow.go);
//	                AddAllArray / Filtering arguments are windows of larger arrays in a share
//	                of the calls (lend.go)
//	seq-<Type>      random add / add-all / add-all-array / set / get / to-array / typed
//	                accessors / out-of-range probes / filtering / sorting+filtering / wire
//	                round trip on a POOL of 3..6 live typed lists, each against its own Go
//	                slice, over the constructors {Default, 0, 1, 10, 30, other, zero-value
//	                struct}; sources of AddAll / AddAllArray come from the pool, derived
//	                lists (Filtering results, decoded lists, AddAll sources) join it; after
//	                every mutation ALL lists and all arrays that crossed the library boundary
//	                are compared with their models (distinct lists are independent)
//	linked          LinkedList programs on 2..3 lists against slices (forward and backward
//	                chains checked on all lists after every operation)
//	wire-<Type>     Write == reference bytes, Read(reference bytes) == values, canary intact;
//	                decoded list / written list / byte slices are independent
//	wire-max-count  the largest count the 24-bit field can carry
//	sort            Sorting / SortingAnyList / Filtering: 5 primaries × 5 children × 2 × 2
//	sort-precision  directed: integer children that differ only beyond 2^53
//	pack-table      StatGeneralPack: table of typed lists on the wire, Sort / SortAnyList
package main

import (
	"bytes"
	"fmt"

	"github.com/whatap/golib/io"
	"github.com/whatap/golib/util/list"

	"verif/vlib"
)

func drawN(r *vlib.Rand, thorough bool) int {
	switch r.Intn(10) {
	case 0:
		return r.Intn(4)
	case 1, 2, 3:
		return r.Range(4, 13) // around the insertion-sort threshold of the library sort
	case 4, 5, 6:
		return r.Range(13, 60)
	case 7, 8:
		return r.Range(61, 300)
	default:
		if thorough {
			return r.Range(300, 3000)
		}
		return r.Range(300, 700)
	}
}

func runWire[T any, L tlist[T, L]](c *vlib.Ctx, k *kind[T, L], i int, r *vlib.Rand) {
	n := 0
	switch r.Intn(8) {
	case 0:
		n = r.Intn(3)
	case 1:
		n = r.Range(200, 1200)
	default:
		n = r.Range(1, 60)
	}
	vals := make([]T, n)
	for j := range vals {
		vals[j] = k.draw(r)
	}
	// strings at the blob-prefix boundaries (253/254/255/256, 65535/65536)
	if sk, ok := interface{}(k).(*kind[string, *list.StringList]); ok && n > 0 {
		_ = sk
		sv := interface{}(vals).([]string)
		for t := 0; t < 1+n/8; t++ {
			sv[r.Intn(n)] = r.Str(70000)
		}
		if r.Chance(1, 6) {
			sv[r.Intn(n)] = r.AsciiN([]int{65534, 65535, 65536, 65537}[r.Intn(4)])
		}
	}
	var l L
	switch r.Intn(4) {
	case 0:
		l = k.newDef()
	case 1:
		l = k.newCap(n + r.Intn(20))
	default:
		l = k.newCap([]int{0, 1, 10, 30}[r.Intn(4)])
	}
	if r.Bool() {
		l.AddAllArray(append([]T(nil), vals...)) // vals is the model: the library never sees it
	} else {
		for _, v := range vals {
			k.add(l, v)
		}
	}
	want := refList(vals, k.enc)
	out := io.NewDataOutputX()
	detail := func() map[string]interface{} {
		return map[string]interface{}{"list": k.name, "values": showAll(k.show, vals), "want": vlib.Hex(want)}
	}
	if p := vlib.Catch(func() { l.Write(out) }); p != nil {
		c.Fail(k.name+".Write:panic", fmt.Sprintf("Write panicked: %v", p), detail())
		return
	}
	if got := out.ToByteArray(); !bytes.Equal(got, want) {
		d := detail()
		d["got"] = vlib.Hex(got)
		off := 0
		for off < len(got) && off < len(want) && got[off] == want[off] {
			off++
		}
		c.Fail(k.name+".Write:wire-bytes", fmt.Sprintf("Write of %d elements: %d bytes, reference %d bytes, first difference at offset %d", n, len(got), len(want), off), d)
	}
	// the reader is driven with the REFERENCE bytes, so a writer and reader that are wrong
	// in the same way do not cancel out
	back, buf, ok := checkRead(c, k, want, vals, []string{"Read(reference encoding)"})
	if msg := sameAs(k, l, vals); msg != "" {
		c.Fail(k.name+".Write:wrong-size", "Write changed the list: "+msg, detail())
	}
	// independence: the decoded list, the written list, the bytes produced by Write and the
	// byte slice the reader was given are four separate things
	if ok {
		written := out.ToByteArray()
		writtenWas := append([]byte(nil), written...)
		alias := func(method, what, msg string) {
			d := detail()
			d["step"] = what
			c.Fail(k.name+"."+method+":aliased", what+": "+msg, d)
		}
		bufWas := append([]byte(nil), buf...)
		switch r.Intn(3) {
		case 0: // write to the byte slice the list was read from
			for j := range buf {
				buf[j] ^= 0xA5
			}
			if msg := sameAs(k, back, vals); msg != "" {
				alias("Read", "after overwriting the byte slice the list was read from, the decoded list changed", msg)
			}
		case 1: // change the decoded list
			bm := scribbleList(k, back, r)
			if msg := sameAs(k, l, vals); msg != "" {
				alias("Read", "after changing the decoded list, the list that was written changed", msg)
			}
			if !bytes.Equal(buf, bufWas) {
				alias("Read", "after changing the decoded list, the byte slice it was read from changed", "bytes differ")
			}
			if !bytes.Equal(written, writtenWas) {
				alias("Write", "after changing the decoded list, the bytes produced by Write changed", "bytes differ")
			}
			if msg := sameAs(k, back, bm); msg != "" {
				c.Fail(k.name+".Set"+k.short+":wrong-value", "set/add on a decoded list: "+msg, detail())
			}
		default: // change the list that was written
			lm := scribbleList(k, l, r)
			if msg := sameAs(k, back, vals); msg != "" {
				alias("Read", "after changing the list that was written, the decoded list changed", msg)
			}
			if !bytes.Equal(written, writtenWas) {
				alias("Write", "after changing the list that was written, the bytes produced by Write changed", "bytes differ")
			}
			if msg := sameAs(k, l, lm); msg != "" {
				c.Fail(k.name+".Set"+k.short+":wrong-value", "set/add on a list after Write: "+msg, detail())
			}
		}
		c.Count("wire_independence_checks", 1)
	}
	c.Count("wire_roundtrips", 1)
	c.Count("wire_bytes", int64(len(want)))
	c.Max("max_wire_elements", int64(n))
	c.DistinctBytes(want)
	if wantSample(c, "wire") && n >= 2 && n <= 5 && len(want) < 80 {
		tookSample("wire")
		c.Sample(map[string]interface{}{"kind": "wire", "list": k.name, "values": showAll(k.show, vals), "bytes": vlib.Hex(want)})
	}
}

func main() {
	c := vlib.Start("C13")

	c.Cases("seq-IntList", c.N(12000, 300000), func(i int, r *vlib.Rand) { runSeq(c, kInt, i, r) })
	c.Cases("seq-LongList", c.N(12000, 300000), func(i int, r *vlib.Rand) { runSeq(c, kLong, i, r) })
	c.Cases("seq-FloatList", c.N(12000, 300000), func(i int, r *vlib.Rand) { runSeq(c, kFloat, i, r) })
	c.Cases("seq-DoubleList", c.N(12000, 300000), func(i int, r *vlib.Rand) { runSeq(c, kDouble, i, r) })
	c.Cases("seq-StringList", c.N(12000, 300000), func(i int, r *vlib.Rand) { runSeq(c, kString, i, r) })

	c.Cases("linked", c.N(20000, 500000), func(i int, r *vlib.Rand) { runLinked(c, i, r) })

	c.Cases("wire-IntList", c.N(4000, 100000), func(i int, r *vlib.Rand) { runWire(c, kInt, i, r) })
	c.Cases("wire-LongList", c.N(4000, 100000), func(i int, r *vlib.Rand) { runWire(c, kLong, i, r) })
	c.Cases("wire-FloatList", c.N(4000, 100000), func(i int, r *vlib.Rand) { runWire(c, kFloat, i, r) })
	c.Cases("wire-DoubleList", c.N(4000, 100000), func(i int, r *vlib.Rand) { runWire(c, kDouble, i, r) })
	c.Cases("wire-StringList", c.N(4000, 100000), func(i int, r *vlib.Rand) { runWire(c, kString, i, r) })

	// the largest element count the signed 24-bit field carries
	c.Section("wire-max-count", false, func() {
		const n = 1<<23 - 1
		vals := make([]int, n)
		vals[n-1] = 5
		l := list.NewIntList(30)
		l.AddAllArray(vals)
		out := io.NewDataOutputX()
		l.Write(out)
		want := make([]byte, 0, n+8)
		want = append(want, 0x7f, 0xff, 0xff)
		want = append(want, make([]byte, n-1)...) // decimal 0 is the single class byte 0
		want = append(want, 1, 5)                 // decimal 5: class 1, payload 5
		if got := out.ToByteArray(); !bytes.Equal(got, want) {
			c.Fail("IntList.Write:wire-bytes", fmt.Sprintf("list of %d elements: %d bytes written, reference has %d", n, len(got), len(want)),
				map[string]interface{}{"elements": n, "head": vlib.Hex(got[:minI(len(got), 16)])})
		}
		in := io.NewDataInputX(append(want, canary...))
		back := list.NewIntListDefault()
		back.Read(in)
		ok := back.Size() == n && in.Available() == int32(len(canary))
		if ok {
			arr := back.ToArray()
			for j, v := range arr {
				if v != vals[j] {
					ok = false
					break
				}
			}
		}
		if !ok {
			c.Fail("IntList.Read:wire-roundtrip", fmt.Sprintf("list of %d elements (the largest 24-bit count) read back with %d elements, %d bytes left", n, back.Size(), in.Available()),
				map[string]interface{}{"elements": n})
		}
		c.Eval(1)
		c.DistinctEnum(1)
		c.Count("wire_max_count_elements", n)
	})

	thorough := c.Thorough()
	c.Cases("sort", c.N(25000, 600000), func(i int, r *vlib.Rand) {
		pi, ci := i%5, (i/5)%5
		asc, casc := (i/25)%2 == 0, (i/50)%2 == 0
		n := drawN(r, thorough)
		ppool := []int{1, 2, 3, 4, n/4 + 1, 0}[r.Intn(6)]
		cpool := []int{1, 3, 6, 0}[r.Intn(4)]
		prim := genColumn(pi, r, n, ppool, false, []int{0, 0, 0, 1, 2, 3}[r.Intn(6)])
		cn := n
		if r.Chance(1, 8) {
			cn = n + r.Range(1, 5) // a child longer than the primary is still a valid child
		}
		child := genColumn(ci, r, cn, cpool, false, []int{0, 0, 0, 1, 2, 3}[r.Intn(6)])
		sortCase(c, r, prim, child, asc, casc, "random")
		c.Max("max_sorted_length", int64(n))
		c.Count("sorted_elements", int64(n))
		c.Distinct(vlib.HashStr(fmt.Sprint(prim.short, child.short, asc, casc, prim.all(), child.all())))
	})

	// directed: all primaries tie, the integer children differ only beyond 2^53
	c.Cases("sort-precision", 5*2*2*2*3, func(i int, r *vlib.Rand) {
		pi := i % 5
		ci := (i / 5) % 2 // Int or Long child
		casc := (i/10)%2 == 0
		swapped := (i/20)%2 == 0
		pair := [][2]int64{{1 << 53, 1<<53 + 1}, {1<<63 - 2, 1<<63 - 1}, {-(1 << 60) - 1, -(1 << 60)}}[(i/40)%3]
		if swapped {
			pair[0], pair[1] = pair[1], pair[0]
		}
		var prim, child *column
		switch pi {
		case 0:
			prim = makeColumn(kInt, []int{7, 7}, r)
		case 1:
			prim = makeColumn(kLong, []int64{7, 7}, r)
		case 2:
			prim = makeColumn(kFloat, []float32{7, 7}, r)
		case 3:
			prim = makeColumn(kDouble, []float64{7, 7}, r)
		default:
			prim = makeColumn(kString, []string{"k", "k"}, r)
		}
		if ci == 0 {
			child = makeColumn(kInt, []int{int(pair[0]), int(pair[1])}, r)
		} else {
			child = makeColumn(kLong, []int64{pair[0], pair[1]}, r)
		}
		sortCase(c, r, prim, child, true, casc, "directed: integer children differing only beyond 2^53")
		c.Count("precision_cases", 1)
		c.Distinct(vlib.HashStr(fmt.Sprint("precision", i)))
	})

	c.Cases("pack-table", c.N(6000, 150000), func(i int, r *vlib.Rand) { runPack(c, i, r) })

	// observation floors (≤ 10 % of what an unchanged tree produces per shard at quick tier)
	c.Floor("ops", 12000, c.Counter("ops"))
	c.Floor("oor_probes_in_spare_capacity", 900, c.Counter("oor_probes_in_spare_capacity"))
	c.Floor("growth_events", 1200, c.Counter("growth_events"))
	c.Floor("linked_op_count", 5000, c.Counter("linked_op_count"))
	c.Floor("wire_roundtrips", 600, c.Counter("wire_roundtrips"))
	c.Floor("sorting_anylist_calls", 120, c.Counter("sorting_anylist_calls"))
	c.Floor("adjacent_ties_decided_by_child", 2500, c.Counter("adjacent_ties_decided_by_child"))
	c.Floor("filtering_calls", 120, c.Counter("filtering_calls"))
	c.Floor("pack_sorts", 30, c.Counter("pack_sorts"))
	// independence monitor: every list of the pool / every held array compared after a mutation
	c.Floor("lists_verified", 100000, c.Counter("lists_verified"))
	c.Floor("held_arrays_verified", 100000, c.Counter("held_arrays_verified"))
	c.Floor("addall_from_pool_list", 600, c.Counter("addall_from_pool_list"))
	c.Floor("addall_into_empty_too_small_list", 80, c.Counter("addall_into_empty_too_small_list"))
	c.Floor("decoded_lists_joined", 500, c.Counter("decoded_lists_joined"))
	c.Floor("seq_filterings", 800, c.Counter("seq_filterings"))
	c.Floor("linked_other_lists_verified", 10000, c.Counter("linked_other_lists_verified"))
	c.Floor("wire_independence_checks", 100, c.Counter("wire_independence_checks"))
	c.Floor("sort_independence_checks", 120, c.Counter("sort_independence_checks"))
	// error reports and what follows them; slice arguments lent as windows of larger arrays
	c.Floor("error_reports", 700, c.Counter("error_reports"))
	c.Floor("followups_after_error_report", 3000, c.Counter("followups_after_error_report"))
	c.Floor("followup_sorts_checked", 3000, c.Counter("followup_sorts_checked"))
	c.Floor("sorting_child_reports", 100, c.Counter("sorting_child_reports"))
	c.Floor("seq_sorting_child_reports", 120, c.Counter("seq_sorting_child_reports"))
	c.Floor("linked_error_reports", 100, c.Counter("linked_error_reports"))
	c.Floor("addallarray_lent_window", 600, c.Counter("addallarray_lent_window"))
	c.Floor("filtering_lent_window", 500, c.Counter("filtering_lent_window"))
	c.Finish()
}
