package main

// Error reports inside sequence programs, and what must hold after them (see follow.go).

import (
	"fmt"

	"github.com/whatap/golib/util/list"

	"verif/vlib"
)

// usable: a call on p (or a call that was given p) just reported an error by panicking in
// `method`. p must still be usable: a sort of p, made from a follow-up goroutine with a bounded
// wait, returns an ordering permutation of p's elements.
func (s *seqRun[T, L]) usable(method string, p *plist[T, L]) bool {
	if s.dead {
		return false
	}
	k := s.k
	asc, two, casc := s.r.Bool(), s.r.Chance(1, 3), s.r.Bool()
	m, what := "Sorting", fmt.Sprintf("L%d.Sorting(%v)", p.id, asc)
	if two {
		m, what = "SortingAnyList", fmt.Sprintf("L%d.SortingAnyList(%v, L%d, %v)", p.id, asc, p.id, casc)
	}
	var perm []int
	s.logf("follow-up after the error report of %s: %s", method, what)
	ok, pv := followUp(s.c, k.name, method, what, func() {
		if two {
			perm = p.l.SortingAnyList(asc, p.l, casc)
		} else {
			perm = p.l.Sorting(asc)
		}
	}, s.detail)
	if !ok {
		s.dead = true
		return false
	}
	if pv != nil {
		s.fail(m, "panic", fmt.Sprintf("%s, the call after %s reported an error, panicked: %v", what, method, pv))
		s.dead = true
		return false
	}
	if msg := checkPermutation(perm, len(p.m)); msg != "" {
		s.fail(m, "not-permutation", fmt.Sprintf("%s, the call after %s reported an error: %s", what, method, msg))
		return false
	}
	for j := 0; j+1 < len(perm); j++ {
		o := k.cmp(p.m[perm[j]], p.m[perm[j+1]])
		if !asc {
			o = -o
		}
		if o > 0 {
			s.fail(m, "primary-order", fmt.Sprintf("%s, the call after %s reported an error: positions %d,%d hold %s then %s", what, method, j, j+1, k.show(p.m[perm[j]]), k.show(p.m[perm[j+1]])))
			return false
		}
	}
	s.c.Count("followup_sorts_checked", 1)
	return true
}

// afterReport: what follows every error report inside a program: all lists and held arrays as
// they were, and the objects of the call still usable.
func (s *seqRun[T, L]) afterReport(method string, objs ...*plist[T, L]) {
	s.c.Count("error_reports", 1)
	s.c.SetAdd("error_reports_by", s.k.short+"."+method)
	if !s.verifyAll(method, "") {
		return
	}
	for _, p := range objs {
		if p != nil && !s.usable(method, p) {
			return
		}
	}
}

var badTexts = []string{"", "abc", "1.5x", "--1", " 1", "1e999", "0x", "1,5", "NaN?", "12 "}

// probeErr: one call that the list has (or may have) to refuse — an index list with an
// element out of range, a two-level sort whose child is shorter than the list or nil, text
// that does not denote a number, a nil source — followed by afterReport. Where the call is
// accepted instead (the child is long enough, the text parses) the usual oracles apply.
func (s *seqRun[T, L]) probeErr() {
	c, k, r, t := s.c, s.k, s.r, s.t
	size := len(t.m)
	switch r.Intn(8) {
	case 0, 1: // Filtering with an index that is no index of this list
		if tooManyLeaks(k.name, "Filtering") {
			return
		}
		tl, _ := tableLen(t.l)
		bad := []int{size, -1, size + 1, tl - 1, tl, size + r.Range(1, 1000), -r.Range(1, 1000)}[r.Intn(7)]
		if bad >= 0 && bad < size {
			bad = size
		}
		idx := make([]int, 0, 8)
		for j := r.Intn(4); j > 0 && size > 0; j-- {
			idx = append(idx, r.Intn(size))
		}
		idx = append(idx, bad)
		for j := r.Intn(3); j > 0 && size > 0; j-- {
			idx = append(idx, r.Intn(size))
		}
		idx = idx[:len(idx):len(idx)]
		var li *lentArr[int]
		if pre, post, lent := lendShape(r); lent {
			li = lendArr(idx, pre, post, func(j int) int { return size + 2000 + j })
			idx = li.arg()
		}
		s.logf("L%d.Filtering(%v) [index %d out of range: size %d, backing %d]", t.id, idx, bad, size, tl)
		c.Count("filtering_oor_probes", 1)
		var res list.AnyList
		p := vlib.Catch(func() { res = t.l.Filtering(idx) })
		if li != nil {
			if msg := li.changed(eqInt, showInt); msg != "" {
				s.fail("Filtering", "writes-callers-slice", "Filtering wrote to the caller's index array: "+msg)
			}
		}
		if p == nil {
			kd := "wrong-value"
			if bad >= size && bad < tl {
				kd = "stale-slot"
			}
			sz := -1
			if res != nil {
				sz = res.Size()
			}
			s.fail("Filtering", kd, fmt.Sprintf("Filtering(%v) on a list of size %d (backing length %d) did not report the index %d; it returned %d elements", idx, size, tl, bad, sz))
			return
		}
		s.afterReport("Filtering", t)
	case 2, 3, 4: // SortingAnyList with a child from the pool (long enough or not), a fresh short child, or nil
		if tooManyLeaks(k.name, "SortingAnyList") {
			return
		}
		var ch *plist[T, L]
		var child list.AnyList
		desc := "nil"
		switch r.Intn(6) {
		case 0:
			// no child at all
		case 1:
			var z L // a nil list of the right type
			child, desc = z, "(nil "+k.name+")"
		case 2:
			if size > 0 {
				n := r.Intn(size)
				vals := make([]T, n)
				for j := range vals {
					vals[j] = k.draw(r)
				}
				l := k.newCap(n + r.Intn(4))
				l.AddAllArray(append([]T(nil), vals...))
				s.logf("L%d := cap with %v", s.nextID, showAll(k.show, vals))
				ch = s.join(l, vals, "short child")
				break
			}
			fallthrough
		default:
			ch = s.pickOther()
		}
		if ch != nil {
			child, desc = ch.l, fmt.Sprintf("L%d", ch.id)
		}
		asc, casc := r.Bool(), r.Bool()
		s.logf("L%d.SortingAnyList(%v, %s, %v)", t.id, asc, desc, casc)
		short := ch == nil || len(ch.m) < size
		if short {
			c.Count("seq_sorting_short_or_nil_child", 1)
		}
		var perm []int
		p := vlib.Catch(func() { perm = t.l.SortingAnyList(asc, child, casc) })
		if p != nil {
			if !short {
				s.fail("SortingAnyList", "panic", fmt.Sprintf("SortingAnyList with a child of %d elements on a list of %d panicked: %v", len(ch.m), size, p))
				s.dead = true
				return
			}
			c.Count("seq_sorting_child_reports", 1)
			s.afterReport("SortingAnyList", t, ch)
			return
		}
		// accepted: no comparison needed a child element that does not exist
		if msg := checkPermutation(perm, size); msg != "" {
			s.fail("SortingAnyList", "not-permutation", msg)
			return
		}
		for j := 0; j+1 < len(perm); j++ {
			a, b := perm[j], perm[j+1]
			o := k.cmp(t.m[a], t.m[b])
			if !asc {
				o = -o
			}
			if o > 0 {
				s.fail("SortingAnyList", "primary-order", fmt.Sprintf("positions %d,%d hold %s then %s, %s requested", j, j+1, k.show(t.m[a]), k.show(t.m[b]), dirName(asc)))
				return
			}
			if o == 0 && ch != nil && a < len(ch.m) && b < len(ch.m) && !k.dblTie(ch.m[a], ch.m[b]) {
				o = k.cmp(ch.m[a], ch.m[b])
				if !casc {
					o = -o
				}
				if o > 0 {
					s.fail("SortingAnyList", "child-order", fmt.Sprintf("positions %d,%d tie on %s; the child holds %s then %s, %s requested", j, j+1, k.show(t.m[a]), k.show(ch.m[a]), k.show(ch.m[b]), dirName(casc)))
					return
				}
			}
		}
		c.Count("seq_sortings_anylist", 1)
		s.holdInts("SortingAnyList", fmt.Sprintf("the index slice returned by L%d.SortingAnyList", t.id), perm)
	case 5, 6: // text that does not denote a number (numeric lists: AddString / SetString; string lists: the numeric getters)
		txt := badTexts[r.Intn(len(badTexts))]
		if k.typ == 5 {
			if size == 0 {
				return
			}
			idx := r.Intn(size)
			method := []string{"GetInt", "GetLong", "GetFloat", "GetDouble"}[r.Intn(4)]
			s.logf("L%d.%s(%d) [element %s]", t.id, method, idx, k.show(t.m[idx]))
			if p := vlib.Catch(func() { callOOR(t.l, method, idx) }); p != nil {
				s.afterReport(method, t)
			}
			return
		}
		if size > 0 && r.Bool() {
			idx := r.Intn(size)
			s.logf("L%d.SetString(%d, %q)", t.id, idx, txt)
			s.mutated, s.last = true, "SetString"
			if p := vlib.Catch(func() { t.l.SetString(idx, txt) }); p != nil {
				s.afterReport("SetString", t)
				return
			}
			// accepted: whatever number the text was taken for is the element now
			if p := vlib.Catch(func() { t.m[idx] = k.get(t.l, idx) }); p != nil {
				s.fail("Get"+k.short, "panic", fmt.Sprintf("Get%s(%d) panicked after SetString(%q) was accepted: %v", k.short, idx, txt, p))
				s.dead = true
			}
			return
		}
		s.logf("L%d.AddString(%q)", t.id, txt)
		s.mutated, s.last = true, "AddString"
		if p := vlib.Catch(func() { t.l.AddString(txt) }); p != nil {
			s.afterReport("AddString", t)
			return
		}
		if t.l.Size() != size+1 {
			s.fail("AddString", "wrong-size", fmt.Sprintf("AddString(%q) was accepted; Size() went from %d to %d", txt, size, t.l.Size()))
			s.dead = true
			return
		}
		var actual T
		if p := vlib.Catch(func() { actual = k.get(t.l, size) }); p != nil {
			s.fail("Get"+k.short, "panic", fmt.Sprintf("Get%s(%d) panicked after AddString(%q) was accepted: %v", k.short, size, txt, p))
			s.dead = true
			return
		}
		t.m = append(t.m, actual)
	default: // AddAll of a nil list
		var z L
		s.logf("L%d.AddAll(nil)", t.id)
		s.mutated, s.last = true, "AddAll"
		if p := vlib.Catch(func() { t.l.AddAll(z) }); p != nil {
			s.afterReport("AddAll", t)
		}
		// accepted or not: there was nothing to add (the pool is verified by the caller)
	}
}
