package main

// Independent reference encoding of the typed-list wire form and of the table that
// StatGeneralPack builds from typed lists. Written from the layout with the refcodec
// primitives only:
//
//	list   := int24 count, then count elements
//	          int / long elements : decimal (length class byte + big-endian payload)
//	          float               : 4 bytes IEEE-754 big-endian
//	          double              : 8 bytes IEEE-754 big-endian
//	          string              : text (blob prefix + UTF-8 bytes; "" = one zero byte)
//	table  := int16 column count, then per column: text key, type byte (1..5), list
//	pack   := common header (decimal pcode, int32 oid, int64 time — short form when okind
//	          and onode are 0), text id, int24 table length, table bytes; the _1 pack type
//	          appends blob(decimal dataStartTime)

import "verif/refcodec"

func refList[T any](vals []T, enc func(*refcodec.W, T)) []byte {
	w := refcodec.NewW()
	refListInto(w, vals, enc)
	return w.B
}

func refListInto[T any](w *refcodec.W, vals []T, enc func(*refcodec.W, T)) {
	w.Mark(3, refcodec.KCount, "list-count")
	w.I24(int32(len(vals)))
	for _, v := range vals {
		enc(w, v)
	}
}

type refColumn struct {
	key  string
	typ  byte
	body func(w *refcodec.W)
}

func refTable(cols []refColumn) []byte {
	w := refcodec.NewW()
	w.Mark(2, refcodec.KCount, "column-count")
	w.I16(int16(len(cols)))
	for _, c := range cols {
		w.Text(c.key)
		w.Mark(1, refcodec.KTag, "list-type")
		w.U8(c.typ)
		c.body(w)
	}
	return w.B
}

type refPackHeader struct {
	pcode     int64
	oid       int32
	okind     int32
	onode     int32
	time      int64
	id        string
	withStart bool
	startTime int64
}

func refStatGeneralPack(h refPackHeader, cols []refColumn) []byte {
	w := refcodec.NewW()
	if h.okind|h.onode == 0 {
		w.Decimal(h.pcode).I32(h.oid).I64(h.time)
	} else {
		w.U8(9).Decimal(h.pcode).I32(h.oid).I32(h.okind).I32(h.onode).I64(h.time)
	}
	w.Text(h.id)
	var table []byte
	if len(cols) > 0 {
		table = refTable(cols)
	}
	w.Mark(3, refcodec.KLen, "table-length")
	w.I24(int32(len(table)))
	w.Raw(table)
	if h.withStart {
		inner := refcodec.NewW()
		inner.Decimal(h.startTime)
		w.Blob(inner.B)
	}
	return w.B
}
