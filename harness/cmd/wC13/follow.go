package main

// After an error report the object is still a sequence. The lists report errors by panicking
// (an out-of-range index, a child list that is shorter than the primary or nil, text that does
// not parse, a nil source); the caller recovers and goes on using the same list: "behave as
// sequences under any mix of … operations, reporting out-of-range indices". So after EVERY
// call of this worker that ended in a recovered panic, the object (and the other objects the
// call was given) gets a follow-up call made from a goroutine of its own with a bounded wait.
// The wait only decides when to look: the verdict comes from the goroutine dump. A follow-up
// that is parked in sync.Mutex.Lock beneath a golib frame, on an object nobody else uses, in
// two successive dumps, can never go on — the earlier call left the object's mutex locked
// (<Type>.<Method>:lock-leaked-after-panic). A follow-up that returns is judged by the usual
// oracles; one that neither returns nor is parked on a mutex is inconclusive.

import (
	"fmt"
	"regexp"
	"runtime"
	"strings"
	"time"

	"verif/vlib"
)

var followWaits = []time.Duration{20 * time.Millisecond, 50 * time.Millisecond, 100 * time.Millisecond, 400 * time.Millisecond,
	time.Second, 3 * time.Second, 10 * time.Second, 30 * time.Second}

// leakedFollowers: follow-up goroutines that earlier findings of this process left parked.
var leakedFollowers int

// leakReports counts lock-leak findings per key: a build that leaks a lock on a common path
// would otherwise spend its whole budget waiting for verdicts.
var leakReports = map[string]int{}

var goroutineHeader = regexp.MustCompile(`(?m)^goroutine \d+ \[([^\]]*)\]:$`)

// followCall is the body of a follow-up goroutine (a named function so that the goroutine can
// be found in a dump).
//
//go:noinline
func followCall(fn func(), done chan<- interface{}) {
	done <- vlib.Catch(fn)
}

// parkedFollowers counts the follow-up goroutines parked in a mutex beneath a golib frame.
func parkedFollowers() (n int, stack string) {
	buf := make([]byte, 1<<18)
	for {
		k := runtime.Stack(buf, true)
		if k < len(buf) {
			buf = buf[:k]
			break
		}
		buf = make([]byte, 2*len(buf))
	}
	for _, g := range strings.Split(string(buf), "\n\n") {
		if !strings.Contains(g, "main.followCall(") {
			continue
		}
		h := goroutineHeader.FindStringSubmatch(g)
		if h == nil {
			continue
		}
		if (strings.HasPrefix(h[1], "sync.Mutex.Lock") || strings.HasPrefix(h[1], "sync.RWMutex") || strings.HasPrefix(h[1], "semacquire")) &&
			(strings.Contains(g, "sync.(*Mutex).Lock") || strings.Contains(g, "sync.(*RWMutex)")) &&
			strings.Contains(g, "github.com/whatap/golib/") {
			n++
			stack = g
		}
	}
	return
}

// bounded runs fn in a follow-up goroutine. verdict: "returned" (pv is the recovered panic of
// fn, if any), "lock-leaked" (stack is the parked goroutine) or "stuck".
func bounded(fn func()) (verdict string, pv interface{}, stack string) {
	done := make(chan interface{}, 1)
	go followCall(fn, done)
	seen := 0
	for _, w := range followWaits {
		select {
		case pv = <-done:
			return "returned", pv, ""
		case <-time.After(w):
			n, st := parkedFollowers()
			if n <= leakedFollowers {
				seen = 0
				continue
			}
			if seen++; seen >= 2 {
				select {
				case pv = <-done: // it went on after all
					return "returned", pv, ""
				default:
				}
				leakedFollowers = n
				return "lock-leaked", nil, st
			}
		}
	}
	return "stuck", nil, ""
}

// followUp makes the follow-up call fn on an object of type typeName after its method `method`
// (or a method of another object that was given this one) reported an error. It returns false
// when the object cannot be used any further; findings for a returned follow-up are the
// caller's (fn stores what it got, the caller judges it).
func followUp(c *vlib.Ctx, typeName, method, what string, fn func(), detail func() map[string]interface{}) (ok bool, pv interface{}) {
	c.Count("followups_after_error_report", 1)
	c.SetAdd("followups_after", typeName+"."+method)
	verdict, pv, stack := bounded(fn)
	switch verdict {
	case "returned":
		return true, pv
	case "lock-leaked":
		key := typeName + "." + method + ":lock-leaked-after-panic"
		leakReports[key]++
		d := detail()
		d["follow_up"] = what
		d["goroutine"] = stack
		c.Fail(key, fmt.Sprintf("%s.%s reported an error by panicking; the next call on the same object (%s) is parked in sync.Mutex.Lock for good: the mutex was still locked when the panic left %s", typeName, method, what, method), d)
		return false, nil
	}
	c.Inconclusive(typeName+"."+method+"/follow-up", fmt.Sprintf("the follow-up call (%s) after an error report of %s.%s neither returned within the bounded wait nor is it parked on a mutex", what, typeName, method))
	return false, nil
}

// tooManyLeaks: enough reports under this key; further error probes of the method are skipped.
func tooManyLeaks(typeName, method string) bool {
	return leakReports[typeName+"."+method+":lock-leaked-after-panic"] >= 3
}
