// Decoding INTO USED OBJECTS.
//
// The other sections decode into objects that were just made. A consumer that keeps one pack,
// record or step object and calls its Read for every message it receives does not: the second
// Read meets an object that still holds what the first Read put there. "Optional sections … are
// restored exactly when their presence condition held at write time" does not depend on what the
// receiving object held before, so here every type of the property's scope gets a history of
// 2..3 decodes into ONE object: bytes A (reference encoding of a drawn value), then bytes B —
// other optional sections present or absent, another version, shorter and longer lists, and
// half of the time the barest value the type has — then sometimes bytes C. After every decode
//
//   - the object equals what the reference says B decodes to (and what a fresh object decodes
//     from the same bytes): a section that B does not carry and that is still there from A is
//     <Type>.<section>:stale-after-redecode;
//   - what the caller obtained from the EARLIER decodes — the record of a pack, blobs, stacks,
//     attribute maps, held as the pointers and slices the object handed out — is what it was:
//     <Type>.<section>:earlier-decode-altered;
//   - exactly the bytes of the value were consumed.
//
// One decode in four starts from an object that was filled through its fields instead (a used
// object that never decoded anything).
package main

import (
	"bytes"
	"fmt"

	gio "github.com/whatap/golib/io"
	"github.com/whatap/golib/lang/pack"
	"github.com/whatap/golib/lang/service"
	"github.com/whatap/golib/lang/step"
	"github.com/whatap/golib/lang/value"

	"verif/refcodec"
	"verif/stepgen"
	"verif/vlib"
)

// rdOps describes one type for the redecode engine. R is its neutral form.
type rdOps[R any] struct {
	name  string
	gen   func(r *vlib.Rand) R
	strip func(r *vlib.Rand, v R) R // the barest variant of v: no optional section, no list elements
	enc   func(v R) []byte          // the reference bytes the type's own Read consumes
	canon func(v R) R               // what a correct decoder yields
	fresh func() interface{}
	used  func(v R) interface{} // an object filled through its fields
	read  func(o interface{}, in *gio.DataInputX)
	// view walks the object into the neutral form; slices are the object's own (not copied)
	view func(o interface{}) R
	// held captures what the caller can keep from the object after a decode and returns a
	// function that walks THOSE pointers and slices again later
	held  func(o interface{}) func() R
	diff  func(a, b R) []string
	group func(field string) string // field -> section name of the finding key
	// heldGroup (optional): the same for what the caller kept (a kept sub-object that was
	// overwritten differs in all its fields: one key for the object)
	heldGroup func(field string) string
	show      func(v R) string
}

func rdShort(s string) string {
	if len(s) > 1500 {
		return s[:1500] + "…"
	}
	return s
}

func redecode[R any](ops rdOps[R], section string, i int, r *vlib.Rand) {
	n := 2
	if r.Intn(3) == 0 {
		n = 3
	}
	vals := make([]R, n)
	kinds := make([]string, n)
	for j := range vals {
		vals[j] = ops.gen(r)
		kinds[j] = "drawn"
		if j > 0 && r.Bool() {
			vals[j], kinds[j] = ops.strip(r, vals[j]), "barest"
		}
	}
	if r.Intn(8) == 0 { // the barest first, then a full one: nothing may be left out either
		vals[0], kinds[0] = ops.strip(r, vals[0]), "barest"
	}
	var o interface{}
	start := 0
	hist := []string{}
	if r.Intn(4) == 0 {
		o = ops.used(vals[0])
		start = 1
		hist = append(hist, fmt.Sprintf("object filled through its fields with value 0 (%s)", kinds[0]))
	} else {
		o = ops.fresh()
		hist = append(hist, "new object")
	}
	detail := func(extra map[string]interface{}) map[string]interface{} {
		d := map[string]interface{}{"type": ops.name, "history": hist}
		for j := range vals {
			d[fmt.Sprintf("value_%d", j)] = rdShort(ops.show(ops.canon(vals[j])))
			d[fmt.Sprintf("bytes_%d", j)] = hexFull(ops.enc(vals[j]))
		}
		for k, v := range extra {
			d[k] = v
		}
		return d
	}
	type heldView struct {
		of   int
		walk func() R
	}
	var helds []heldView
	var dh uint64
	for j := start; j < n; j++ {
		b := ops.enc(vals[j])
		dh = dh*0x100000001b3 ^ vlib.HashBytes(b)
		hist = append(hist, fmt.Sprintf("Read(bytes of value %d, %s, %d bytes)", j, kinds[j], len(b)))
		in := gio.NewDataInputX(withCanary(b))
		if p := vlib.Catch(func() { ops.read(o, in) }); p != nil {
			// a fresh object panicking on valid bytes is the business of the other sections
			f := ops.fresh()
			if p2 := vlib.Catch(func() { ops.read(f, gio.NewDataInputX(withCanary(b))) }); p2 == nil && j > 0 {
				key := ops.name + ":decode-panics/redecode"
				if !cheap(key) {
					c.Fail(key, fmt.Sprintf("%s: decoding valid bytes into a %s that was used before panics (%v); a new object decodes them", section, ops.name, p), detail(map[string]interface{}{"panic": fmt.Sprint(p)}))
				}
			}
			c.Count("redecode_aborted", 1)
			return
		}
		exp := ops.canon(vals[j])
		d := ops.diff(exp, ops.view(o))
		consumed := int(in.Available()) == len(canary)
		if len(d) > 0 || !consumed {
			// attributable to the re-use only when a new object decodes the same bytes correctly
			f := ops.fresh()
			fin := gio.NewDataInputX(withCanary(b))
			if p := vlib.Catch(func() { ops.read(f, fin) }); p != nil || len(ops.diff(exp, ops.view(f))) > 0 || int(fin.Available()) != len(canary) || j == 0 {
				c.Count("redecode_aborted", 1)
				return
			}
			if !consumed {
				key := ops.name + ":not-consumed/redecode"
				if !cheap(key) {
					c.Fail(key, fmt.Sprintf("%s: a %s that was used before consumed %d bytes of a %d-byte value; a new object consumes exactly the value", section, ops.name, len(b)+len(canary)-int(in.Available()), len(b)), detail(nil))
				}
			}
			seen := map[string]bool{}
			for _, fld := range d {
				g := ops.group(fld)
				if seen[g] {
					continue
				}
				seen[g] = true
				key := ops.name + "." + g + ":stale-after-redecode"
				if cheap(key) {
					continue
				}
				c.Fail(key, fmt.Sprintf("%s: value %d was decoded into a %s that held value %d before: field %s is not what value %d carries (a new object decodes the same bytes correctly)", section, j, ops.name, j-1, fld, j),
					detail(map[string]interface{}{"field": fld, "differing_fields": d, "expected": rdShort(ops.show(exp)), "object_now": rdShort(ops.show(ops.view(o)))}))
			}
			c.Count("redecodes_differing", 1)
		} else if j > start || start == 1 {
			c.Count("redecodes_equal", 1)
		}
		// what the caller kept from the earlier decodes
		for _, h := range helds {
			was := ops.canon(vals[h.of])
			now := h.walk()
			seen := map[string]bool{}
			for _, fld := range ops.diff(was, now) {
				g := ops.group(fld)
				if ops.heldGroup != nil {
					g = ops.heldGroup(fld)
				}
				if seen[g] {
					continue
				}
				seen[g] = true
				key := ops.name + "." + g + ":earlier-decode-altered"
				if cheap(key) {
					continue
				}
				c.Fail(key, fmt.Sprintf("%s: what the caller kept from decode %d of a %s (field %s) changed when value %d was decoded into the same object", section, h.of, ops.name, fld, j),
					detail(map[string]interface{}{"field": fld, "kept_was": rdShort(ops.show(was)), "kept_is": rdShort(ops.show(now))}))
			}
			c.Count("redecode_held_views_checked", 1)
		}
		if len(d) == 0 {
			helds = append(helds, heldView{j, ops.held(o)})
		}
		if j > 0 {
			c.Count("redecodes", 1)
			if kinds[j] == "barest" {
				c.Count("redecodes_of_barest_value", 1)
			}
		}
	}
	c.SetAdd("redecode_types", ops.name)
	c.Count("redecode_histories", 1)
	c.Distinct(dh)
	if n == 2 && !wasSampled("redecode") && ops.name == "TxRecord" {
		sampleOnce("redecode", map[string]interface{}{"type": ops.name, "history": hist, "bytes_0": hexFull(ops.enc(vals[0])), "bytes_1": hexFull(ops.enc(vals[1]))})
	}
}

// ---- steps ------------------------------------------------------------------------------------

func stepGroup(t byte) func(string) string {
	return func(f string) string {
		switch t {
		case refcodec.StepTHttpcX:
			switch f {
			case "StepId", "Driver", "OriginUrl", "Param":
				return "v2-details"
			}
		case refcodec.StepTSql3:
			switch f {
			case "P1", "P2", "Pcrc":
				return "params"
			case "StartCpu", "Cpu", "StartMem", "Mem":
				return "resources"
			}
		case refcodec.StepTMessageX:
			if f == "Attr" {
				return "attributes"
			}
		}
		return f
	}
}

// stripStep: the barest step of the type: lowest version, no flagged section, empty lists.
func stripStep(r *vlib.Rand, s stepgen.RefStep) stepgen.RefStep {
	s.Stack, s.P1, s.P2, s.IpAddr, s.SecValue = nil, nil, nil, nil, nil
	s.Attr = nil
	switch s.Type {
	case refcodec.StepTHttpcX:
		s.Version = byte(r.Intn(2))
	case refcodec.StepTSql3:
		s.Opt &^= 7
		if r.Bool() {
			s.Opt = 0
		}
	}
	s.Driver, s.OriginUrl, s.Param, s.Desc, s.Title = "", "", "", "", ""
	return s
}

func stepOps(t byte) rdOps[stepgen.RefStep] {
	name := refcodec.StepTypeName(t)
	ops := rdOps[stepgen.RefStep]{
		name:  name,
		gen:   func(r *vlib.Rand) stepgen.RefStep { return stepgen.GenStep(r, t) },
		strip: stripStep,
		enc:   refcodec.EncodeStepBody,
		canon: stepgen.Canon,
		diff:  stepgen.Diff,
		group: stepGroup(t),
		show:  func(v stepgen.RefStep) string { return fmt.Sprintf("%+v", v) },
	}
	if t == refcodec.StepTSql3 {
		ops.fresh = func() interface{} { return step.NewSqlStep_3() }
		ops.used = func(v stepgen.RefStep) interface{} { return stepgen.Sql3ToGolib(v) }
		ops.read = func(o interface{}, in *gio.DataInputX) { o.(*step.SqlStep_3).Read(in) }
		ops.view = func(o interface{}) stepgen.RefStep { return stepgen.Sql3FromGolib(o.(*step.SqlStep_3)) }
		ops.held = func(o interface{}) func() stepgen.RefStep {
			v := stepgen.Sql3FromGolib(o.(*step.SqlStep_3)) // the slices are the ones the decode handed out
			return func() stepgen.RefStep { return v }
		}
		return ops
	}
	ops.fresh = func() interface{} { return stepgen.ToGolib(stepgen.RefStep{Type: t}) }
	ops.used = func(v stepgen.RefStep) interface{} { return stepgen.ToGolib(v) }
	ops.read = func(o interface{}, in *gio.DataInputX) { o.(step.Step).Read(in) }
	ops.view = func(o interface{}) stepgen.RefStep { return stepgen.FromGolib(o.(step.Step)) }
	ops.held = func(o interface{}) func() stepgen.RefStep {
		v := stepgen.FromGolib(o.(step.Step))
		var attr *value.MapValue
		if mx, ok := o.(*step.MessageStepX); ok {
			attr = mx.Attr
		}
		return func() stepgen.RefStep {
			w := v
			if t == refcodec.StepTMessageX {
				w.Attr = stepgen.AttrFromGolib(attr)
			}
			return w
		}
	}
	return ops
}

// ---- transaction records ----------------------------------------------------------------------

func stripTx(r *vlib.Rand, t stepgen.RefTxRecord) stepgen.RefTxRecord {
	b := stepgen.GenTxRecordShape(r, stepgen.TxShape{Fields: -1})
	b.Uuid, b.OriginUrl = "", ""
	// members of absent groups may be set in the writer's object; the wire does not carry them
	return b
}

func txOps(viaToObject bool) rdOps[stepgen.RefTxRecord] {
	return rdOps[stepgen.RefTxRecord]{
		name:  "TxRecord",
		gen:   stepgen.GenTxRecord,
		strip: stripTx,
		enc:   refcodec.EncodeTxRecord,
		canon: stepgen.TxCanon,
		fresh: func() interface{} { return service.NewTxRecord() },
		used:  func(v stepgen.RefTxRecord) interface{} { return stepgen.TxToGolib(v) },
		read: func(o interface{}, in *gio.DataInputX) {
			if viaToObject {
				// ToObject takes the record's own bytes: hand it exactly those and move the stream on
				n := int(in.Available()) - len(canary)
				o.(*service.TxRecord).ToObject(in.ReadBytes(int32(n)))
				return
			}
			o.(*service.TxRecord).Read(in)
		},
		view: func(o interface{}) stepgen.RefTxRecord { return stepgen.TxFromGolib(o.(*service.TxRecord)) },
		held: func(o interface{}) func() stepgen.RefTxRecord {
			v := stepgen.TxFromGolib(o.(*service.TxRecord))
			f := o.(*service.TxRecord).Fields
			return func() stepgen.RefTxRecord {
				w := v
				w.Fields = stepgen.AttrFromGolib(f)
				return w
			}
		},
		diff:  stepgen.TxDiff,
		group: stepgen.TxGroupOf,
		show:  func(v stepgen.RefTxRecord) string { return fmt.Sprintf("%+v", v) },
	}
}

// ---- service records --------------------------------------------------------------------------

func svcOps(t byte) rdOps[stepgen.RefService] {
	return rdOps[stepgen.RefService]{
		name: refcodec.SvcTypeName(t),
		gen:  func(r *vlib.Rand) stepgen.RefService { return stepgen.GenService(r, t) },
		strip: func(r *vlib.Rand, v stepgen.RefService) stepgen.RefService {
			return stepgen.RefService{Type: t}
		},
		enc:   func(v stepgen.RefService) []byte { return refcodec.EncodeService(v)[1:] }, // the type's own Read starts after the type byte
		canon: func(v stepgen.RefService) stepgen.RefService { return v },
		fresh: func() interface{} { return stepgen.SvcToGolib(stepgen.RefService{Type: t}) },
		used:  func(v stepgen.RefService) interface{} { return stepgen.SvcToGolib(v) },
		read:  func(o interface{}, in *gio.DataInputX) { o.(service.Service).Read(in) },
		view:  func(o interface{}) stepgen.RefService { return stepgen.SvcFromGolib(o.(service.Service)) },
		held: func(o interface{}) func() stepgen.RefService {
			v := stepgen.SvcFromGolib(o.(service.Service))
			return func() stepgen.RefService { return v }
		},
		diff:  stepgen.SvcDiff,
		group: func(f string) string { return f },
		show:  func(v stepgen.RefService) string { return fmt.Sprintf("%+v", v) },
	}
}

// ---- the packs that embed a profile ------------------------------------------------------------

// rdPack is the neutral form of the three packs (the members a kind does not have stay zero).
type rdPack struct {
	Kind  int
	Hdr   refcodec.RefPackHeader08
	Tx    stepgen.RefTxRecord
	Steps []stepgen.RefStep
	// ProfileStepSplitPack
	Txid, Inx int64
	// ErrorSnapPack1
	Seq        int64
	HasStack   bool
	Stack      []int32
	AppendType byte
	AppendHash int32

	// what the walk of a golib pack fills instead of Steps / Stack: the blobs as the pack keeps them
	stepsBlob, stackBlob []byte
	walked               bool
	txNil                bool
}

func (p rdPack) blobs() (steps, stack []byte) {
	if p.walked {
		return p.stepsBlob, p.stackBlob
	}
	steps, _ = refcodec.EncodeSteps(p.Steps)
	st := refcodec.NewW()
	if p.HasStack {
		st.IntArray(p.Stack)
	}
	return steps, st.B
}

func genRdPack(kind int) func(r *vlib.Rand) rdPack {
	return func(r *vlib.Rand) rdPack {
		p := rdPack{Kind: kind, Hdr: genHdr(r), Steps: stepgen.GenSteps(r, []int{0, 1, r.Range(2, 12), r.Range(2, 30)}[r.Intn(4)])}
		switch kind {
		case hkProfile:
			p.Tx = stepgen.GenTxRecord(r)
		case hkStepSplit:
			p.Txid, p.Inx = r.I64(), r.I64()
		case hkErrorSnap:
			p.Seq, p.AppendType, p.AppendHash = r.I64(), byte(r.U64()), r.I32()
			p.HasStack, p.Stack = genCallStack(r)
		}
		return p
	}
}

func stripRdPack(r *vlib.Rand, p rdPack) rdPack {
	q := rdPack{Kind: p.Kind, Hdr: refcodec.RefPackHeader08{Pcode: p.Hdr.Pcode, Oid: p.Hdr.Oid, Time: p.Hdr.Time}} // the short header form
	switch p.Kind {
	case hkProfile:
		q.Tx = stripTx(r, p.Tx)
	case hkStepSplit:
		q.Txid, q.Inx = p.Txid, p.Inx
	case hkErrorSnap:
		q.Seq = p.Seq
	}
	return q
}

func encRdPack(p rdPack) []byte {
	w := refcodec.NewW()
	switch p.Kind {
	case hkProfile:
		w.ProfilePack(refcodec.RefProfilePack{Hdr: p.Hdr, Tx: p.Tx, Steps: p.Steps})
	case hkStepSplit:
		w.StepSplitPack(refcodec.RefStepSplitPack{Hdr: p.Hdr, Txid: p.Txid, Inx: p.Inx, Steps: p.Steps})
	case hkErrorSnap:
		w.ErrorSnapPack(refcodec.RefErrorSnapPack{Hdr: p.Hdr, Seq: p.Seq, Profile: p.Steps, HasStack: p.HasStack, Stack: p.Stack, AppendType: p.AppendType, AppendHash: p.AppendHash})
	}
	return w.B[2:] // the pack's own Read starts after the type short
}

func newRdPackObj(kind int) pack.Pack {
	switch kind {
	case hkProfile:
		return pack.NewProfilePack()
	case hkStepSplit:
		return pack.NewProfileStepSplitPack()
	}
	return pack.NewErrorSnapPack1()
}

func usedRdPackObj(p rdPack) interface{} {
	gs := make([]step.Step, len(p.Steps))
	for k := range gs {
		gs[k] = stepgen.ToGolib(p.Steps[k])
	}
	switch p.Kind {
	case hkProfile:
		o := pack.NewProfilePack()
		setHdr(&o.AbstractPack, p.Hdr)
		o.Transaction = stepgen.TxToGolib(p.Tx)
		o.SetProfile(gs)
		return o
	case hkStepSplit:
		o := pack.NewProfileStepSplitPack()
		setHdr(&o.AbstractPack, p.Hdr)
		o.Txid, o.Inx = p.Txid, int(p.Inx)
		o.SetProfile(gs)
		return o
	}
	o := pack.NewErrorSnapPack1()
	setHdr(&o.AbstractPack, p.Hdr)
	o.Seq, o.AppendType, o.AppendHash = p.Seq, p.AppendType, p.AppendHash
	o.SetProfile(gs)
	if p.HasStack {
		o.SetStack(p.Stack)
	}
	return o
}

// walkRdPack reads a golib pack through its exported fields; tx (when not nil) is the record to
// walk instead of the pack's current one, steps / stack the blobs to take instead of the current.
func walkRdPack(o interface{}) rdPack {
	switch d := o.(type) {
	case *pack.ProfilePack:
		p := rdPack{Kind: hkProfile, Hdr: hdrOf(&d.AbstractPack), stepsBlob: d.Steps, walked: true}
		if d.Transaction == nil {
			p.txNil = true
		} else {
			p.Tx = stepgen.TxFromGolib(d.Transaction)
		}
		return p
	case *pack.ProfileStepSplitPack:
		return rdPack{Kind: hkStepSplit, Hdr: hdrOf(&d.AbstractPack), Txid: d.Txid, Inx: int64(d.Inx), stepsBlob: d.Steps, walked: true}
	case *pack.ErrorSnapPack1:
		return rdPack{Kind: hkErrorSnap, Hdr: hdrOf(&d.AbstractPack), Seq: d.Seq, AppendType: d.AppendType, AppendHash: d.AppendHash,
			stepsBlob: d.Profile, stackBlob: d.Stack, walked: true}
	}
	return rdPack{Kind: -1, walked: true}
}

func heldRdPack(o interface{}) func() rdPack {
	v := walkRdPack(o) // the blobs are the slices the decode handed out
	var tx *service.TxRecord
	if d, ok := o.(*pack.ProfilePack); ok {
		tx = d.Transaction
	}
	return func() rdPack {
		w := v
		if tx != nil {
			w.Tx = stepgen.TxFromGolib(tx) // the record object the caller took from the pack
		}
		return w
	}
}

var rdPackStepsField = [...]string{hkProfile: "Steps", hkStepSplit: "Steps", hkErrorSnap: "Profile"}

func diffRdPack(a, b rdPack) []string {
	var out []string
	if a.Kind != b.Kind {
		return []string{"type"}
	}
	if a.Hdr.Pcode != b.Hdr.Pcode {
		out = append(out, "Pcode")
	}
	if a.Hdr.Oid != b.Hdr.Oid {
		out = append(out, "Oid")
	}
	if a.Hdr.Okind != b.Hdr.Okind {
		out = append(out, "Okind")
	}
	if a.Hdr.Onode != b.Hdr.Onode {
		out = append(out, "Onode")
	}
	if a.Hdr.Time != b.Hdr.Time {
		out = append(out, "Time")
	}
	as, ak := a.blobs()
	bs, bk := b.blobs()
	switch a.Kind {
	case hkProfile:
		if a.txNil != b.txNil {
			out = append(out, "Transaction")
		} else {
			for _, f := range stepgen.TxDiff(a.Tx, b.Tx) {
				out = append(out, "Transaction."+f)
			}
		}
	case hkStepSplit:
		if a.Txid != b.Txid {
			out = append(out, "Txid")
		}
		if a.Inx != b.Inx {
			out = append(out, "Inx")
		}
	case hkErrorSnap:
		if a.Seq != b.Seq {
			out = append(out, "Seq")
		}
		if a.AppendType != b.AppendType {
			out = append(out, "AppendType")
		}
		if a.AppendHash != b.AppendHash {
			out = append(out, "AppendHash")
		}
		if !bytes.Equal(ak, bk) {
			out = append(out, "Stack")
		}
	}
	if !bytes.Equal(as, bs) {
		out = append(out, rdPackStepsField[a.Kind])
	}
	return out
}

func packOps(kind int) rdOps[rdPack] {
	return rdOps[rdPack]{
		name:  hkNames[kind],
		gen:   genRdPack(kind),
		strip: stripRdPack,
		enc:   encRdPack,
		canon: func(p rdPack) rdPack {
			p.Tx = stepgen.TxCanon(p.Tx)
			return p
		},
		fresh: func() interface{} { return newRdPackObj(kind) },
		used:  usedRdPackObj,
		read:  func(o interface{}, in *gio.DataInputX) { o.(pack.Pack).Read(in) },
		view:  walkRdPack,
		held:  heldRdPack,
		diff:  diffRdPack,
		group: func(f string) string {
			switch {
			case f == "Okind" || f == "Onode":
				return "header-okind-onode"
			case len(f) > 12 && f[:12] == "Transaction.":
				return "Transaction." + stepgen.TxGroupOf(f[12:])
			}
			return f
		},
		heldGroup: func(f string) string {
			if len(f) > 12 && f[:12] == "Transaction." {
				return "Transaction"
			}
			return f
		},
		show: func(p rdPack) string {
			s, k := p.blobs()
			return fmt.Sprintf("hdr=%+v tx=%+v txid=%d inx=%d seq=%d append=%d/%d steps=%s stack=%s", p.Hdr, p.Tx, p.Txid, p.Inx, p.Seq, p.AppendType, p.AppendHash, hexFull(s), hexFull(k))
		},
	}
}

// redecodeSection registers the section: the case index walks over the types of the scope.
func redecodeSection() {
	type runner func(i int, r *vlib.Rand)
	var runs []runner
	add := func(weight int, f runner) {
		for k := 0; k < weight; k++ {
			runs = append(runs, f)
		}
	}
	for _, t := range refcodec.StepRegistered {
		ops := stepOps(t)
		w := 1
		if t == refcodec.StepTHttpcX {
			w = 3
		}
		add(w, func(i int, r *vlib.Rand) { redecode(ops, "redecode", i, r) })
	}
	for _, t := range refcodec.StepUnregistered {
		ops := stepOps(t)
		add(3, func(i int, r *vlib.Rand) { redecode(ops, "redecode", i, r) })
	}
	txR, txO := txOps(false), txOps(true)
	add(4, func(i int, r *vlib.Rand) { redecode(txR, "redecode", i, r) })
	add(2, func(i int, r *vlib.Rand) { redecode(txO, "redecode", i, r) })
	for _, t := range refcodec.SvcTypes {
		ops := svcOps(t)
		add(1, func(i int, r *vlib.Rand) { redecode(ops, "redecode", i, r) })
	}
	for _, kind := range []int{hkProfile, hkStepSplit, hkErrorSnap} {
		ops := packOps(kind)
		w := 3
		if kind == hkProfile {
			w = 6
		}
		add(w, func(i int, r *vlib.Rand) { redecode(ops, "redecode", i, r) })
	}
	n := c.N(12000, 240000)
	c.Cases("redecode", n, func(i int, r *vlib.Rand) { runs[i%len(runs)](i, r) })
	sh := int64(c.NShards)
	c.Floor("redecodes", int64(n)/10/sh, c.Counter("redecodes"))
	c.Floor("redecodes_of_barest_value", int64(n)/40/sh, c.Counter("redecodes_of_barest_value"))
	c.Floor("redecode_held_views_checked", int64(n)/20/sh, c.Counter("redecode_held_views_checked"))
}
