// Histories with several live objects.
//
// The other sections produce one encoding and decode it at once. A real agent does not: an
// error transaction fills a ProfilePack AND an ErrorSnapPack1, a long transaction fills several
// ProfileStepSplitPacks, and only afterwards are they serialised and sent. Here 2..6 objects
// (the three packs that embed a profile, a bare ToBytesStep result, a transaction record, a
// service record, a MessageStepX) are FILLED first — their encoders run one after the other,
// with encodings that are smaller than, as long as, and longer than the previous one, so that a
// reused output buffer fits or has to grow — and only then written, read back and decoded, in a
// drawn order. Every slice an encoder returned is held in the case's ledger (ledger.go) and
// re-verified after every later operation; the decoded step and record objects are held too and
// compared with what was written once more at the end. At the end the held slices are
// scribbled over and every object is encoded once more: the new encodings must not depend on
// memory the caller owns. The same histories run on several goroutines at once
// (vlib.ParallelCases) and, with fewer cases, under the race detector.
package main

import (
	"bytes"
	"fmt"

	gio "github.com/whatap/golib/io"
	"github.com/whatap/golib/lang/pack"
	"github.com/whatap/golib/lang/service"
	"github.com/whatap/golib/lang/step"

	"verif/refcodec"
	"verif/stepgen"
	"verif/vlib"
)

const (
	hkProfile = iota
	hkStepSplit
	hkErrorSnap
	hkBare
	hkTx
	hkService
	hkMessageX
	hkKinds
)

var hkNames = [...]string{"ProfilePack", "ProfileStepSplitPack", "ErrorSnapPack1", "ToBytesStep", "TxRecord", "Service", "MessageStepX"}

// the name of the field that keeps the step bytes, per pack
var hkField = [...]string{"Steps", "Steps", "Profile"}

type hobj struct {
	kind int
	id   string // "ProfilePack#0"
	rel  string // how the steps were derived from the previous profile

	// profile-bearing objects
	steps   []stepgen.RefStep
	gs      []step.Step
	stepRef []byte
	sizes   []int

	hdr     refcodec.RefPackHeader08
	tx      stepgen.RefTxRecord // ProfilePack's record, or the TxRecord object itself
	rsp     refcodec.RefStepSplitPack
	rep     refcodec.RefErrorSnapPack
	packRef []byte
	gp      pack.Pack
	raw     []byte // hkBare: the ToBytesStep result, as returned

	gtx    *service.TxRecord
	txRef  []byte
	txHeld []byte // the fill-time ToBytes result, as returned

	svc     stepgen.RefService
	gsvc    service.Service
	svcRef  []byte
	svcHeld []byte

	msg     stepgen.RefStep
	gmsg    *step.MessageStepX
	msgBody []byte // reference body (no tag)
	msgHeld []byte // WriteStep(...).ToByteArray() at fill time (tag + body)

	// decoded objects, held until the end of the case
	decSteps []step.Step
	decTx    *service.TxRecord
	decSvc   service.Service
	decMsg   *step.MessageStepX

	fillOK bool // the encoders gave the reference bytes when the object was filled
	done   bool // round-tripped
}

func rotate(s []stepgen.RefStep, k int) []stepgen.RefStep {
	n := len(s)
	out := make([]stepgen.RefStep, 0, n)
	if n == 0 {
		return out
	}
	k %= n
	out = append(out, s[k:]...)
	return append(out, s[:k]...)
}

// deriveSteps draws the next profile relative to the previous one: a strict part of it
// (smaller encoding), a rotation (the same length, other bytes), a superset (larger; "much
// larger" is beyond twice the size, where a doubling buffer has to grow again) or a fresh list.
func deriveSteps(r *vlib.Rand, base []stepgen.RefStep, first bool) ([]stepgen.RefStep, string) {
	fresh := func() []stepgen.RefStep {
		switch r.Intn(10) {
		case 0:
			return stepgen.GenSteps(r, r.Range(0, 2))
		case 1:
			return stepgen.GenSteps(r, r.Range(41, 120))
		}
		return stepgen.GenSteps(r, r.Range(2, 40))
	}
	if first || len(base) < 2 {
		return fresh(), "fresh"
	}
	n := len(base)
	switch r.Intn(8) {
	case 0, 1: // smaller: drop k steps from the front, then rotate
		k := r.Range(1, n-1)
		return rotate(base[k:], r.Intn(n)), "part"
	case 2, 3: // equal length, different bytes
		return rotate(base, r.Range(1, n-1)), "rotation"
	case 4, 5: // larger
		ext := append(append([]stepgen.RefStep{}, base...), stepgen.GenSteps(r, r.Range(1, n/2+1))...)
		return rotate(ext, r.Intn(len(ext))), "superset"
	case 6: // much larger
		ext := append(append(append([]stepgen.RefStep{}, base...), rotate(base, 1)...), base...)
		ext = append(ext, stepgen.GenSteps(r, r.Range(1, 4))...)
		return rotate(ext, r.Intn(len(ext))), "triple"
	}
	return fresh(), "fresh"
}

func genCallStack(r *vlib.Rand) (bool, []int32) {
	if r.Intn(4) == 0 {
		return false, nil
	}
	switch r.Intn(4) {
	case 0:
		return true, nil
	case 1:
		return true, []int32{}
	}
	var st []int32
	for k, n := 0, r.Range(1, 60); k < n; k++ {
		st = append(st, r.I32())
	}
	return true, st
}

// newHobj draws the object (reference side only; the golib side is built by fill).
func newHobj(r *vlib.Rand, kind, inx int, base []stepgen.RefStep, first bool) *hobj {
	o := &hobj{kind: kind, id: fmt.Sprintf("%s#%d", hkNames[kind], inx)}
	switch kind {
	case hkProfile, hkStepSplit, hkErrorSnap, hkBare:
		o.steps, o.rel = deriveSteps(r, base, first)
		o.stepRef, o.sizes = refcodec.EncodeSteps(o.steps)
		o.hdr = genHdr(r)
		w := refcodec.NewW()
		switch kind {
		case hkProfile:
			o.tx = stepgen.GenTxRecord(r)
			w.ProfilePack(refcodec.RefProfilePack{Hdr: o.hdr, Tx: o.tx, Steps: o.steps})
		case hkStepSplit:
			o.rsp = refcodec.RefStepSplitPack{Hdr: o.hdr, Txid: r.I64(), Inx: r.I64(), Steps: o.steps}
			w.StepSplitPack(o.rsp)
		case hkErrorSnap:
			o.rep = refcodec.RefErrorSnapPack{Hdr: o.hdr, Seq: r.I64(), Profile: o.steps, AppendType: byte(r.U64()), AppendHash: r.I32()}
			o.rep.HasStack, o.rep.Stack = genCallStack(r)
			w.ErrorSnapPack(o.rep)
		}
		o.packRef = w.B
	case hkTx:
		o.tx = stepgen.GenTxRecord(r)
		o.txRef = refcodec.EncodeTxRecord(o.tx)
	case hkService:
		o.svc = stepgen.GenService(r, refcodec.SvcTypes[r.Intn(3)])
		o.svcRef = refcodec.NewW().Service(o.svc).B
	case hkMessageX:
		o.msg = stepgen.GenStep(r, refcodec.StepTMessageX)
		o.msgBody = refcodec.EncodeStepBody(o.msg)
	}
	return o
}

// refLen is the length of the object's main encoding (what its first encoder returns).
func (o *hobj) refLen() int {
	switch o.kind {
	case hkTx:
		return len(o.txRef)
	case hkService:
		return len(o.svcRef)
	case hkMessageX:
		return len(o.msgBody) + 1
	}
	return len(o.stepRef)
}

func (o *hobj) stepsField() string { return hkNames[o.kind] + "." + hkField[o.kind] }

// setProfile runs the pack's own SetProfile and returns the slice the pack now keeps.
func (o *hobj) setProfile() []byte {
	switch p := o.gp.(type) {
	case *pack.ProfilePack:
		p.SetProfile(o.gs)
		return p.Steps
	case *pack.ProfileStepSplitPack:
		p.SetProfile(o.gs)
		return p.Steps
	case *pack.ErrorSnapPack1:
		p.SetProfile(o.gs)
		return p.Profile
	}
	return nil
}

func (o *hobj) keptProfile() []byte {
	switch p := o.gp.(type) {
	case *pack.ProfilePack:
		return p.Steps
	case *pack.ProfileStepSplitPack:
		return p.Steps
	case *pack.ErrorSnapPack1:
		return p.Profile
	}
	return nil
}

func histDetail(l *ledger, o *hobj, extra map[string]interface{}) map[string]interface{} {
	d := map[string]interface{}{"where": l.where, "object": o.id, "history": l.ops}
	if o.steps != nil {
		d["steps"] = len(o.steps)
		d["derived"] = o.rel
	}
	for k, v := range extra {
		d[k] = v
	}
	return d
}

// fill builds the golib object and runs its encoders; what they return is held.
func (o *hobj) fill(l *ledger) {
	switch o.kind {
	case hkProfile, hkStepSplit, hkErrorSnap, hkBare:
		o.gs = make([]step.Step, len(o.steps))
		for k := range o.gs {
			o.gs[k] = stepgen.ToGolib(o.steps[k])
		}
	}
	var got []byte
	fn := ""
	switch o.kind {
	case hkProfile:
		p := pack.NewProfilePack()
		setHdr(&p.AbstractPack, o.hdr)
		p.Transaction = stepgen.TxToGolib(o.tx)
		o.gp = p
	case hkStepSplit:
		p := pack.NewProfileStepSplitPack()
		setHdr(&p.AbstractPack, o.hdr)
		p.Txid, p.Inx = o.rsp.Txid, int(o.rsp.Inx)
		o.gp = p
	case hkErrorSnap:
		p := pack.NewErrorSnapPack1()
		setHdr(&p.AbstractPack, o.hdr)
		p.Seq, p.AppendType, p.AppendHash = o.rep.Seq, o.rep.AppendType, o.rep.AppendHash
		o.gp = p
	}
	switch o.kind {
	case hkProfile, hkStepSplit, hkErrorSnap:
		fn = hkNames[o.kind] + ".SetProfile"
		l.opf("%s.SetProfile(%d steps [%s], %d bytes)", o.id, len(o.steps), o.rel, len(o.stepRef))
		got = o.setProfile()
		l.hold(fn, got)
		l.verify()
		if o.kind == hkErrorSnap && o.rep.HasStack {
			l.opf("%s.SetStack(%d frames)", o.id, len(o.rep.Stack))
			o.gp.(*pack.ErrorSnapPack1).SetStack(o.rep.Stack)
			l.hold("ErrorSnapPack1.SetStack", o.gp.(*pack.ErrorSnapPack1).Stack)
			l.verify()
		}
		o.fillOK = bytes.Equal(got, o.stepRef)
		if !o.fillOK {
			c.Fail(fn+":bytes-differ", fmt.Sprintf("%s: the step bytes %s keeps after SetProfile differ from the reference at byte %d", l.where, o.id, firstDiff(got, o.stepRef)),
				histDetail(l, o, map[string]interface{}{"golib": hexFull(got), "reference": hexFull(o.stepRef)}))
		}
	case hkBare:
		l.opf("%s = ToBytesStep(%d steps [%s], %d bytes)", o.id, len(o.steps), o.rel, len(o.stepRef))
		o.raw = step.ToBytesStep(o.gs)
		l.hold("ToBytesStep", o.raw)
		l.verify()
		o.fillOK = bytes.Equal(o.raw, o.stepRef)
		if !o.fillOK {
			c.Fail("ToBytesStep:bytes-differ", fmt.Sprintf("%s: ToBytesStep differs from the reference at byte %d", l.where, firstDiff(o.raw, o.stepRef)),
				histDetail(l, o, map[string]interface{}{"golib": hexFull(o.raw), "reference": hexFull(o.stepRef)}))
		}
	case hkTx:
		o.gtx = stepgen.TxToGolib(o.tx)
		l.opf("%s.ToBytes() (%d bytes)", o.id, len(o.txRef))
		o.txHeld = o.gtx.ToBytes()
		l.hold("TxRecord.ToBytes", o.txHeld)
		l.verify()
		o.fillOK = bytes.Equal(o.txHeld, o.txRef)
		if !o.fillOK {
			c.Fail("TxRecord:bytes-differ", fmt.Sprintf("%s: TxRecord.ToBytes differs from the reference at byte %d", l.where, firstDiff(o.txHeld, o.txRef)),
				histDetail(l, o, map[string]interface{}{"golib": hexFull(o.txHeld), "reference": hexFull(o.txRef)}))
		}
	case hkService:
		o.gsvc = stepgen.SvcToGolib(o.svc)
		l.opf("service.ToBytes(%s %s) (%d bytes)", o.id, refcodec.SvcTypeName(o.svc.Type), len(o.svcRef))
		out := gio.NewDataOutputX()
		service.ToBytes(o.gsvc, out)
		o.svcHeld = out.ToByteArray()
		l.hold("service.ToBytes", o.svcHeld)
		l.verify()
		o.fillOK = bytes.Equal(o.svcHeld, o.svcRef)
		if !o.fillOK {
			c.Fail(refcodec.SvcTypeName(o.svc.Type)+":bytes-differ", fmt.Sprintf("%s: service.ToBytes differs from the reference at byte %d", l.where, firstDiff(o.svcHeld, o.svcRef)),
				histDetail(l, o, map[string]interface{}{"golib": hexFull(o.svcHeld), "reference": hexFull(o.svcRef)}))
		}
	case hkMessageX:
		o.gmsg = stepgen.ToGolib(o.msg).(*step.MessageStepX)
		l.opf("%s.WriteVer0()", o.id)
		v0 := o.gmsg.WriteVer0()
		l.hold("MessageStepX.WriteVer0", v0)
		l.verify()
		l.opf("WriteStep(%s) (%d bytes)", o.id, len(o.msgBody)+1)
		o.msgHeld = step.WriteStep(gio.NewDataOutputX(), o.gmsg).ToByteArray()
		l.hold("WriteStep", o.msgHeld)
		l.verify()
		o.fillOK = len(o.msgHeld) == len(o.msgBody)+1 && o.msgHeld[0] == refcodec.StepTMessageX && bytes.Equal(o.msgHeld[1:], o.msgBody)
		if !o.fillOK {
			c.Fail("MessageStepX:bytes-differ", fmt.Sprintf("%s: WriteStep(MessageStepX) is not tag 22 + the reference body", l.where),
				histDetail(l, o, map[string]interface{}{"golib": hexFull(o.msgHeld), "reference_body": hexFull(o.msgBody)}))
		}
	}
	c.Count("history_fills", 1)
}

// describeBlob says in one phrase what a step stream decodes to now (for the finding text).
func describeBlob(b []byte, want []stepgen.RefStep) string {
	in := gio.NewDataInputX(b)
	i := 0
	var msg string
	p := vlib.Catch(func() {
		for in.Available() > 0 {
			s := step.ReadStep(in)
			if s == nil {
				msg = fmt.Sprintf("step %d has an unknown type tag", i)
				return
			}
			got := stepgen.FromGolib(s)
			if i >= len(want) {
				msg = fmt.Sprintf("more than the %d written steps come back", len(want))
				return
			}
			if got.Type != want[i].Type {
				msg = fmt.Sprintf("step %d comes back as a %s, a %s was written", i, refcodec.StepTypeName(got.Type), refcodec.StepTypeName(want[i].Type))
				return
			}
			if d := stepgen.Diff(stepgen.Canon(want[i]), got); len(d) > 0 {
				msg = fmt.Sprintf("step %d (%s) comes back with other %v", i, refcodec.StepTypeName(got.Type), d)
				return
			}
			i++
		}
		if i != len(want) {
			msg = fmt.Sprintf("%d of %d steps come back", i, len(want))
		}
	})
	if p != nil {
		return fmt.Sprintf("decoding step %d fails: %v", i, p)
	}
	if msg == "" {
		msg = "the same steps but other bytes"
	}
	return msg
}

// roundTrip serialises the object now — after other objects were filled and written — reads it
// back and decodes what it carries.
func (o *hobj) roundTrip(l *ledger) {
	o.done = true
	c.Count("history_roundtrips", 1)
	if !o.fillOK {
		// the encoding was not the reference when it was produced (reported as :bytes-differ
		// there); nothing that happens later can be told apart from that
		c.Count("history_roundtrips_skipped_wrong_encoding", 1)
		return
	}
	switch o.kind {
	case hkProfile, hkStepSplit, hkErrorSnap:
		o.roundTripPack(l)
	case hkBare:
		// the consumer decodes the very slice it was given
		l.opf("decode the steps of %s", o.id)
		if bytes.Equal(o.raw, o.stepRef) {
			n := decodeStreamK(o.steps, o.sizes, o.raw, l.where+" "+o.id, &o.decSteps)
			c.Count("history_steps_decoded", int64(n))
		} else {
			key := "ToBytesStep:not-restored/after-later-encode"
			if !cheap(key) {
				c.Fail(key, fmt.Sprintf("%s: the slice ToBytesStep returned for %s no longer decodes to its %d steps after later encodes: %s", l.where, o.id, len(o.steps), describeBlob(o.raw, o.steps)),
					histDetail(l, o, map[string]interface{}{"expected": hexFull(o.stepRef), "now": hexFull(o.raw)}))
			}
		}
		l.verify()
	case hkTx:
		l.opf("%s.ToBytes() again", o.id)
		again := o.gtx.ToBytes()
		l.hold("TxRecord.ToBytes", again)
		l.verify()
		if !bytes.Equal(again, o.txRef) {
			c.Fail("TxRecord:bytes-differ/after-later-encode", fmt.Sprintf("%s: encoding the same record again after other encodes differs from the reference at byte %d", l.where, firstDiff(again, o.txRef)),
				histDetail(l, o, map[string]interface{}{"golib": hexFull(again), "reference": hexFull(o.txRef)}))
		}
		l.opf("ToObject(first bytes of %s)", o.id)
		if bytes.Equal(o.txHeld, o.txRef) {
			var q *service.TxRecord
			if p := vlib.Catch(func() { q = service.NewTxRecord().ToObject(o.txHeld) }); p != nil {
				c.Fail("TxRecord:decode-panics/history", fmt.Sprintf("%s: TxRecord.ToObject panics on a valid record: %v", l.where, p), histDetail(l, o, map[string]interface{}{"bytes": hexFull(o.txHeld)}))
			} else if compareTx("TxRecord", o.tx, stepgen.TxFromGolib(q), l.where+" "+o.id, o.txHeld) {
				o.decTx = q
				c.Count("history_tx_decoded", 1)
			}
		} else if key := "TxRecord:not-restored/after-later-encode"; !cheap(key) {
			c.Fail(key, fmt.Sprintf("%s: the slice TxRecord.ToBytes returned for %s differs from what was encoded (first at %d) after later encodes", l.where, o.id, firstDiff(o.txHeld, o.txRef)),
				histDetail(l, o, map[string]interface{}{"expected": hexFull(o.txRef), "now": hexFull(o.txHeld)}))
		}
		l.verify()
	case hkService:
		name := refcodec.SvcTypeName(o.svc.Type)
		l.opf("service.ToObject(bytes of %s)", o.id)
		if bytes.Equal(o.svcHeld, o.svcRef) {
			in := gio.NewDataInputX(withCanary(o.svcHeld))
			var q service.Service
			if p := vlib.Catch(func() { q = service.ToObject(in) }); p != nil {
				c.Fail(name+":decode-panics/history", fmt.Sprintf("%s: service.ToObject panics on a valid %s: %v", l.where, name, p), histDetail(l, o, map[string]interface{}{"bytes": hexFull(o.svcHeld)}))
			} else {
				if int(in.Available()) != len(canary) {
					c.Fail(name+":not-consumed", fmt.Sprintf("%s: a %s occupies %d bytes, the decoder consumed %d", l.where, name, len(o.svcHeld), len(o.svcHeld)+len(canary)-int(in.Available())),
						histDetail(l, o, map[string]interface{}{"bytes": hexFull(o.svcHeld)}))
				}
				got := stepgen.SvcFromGolib(q)
				if got.Type != o.svc.Type {
					c.Fail(name+":type-changed", fmt.Sprintf("%s: a %s was written, a %s came back", l.where, name, refcodec.SvcTypeName(got.Type)), histDetail(l, o, map[string]interface{}{"bytes": hexFull(o.svcHeld)}))
				} else if d := stepgen.SvcDiff(o.svc, got); len(d) > 0 {
					c.Fail(name+"."+d[0]+":not-restored", fmt.Sprintf("%s: field %s of %s differs after the round trip", l.where, d[0], name),
						histDetail(l, o, map[string]interface{}{"expected": fmt.Sprintf("%+v", o.svc), "decoded": fmt.Sprintf("%+v", got)}))
				} else {
					o.decSvc = q
					c.Count("history_services_decoded", 1)
				}
			}
		} else if key := "service.ToBytes:not-restored/after-later-encode"; !cheap(key) {
			c.Fail(key, fmt.Sprintf("%s: the bytes service.ToBytes wrote for %s differ from what was encoded (first at %d) after later encodes", l.where, o.id, firstDiff(o.svcHeld, o.svcRef)),
				histDetail(l, o, map[string]interface{}{"expected": hexFull(o.svcRef), "now": hexFull(o.svcHeld)}))
		}
		l.verify()
	case hkMessageX:
		l.opf("%s.Read(own bytes)", o.id)
		if len(o.msgHeld) == len(o.msgBody)+1 && bytes.Equal(o.msgHeld[1:], o.msgBody) {
			in := gio.NewDataInputX(withCanary(o.msgHeld[1:]))
			q := step.NewMessageStepX()
			if p := vlib.Catch(func() { q.Read(in) }); p != nil {
				key := "MessageStepX:decode-panics/history"
				if !cheap(key) {
					c.Fail(key, fmt.Sprintf("%s: MessageStepX.Read panics on what Write produced: %v", l.where, p), histDetail(l, o, map[string]interface{}{"bytes": hexFull(o.msgHeld)}))
				}
			} else if compareStep(o.msg, stepgen.FromGolib(q), l.where+" "+o.id, o.msgHeld) {
				o.decMsg = q
				c.Count("history_messagex_decoded", 1)
			}
		} else if key := "WriteStep:not-restored/after-later-encode"; !cheap(key) {
			c.Fail(key, fmt.Sprintf("%s: the bytes WriteStep produced for %s changed after later encodes", l.where, o.id),
				histDetail(l, o, map[string]interface{}{"expected_body": hexFull(o.msgBody), "now": hexFull(o.msgHeld)}))
		}
		l.verify()
	}
}

func (o *hobj) roundTripPack(l *ledger) {
	name := hkNames[o.kind]
	l.opf("ToBytesPack(%s)", o.id)
	var enc []byte
	if p := vlib.Catch(func() { enc = pack.ToBytesPack(o.gp) }); p != nil {
		c.Fail(name+":encode-panics/history", fmt.Sprintf("%s: ToBytesPack(%s) panics: %v", l.where, o.id, p), histDetail(l, o, nil))
		return
	}
	l.hold("ToBytesPack", enc)
	l.verify()
	{
		// the padded form the agent encrypts: the same pack bytes, then padding
		l.opf("ToBytesPackECB(%s, 16)", o.id)
		var ecb []byte
		if p := vlib.Catch(func() { ecb = pack.ToBytesPackECB(o.gp, 16) }); p != nil {
			c.Fail(name+":encode-panics/history", fmt.Sprintf("%s: ToBytesPackECB(%s) panics: %v", l.where, o.id, p), histDetail(l, o, nil))
		} else {
			l.hold("ToBytesPackECB", ecb)
			l.verify()
			if len(ecb) < len(enc) || !bytes.Equal(ecb[:len(enc)], enc) {
				key := "ToBytesPackECB:differs-from-ToBytesPack"
				if !cheap(key) {
					c.Fail(key, fmt.Sprintf("%s: ToBytesPackECB(%s) does not start with the bytes ToBytesPack gave for the same pack", l.where, o.id),
						histDetail(l, o, map[string]interface{}{"ecb": hexFull(ecb), "plain": hexFull(enc)}))
				}
			}
		}
	}

	// read it back
	l.opf("read %s back", o.id)
	var blob, stack []byte
	in := gio.NewDataInputX(withCanary(enc))
	var q pack.Pack
	perr := vlib.Catch(func() {
		if o.kind == hkStepSplit { // not in the pack factory: own Read after the type short
			sp := pack.NewProfileStepSplitPack()
			if ty := in.ReadShort(); ty != refcodec.PackTStepSplit {
				panic(fmt.Sprintf("pack type short is %#x", ty))
			}
			sp.Read(in)
			q = sp
		} else {
			q = pack.ReadPack(in)
		}
	})
	if perr != nil {
		key := name + ":decode-panics/history"
		if !cheap(key) {
			c.Fail(key, fmt.Sprintf("%s: reading %s back panics: %v", l.where, o.id, perr), histDetail(l, o, map[string]interface{}{"panic": fmt.Sprint(perr), "bytes": hexFull(enc), "reference": hexFull(o.packRef)}))
		}
		return
	}
	consumed := int(in.Available()) == len(canary)
	var hdr refcodec.RefPackHeader08
	typeOK := true
	switch d := q.(type) {
	case *pack.ProfilePack:
		blob, hdr = d.Steps, hdrOf(&d.AbstractPack)
		typeOK = o.kind == hkProfile
	case *pack.ProfileStepSplitPack:
		blob, hdr = d.Steps, hdrOf(&d.AbstractPack)
		typeOK = o.kind == hkStepSplit
	case *pack.ErrorSnapPack1:
		blob, stack, hdr = d.Profile, d.Stack, hdrOf(&d.AbstractPack)
		typeOK = o.kind == hkErrorSnap
	default:
		typeOK = false
	}
	if !typeOK {
		c.Fail(name+":type-changed", fmt.Sprintf("%s: a %s was written, a %T came back", l.where, name, q), histDetail(l, o, map[string]interface{}{"bytes": hexFull(enc)}))
		return
	}
	l.hold(name+".Read", blob)
	if stack != nil {
		l.hold(name+".Read", stack)
	}
	l.verify()

	// the step stream first: it is what an earlier or later encode can have destroyed
	if !bytes.Equal(blob, o.stepRef) {
		key := o.stepsField() + ":not-restored/after-later-encode"
		if !cheap(key) {
			c.Fail(key, fmt.Sprintf("%s: %s was filled with %d steps (%d bytes), other objects were encoded, then it was written and read back: its step stream differs at byte %d — %s",
				l.where, o.id, len(o.steps), len(o.stepRef), firstDiff(blob, o.stepRef), describeBlob(blob, o.steps)),
				histDetail(l, o, map[string]interface{}{"expected_steps": hexFull(o.stepRef), "decoded_steps": hexFull(blob), "kept_by_the_pack_now": hexFull(o.keptProfile())}))
		}
		return
	}
	if !bytes.Equal(enc, o.packRef) {
		key := name + ":bytes-differ/after-later-encode"
		if !cheap(key) {
			c.Fail(key, fmt.Sprintf("%s: ToBytesPack(%s) after other encodes differs from the reference at byte %d", l.where, o.id, firstDiff(enc, o.packRef)),
				histDetail(l, o, map[string]interface{}{"golib": hexFull(enc), "reference": hexFull(o.packRef)}))
		}
	}
	if !consumed {
		c.Fail(name+":not-consumed", fmt.Sprintf("%s: %s occupies %d bytes, the decoder consumed %d", l.where, o.id, len(enc), len(enc)+len(canary)-int(in.Available())),
			histDetail(l, o, map[string]interface{}{"bytes": hexFull(enc)}))
	}
	checkHdr(name, o.hdr, hdr, enc)
	switch d := q.(type) {
	case *pack.ProfilePack:
		if d.Transaction == nil {
			c.Fail("ProfilePack.Transaction:not-restored", "the transaction record of a decoded ProfilePack is nil", histDetail(l, o, map[string]interface{}{"bytes": hexFull(enc)}))
		} else if compareTx("ProfilePack.Transaction", o.tx, stepgen.TxFromGolib(d.Transaction), l.where+" "+o.id, enc) {
			o.decTx = d.Transaction
		}
	case *pack.ProfileStepSplitPack:
		if d.Txid != o.rsp.Txid {
			c.Fail("ProfileStepSplitPack.Txid:not-restored", "txid differs", histDetail(l, o, map[string]interface{}{"bytes": hexFull(enc)}))
		}
		if int64(d.Inx) != o.rsp.Inx {
			c.Fail("ProfileStepSplitPack.Inx:not-restored", "index differs", histDetail(l, o, map[string]interface{}{"bytes": hexFull(enc)}))
		}
	case *pack.ErrorSnapPack1:
		if d.Seq != o.rep.Seq {
			c.Fail("ErrorSnapPack1.Seq:not-restored", "seq differs", histDetail(l, o, map[string]interface{}{"bytes": hexFull(enc)}))
		}
		if d.AppendType != o.rep.AppendType {
			c.Fail("ErrorSnapPack1.AppendType:not-restored", "append type differs", histDetail(l, o, map[string]interface{}{"bytes": hexFull(enc)}))
		}
		if d.AppendHash != o.rep.AppendHash {
			c.Fail("ErrorSnapPack1.AppendHash:not-restored", "append hash differs", histDetail(l, o, map[string]interface{}{"bytes": hexFull(enc)}))
		}
		st := refcodec.NewW()
		if o.rep.HasStack {
			st.IntArray(o.rep.Stack)
		}
		if !bytes.Equal(st.B, d.Stack) {
			key := "ErrorSnapPack1.Stack:not-restored/after-later-encode"
			if !cheap(key) {
				c.Fail(key, fmt.Sprintf("%s: the call stack blob of %s differs after the round trip (first at %d)", l.where, o.id, firstDiff(st.B, d.Stack)),
					histDetail(l, o, map[string]interface{}{"expected": hexFull(st.B), "decoded": hexFull(d.Stack)}))
			}
		}
	}
	l.opf("decode the steps of %s", o.id)
	n := decodeStreamK(o.steps, o.sizes, blob, l.where+" "+o.id+"."+hkField[o.kind], &o.decSteps)
	c.Count("history_steps_decoded", int64(n))
	c.Count("history_packs_decoded", 1)
	l.verify()
}

// recheck looks at the decoded objects once more at the end of the case: decoding other
// streams in between must not have changed them.
func (o *hobj) recheck(l *ledger) {
	for i, s := range o.decSteps {
		if i >= len(o.steps) || s == nil {
			break
		}
		c.Count("decoded_objects_rechecked", 1)
		exp := stepgen.Canon(o.steps[i])
		got := stepgen.FromGolib(s)
		if d := stepgen.Diff(exp, got); len(d) > 0 {
			name := refcodec.StepTypeName(o.steps[i].Type)
			key := name + ":decoded-altered-later"
			if cheap(key) {
				continue
			}
			c.Fail(key, fmt.Sprintf("%s: step %d of %s (%s) was decoded correctly, then other streams were decoded: its fields %v changed", l.where, i, o.id, name, d),
				histDetail(l, o, map[string]interface{}{"index": i, "expected": short(fmt.Sprintf("%+v", exp)), "now": short(fmt.Sprintf("%+v", got))}))
		}
	}
	if o.decTx != nil {
		c.Count("decoded_objects_rechecked", 1)
		if d := stepgen.TxDiff(stepgen.TxCanon(o.tx), stepgen.TxFromGolib(o.decTx)); len(d) > 0 {
			key := "TxRecord:decoded-altered-later"
			if !cheap(key) {
				c.Fail(key, fmt.Sprintf("%s: the record of %s was decoded correctly, then other records were decoded: its fields %v changed", l.where, o.id, d), histDetail(l, o, nil))
			}
		}
	}
	if o.decSvc != nil {
		c.Count("decoded_objects_rechecked", 1)
		if d := stepgen.SvcDiff(o.svc, stepgen.SvcFromGolib(o.decSvc)); len(d) > 0 {
			key := refcodec.SvcTypeName(o.svc.Type) + ":decoded-altered-later"
			if !cheap(key) {
				c.Fail(key, fmt.Sprintf("%s: %s was decoded correctly, then other records were decoded: its fields %v changed", l.where, o.id, d), histDetail(l, o, nil))
			}
		}
	}
	if o.decMsg != nil {
		c.Count("decoded_objects_rechecked", 1)
		if d := stepgen.Diff(stepgen.Canon(o.msg), stepgen.FromGolib(o.decMsg)); len(d) > 0 {
			key := "MessageStepX:decoded-altered-later"
			if !cheap(key) {
				c.Fail(key, fmt.Sprintf("%s: %s was decoded correctly, then other steps were decoded: its fields %v changed", l.where, o.id, d), histDetail(l, o, nil))
			}
		}
	}
}

// reencode runs the object's encoders once more after the caller wrote over every slice it
// had been given: the result must be the reference again.
func (o *hobj) reencode(l *ledger) {
	if !o.fillOK {
		return
	}
	bad := func(fn string, got, ref []byte) {
		key := fn + ":later-encode-depends-on-returned-slice"
		if cheap(key) {
			return
		}
		c.Fail(key, fmt.Sprintf("%s: the caller wrote over the slices it had been given, then %s ran again for %s: the result differs from the encoding of the unchanged object at byte %d", l.where, fn, o.id, firstDiff(got, ref)),
			histDetail(l, o, map[string]interface{}{"golib": hexFull(got), "reference": hexFull(ref)}))
	}
	c.Count("reencodes_after_scribble", 1)
	switch o.kind {
	case hkProfile, hkStepSplit, hkErrorSnap:
		fn := hkNames[o.kind] + ".SetProfile"
		l.opf("%s.SetProfile(the same steps) after the scribble", o.id)
		got := o.setProfile()
		l.hold(fn, got)
		if !bytes.Equal(got, o.stepRef) {
			bad(fn, got, o.stepRef)
		}
		if o.kind == hkErrorSnap && o.rep.HasStack {
			o.gp.(*pack.ErrorSnapPack1).SetStack(o.rep.Stack)
			l.hold("ErrorSnapPack1.SetStack", o.gp.(*pack.ErrorSnapPack1).Stack)
		}
		l.opf("ToBytesPack(%s) after the scribble", o.id)
		var enc []byte
		if p := vlib.Catch(func() { enc = pack.ToBytesPack(o.gp) }); p != nil {
			c.Fail(hkNames[o.kind]+":encode-panics/history", fmt.Sprintf("%s: ToBytesPack(%s) panics: %v", l.where, o.id, p), histDetail(l, o, nil))
			return
		}
		l.hold("ToBytesPack", enc)
		if !bytes.Equal(enc, o.packRef) {
			bad("ToBytesPack", enc, o.packRef)
		}
	case hkBare:
		l.opf("ToBytesStep(the steps of %s) after the scribble", o.id)
		got := step.ToBytesStep(o.gs)
		l.hold("ToBytesStep", got)
		if !bytes.Equal(got, o.stepRef) {
			bad("ToBytesStep", got, o.stepRef)
		}
	case hkTx:
		l.opf("%s.ToBytes() after the scribble", o.id)
		got := o.gtx.ToBytes()
		l.hold("TxRecord.ToBytes", got)
		if !bytes.Equal(got, o.txRef) {
			bad("TxRecord.ToBytes", got, o.txRef)
		}
	case hkService:
		l.opf("service.ToBytes(%s) after the scribble", o.id)
		out := gio.NewDataOutputX()
		service.ToBytes(o.gsvc, out)
		got := out.ToByteArray()
		l.hold("service.ToBytes", got)
		if !bytes.Equal(got, o.svcRef) {
			bad("service.ToBytes", got, o.svcRef)
		}
	case hkMessageX:
		l.opf("WriteStep(%s) after the scribble", o.id)
		got := step.WriteStep(gio.NewDataOutputX(), o.gmsg).ToByteArray()
		l.hold("WriteStep", got)
		if len(got) != len(o.msgBody)+1 || !bytes.Equal(got[1:], o.msgBody) {
			bad("WriteStep", got, append([]byte{refcodec.StepTMessageX}, o.msgBody...))
		}
	}
	l.verify()
}

// drawKinds: the first objects are the packs of one transaction (profile + error snap, or
// split packs), then anything.
func drawKinds(r *vlib.Rand, m int) []int {
	ks := make([]int, m)
	for i := range ks {
		switch {
		case i < 2 && r.Intn(4) != 0:
			ks[i] = []int{hkProfile, hkErrorSnap, hkStepSplit, hkBare}[r.Intn(4)]
		case r.Intn(3) == 0:
			ks[i] = hkTx + r.Intn(3)
		default:
			ks[i] = r.Intn(4)
		}
	}
	return ks
}

// historyCase is one multi-object history. tag tells the sections apart in the counters.
func historyCase(section string, i int, r *vlib.Rand) {
	l := newLedger(fmt.Sprintf("%s#%d", section, i))
	m := r.Range(2, 6)
	if i%8 == 0 {
		m = 3 // at least the three shapes below
	}
	kinds := drawKinds(r, m)
	if i%8 == 0 {
		// the agent's error transaction: whole profile, the steps around the error, one split pack
		kinds[0], kinds[1], kinds[2] = hkProfile, hkErrorSnap, hkStepSplit
	}
	objs := make([]*hobj, m)
	var base []stepgen.RefStep
	first := true
	prevLen, prevCap := -1, -1
	var dh uint64
	for k := range objs {
		objs[k] = newHobj(r, kinds[k], k, base, first)
		if objs[k].steps != nil {
			base, first = objs[k].steps, false
		}
		dh = dh*0x100000001b3 ^ vlib.HashBytes(objs[k].packRef) ^ vlib.HashBytes(objs[k].stepRef) ^ vlib.HashBytes(objs[k].txRef) ^ vlib.HashBytes(objs[k].svcRef) ^ vlib.HashBytes(objs[k].msgBody)
	}

	// the schedule: all fills first (half of the cases), or writes of earlier objects between
	// the fills; every object is filled before it is written, and at least one other encoder
	// runs between the fill of the first object and its write
	interleave := r.Intn(2) == 0
	type ev struct {
		obj  int
		fill bool
	}
	var sched []ev
	var pending []int
	for k := range objs {
		sched = append(sched, ev{k, true})
		pending = append(pending, k)
		if interleave && len(pending) > 1 && r.Intn(3) == 0 {
			j := r.Intn(len(pending) - 1) // not the one just filled
			sched = append(sched, ev{pending[j], false})
			pending = append(pending[:j], pending[j+1:]...)
		}
	}
	r.Shuffle(len(pending), func(a, b int) { pending[a], pending[b] = pending[b], pending[a] })
	for _, k := range pending {
		sched = append(sched, ev{k, false})
	}

	for _, e := range sched {
		o := objs[e.obj]
		if e.fill {
			before := len(l.items)
			o.fill(l)
			// how the new encoding relates to the one before it (what a reused buffer would see)
			n := o.refLen()
			if prevLen >= 0 {
				switch {
				case n < prevLen:
					c.Count("history_followers_smaller", 1)
				case n == prevLen:
					c.Count("history_followers_equal", 1)
				default:
					c.Count("history_followers_larger", 1)
					if n > 2*prevLen {
						c.Count("history_followers_more_than_double", 1)
					}
				}
				if n <= prevCap {
					c.Count("history_followers_fit_previous_capacity", 1)
				}
			}
			prevLen = n
			if len(l.items) > before {
				prevCap = cap(l.items[before].b)
			} else {
				prevCap = 0
			}
		} else {
			o.roundTrip(l)
		}
	}
	for _, o := range objs {
		o.recheck(l)
	}
	l.end()
	held := len(l.items)

	// the caller owns what it was given: write over all of it, encode everything once more
	l.op("the caller overwrites every slice it was given (whole capacity)")
	l.scribble()
	for _, o := range objs {
		o.reencode(l)
	}
	l.end()

	c.Count("multi_object_histories", 1)
	c.Count("history_objects", int64(m))
	c.Max("max_history_objects", int64(m))
	c.Max("max_held_blobs_in_one_history", int64(held))
	if interleave {
		c.Count("histories_interleaved", 1)
	} else {
		c.Count("histories_all_fills_first", 1)
	}
	for _, o := range objs {
		c.SetAdd("history_object_kinds", hkNames[o.kind])
		if o.rel != "" {
			c.SetAdd("history_profile_derivations", o.rel)
		}
	}
	c.Distinct(dh)
	if m == 3 && i%8 == 0 {
		sampleOnce("multi-object-history", map[string]interface{}{"operations": l.ops, "held_slices": held})
	}
}

// historySections registers the sequential and the parallel history sections and their floors.
func historySections(race bool) {
	nSeq, nPar := c.N(3000, 60000), c.N(3000, 60000)
	if race {
		nSeq, nPar = c.N(160, 4000), c.N(640, 16000)
	}
	c.Cases("history", nSeq, func(i int, r *vlib.Rand) {
		historyCase("history", i, r)
		c.Count("histories_sequential", 1)
	})
	c.ParallelCases("history-par", nPar, 8, func(i int, r *vlib.Rand) {
		historyCase("history-par", i, r)
		c.Count("histories_parallel", 1)
	})
	sh := int64(c.NShards)
	c.Floor("multi_object_histories", int64(nSeq+nPar)/10/sh, c.Counter("multi_object_histories"))
	c.Floor("histories_parallel", int64(nPar)/10/sh, c.Counter("histories_parallel"))
	c.Floor("held_blobs", int64(nSeq+nPar)*4/10/sh, c.Counter("held_blobs"))
	c.Floor("reverifications", int64(nSeq+nPar)*10/10/sh, c.Counter("reverifications"))
	c.Floor("history_followers_smaller", int64(nSeq+nPar)/20/sh, c.Counter("history_followers_smaller"))
	c.Floor("history_followers_equal", int64(nSeq+nPar)/100/sh, c.Counter("history_followers_equal"))
	c.Floor("history_followers_larger", int64(nSeq+nPar)/20/sh, c.Counter("history_followers_larger"))
	c.Floor("history_steps_decoded", int64(nSeq+nPar)*2/10/sh, c.Counter("history_steps_decoded"))
	c.Floor("reencodes_after_scribble", int64(nSeq+nPar)/10/sh, c.Counter("reencodes_after_scribble"))
}
