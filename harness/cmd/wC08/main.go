// wC08 — profile steps, transaction records and service records round-trip as
// self-delimiting streams.
//
// Oracle: the independent reference encoder (refcodec.Step / TxRecord / Service / …Pack) gives
// the expected bytes and the expected size of every element; the decoded objects are walked
// back into neutral structs (stepgen.FromGolib …) and compared field by field with the
// canonical form of what was written (stepgen.Canon / TxCanon: sections whose presence
// condition did not hold are zero; error level 0 → warning when an error id is present).
//
// Result ownership (ledger.go): every byte slice an encoder returns is held as returned next
// to a private copy and compared again after every later encode / decode of the case and at
// its end (keys <Func>:result-altered-later). Histories with several live objects
// (history.go): several packs / records are filled first and only then written and decoded,
// sequentially, on several goroutines, and under the race detector (keys
// <Pack>.<Field>:not-restored/after-later-encode, <Step>:decoded-altered-later,
// <Func>:later-encode-depends-on-returned-slice). Decodes into used objects (redecode.go):
// every type of the scope decodes bytes A, then bytes B into ONE object (keys
// <Type>.<section>:stale-after-redecode, <Type>.<section>:earlier-decode-altered).
package main

import (
	"bytes"
	"encoding/hex"
	"fmt"
	"strings"
	"sync"

	gio "github.com/whatap/golib/io"
	"github.com/whatap/golib/lang/pack"
	"github.com/whatap/golib/lang/service"
	"github.com/whatap/golib/lang/step"

	"verif/refcodec"
	"verif/stepgen"
	"verif/vlib"
)

var c *vlib.Ctx

func hexFull(b []byte) string {
	const max = 4096
	if len(b) <= max {
		return hex.EncodeToString(b)
	}
	return fmt.Sprintf("%s…(%d bytes)", hex.EncodeToString(b[:max]), len(b))
}

func firstDiff(a, b []byte) int {
	n := len(a)
	if len(b) < n {
		n = len(b)
	}
	for i := 0; i < n; i++ {
		if a[i] != b[i] {
			return i
		}
	}
	if len(a) != len(b) {
		return n
	}
	return -1
}

func short(s string) string {
	if len(s) > 3000 {
		return s[:3000] + "…"
	}
	return s
}

func stackShape(s []int32) string {
	switch {
	case s == nil:
		return "nil"
	case len(s) == 0:
		return "empty"
	case len(s) >= 32766:
		return "max"
	case len(s) >= 200:
		return "long"
	}
	return "short"
}

// at most one written-out sample per kind and shard, so that the few sample slots show
// every family
var sampled = map[string]bool{}
var onceMu sync.Mutex // sampled / reported are also used from the parallel history section

func wasSampled(kind string) bool {
	onceMu.Lock()
	defer onceMu.Unlock()
	return sampled[kind]
}

func sampleOnce(kind string, v map[string]interface{}) {
	onceMu.Lock()
	if sampled[kind] || !c.WantSample() {
		onceMu.Unlock()
		return
	}
	sampled[kind] = true
	onceMu.Unlock()
	v["kind"] = kind
	c.Sample(v)
}

// cheap reports the repeat of a finding (listed as known, or already written out once by
// this process) without building the replay detail again; the first occurrence of an
// unlisted key always goes through c.Fail with the explicit case.
var reported = map[string]bool{}

func cheap(key string) bool {
	onceMu.Lock()
	rep := reported[key]
	reported[key] = true
	onceMu.Unlock()
	if c.IsKnown(key) || rep {
		c.Fail(key, "", nil)
		return true
	}
	return false
}

var canary = bytes.Repeat([]byte{0xA5}, 16)

func withCanary(b []byte) []byte {
	out := make([]byte, 0, len(b)+len(canary))
	out = append(out, b...)
	return append(out, canary...)
}

// compareStep reports the differences between what was written and the decoded step.
func compareStep(want stepgen.RefStep, got stepgen.RefStep, where string, enc []byte) bool {
	name := refcodec.StepTypeName(want.Type)
	if got.Type != want.Type {
		c.Fail(name+":type-changed", fmt.Sprintf("%s: a %s was written, a %s came back", where, name, refcodec.StepTypeName(got.Type)),
			map[string]interface{}{"where": where, "written": short(fmt.Sprintf("%+v", want)), "bytes": hexFull(enc)})
		return false
	}
	exp := stepgen.Canon(want)
	d := stepgen.Diff(exp, got)
	for _, f := range d {
		if cheap(name + "." + f + ":not-restored") {
			continue
		}
		c.Fail(name+"."+f+":not-restored", fmt.Sprintf("%s: field %s of %s differs after the round trip", where, f, name),
			map[string]interface{}{"where": where, "field": f, "expected": short(fmt.Sprintf("%+v", exp)), "decoded": short(fmt.Sprintf("%+v", got)), "bytes": hexFull(enc)})
	}
	return len(d) == 0
}

func noteStepCoverage(s stepgen.RefStep) {
	n := refcodec.StepTypeName(s.Type)
	c.SetAdd("step_types_covered", n)
	switch s.Type {
	case refcodec.StepTHttpcX:
		c.SetAdd("httpc_versions", fmt.Sprintf("v%d", s.Version))
		c.SetAdd("stack_shapes", n+":"+stackShape(s.Stack))
	case refcodec.StepTMethodX, refcodec.StepTSqlX:
		c.SetAdd("stack_shapes", n+":"+stackShape(s.Stack))
	}
}

// decodeStream decodes b with repeated ReadStep until Available()==0 and checks: the same
// steps in the same order, each consuming exactly its own bytes (cumulative offsets equal
// the reference's per-step sizes). Returns the number of steps that came back equal.
func decodeStream(steps []stepgen.RefStep, sizes []int, b []byte, where string) int {
	return decodeStreamK(steps, sizes, b, where, nil)
}

// decodeStreamK is decodeStream; with keep != nil the decoded step objects are appended to
// *keep (index-aligned with steps) so that a history can look at them again later.
func decodeStreamK(steps []stepgen.RefStep, sizes []int, b []byte, where string, keep *[]step.Step) int {
	in := gio.NewDataInputX(b)
	off, i, ok := 0, 0, 0
	for in.Available() > 0 {
		if i >= len(steps) {
			c.Fail("stream:extra-steps", fmt.Sprintf("%s: %d steps written, the decoder still sees %d bytes after them", where, len(steps), in.Available()),
				map[string]interface{}{"where": where, "steps": len(steps), "bytes": hexFull(b)})
			return ok
		}
		name := refcodec.StepTypeName(steps[i].Type)
		seg := b[off:]
		if off+sizes[i] <= len(b) {
			seg = b[off : off+sizes[i]]
		}
		var got step.Step
		if p := vlib.Catch(func() { got = step.ReadStep(in) }); p != nil {
			c.Fail(name+":decode-panics/stream", fmt.Sprintf("%s: ReadStep panics on step %d (%s) of a valid stream: %v", where, i, name, p),
				map[string]interface{}{"where": where, "index": i, "panic": fmt.Sprint(p), "step": short(fmt.Sprintf("%+v", steps[i])), "step_bytes": hexFull(seg)})
			return ok
		}
		used := len(b) - int(in.Available())
		if used != off+sizes[i] {
			c.Fail(name+":not-consumed", fmt.Sprintf("%s: step %d (%s) occupies %d bytes, the decoder consumed %d", where, i, name, sizes[i], used-off),
				map[string]interface{}{"where": where, "index": i, "own_size": sizes[i], "consumed": used - off, "step": short(fmt.Sprintf("%+v", steps[i])), "step_bytes": hexFull(seg)})
			return ok
		}
		if got == nil {
			c.Fail(name+":decode-nil", where+": ReadStep returned nil", map[string]interface{}{"index": i, "step_bytes": hexFull(seg)})
			return ok
		}
		if compareStep(steps[i], stepgen.FromGolib(got), fmt.Sprintf("%s step %d/%d", where, i, len(steps)), seg) {
			ok++
		}
		if keep != nil {
			*keep = append(*keep, got)
		}
		off += sizes[i]
		i++
	}
	if i != len(steps) {
		c.Fail("stream:steps-missing", fmt.Sprintf("%s: %d steps written, %d decoded before Available()==0", where, len(steps), i),
			map[string]interface{}{"where": where, "written": len(steps), "decoded": i})
	}
	return ok
}

// encodeStream: ToBytesStep bytes must equal the reference; a difference is attributed to
// the first step whose own encoding differs.
func encodeStream(steps []stepgen.RefStep, where string) (b []byte, sizes []int, gs []step.Step) {
	gs = make([]step.Step, len(steps))
	for i := range steps {
		gs[i] = stepgen.ToGolib(steps[i])
	}
	b = step.ToBytesStep(gs)
	var ref []byte
	ref, sizes = refcodec.EncodeSteps(steps)
	if !bytes.Equal(b, ref) {
		blamed := false
		for i := range steps {
			one := step.WriteStep(gio.NewDataOutputX(), gs[i]).ToByteArray()
			w := refcodec.NewW()
			w.Step(steps[i])
			if !bytes.Equal(one, w.B) {
				name := refcodec.StepTypeName(steps[i].Type)
				c.Fail(name+":bytes-differ", fmt.Sprintf("%s: the encoding of a %s differs from the reference at byte %d", where, name, firstDiff(one, w.B)),
					map[string]interface{}{"where": where, "index": i, "step": short(fmt.Sprintf("%+v", steps[i])), "golib": hexFull(one), "reference": hexFull(w.B)})
				blamed = true
				break
			}
		}
		if !blamed {
			c.Fail("stream:bytes-differ", fmt.Sprintf("%s: every step alone encodes like the reference but the stream differs at byte %d", where, firstDiff(b, ref)),
				map[string]interface{}{"where": where, "golib": hexFull(b), "reference": hexFull(ref)})
		}
	}
	return
}

func streamLen(i int, r *vlib.Rand) int {
	switch i % 16 {
	case 0:
		return 0
	case 1:
		return 1
	case 2:
		return 2
	case 3:
		return 200
	case 4:
		return 199
	}
	return r.Range(0, 200)
}

func genHdr(r *vlib.Rand) refcodec.RefPackHeader08 {
	h := refcodec.RefPackHeader08{Pcode: r.I64(), Oid: r.I32(), Time: r.I64()}
	switch r.Intn(4) {
	case 0:
		h.Okind = r.I32()
	case 1:
		h.Onode = r.I32()
	case 2:
		h.Okind, h.Onode = r.I32(), r.I32()
	}
	return h
}

func hdrOf(p *pack.AbstractPack) refcodec.RefPackHeader08 {
	return refcodec.RefPackHeader08{Pcode: p.Pcode, Oid: p.Oid, Okind: p.Okind, Onode: p.Onode, Time: p.Time}
}

func setHdr(p *pack.AbstractPack, h refcodec.RefPackHeader08) {
	p.Pcode, p.Oid, p.Okind, p.Onode, p.Time = h.Pcode, h.Oid, h.Okind, h.Onode, h.Time
}

func checkHdr(name string, want, got refcodec.RefPackHeader08, enc []byte) {
	if want.Pcode != got.Pcode {
		c.Fail(name+".Pcode:not-restored", "pack header pcode differs", map[string]interface{}{"want": want, "got": got, "bytes": hexFull(enc)})
	}
	if want.Oid != got.Oid {
		c.Fail(name+".Oid:not-restored", "pack header oid differs", map[string]interface{}{"want": want, "got": got, "bytes": hexFull(enc)})
	}
	if want.Okind != got.Okind {
		c.Fail(name+".Okind:not-restored", "pack header okind differs", map[string]interface{}{"want": want, "got": got, "bytes": hexFull(enc)})
	}
	if want.Onode != got.Onode {
		c.Fail(name+".Onode:not-restored", "pack header onode differs", map[string]interface{}{"want": want, "got": got, "bytes": hexFull(enc)})
	}
	if want.Time != got.Time {
		c.Fail(name+".Time:not-restored", "pack header time differs", map[string]interface{}{"want": want, "got": got, "bytes": hexFull(enc)})
	}
}

// readPack decodes b (with a canary suffix) through the pack factory and reports panics and
// over/under-consumption.
func readPack(name string, b []byte, detail string) pack.Pack {
	in := gio.NewDataInputX(withCanary(b))
	var q pack.Pack
	if p := vlib.Catch(func() { q = pack.ReadPack(in) }); p != nil {
		if cheap(name + ":decode-panics") {
			return nil
		}
		c.Fail(name+":decode-panics", fmt.Sprintf("decoding a valid %s panics: %v", name, p),
			map[string]interface{}{"panic": fmt.Sprint(p), "pack": short(detail), "bytes": hexFull(b)})
		return nil
	}
	if int(in.Available()) != len(canary) {
		c.Fail(name+":not-consumed", fmt.Sprintf("%s occupies %d bytes, the decoder consumed %d", name, len(b), len(b)+len(canary)-int(in.Available())),
			map[string]interface{}{"pack": short(detail), "bytes": hexFull(b)})
	}
	return q
}

func checkStepsBlob(name, field string, steps []stepgen.RefStep, got []byte) {
	ref, sizes := refcodec.EncodeSteps(steps)
	if !bytes.Equal(ref, got) {
		c.Fail(name+"."+field+":not-restored", fmt.Sprintf("%s: the embedded step bytes differ after the round trip (first at %d)", name, firstDiff(ref, got)),
			map[string]interface{}{"expected": hexFull(ref), "decoded": hexFull(got)})
		return
	}
	n := decodeStream(steps, sizes, got, name+"."+field)
	c.Count("pack_steps_decoded", int64(n))
}

func txShapeKey(sh stepgen.TxShape) string {
	f := "nil"
	switch {
	case sh.Fields == 0:
		f = "empty"
	case sh.Fields == 1:
		f = "1"
	case sh.Fields == 255:
		f = "255"
	case sh.Fields > 1:
		f = "n"
	}
	b := func(v bool) string {
		if v {
			return "1"
		}
		return "0"
	}
	return "mtrace" + b(sh.Mtrace) + "-caller" + b(sh.Caller) + "-fields" + f + "-error" + b(sh.ErrorSet) + "-level" + b(sh.LevelSet)
}

func compareTx(prefix string, want, got stepgen.RefTxRecord, where string, enc []byte) bool {
	exp := stepgen.TxCanon(want)
	d := stepgen.TxDiff(exp, got)
	for _, f := range d {
		if cheap(prefix + "." + stepgen.TxGroupOf(f) + ":not-restored") {
			continue
		}
		extra := ""
		if f == "Fields" {
			extra = " (" + stepgen.AttrDiffPath(exp.Fields, got.Fields) + ")"
		}
		c.Fail(prefix+"."+stepgen.TxGroupOf(f)+":not-restored", fmt.Sprintf("%s: field %s of the transaction record differs after the round trip%s", where, f, extra),
			map[string]interface{}{"where": where, "field": f, "shape": stepgen.TxShapeOf(want).String(), "expected": short(fmt.Sprintf("%+v", exp)), "decoded": short(fmt.Sprintf("%+v", got)), "bytes": hexFull(enc)})
	}
	return len(d) == 0
}

func main() {
	c = vlib.Start("C08")

	// under the race detector only the multi-object histories run (history.go): they are the
	// part with several goroutines
	if c.Flavour == "race" {
		historySections(true)
		c.Finish()
		fmt.Println("done", strings.ToLower(c.Prop))
		return
	}

	// (1) step streams: 0..200 steps over the registered types
	nStreams := c.N(12000, 180000)
	c.Cases("step-stream", nStreams, func(i int, r *vlib.Rand) {
		n := streamLen(i, r)
		steps := stepgen.GenSteps(r, n)
		where := fmt.Sprintf("stream of %d", n)
		l := newLedger("step-stream")
		l.op("ToBytesStep")
		b, sizes, _ := encodeStream(steps, where)
		l.hold("ToBytesStep", b)
		l.op("decode the stream")
		ok := decodeStream(steps, sizes, b, where)
		l.end()
		for k := range steps {
			noteStepCoverage(steps[k])
		}
		c.Count("streams", 1)
		c.Count("steps_written", int64(n))
		c.Count("steps_decoded_equal", int64(ok))
		c.Count("stream_bytes", int64(len(b)))
		c.Max("max_stream_steps", int64(n))
		c.Max("max_stream_bytes", int64(len(b)))
		if n >= 2 {
			c.Count("streams_with_2plus_steps", 1)
			c.DistinctBytes(b)
		}
		if n >= 3 && n <= 8 && len(b) < 400 && !wasSampled("step-stream") {
			var ty []string
			for k := range steps {
				ty = append(ty, fmt.Sprintf("%s@%d", refcodec.StepTypeName(steps[k].Type), sizes[k]))
			}
			sampleOnce("step-stream", map[string]interface{}{"steps(type@bytes)": ty, "bytes": hexFull(b), "decoded_equal": ok})
		}
	})
	// the nil list
	c.Section("step-stream-nil", false, func() {
		if b := step.ToBytesStep(nil); b != nil {
			c.Fail("ToBytesStep:nil-list", "ToBytesStep(nil) is not nil", hexFull(b))
		}
		if b := step.ToBytesStep([]step.Step{}); len(b) != 0 {
			c.Fail("ToBytesStep:empty-list", "ToBytesStep of an empty list is not empty", hexFull(b))
		}
		c.Eval(2)
	})

	// (2) every registered type alone: exact consumption against a canary suffix, decode at a
	// non-zero position, re-encoding reproduces the bytes
	nSingle := c.N(40000, 800000)
	c.Cases("step-single", nSingle, func(i int, r *vlib.Rand) {
		t := refcodec.StepRegistered[i%len(refcodec.StepRegistered)]
		s := stepgen.GenStep(r, t)
		name := refcodec.StepTypeName(t)
		g := stepgen.ToGolib(s)
		l := newLedger("step-single")
		defer l.end()
		l.op("WriteStep")
		enc := step.WriteStep(gio.NewDataOutputX(), g).ToByteArray()
		l.hold("WriteStep", enc)
		w := refcodec.NewW()
		w.Step(s)
		if !bytes.Equal(enc, w.B) {
			c.Fail(name+":bytes-differ", fmt.Sprintf("the encoding of a %s differs from the reference at byte %d", name, firstDiff(enc, w.B)),
				map[string]interface{}{"step": short(fmt.Sprintf("%+v", s)), "golib": hexFull(enc), "reference": hexFull(w.B)})
		}
		// body only through the type's own Write (no tag)
		l.op(name + ".Write")
		o := gio.NewDataOutputX()
		g.Write(o)
		l.hold(name+".Write", o.ToByteArray())
		l.verify()
		if body := refcodec.EncodeStepBody(s); !bytes.Equal(o.ToByteArray(), body) {
			c.Fail(name+":bytes-differ", fmt.Sprintf("the body written by %s.Write differs from the reference at byte %d", name, firstDiff(o.ToByteArray(), body)),
				map[string]interface{}{"step": short(fmt.Sprintf("%+v", s)), "golib": hexFull(o.ToByteArray()), "reference": hexFull(body)})
		}
		in := gio.NewDataInputX(withCanary(enc))
		var got step.Step
		if p := vlib.Catch(func() { got = step.ReadStep(in) }); p != nil {
			c.Fail(name+":decode-panics/single", fmt.Sprintf("ReadStep panics on a valid %s: %v", name, p),
				map[string]interface{}{"panic": fmt.Sprint(p), "step": short(fmt.Sprintf("%+v", s)), "bytes": hexFull(enc)})
			return
		}
		if int(in.Available()) != len(canary) {
			c.Fail(name+":not-consumed", fmt.Sprintf("a %s occupies %d bytes, the decoder consumed %d", name, len(enc), len(enc)+len(canary)-int(in.Available())),
				map[string]interface{}{"step": short(fmt.Sprintf("%+v", s)), "bytes": hexFull(enc)})
			return
		}
		if got == nil {
			c.Fail(name+":decode-nil", "ReadStep returned nil", hexFull(enc))
			return
		}
		if compareStep(s, stepgen.FromGolib(got), "single "+name, enc) {
			c.Count("single_steps_equal", 1)
			// re-encoding a correctly decoded step reproduces the bytes
			l.op("ReadStep, WriteStep(decoded)")
			l.verify()
			if re := step.WriteStep(gio.NewDataOutputX(), got).ToByteArray(); !bytes.Equal(re, enc) {
				c.Fail(name+":reencode-differs", fmt.Sprintf("re-encoding the decoded %s differs from the original at byte %d", name, firstDiff(re, enc)),
					map[string]interface{}{"step": short(fmt.Sprintf("%+v", s)), "original": hexFull(enc), "reencoded": hexFull(re)})
			}
		}
		noteStepCoverage(s)
		c.Count("single_steps", 1)
		c.DistinctBytes(enc)
		if t == refcodec.StepTHttpcX && len(enc) < 100 {
			sampleOnce("single-step", map[string]interface{}{"type": name, "version": s.Version, "stack": stackShape(s.Stack), "bytes": vlib.Hex(enc),
				"decoded_version": stepgen.FromGolib(got).Version})
		}
	})

	// (3) MessageStepX through its own Write/Read: attributes nil / empty / non-empty
	nMsg := c.N(12000, 240000)
	c.Cases("messagestepx", nMsg, func(i int, r *vlib.Rand) {
		s := stepgen.GenStep(r, refcodec.StepTMessageX)
		shape := "attr-present"
		switch {
		case s.Attr == nil:
			shape = "attr-absent"
		case len(s.Attr.Keys) == 0:
			shape = "attr-empty"
		}
		c.SetAdd("messagestepx_attr_shapes", shape)
		g := stepgen.ToGolib(s).(*step.MessageStepX)
		l := newLedger("messagestepx")
		defer l.end()
		l.op("MessageStepX.Write")
		o := gio.NewDataOutputX()
		g.Write(o)
		enc := o.ToByteArray()
		l.hold("MessageStepX.Write", enc)
		if ref := refcodec.EncodeStepBody(s); !bytes.Equal(enc, ref) {
			c.Fail("MessageStepX:bytes-differ", fmt.Sprintf("MessageStepX.Write (%s) differs from the reference at byte %d", shape, firstDiff(enc, ref)),
				map[string]interface{}{"shape": shape, "step": short(fmt.Sprintf("%+v", s)), "golib": hexFull(enc), "reference": hexFull(ref)})
		}
		// tagged form: WriteStep puts the tag 22 in front (the stream decoder does not know it)
		l.op("WriteStep(MessageStepX)")
		tagged := step.WriteStep(gio.NewDataOutputX(), g).ToByteArray()
		l.hold("WriteStep", tagged)
		l.verify()
		l.op("MessageStepX.Read")
		if len(tagged) != len(enc)+1 || tagged[0] != refcodec.StepTMessageX || !bytes.Equal(tagged[1:], enc) {
			c.Fail("MessageStepX:bytes-differ", "WriteStep(MessageStepX) is not tag 22 + body", hexFull(tagged))
		}
		in := gio.NewDataInputX(withCanary(enc))
		q := step.NewMessageStepX()
		if p := vlib.Catch(func() { q.Read(in) }); p != nil {
			if cheap("MessageStepX:decode-panics/" + shape) {
				return
			}
			c.Fail("MessageStepX:decode-panics/"+shape, fmt.Sprintf("MessageStepX.Read panics on what MessageStepX.Write produced (%s): %v", shape, p),
				map[string]interface{}{"shape": shape, "panic": fmt.Sprint(p), "step": short(fmt.Sprintf("%+v", s)), "bytes": hexFull(enc)})
			return
		}
		if int(in.Available()) != len(canary) {
			c.Fail("MessageStepX:not-consumed", fmt.Sprintf("a MessageStepX (%s) occupies %d bytes, the decoder consumed %d", shape, len(enc), len(enc)+len(canary)-int(in.Available())),
				map[string]interface{}{"shape": shape, "bytes": hexFull(enc)})
			return
		}
		if compareStep(s, stepgen.FromGolib(q), "MessageStepX "+shape, enc) {
			c.Count("messagestepx_equal", 1)
			c.Count("messagestepx_equal_"+shape, 1)
		}
		c.Count("messagestepx_cases", 1)
		c.DistinctBytes(enc)
		if shape == "attr-present" && len(s.Attr.Keys) <= 3 && len(enc) < 90 {
			sampleOnce("messagestepx", map[string]interface{}{"shape": shape, "attr_keys": s.Attr.Keys, "bytes": vlib.Hex(enc)})
		}
	})

	// (4) SqlStep_3 through its own Write/Read: the three flag-selected sections
	nSql3 := c.N(8000, 160000)
	c.Cases("sqlstep3", nSql3, func(i int, r *vlib.Rand) {
		s := stepgen.GenStep(r, refcodec.StepTSql3)
		if i < 64 {
			s.Opt = byte(i&7) | byte(i>>3)<<5 // every combination of the three flags, with and without foreign bits
		}
		g := stepgen.Sql3ToGolib(s)
		l := newLedger("sqlstep3")
		defer l.end()
		l.op("SqlStep_3.Write")
		o := gio.NewDataOutputX()
		g.Write(o)
		enc := o.ToByteArray()
		l.hold("SqlStep_3.Write", enc)
		l.op("SqlStep_3.Read")
		if ref := refcodec.EncodeStepBody(s); !bytes.Equal(enc, ref) {
			c.Fail("SqlStep_3:bytes-differ", fmt.Sprintf("SqlStep_3.Write (opt=%d) differs from the reference at byte %d", s.Opt&7, firstDiff(enc, ref)),
				map[string]interface{}{"step": short(fmt.Sprintf("%+v", s)), "golib": hexFull(enc), "reference": hexFull(ref)})
		}
		in := gio.NewDataInputX(withCanary(enc))
		q := step.NewSqlStep_3()
		if p := vlib.Catch(func() { q.Read(in) }); p != nil {
			c.Fail(fmt.Sprintf("SqlStep_3:decode-panics/opt%d", s.Opt&7), fmt.Sprintf("SqlStep_3.Read panics: %v", p),
				map[string]interface{}{"panic": fmt.Sprint(p), "step": short(fmt.Sprintf("%+v", s)), "bytes": hexFull(enc)})
			return
		}
		if int(in.Available()) != len(canary) {
			c.Fail("SqlStep_3:not-consumed", fmt.Sprintf("a SqlStep_3 (opt=%d) occupies %d bytes, the decoder consumed %d", s.Opt&7, len(enc), len(enc)+len(canary)-int(in.Available())),
				map[string]interface{}{"bytes": hexFull(enc)})
			return
		}
		if compareStep(s, stepgen.Sql3FromGolib(q), "SqlStep_3", enc) {
			c.Count("sqlstep3_equal", 1)
		}
		c.SetAdd("sqlstep3_flag_sets", fmt.Sprintf("opt%d", s.Opt&7))
		c.Count("sqlstep3_cases", 1)
		c.DistinctBytes(enc)
	})

	// (5) transaction records: every combination of the optional groups, alone and back to back
	shapes := stepgen.TxShapes()
	nTx := c.N(9600, 192000)
	c.Cases("txrecord", nTx, func(i int, r *vlib.Rand) {
		var t stepgen.RefTxRecord
		if i%2 == 0 {
			t = stepgen.GenTxRecordShape(r, shapes[(i/2)%len(shapes)])
		} else {
			t = stepgen.GenTxRecord(r)
		}
		sh := stepgen.TxShapeOf(t)
		key := txShapeKey(sh)
		c.SetAdd("tx_shapes_covered", key)
		g := stepgen.TxToGolib(t)
		l := newLedger("txrecord")
		defer l.end()
		l.op("TxRecord.ToBytes")
		enc := g.ToBytes()
		l.hold("TxRecord.ToBytes", enc)
		ref := refcodec.EncodeTxRecord(t)
		if !bytes.Equal(enc, ref) {
			c.Fail("TxRecord:bytes-differ", fmt.Sprintf("TxRecord.ToBytes (%s) differs from the reference at byte %d", key, firstDiff(enc, ref)),
				map[string]interface{}{"shape": sh.String(), "record": short(fmt.Sprintf("%+v", t)), "golib": hexFull(enc), "reference": hexFull(ref)})
		}
		var q *service.TxRecord
		if p := vlib.Catch(func() { q = service.NewTxRecord().ToObject(enc) }); p != nil {
			c.Fail("TxRecord:decode-panics/"+key, fmt.Sprintf("TxRecord.ToObject panics on what ToBytes produced (%s): %v", key, p),
				map[string]interface{}{"shape": sh.String(), "panic": fmt.Sprint(p), "record": short(fmt.Sprintf("%+v", t)), "bytes": hexFull(enc)})
			return
		}
		in := gio.NewDataInputX(withCanary(enc))
		q2 := service.NewTxRecord()
		if p := vlib.Catch(func() { q2.Read(in) }); p != nil {
			c.Fail("TxRecord:decode-panics/"+key, fmt.Sprintf("TxRecord.Read panics: %v", p), map[string]interface{}{"bytes": hexFull(enc)})
			return
		}
		if int(in.Available()) != len(canary) {
			c.Fail("TxRecord:not-consumed", fmt.Sprintf("a transaction record (%s) occupies %d bytes, the decoder consumed %d", key, len(enc), len(enc)+len(canary)-int(in.Available())),
				map[string]interface{}{"shape": sh.String(), "bytes": hexFull(enc)})
		}
		got := stepgen.TxFromGolib(q)
		if compareTx("TxRecord", t, got, "tx record "+key, enc) {
			c.Count("tx_records_equal", 1)
			if sh.ErrorSet && !sh.LevelSet {
				c.Count("tx_error_level_defaulted_to_warning", 1)
			}
		}
		compareTx("TxRecord", t, stepgen.TxFromGolib(q2), "tx record (Read) "+key, enc)
		// re-encoding the decoded record gives the canonical record's bytes
		l.op("ToObject, Read, ToBytes of the decoded record")
		l.verify()
		if re, want := q.ToBytes(), refcodec.EncodeTxRecord(stepgen.TxCanon(t)); !bytes.Equal(re, want) {
			c.Fail("TxRecord:reencode-differs", fmt.Sprintf("re-encoding the decoded record (%s) differs from the canonical encoding at byte %d", key, firstDiff(re, want)),
				map[string]interface{}{"shape": sh.String(), "reencoded": hexFull(re), "canonical": hexFull(want)})
		}
		c.Count("tx_records", 1)
		c.DistinctBytes(enc)
		if sh.Fields <= 1 && sh.ErrorSet && len(enc) < 200 {
			sampleOnce("txrecord", map[string]interface{}{"shape": sh.String(), "bytes": hexFull(enc), "decoded_error_level": q.ErrorLevel, "written_error_level": t.ErrorLevel})
		}
	})
	c.Cases("txrecord-stream", c.N(600, 12000), func(i int, r *vlib.Rand) {
		n := r.Range(2, 12)
		recs := make([]stepgen.RefTxRecord, n)
		o := gio.NewDataOutputX()
		w := refcodec.NewW()
		ends := make([]int, n)
		for k := range recs {
			recs[k] = stepgen.GenTxRecord(r)
			stepgen.TxToGolib(recs[k]).Write(o)
			w.TxRecord(recs[k])
			ends[k] = w.Len()
		}
		b := o.ToByteArray()
		l := newLedger("txrecord-stream")
		defer l.end()
		l.op("TxRecord.Write ×n")
		l.hold("TxRecord.Write", b)
		l.op("TxRecord.Read ×n")
		if !bytes.Equal(b, w.B) {
			c.Fail("TxRecord:bytes-differ", fmt.Sprintf("a stream of %d records differs from the reference at byte %d", n, firstDiff(b, w.B)),
				map[string]interface{}{"golib": hexFull(b), "reference": hexFull(w.B)})
		}
		in := gio.NewDataInputX(b)
		k := 0
		for in.Available() > 0 && k < n {
			q := service.NewTxRecord()
			if p := vlib.Catch(func() { q.Read(in) }); p != nil {
				c.Fail("TxRecord:decode-panics/stream", fmt.Sprintf("TxRecord.Read panics on record %d of a valid stream: %v", k, p), map[string]interface{}{"bytes": hexFull(b)})
				return
			}
			if used := len(b) - int(in.Available()); used != ends[k] {
				c.Fail("TxRecord:not-consumed", fmt.Sprintf("record %d of a stream ends at %d, the decoder stopped at %d", k, ends[k], used), map[string]interface{}{"bytes": hexFull(b)})
				return
			}
			if compareTx("TxRecord", recs[k], stepgen.TxFromGolib(q), fmt.Sprintf("tx stream record %d/%d", k, n), b) {
				c.Count("tx_stream_records_equal", 1)
			}
			k++
		}
		if k != n || in.Available() != 0 {
			c.Fail("TxRecord:stream-count", fmt.Sprintf("%d records written, %d decoded, %d bytes left", n, k, in.Available()), hexFull(b))
		}
		c.Count("tx_streams", 1)
		c.DistinctBytes(b)
	})

	// (6) service records of the three types, alone and back to back through ToBytes / ToObject
	c.Cases("service-stream", c.N(6000, 120000), func(i int, r *vlib.Rand) {
		n := r.Range(1, 10)
		recs := make([]stepgen.RefService, n)
		o := gio.NewDataOutputX()
		w := refcodec.NewW()
		ends := make([]int, n)
		for k := range recs {
			recs[k] = stepgen.GenService(r, refcodec.SvcTypes[(i+k)%3])
			service.ToBytes(stepgen.SvcToGolib(recs[k]), o)
			at := w.Len()
			w.Service(recs[k])
			ends[k] = w.Len()
			name := refcodec.SvcTypeName(recs[k].Type)
			c.SetAdd("service_types_covered", name)
			if !bytes.Equal(o.ToByteArray()[minInt(at, len(o.ToByteArray())):], w.B[at:]) {
				c.Fail(name+":bytes-differ", fmt.Sprintf("the encoding of a %s differs from the reference", name),
					map[string]interface{}{"record": fmt.Sprintf("%+v", recs[k]), "golib": hexFull(o.ToByteArray()[minInt(at, len(o.ToByteArray())):]), "reference": hexFull(w.B[at:])})
				return
			}
		}
		l := newLedger("service-stream")
		defer l.end()
		l.op("service.ToBytes ×n")
		l.hold("service.ToBytes", o.ToByteArray())
		l.op("service.ToObject ×n")
		b := withCanary(o.ToByteArray())
		in := gio.NewDataInputX(b)
		for k := 0; k < n; k++ {
			name := refcodec.SvcTypeName(recs[k].Type)
			var q service.Service
			if p := vlib.Catch(func() { q = service.ToObject(in) }); p != nil {
				c.Fail(name+":decode-panics/stream", fmt.Sprintf("service.ToObject panics on record %d (%s) of a valid stream: %v", k, name, p), map[string]interface{}{"bytes": hexFull(b)})
				return
			}
			if used := len(b) - int(in.Available()); used != ends[k] {
				c.Fail(name+":not-consumed", fmt.Sprintf("record %d (%s) ends at %d, the decoder stopped at %d", k, name, ends[k], used), map[string]interface{}{"bytes": hexFull(b)})
				return
			}
			got := stepgen.SvcFromGolib(q)
			if got.Type != recs[k].Type {
				c.Fail(name+":type-changed", fmt.Sprintf("a %s was written, a %s came back", name, refcodec.SvcTypeName(got.Type)), map[string]interface{}{"bytes": hexFull(b)})
				continue
			}
			d := stepgen.SvcDiff(recs[k], got)
			for _, f := range d {
				c.Fail(name+"."+f+":not-restored", fmt.Sprintf("field %s of %s differs after the round trip", f, name),
					map[string]interface{}{"expected": fmt.Sprintf("%+v", recs[k]), "decoded": fmt.Sprintf("%+v", got), "bytes": hexFull(b)})
			}
			if len(d) == 0 {
				c.Count("service_records_equal", 1)
			}
			c.Count("service_records", 1)
		}
		c.Count("service_streams", 1)
		c.DistinctBytes(b)
		if n == 2 {
			sampleOnce("service-stream", map[string]interface{}{"types": []string{refcodec.SvcTypeName(recs[0].Type), refcodec.SvcTypeName(recs[1].Type)}, "ends": ends, "bytes": vlib.Hex(b)})
		}
	})

	// (7) the packs that embed them
	c.Cases("profile-pack", c.N(3000, 60000), func(i int, r *vlib.Rand) {
		rp := refcodec.RefProfilePack{Hdr: genHdr(r), Tx: stepgen.GenTxRecord(r), Steps: stepgen.GenSteps(r, []int{0, 1, r.Range(2, 30), r.Range(2, 30)}[i%4])}
		p := pack.NewProfilePack()
		setHdr(&p.AbstractPack, rp.Hdr)
		p.Transaction = stepgen.TxToGolib(rp.Tx)
		gs := make([]step.Step, len(rp.Steps))
		for k := range gs {
			gs[k] = stepgen.ToGolib(rp.Steps[k])
		}
		l := newLedger("profile-pack")
		defer l.end()
		l.op("ProfilePack.SetProfile")
		p.SetProfile(gs)
		l.hold("ProfilePack.SetProfile", p.Steps)
		l.op("ToBytesPack(ProfilePack)")
		enc := pack.ToBytesPack(p)
		l.hold("ToBytesPack", enc)
		l.verify()
		l.op("ReadPack, decode the steps")
		w := refcodec.NewW()
		w.ProfilePack(rp)
		if !bytes.Equal(enc, w.B) {
			c.Fail("ProfilePack:bytes-differ", fmt.Sprintf("ToBytesPack(ProfilePack) differs from the reference at byte %d", firstDiff(enc, w.B)),
				map[string]interface{}{"golib": hexFull(enc), "reference": hexFull(w.B)})
		}
		c.Count("packs_profile", 1)
		c.DistinctBytes(enc)
		q := readPack("ProfilePack", enc, fmt.Sprintf("hdr=%+v tx.shape=%s steps=%d", rp.Hdr, stepgen.TxShapeOf(rp.Tx), len(rp.Steps)))
		if q == nil {
			return
		}
		pp, ok := q.(*pack.ProfilePack)
		if !ok {
			c.Fail("ProfilePack:type-changed", fmt.Sprintf("a ProfilePack was written, a %T came back", q), hexFull(enc))
			return
		}
		checkHdr("ProfilePack", rp.Hdr, hdrOf(&pp.AbstractPack), enc)
		if pp.Transaction == nil {
			c.Fail("ProfilePack.Transaction:not-restored", "the transaction record of a decoded ProfilePack is nil",
				map[string]interface{}{"tx.shape": stepgen.TxShapeOf(rp.Tx).String(), "bytes": hexFull(enc)})
		} else if compareTx("ProfilePack.Transaction", rp.Tx, stepgen.TxFromGolib(pp.Transaction), "ProfilePack", enc) {
			c.Count("packs_profile_tx_equal", 1)
		}
		checkStepsBlob("ProfilePack", "Steps", rp.Steps, pp.Steps)
		c.Count("packs_profile_decoded", 1)
	})
	c.Cases("stepsplit-pack", c.N(3000, 60000), func(i int, r *vlib.Rand) {
		rp := refcodec.RefStepSplitPack{Hdr: genHdr(r), Txid: r.I64(), Inx: r.I64(), Steps: stepgen.GenSteps(r, []int{0, 1, r.Range(2, 30), r.Range(2, 30)}[i%4])}
		p := pack.NewProfileStepSplitPack()
		setHdr(&p.AbstractPack, rp.Hdr)
		p.Txid, p.Inx = rp.Txid, int(rp.Inx)
		gs := make([]step.Step, len(rp.Steps))
		for k := range gs {
			gs[k] = stepgen.ToGolib(rp.Steps[k])
		}
		l := newLedger("stepsplit-pack")
		defer l.end()
		l.op("ProfileStepSplitPack.SetProfile")
		p.SetProfile(gs)
		l.hold("ProfileStepSplitPack.SetProfile", p.Steps)
		l.op("ToBytesPack(ProfileStepSplitPack)")
		enc := pack.ToBytesPack(p)
		l.hold("ToBytesPack", enc)
		l.verify()
		l.op("ProfileStepSplitPack.Read, decode the steps")
		w := refcodec.NewW()
		w.StepSplitPack(rp)
		if !bytes.Equal(enc, w.B) {
			c.Fail("ProfileStepSplitPack:bytes-differ", fmt.Sprintf("ToBytesPack(ProfileStepSplitPack) differs from the reference at byte %d", firstDiff(enc, w.B)),
				map[string]interface{}{"golib": hexFull(enc), "reference": hexFull(w.B)})
		}
		c.Count("packs_stepsplit", 1)
		c.DistinctBytes(enc)
		// The pack factory does not list this type (it is a send-only pack for the agent); it is
		// decoded through its own Read after the type short, as the design of C03 does.
		if i == 0 {
			if pn := vlib.Catch(func() { pack.ToPack(enc) }); pn != nil {
				c.Note("pack.ToPack does not know pack type 0x0302 (ProfileStepSplitPack is not in CreatePack); decoded through its own Read")
			}
		}
		in := gio.NewDataInputX(withCanary(enc))
		q := pack.NewProfileStepSplitPack()
		var ty int16
		if pn := vlib.Catch(func() { ty = in.ReadShort(); q.Read(in) }); pn != nil {
			c.Fail("ProfileStepSplitPack:decode-panics", fmt.Sprintf("ProfileStepSplitPack.Read panics on what Write produced: %v", pn), hexFull(enc))
			return
		}
		if ty != q.GetPackType() || ty != refcodec.PackTStepSplit {
			c.Fail("ProfileStepSplitPack:type-changed", fmt.Sprintf("pack type short is %#x", ty), hexFull(enc))
		}
		if int(in.Available()) != len(canary) {
			c.Fail("ProfileStepSplitPack:not-consumed", fmt.Sprintf("the pack occupies %d bytes, the decoder consumed %d", len(enc), len(enc)+len(canary)-int(in.Available())), hexFull(enc))
		}
		checkHdr("ProfileStepSplitPack", rp.Hdr, hdrOf(&q.AbstractPack), enc)
		if q.Txid != rp.Txid {
			c.Fail("ProfileStepSplitPack.Txid:not-restored", "txid differs", hexFull(enc))
		}
		if int64(q.Inx) != rp.Inx {
			c.Fail("ProfileStepSplitPack.Inx:not-restored", "index differs", hexFull(enc))
		}
		checkStepsBlob("ProfileStepSplitPack", "Steps", rp.Steps, q.Steps)
		c.Count("packs_stepsplit_decoded", 1)
	})
	c.Cases("errorsnap-pack", c.N(3000, 60000), func(i int, r *vlib.Rand) {
		rp := refcodec.RefErrorSnapPack{Hdr: genHdr(r), Seq: r.I64(), Profile: stepgen.GenSteps(r, []int{0, 1, r.Range(2, 30), r.Range(2, 30)}[i%4]),
			AppendType: byte(r.U64()), AppendHash: r.I32()}
		p := pack.NewErrorSnapPack1()
		setHdr(&p.AbstractPack, rp.Hdr)
		p.Seq, p.AppendType, p.AppendHash = rp.Seq, rp.AppendType, rp.AppendHash
		gs := make([]step.Step, len(rp.Profile))
		for k := range gs {
			gs[k] = stepgen.ToGolib(rp.Profile[k])
		}
		l := newLedger("errorsnap-pack")
		defer l.end()
		l.op("ErrorSnapPack1.SetProfile")
		p.SetProfile(gs)
		l.hold("ErrorSnapPack1.SetProfile", p.Profile)
		if r.Intn(4) != 0 {
			rp.HasStack = true
			switch r.Intn(4) {
			case 0:
				rp.Stack = nil
			case 1:
				rp.Stack = []int32{}
			default:
				for k, n := 0, r.Range(1, 60); k < n; k++ {
					rp.Stack = append(rp.Stack, r.I32())
				}
			}
			l.op("ErrorSnapPack1.SetStack")
			p.SetStack(rp.Stack)
			l.hold("ErrorSnapPack1.SetStack", p.Stack)
			l.verify()
		}
		l.op("ToBytesPack(ErrorSnapPack1)")
		enc := pack.ToBytesPack(p)
		l.hold("ToBytesPack", enc)
		l.verify()
		l.op("ReadPack, decode the steps")
		w := refcodec.NewW()
		w.ErrorSnapPack(rp)
		if !bytes.Equal(enc, w.B) {
			c.Fail("ErrorSnapPack1:bytes-differ", fmt.Sprintf("ToBytesPack(ErrorSnapPack1) differs from the reference at byte %d", firstDiff(enc, w.B)),
				map[string]interface{}{"golib": hexFull(enc), "reference": hexFull(w.B)})
		}
		c.Count("packs_errorsnap", 1)
		c.DistinctBytes(enc)
		q := readPack("ErrorSnapPack1", enc, fmt.Sprintf("hdr=%+v steps=%d", rp.Hdr, len(rp.Profile)))
		if q == nil {
			return
		}
		ep, ok := q.(*pack.ErrorSnapPack1)
		if !ok {
			c.Fail("ErrorSnapPack1:type-changed", fmt.Sprintf("an ErrorSnapPack1 was written, a %T came back", q), hexFull(enc))
			return
		}
		checkHdr("ErrorSnapPack1", rp.Hdr, hdrOf(&ep.AbstractPack), enc)
		if ep.Seq != rp.Seq {
			c.Fail("ErrorSnapPack1.Seq:not-restored", "seq differs", hexFull(enc))
		}
		if ep.AppendType != rp.AppendType {
			c.Fail("ErrorSnapPack1.AppendType:not-restored", "append type differs", hexFull(enc))
		}
		if ep.AppendHash != rp.AppendHash {
			c.Fail("ErrorSnapPack1.AppendHash:not-restored", "append hash differs", hexFull(enc))
		}
		st := refcodec.NewW()
		if rp.HasStack {
			st.IntArray(rp.Stack)
		}
		if !bytes.Equal(st.B, ep.Stack) {
			c.Fail("ErrorSnapPack1.Stack:not-restored", "stack bytes differ", map[string]interface{}{"expected": hexFull(st.B), "decoded": hexFull(ep.Stack)})
		} else if rp.HasStack {
			var back []int32
			if pn := vlib.Catch(func() { back = gio.NewDataInputX(ep.Stack).ReadIntArray() }); pn != nil || len(back) != len(rp.Stack) {
				c.Fail("ErrorSnapPack1.Stack:not-restored", fmt.Sprintf("the decoded stack blob does not read back as the %d-entry call stack (panic=%v)", len(rp.Stack), pn), hexFull(ep.Stack))
			} else {
				for k := range back {
					if back[k] != rp.Stack[k] {
						c.Fail("ErrorSnapPack1.Stack:not-restored", "call stack entry differs", hexFull(ep.Stack))
						break
					}
				}
			}
		}
		checkStepsBlob("ErrorSnapPack1", "Profile", rp.Profile, ep.Profile)
		c.Count("packs_errorsnap_decoded", 1)
	})


	// (9) histories with several live objects, sequential and on several goroutines
	historySections(false)

	sh := int64(c.NShards)
	c.Floor("steps_written", int64(nStreams)*5/sh, c.Counter("steps_written"))
	c.Floor("streams_with_2plus_steps", int64(nStreams)/10/sh, c.Counter("streams_with_2plus_steps"))
	c.Floor("single_steps", int64(nSingle)/10/sh, c.Counter("single_steps"))
	c.Floor("tx_records", int64(nTx)/10/sh, c.Counter("tx_records"))
	c.Floor("service_records", int64(c.N(6000, 120000))/10/sh, c.Counter("service_records"))
	c.Floor("messagestepx_cases", int64(nMsg)/10/sh, c.Counter("messagestepx_cases"))
	c.Floor("packs_profile", int64(c.N(3000, 60000))/10/sh, c.Counter("packs_profile"))
	c.Floor("packs_stepsplit_decoded", int64(c.N(3000, 60000))/10/sh, c.Counter("packs_stepsplit_decoded"))
	c.Floor("packs_errorsnap_decoded", int64(c.N(3000, 60000))/10/sh, c.Counter("packs_errorsnap_decoded"))
	c.Finish()
	fmt.Println("done", strings.ToLower(c.Prop))
}

func minInt(a, b int) int {
	if a < b {
		return a
	}
	return b
}
