// Result ownership: every byte slice an encoder hands out belongs to the caller from then on.
//
// A ledger lives for one case. Each slice returned by the library (ToBytesStep, the Steps /
// Profile / Stack fields set by SetProfile / SetStack, TxRecord.ToBytes, ToBytesPack,
// DataOutputX.ToByteArray after WriteStep / service.ToBytes, MessageStepX.WriteVer0, the blobs
// of a decoded pack) is HELD exactly as returned — no copy — next to a private copy taken at
// that moment. After every later encode or decode of the case, and at its end, the held slice
// must still equal the copy: a difference means the library wrote into memory it had already
// given away (a pooled or shared output buffer, a memoised result, a shared scratch array).
package main

import (
	"bytes"
	"fmt"
)

type heldBlob struct {
	fn   string // the function (or setter) the slice came from: the finding key prefix
	b    []byte // as returned by the library
	cp   []byte // private copy taken when it was returned
	born int    // index into ops of the operation that produced it
	dead bool   // already reported or scribbled: not looked at again
}

type ledger struct {
	where string
	items []*heldBlob
	ops   []string // what the case did, in order (goes into the replay detail)
}

func newLedger(where string) *ledger { return &ledger{where: where} }

// op records one operation of the case.
func (l *ledger) op(s string) { l.ops = append(l.ops, s) }

func (l *ledger) opf(format string, a ...interface{}) {
	l.ops = append(l.ops, fmt.Sprintf(format, a...))
}

// hold keeps b as returned by fn. Empty results have no bytes that could change.
func (l *ledger) hold(fn string, b []byte) {
	c.Count("held_blobs", 1)
	if len(b) == 0 {
		c.Count("held_blobs_empty", 1)
		return
	}
	cp := make([]byte, len(b))
	copy(cp, b)
	l.items = append(l.items, &heldBlob{fn: fn, b: b, cp: cp, born: len(l.ops) - 1})
}

// verify compares every live held slice with its copy. It is called after every encode or
// decode that follows the hand-out, and at the end of the case.
func (l *ledger) verify() {
	n := 0
	for _, it := range l.items {
		if it.dead {
			continue
		}
		n++
		if bytes.Equal(it.b, it.cp) {
			continue
		}
		it.dead = true
		key := it.fn + ":result-altered-later"
		if cheap(key) {
			continue
		}
		born, last := "", ""
		if it.born >= 0 && it.born < len(l.ops) {
			born = l.ops[it.born]
		}
		if len(l.ops) > 0 {
			last = l.ops[len(l.ops)-1]
		}
		c.Fail(key, fmt.Sprintf("%s: the %d bytes returned by %s (operation %d: %s) changed in place at offset %d after operation %d (%s); the caller still holds that slice",
			l.where, len(it.cp), it.fn, it.born, born, firstDiff(it.b, it.cp), len(l.ops)-1, last),
			map[string]interface{}{"where": l.where, "function": it.fn, "history": l.ops, "produced_by_operation": it.born, "altered_after_operation": len(l.ops) - 1,
				"first_difference_at": firstDiff(it.b, it.cp), "as_returned": hexFull(it.cp), "now": hexFull(it.b)})
	}
	c.Count("reverifications", int64(n))
	c.Count("reverify_points", 1)
}

// end is the check at the end of a case.
func (l *ledger) end() {
	l.op("end of case")
	l.verify()
	c.Count("ledgers_closed", 1)
}

// live returns the number of held slices still watched.
func (l *ledger) live() int {
	n := 0
	for _, it := range l.items {
		if !it.dead {
			n++
		}
	}
	return n
}

// scribble overwrites every held slice — its whole capacity: what follows the length was
// handed out with it — and stops watching them. The caller owns these slices, so nothing the
// library produces afterwards may depend on them. Returns the number of bytes written.
func (l *ledger) scribble() int {
	total := 0
	for k, it := range l.items {
		if it.dead {
			continue
		}
		it.dead = true
		full := it.b[:cap(it.b)]
		for i := range full {
			full[i] = byte(0xE1 + k + i*7)
		}
		total += len(full)
		c.Count("scribbled_blobs", 1)
	}
	c.Count("scribbled_bytes", int64(total))
	return total
}
