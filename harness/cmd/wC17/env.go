package main

// Shared plumbing of the C17 worker: the virtual clock (golib's process-wide delta, mirrored
// here so that the monitor never asks golib what time it is), an in-memory config.Config,
// per-scenario temp homes, the "has the logger's own timer goroutine finished its first
// cycle" probe, and the independent log-file parser the oracles work on.

import (
	"context"
	"fmt"
	"os"
	"path/filepath"
	"regexp"
	"runtime"
	"sort"
	"strconv"
	"strings"
	"sync/atomic"
	"time"
	"unsafe"

	"github.com/whatap/golib/config"
	"github.com/whatap/golib/config/conffile"
	"github.com/whatap/golib/logger"
	"github.com/whatap/golib/logger/logfile"
	"github.com/whatap/golib/util/dateutil"

	"verif/vlib"
)

// ---- virtual clock ------------------------------------------------------------------------

const dayMs = int64(86400000)

// myDelta mirrors the delta handed to dateutil.SetDelta. vnow() is the monitor's own reading
// of the virtual clock (wall clock + delta): it brackets the instant the library sampled
// inside a call without calling into the library.
var myDelta atomic.Int64

func setVirtual(t int64) {
	d := t - time.Now().UnixMilli()
	myDelta.Store(d)
	dateutil.SetDelta(d)
}

func vnow() int64 { return time.Now().UnixMilli() + myDelta.Load() }

// advanceTo moves the virtual clock forward to t (never backwards).
func advanceTo(t int64) {
	if t > vnow() {
		setVirtual(t)
	}
}

func dayOf(ms int64) int64 { return ms / dayMs }

func ymdOfDay(day int64) string { return time.Unix(day*86400, 0).UTC().Format("20060102") }

func ymdOf(ms int64) string { return ymdOfDay(dayOf(ms)) }

var (
	firstDay = time.Date(2001, 1, 1, 0, 0, 0, 0, time.UTC).Unix() / 86400
	lastDay  = time.Date(2095, 1, 1, 0, 0, 0, 0, time.UTC).Unix() / 86400
)

// randDay picks a virtual day, biased to month / year / leap-day edges.
func randDay(r *vlib.Rand) int64 {
	switch r.Intn(6) {
	case 0:
		y := 2001 + r.Intn(94)
		return time.Date(y, 12, 31, 0, 0, 0, 0, time.UTC).Unix() / 86400
	case 1:
		y := 2004 + 4*r.Intn(22)
		return time.Date(y, 2, 28+r.Intn(2), 0, 0, 0, 0, time.UTC).Unix() / 86400
	case 2:
		y := 2001 + r.Intn(94)
		m := 1 + r.Intn(12)
		return time.Date(y, time.Month(m), 1, 0, 0, 0, 0, time.UTC).Unix()/86400 - int64(r.Intn(2))
	}
	return firstDay + int64(r.Intn(int(lastDay-firstDay)))
}

// ---- config.Config backed by a map -----------------------------------------------------------

type mapConf map[string]string

func (m mapConf) ApplyDefault()       {}
func (m mapConf) GetConfFile() string { return "" }
func (m mapConf) Destroy()            {}
func (m mapConf) GetKeys() []string {
	k := make([]string, 0, len(m))
	for x := range m {
		k = append(k, x)
	}
	sort.Strings(k)
	return k
}
// A value is taken without the blanks around it and an empty value counts as not set - the
// contract of the production configuration object (conffile.FileConfig), restated here.
func (m mapConf) GetValue(key string) string { return strings.TrimSpace(m[key]) }
func (m mapConf) GetValueDef(key, def string) string {
	if v := m.GetValue(key); v != "" {
		return v
	}
	return def
}
func (m mapConf) GetBoolean(key string, def bool) bool {
	if v := m.GetValue(key); v != "" {
		if b, err := strconv.ParseBool(v); err == nil {
			return b
		}
	}
	return def
}
func (m mapConf) GetInt(key string, def int) int32 {
	if v := m.GetValue(key); v != "" {
		if n, err := strconv.ParseInt(v, 10, 32); err == nil {
			return int32(n)
		}
	}
	return int32(def)
}
func (m mapConf) GetIntSet(key, def, deli string) []int32 { return nil }
func (m mapConf) GetLong(key string, def int64) int64 {
	if v := m.GetValue(key); v != "" {
		if n, err := strconv.ParseInt(v, 10, 64); err == nil {
			return n
		}
	}
	return def
}
func (m mapConf) GetStringArray(key string, def string, deli string) []string { return nil }
func (m mapConf) GetStringHashSet(key, def, deli string) []int32              { return nil }
func (m mapConf) GetStringHashCodeSet(key, def, deli string) []int32          { return nil }
func (m mapConf) GetFloat(key string, def float32) float32                    { return def }
func (m mapConf) SetValues(v *map[string]string)                              {}
func (m mapConf) ToString() string                                            { return fmt.Sprint(map[string]string(m)) }
func (m mapConf) String() string                                              { return m.ToString() }

// ---- scenario ------------------------------------------------------------------------------

const (
	viaFileDirect   = "ApplyConfig(conffile.FileConfig of <home>/whatap.conf)"
	viaFileObserver = "conffile.FileConfig loads <home>/whatap.conf and runs its ConfigObserver"
)

var rankName = [4]string{"debug", "info", "warn", "error"}
var rankConst = [4]int{logger.LOG_LEVEL_DEBUG, logger.LOG_LEVEL_INFO, logger.LOG_LEVEL_WARN, logger.LOG_LEVEL_ERROR}

type scn struct {
	c         *vlib.Ctx
	home      string
	logs      string
	id        string
	oname     string
	level     int // severity rank 0=debug .. 3=error
	interval  int // seconds
	keep      int // days
	rot       bool
	useApply  bool
	fl        *logfile.FileLogger
	parked    bool
	singleton bool
	afterNew  func() // called right after the constructor has returned
	// ownDiag: an open failure was provoked - whole lines without a message token (the logger's
	// own report of the failure) are not counted as torn lines
	ownDiag bool

	// further configuration dimensions, drawn from rc (a stream forked off the case's stream)
	rc        *vlib.Rand
	sec       string   // section the scenario belongs to
	zone      string   // time zone of the process while the scenario runs
	stdout    bool     // stdout mirror effectively on
	stdoutBy  string   // how it was switched on: "WithStdout(true)" or "log_stdout_enabled=true"
	stdoutOpt int      // WithStdout option handed to the constructor: -1 none, 0 false, 1 true
	homeVia   string   // WithHomePath | WHATAP_HOME | WithHomePath("")+WHATAP_HOME
	namesVia  string   // WithOnameLogID | defaults (option omitted)
	applyVia  string   // ApplyConfig | ConfigObserver.Run
	withCtx   bool     // the (inert) WithContext option is passed too
	omitted   []string // options / keys left out because the drawn value is the documented default
	// how each configuration value was written (key -> exact text / class of spelling), spell.go
	confText  map[string]string
	confClass map[string]string
	confFile  string // content of the whatap.conf the configuration was read from (FileConfig routes)
}

// curSec is the section whose cases are running (sections run one after another).
var curSec string

var singletonUsed bool

var tmpRoot string
var homeSeq int

func initTmp(c *vlib.Ctx) {
	base := os.Getenv("VERIF_C17_TMP")
	if base == "" {
		base = filepath.Join(c.Out, "tmp")
	}
	tmpRoot = filepath.Join(base, fmt.Sprintf("p%d", os.Getpid()))
	forceRemoveAll(tmpRoot)
	if err := os.MkdirAll(tmpRoot, 0o755); err != nil {
		panic(err)
	}
}

func cleanupTmp() {
	for i := 0; i < 3; i++ {
		if forceRemoveAll(tmpRoot) == nil {
			break
		}
	}
	os.Remove(filepath.Dir(tmpRoot))
}

const idChars = "ABCDEFGHIJKLMNOPQRSTUVWXYZabcdefghijklmnopqrstuvwxyz0123456789"

func randName(r *vlib.Rand, min, max int, extra string) string {
	n := r.Range(min, max)
	b := make([]byte, n)
	for i := range b {
		set := idChars
		if i > 0 && i < n-1 && extra != "" && r.Chance(1, 5) {
			set = extra
		}
		b[i] = set[r.Intn(len(set))]
	}
	if b[0] >= '0' && b[0] <= '9' {
		b[0] = 'w'
	}
	return string(b)
}

// newScn draws names and settings and creates an empty home directory. The virtual clock
// must already be set by the caller.
func newScn(c *vlib.Ctx, r *vlib.Rand) *scn {
	s := &scn{c: c}
	homeSeq++
	h, err := os.MkdirTemp(tmpRoot, fmt.Sprintf("h%d-", homeSeq))
	if err != nil {
		panic(err)
	}
	s.home = h
	s.logs = filepath.Join(h, "logs")
	if r.Chance(1, 6) {
		s.id, s.oname = "whatap", "boot"
	} else {
		s.id = randName(r, 1, 8, "_.")
		s.oname = randName(r, 1, 10, "_.-")
	}
	s.level = r.Intn(4)
	s.interval, s.keep, s.rot = 10, 7, true
	// the remaining dimensions come from a forked stream, drawn here and in start()
	s.rc = r.Fork("config-dimensions")
	s.sec = curSec
	s.zone = enterZone(c, s.rc)
	s.stdout = s.rc.Chance(1, 2)
	s.stdoutOpt = -1
	s.homeVia = []string{"WithHomePath", "WithHomePath", "WHATAP_HOME", `WithHomePath("")+WHATAP_HOME`}[s.rc.Intn(4)]
	s.namesVia = "WithOnameLogID"
	if s.id == "whatap" && s.oname == "boot" && s.rc.Chance(1, 2) {
		s.namesVia = "defaults (option omitted)"
	}
	s.applyVia = []string{"ApplyConfig", "ApplyConfig", "ConfigObserver.Run", viaFileDirect, viaFileObserver}[s.rc.Intn(5)]
	s.withCtx = s.rc.Chance(1, 5)
	return s
}

// start creates the logger (fresh instance, real constructor), waits until its own timer
// goroutine has finished its first cycle and gone to sleep, and applies the non-default
// settings through the production ApplyConfig path followed by one cycle (a changed rotation
// flag takes effect at the next cycle).
func (s *scn) start() {
	rc := s.rc
	var opts []logfile.FileLoggerOption
	switch s.homeVia {
	case "WithHomePath":
		opts = append(opts, logfile.WithHomePath(s.home))
	case "WHATAP_HOME":
		os.Setenv(logfile.HOME_ENV_KEY, s.home)
		defer os.Unsetenv(logfile.HOME_ENV_KEY)
	default:
		opts = append(opts, logfile.WithHomePath(""))
		os.Setenv(logfile.HOME_ENV_KEY, s.home)
		defer os.Unsetenv(logfile.HOME_ENV_KEY)
	}
	if s.namesVia == "WithOnameLogID" {
		opts = append(opts, logfile.WithOnameLogID(s.oname, s.id))
	}
	omit := func(what string, isDefault bool) bool {
		if isDefault && rc.Chance(1, 3) {
			s.omitted = append(s.omitted, what)
			return true
		}
		return false
	}
	if !s.useApply {
		if !omit("WithLevel", s.level == 2) {
			opts = append(opts, logfile.WithLevel(rankConst[s.level]))
		}
		// no configuration is applied: the option is what switches the mirror on
		if s.stdout {
			s.stdoutOpt, s.stdoutBy = 1, "WithStdout(true)"
		} else {
			s.stdoutOpt = rc.Intn(2) - 1
		}
	} else {
		// the configuration key decides, whatever the option said
		s.stdoutOpt = rc.Intn(3) - 1
		if s.stdout {
			s.stdoutBy = "log_stdout_enabled=true"
		}
	}
	if s.stdoutOpt >= 0 {
		opts = append(opts, logfile.WithStdout(s.stdoutOpt == 1))
	}
	if s.withCtx {
		ctx, cancel := context.WithCancel(context.Background())
		opts = append(opts, logfile.WithContext(ctx, cancel))
	}
	if s.singleton {
		s.fl = logfile.GetFileLogger(opts...)
		s.c.Count("singleton_accessor_scenarios", 1)
	} else {
		s.fl = logfile.NewFileLogger(opts...)
	}
	if s.afterNew != nil {
		s.afterNew()
	}
	checkStdLogger(s.c, "the constructor", s.desc)
	s.parked = waitRunParked(s.fl)
	if !s.parked {
		s.c.Count("run_goroutine_park_unconfirmed", 1)
		time.Sleep(50 * time.Millisecond)
	}
	if s.useApply {
		s.fl.VerifCycle()
		conf := mapConf{}
		s.confText, s.confClass = map[string]string{}, map[string]string{}
		put := func(key, text, class string) {
			conf[key], s.confText[key], s.confClass[key] = text, text, class
		}
		// every value is written in a drawn spelling that means exactly the drawn setting (spell.go)
		if !omit("log_rotation_enabled", s.rot) {
			t, cl := spellBool(rc, s.rot, true)
			if modelBool(t, true) != s.rot {
				panic(fmt.Sprintf("worker bug: log_rotation_enabled=%q does not mean %v", t, s.rot))
			}
			put("log_rotation_enabled", t, cl)
		}
		if !omit("log_keep_days", s.keep == 7) {
			t, cl := spellInt(rc, s.keep, 7)
			if modelInt(t, 7) != s.keep {
				panic(fmt.Sprintf("worker bug: log_keep_days=%q does not mean %d", t, s.keep))
			}
			put("log_keep_days", t, cl)
		}
		if !omit("_log_interval", s.interval == 10) {
			t, cl := spellInt(rc, s.interval, 10)
			if modelInt(t, 10) != s.interval {
				panic(fmt.Sprintf("worker bug: _log_interval=%q does not mean %d", t, s.interval))
			}
			put("_log_interval", t, cl)
		}
		if !omit("log_level", s.level == 2) {
			t, cl := spellLevel(rc, s.level)
			if modelLevel(t) != s.level {
				panic(fmt.Sprintf("worker bug: log_level=%q does not mean %s", t, rankName[s.level]))
			}
			put("log_level", t, cl)
		}
		if !omit("log_stdout_enabled", !s.stdout) {
			t, cl := spellBool(rc, s.stdout, false)
			if modelBool(t, false) != s.stdout {
				panic(fmt.Sprintf("worker bug: log_stdout_enabled=%q does not mean %v", t, s.stdout))
			}
			put("log_stdout_enabled", t, cl)
		}
		switch s.applyVia {
		case "ConfigObserver.Run":
			// the production route of a configuration change: the observer hands it to its listeners
			obs := config.NewConfigObserver()
			obs.Add("FileLogger-under-test", s.fl)
			obs.Run(conf)
		case viaFileDirect, viaFileObserver:
			// the production configuration object: the values are written into <home>/whatap.conf,
			// read by conffile.FileConfig and handed over by it
			for _, k := range conf.GetKeys() {
				s.confFile += confLine(rc, k, conf[k])
			}
			if s.confFile == "" {
				s.confFile = "# nothing set\n"
			}
			if err := os.WriteFile(filepath.Join(s.home, "whatap.conf"), []byte(s.confFile), 0o644); err != nil {
				panic(err)
			}
			if s.applyVia == viaFileObserver {
				obs := config.NewConfigObserver()
				obs.Add("FileLogger-under-test", s.fl)
				fc := conffile.VerifNew(conffile.WithHomePath(s.home), conffile.WithConfigObserver(obs)) // loads the file, runs the observer
				fc.VerifStop()
			} else {
				fc := conffile.VerifNew(conffile.WithHomePath(s.home))
				fc.VerifStop()
				s.fl.ApplyConfig(fc)
			}
		default:
			s.fl.ApplyConfig(conf)
		}
		s.fl.VerifCycle()
		checkStdLogger(s.c, "the configuration was applied and a cycle ran", s.desc)
	}
	stdPrint(s.c, "after the logger was created and configured", s.desc)
	s.recordConfig()
}

func cls3(v int) string {
	switch {
	case v < 0:
		return "negative"
	case v == 0:
		return "0"
	}
	return "positive"
}

// recordConfig writes the configuration of this scenario into the coverage sets.
func (s *scn) recordConfig() {
	c := s.c
	via, mirror := "options-only", "off"
	if s.useApply {
		via = "ApplyConfig"
		c.SetAdd("config_applied_by", s.applyVia)
	}
	if s.stdout {
		mirror = "on:" + s.stdoutBy
		c.Count("scenarios_with_stdout_mirror_on", 1)
		c.SetAdd("stdout_mirror_on_in_sections", s.sec)
	} else {
		c.Count("scenarios_with_stdout_mirror_off", 1)
		c.SetAdd("stdout_mirror_off_in_sections", s.sec)
	}
	c.SetAdd("config_combinations_seen", fmt.Sprintf("via=%s level=%s rotation=%v stdout=%s interval=%s keep_days=%s",
		via, rankName[s.level], s.rot, mirror, cls3(s.interval), cls3(s.keep)))
	c.SetAdd("stdout_option_x_key_seen", fmt.Sprintf("via=%s option=%s effective=%v", via,
		map[int]string{-1: "none", 0: "WithStdout(false)", 1: "WithStdout(true)"}[s.stdoutOpt], s.stdout))
	c.SetAdd("home_path_given_by", s.homeVia)
	c.SetAdd("names_given_by", s.namesVia)
	for _, o := range s.omitted {
		c.SetAdd("defaults_left_unset", o)
	}
	for k, cl := range s.confClass {
		c.SetAdd("config_value_spellings_seen", k+": "+cl)
		if k == "log_level" {
			c.SetAdd("level_name_spellings_seen", rankName[s.level]+" as "+cl)
			if cl != "lower" {
				c.Count("scenarios_with_level_name_not_plain_lower_case", 1)
			}
		}
		if (k == "log_rotation_enabled" || k == "log_stdout_enabled") && cl != "lower" {
			c.Count("scenarios_with_boolean_not_plain_lower_case", 1)
		}
	}
	if s.withCtx {
		c.Count("scenarios_with_context_option", 1)
	}
	c.SetAdd("time_zone_x_section", s.sec+" @ "+s.zone)
}

func (s *scn) close() {
	if s.fl != nil {
		checkStdLogger(s.c, "the scenario", s.desc)
	}
	forceRemoveAll(s.home)
	forceRemoveAll(s.home + ".away")
}

// forceRemoveAll removes a tree; if that fails (an obstacle of the open-failure scenarios was
// left behind: read-only or immutable directory) the directories are made writable first.
func forceRemoveAll(path string) error {
	err := os.RemoveAll(path)
	if err == nil {
		return nil
	}
	filepath.Walk(path, func(p string, fi os.FileInfo, e error) error {
		if e == nil && fi.IsDir() {
			os.Chmod(p, 0o777)
			setImmutable(p, false)
		}
		return nil
	})
	return os.RemoveAll(path)
}

func (s *scn) desc() map[string]interface{} {
	m := map[string]interface{}{"log_id": s.id, "oname": s.oname, "level": rankName[s.level], "interval_s": s.interval,
		"keep_days": s.keep, "rotation": s.rot, "via_ApplyConfig": s.useApply, "stdout_mirror": s.stdout, "time_zone": s.zone,
		"home_given_by": s.homeVia, "names_given_by": s.namesVia}
	if s.stdout {
		m["stdout_mirror_switched_on_by"] = s.stdoutBy
	}
	if s.stdoutOpt >= 0 {
		m["WithStdout_option"] = s.stdoutOpt == 1
	}
	if s.useApply {
		m["config_applied_by"] = s.applyVia
		if s.confText != nil {
			w := map[string]string{}
			for k, t := range s.confText {
				w[k] = fmt.Sprintf("%q (%s)", t, s.confClass[k])
			}
			m["config_values_as_written"] = w
		}
		if s.confFile != "" {
			m["whatap_conf"] = s.confFile
		}
	}
	if len(s.omitted) > 0 {
		m["left_unset_as_default"] = s.omitted
	}
	if s.withCtx {
		m["WithContext_option"] = true
	}
	return m
}

// logName is the file name the property states: <id>-<oname>-<yyyymmdd>.log, undated with
// rotation off.
func logName(id, oname string, rot bool, day int64) string {
	if !rot {
		return id + "-" + oname + ".log"
	}
	return id + "-" + oname + "-" + ymdOfDay(day) + ".log"
}

// waitRunParked waits until the goroutine running (*FileLogger).run for THIS logger is parked
// in time.Sleep, i.e. its unlocked initialisation and first cycle are over. Found by the
// receiver pointer in the goroutine dump; no library state is read.
var stackBuf = make([]byte, 1<<20)

func waitRunParked(fl *logfile.FileLogger) bool {
	needle := fmt.Sprintf("(*FileLogger).run(0x%x", uintptr(unsafe.Pointer(fl)))
	for try := 0; try < 100000; try++ {
		var n int
		for {
			n = runtime.Stack(stackBuf, true)
			if n < len(stackBuf) {
				break
			}
			stackBuf = make([]byte, 2*len(stackBuf))
		}
		dump := string(stackBuf[:n])
		if i := strings.Index(dump, needle); i >= 0 {
			j := strings.LastIndex(dump[:i], "\n\n")
			blk := dump[j+1 : i]
			if strings.Contains(blk, "time.Sleep") {
				hdr := strings.TrimLeft(blk, "\n")
				if k := strings.IndexByte(hdr, '\n'); k > 0 && strings.Contains(hdr[:k], "[sleep") {
					return true
				}
			}
		}
		if try < 50 {
			runtime.Gosched()
		} else {
			time.Sleep(200 * time.Microsecond)
		}
	}
	return false
}

// ---- log file parser -------------------------------------------------------------------------

var tsRe = regexp.MustCompile(`^\d{4}/\d{2}/\d{2} \d{2}:\d{2}:\d{2} `)
var tokRe = regexp.MustCompile(`~g(\d\d)~(\d{6})~`)

type rec struct {
	g, n int
	rest string // physical line without the timestamp prefix
	line int
	tok0 int // offset of the token in rest
}

type parsed struct {
	name    string
	raw     string
	recs    []rec
	proc    []string // lines the process itself printed through package log (stdlog.go): never belong into a log file
	junk    []string // physical lines that are neither blank/header/trailer nor exactly one whole record
	notok   []string // whole timestamped lines that carry no message token at all (nothing the monitor logged)
	headers int
}

func parseLog(name, raw string) *parsed {
	p := &parsed{name: name, raw: raw}
	if raw != "" && !strings.HasSuffix(raw, "\n") {
		p.junk = append(p.junk, "file does not end with a newline: …"+clip(raw[strings.LastIndexByte(raw, '\n')+1:], 120))
	}
	for ln, s := range strings.Split(raw, "\n") {
		if s == "" || s == "\x1b[0m" {
			continue
		}
		if strings.Contains(s, stdMark) {
			p.proc = append(p.proc, fmt.Sprintf("line %d: %s", ln+1, clip(s, 160)))
			continue
		}
		m := tsRe.FindString(s)
		if m == "" {
			p.junk = append(p.junk, fmt.Sprintf("line %d has no timestamp prefix: %s", ln+1, clip(s, 160)))
			continue
		}
		rest := s[len(m):]
		if rest == "" {
			continue
		}
		if strings.HasPrefix(rest, "## OPEN LOG FILE") {
			p.headers++
			continue
		}
		toks := tokRe.FindAllStringSubmatchIndex(rest, -1)
		if len(toks) == 0 {
			p.notok = append(p.notok, fmt.Sprintf("line %d carries 0 message tokens: %s", ln+1, clip(rest, 200)))
			continue
		}
		if len(toks) != 1 {
			p.junk = append(p.junk, fmt.Sprintf("line %d carries %d message tokens: %s", ln+1, len(toks), clip(rest, 200)))
			continue
		}
		t := toks[0]
		g, _ := strconv.Atoi(rest[t[2]:t[3]])
		n, _ := strconv.Atoi(rest[t[4]:t[5]])
		p.recs = append(p.recs, rec{g: g, n: n, rest: rest, line: ln + 1, tok0: t[0]})
	}
	return p
}

func clip(s string, n int) string {
	if len(s) <= n {
		return s
	}
	return s[:n] + fmt.Sprintf("…(%d bytes)", len(s))
}

// readDirFiles returns name → content for the regular files directly inside dir, and the
// names of sub-directories.
func readDirFiles(dir string) (map[string]string, []string) {
	files := map[string]string{}
	var dirs []string
	ents, _ := os.ReadDir(dir)
	for _, e := range ents {
		if e.IsDir() {
			dirs = append(dirs, e.Name())
			continue
		}
		b, err := os.ReadFile(filepath.Join(dir, e.Name()))
		if err == nil {
			files[e.Name()] = string(b)
		}
	}
	sort.Strings(dirs)
	return files, dirs
}

func sortedKeys(m map[string]string) []string {
	k := make([]string, 0, len(m))
	for x := range m {
		k = append(k, x)
	}
	sort.Strings(k)
	return k
}
