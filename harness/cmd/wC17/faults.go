package main

// Transient open failures for the rotation scenarios: before a cycle that has to open a new
// file the monitor puts an obstacle in the way a file system (or the process) can - the target
// name occupied by something that is not a file, the logs directory not writable, the logs or
// home directory renamed away, the logs path occupied by a regular file, no file descriptor
// left - lets one or more cycles run under it, removes it and runs the cycle again. What the
// logger does while the obstacle is there is not judged (lines may stay in the old file or be
// dropped); after the cycle that follows the removal the fault-free oracle applies unchanged.
//
// Which classes are effective is probed once per process (chmod does nothing for a process with
// CAP_DAC_OVERRIDE; the immutable flag needs CAP_LINUX_IMMUTABLE and file-system support).

import (
	"errors"
	"os"
	"path/filepath"
	"syscall"
	"unsafe"

	"verif/vlib"
)

type fault struct {
	class  string
	inject func() error
	remove func() // idempotent
}

var (
	faultProbed    bool
	chmodEffective bool
	immutableWorks bool
	fdLimitWorks   bool
)

const (
	fsIocGetFlags = 0x80086601
	fsIocSetFlags = 0x40086602
	fsImmutableFl = 0x10
)

func tryCreate(p string) error {
	f, err := os.OpenFile(p, os.O_CREATE|os.O_WRONLY|os.O_APPEND, 0o666)
	if err == nil {
		f.Close()
	}
	return err
}

// setImmutable sets or clears the immutable attribute of a directory.
func setImmutable(dir string, on bool) error {
	d, err := os.Open(dir)
	if err != nil {
		return err
	}
	defer d.Close()
	var flags int32
	if _, _, e := syscall.Syscall(syscall.SYS_IOCTL, d.Fd(), fsIocGetFlags, uintptr(unsafe.Pointer(&flags))); e != 0 {
		return e
	}
	if on {
		flags |= fsImmutableFl
	} else {
		flags &^= fsImmutableFl
	}
	if _, _, e := syscall.Syscall(syscall.SYS_IOCTL, d.Fd(), fsIocSetFlags, uintptr(unsafe.Pointer(&flags))); e != 0 {
		return e
	}
	return nil
}

// setFdLimit sets the soft RLIMIT_NOFILE and returns the previous one.
func setFdLimit(cur uint64) (uint64, error) {
	var rl syscall.Rlimit
	if err := syscall.Getrlimit(syscall.RLIMIT_NOFILE, &rl); err != nil {
		return 0, err
	}
	old := rl.Cur
	rl.Cur = cur
	if rl.Cur > rl.Max {
		rl.Cur = rl.Max
	}
	return old, syscall.Setrlimit(syscall.RLIMIT_NOFILE, &rl)
}

func probeFaults(c *vlib.Ctx) {
	if faultProbed {
		return
	}
	faultProbed = true
	dir := filepath.Join(tmpRoot, "fault-probe")
	os.MkdirAll(dir, 0o755)
	defer func() {
		os.Chmod(dir, 0o755)
		setImmutable(dir, false)
		os.RemoveAll(dir)
	}()
	os.Chmod(dir, 0o555)
	e1 := tryCreate(filepath.Join(dir, "a.log"))
	os.Chmod(dir, 0)
	e2 := tryCreate(filepath.Join(dir, "b.log"))
	os.Chmod(dir, 0o755)
	chmodEffective = e1 != nil && e2 != nil
	if setImmutable(dir, true) == nil {
		immutableWorks = tryCreate(filepath.Join(dir, "c.log")) != nil
		if setImmutable(dir, false) != nil {
			immutableWorks = false
		}
	}
	if old, err := setFdLimit(0); err == nil {
		e := tryCreate(filepath.Join(dir, "d.log"))
		_, e2 := setFdLimit(old)
		fdLimitWorks = e != nil && e2 == nil && tryCreate(filepath.Join(dir, "e.log")) == nil
	}
	for cls, ok := range map[string]bool{"logs-chmod (0555 / 0000)": chmodEffective, "logs-immutable (read-only directory)": immutableWorks,
		"no-file-descriptor-left (RLIMIT_NOFILE)": fdLimitWorks} {
		if ok {
			c.SetAdd("open_failure_classes_effective_here", cls)
		} else {
			c.SetAdd("open_failure_classes_skipped_not_effective_here", cls)
		}
	}
	for _, cls := range []string{"name-is-directory", "name-is-symlink", "logs-renamed-away", "logs-replaced-by-file", "home-renamed-away"} {
		c.SetAdd("open_failure_classes_effective_here", cls)
	}
}

// restoreDir puts the directory `away` back at `orig`. If something was created at orig in the
// meantime (a logger may re-create its directory and open the new file there), a regular file or
// link there is removed and a directory is merged: its entries move into the original directory
// (content of a name existing on both sides is concatenated, original first - the logger's
// O_APPEND handle stays valid across the rename).
func restoreDir(orig, away string) {
	if _, err := os.Lstat(away); err != nil {
		return
	}
	st, err := os.Lstat(orig)
	switch {
	case err != nil:
	case !st.IsDir():
		os.Remove(orig)
	default:
		mergeInto(orig, away)
		os.RemoveAll(orig)
	}
	os.Rename(away, orig)
}

func mergeInto(src, dst string) {
	ents, _ := os.ReadDir(src)
	for _, e := range ents {
		sp, dp := filepath.Join(src, e.Name()), filepath.Join(dst, e.Name())
		dfi, derr := os.Lstat(dp)
		switch {
		case derr != nil:
			os.Rename(sp, dp)
		case e.IsDir() && dfi.IsDir():
			mergeInto(sp, dp)
		case e.Type().IsRegular() && dfi.Mode().IsRegular():
			a, _ := os.ReadFile(dp)
			b, _ := os.ReadFile(sp)
			os.WriteFile(sp, append(a, b...), 0o666)
			os.Rename(sp, dp)
		}
	}
}

// faultClasses lists the classes that can be set up for a cycle that is going to open `target`
// (base name inside logs).
func (s *scn) faultClasses(target string) []string {
	cls := []string{"logs-renamed-away", "logs-replaced-by-file", "home-renamed-away"}
	if _, err := os.Lstat(filepath.Join(s.logs, target)); err != nil {
		// the name is free: it can be occupied
		cls = append(cls, "name-is-directory", "name-is-directory", "name-is-nonempty-directory", "name-is-symlink-loop", "name-is-dangling-symlink")
	}
	if chmodEffective {
		cls = append(cls, "logs-chmod-0555", "logs-chmod-0000")
	}
	if immutableWorks {
		cls = append(cls, "logs-immutable")
	}
	if fdLimitWorks {
		cls = append(cls, "no-file-descriptor-left")
	}
	return cls
}

func (s *scn) newFault(class, target string) *fault {
	p := filepath.Join(s.logs, target)
	f := &fault{class: class}
	on := false
	once := func(fn func()) func() {
		return func() {
			if on {
				on = false
				fn()
			}
		}
	}
	switch class {
	case "name-is-directory", "name-is-nonempty-directory":
		f.inject = func() error {
			if err := os.Mkdir(p, 0o777); err != nil {
				return err
			}
			if class == "name-is-nonempty-directory" {
				os.WriteFile(filepath.Join(p, "x"), []byte("x"), 0o644)
			}
			return nil
		}
		f.remove = once(func() { os.RemoveAll(p) })
	case "name-is-symlink-loop":
		f.inject = func() error { return os.Symlink(target, p) }
		f.remove = once(func() { os.Remove(p) })
	case "name-is-dangling-symlink":
		f.inject = func() error { return os.Symlink(filepath.Join("no-such-directory", target), p) }
		f.remove = once(func() { os.Remove(p) })
	case "logs-chmod-0555", "logs-chmod-0000":
		f.inject = func() error {
			if class == "logs-chmod-0000" {
				return os.Chmod(s.logs, 0)
			}
			return os.Chmod(s.logs, 0o555)
		}
		f.remove = once(func() { os.Chmod(s.logs, 0o777) })
	case "logs-immutable":
		f.inject = func() error { return setImmutable(s.logs, true) }
		f.remove = once(func() { setImmutable(s.logs, false) })
	case "logs-renamed-away":
		away := s.logs + ".away"
		f.inject = func() error { return os.Rename(s.logs, away) }
		f.remove = once(func() { restoreDir(s.logs, away) })
	case "logs-replaced-by-file":
		away := s.logs + ".away"
		f.inject = func() error {
			if err := os.Rename(s.logs, away); err != nil {
				return err
			}
			return os.WriteFile(s.logs, []byte("not a directory\n"), 0o644)
		}
		f.remove = once(func() { restoreDir(s.logs, away) })
	case "home-renamed-away":
		away := s.home + ".away"
		f.inject = func() error { return os.Rename(s.home, away) }
		f.remove = once(func() { restoreDir(s.home, away) })
	case "no-file-descriptor-left":
		var old uint64
		f.inject = func() error {
			o, err := setFdLimit(0)
			old = o
			return err
		}
		f.remove = once(func() { setFdLimit(old) })
	default:
		f.inject = func() error { return errors.New("unknown fault class " + class) }
		f.remove = func() {}
	}
	inj := f.inject
	f.inject = func() error {
		err := inj()
		if err == nil || class == "logs-replaced-by-file" {
			// (the two-step obstacle is taken away again when only its first half could be installed)
			on = true
		}
		if err != nil {
			f.remove()
		}
		return err
	}
	return f
}

func faultFamily(class string) string {
	switch class {
	case "name-is-directory", "name-is-nonempty-directory", "name-is-symlink-loop", "name-is-dangling-symlink":
		return "name-occupied"
	case "logs-chmod-0555", "logs-chmod-0000", "logs-immutable":
		return "logs-read-only"
	case "logs-renamed-away", "logs-replaced-by-file", "home-renamed-away":
		return "directory-renamed-away"
	}
	return class
}
