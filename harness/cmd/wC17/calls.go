package main

// Log calls: generation (every entry point, several argument shapes) and the independent
// line oracle (whole lines, order, level gate, suppression window).

import (
	"fmt"
	"strconv"
	"strings"

	"github.com/whatap/golib/logger/logfile"

	"verif/vlib"
)

const (
	epError = iota
	epErrorf
	epWarn
	epWarnf
	epInfo
	epInfof
	epInfoln
	epDebug
	epDebugf
	epPrintln
	epPrintf
	nEP
)

var epName = [nEP]string{"Error", "Errorf", "Warn", "Warnf", "Info", "Infof", "Infoln", "Debug", "Debugf", "Println", "Printf"}

// severity rank of the entry point; -1: no level (id-keyed Println/Printf are always written).
var epRank = [nEP]int{3, 3, 2, 2, 1, 1, 1, 0, 0, -1, -1}

// rate limited by id? (the debug entry points are documented as not limited)
var epLimited = [nEP]bool{true, true, true, true, true, true, true, false, false, true, true}

var epIsF = [nEP]bool{false, true, false, true, false, true, false, false, true, false, true}

type call struct {
	G, N    int
	EP      int
	ID      string // suppression id: explicit for Println/Printf, else the first 10 bytes of the message
	Text    string // the message text that must appear contiguously in one physical line
	Shape   int
	Lvl     int   // severity rank configured when the call was made
	B, A    int64 // virtual clock read by the monitor just before / just after the call
	Ep0     int32 // rotation-concurrent: completed cycles seen before the call
	Adv1    int32 // rotation-concurrent: clock advances seen after the call
	invoke  func(fl *logfile.FileLogger)
	present bool
	file    string
	line    int
	nfound  int
}

func (cl *call) brief() map[string]interface{} {
	return map[string]interface{}{"g": cl.G, "n": cl.N, "entry": epName[cl.EP], "id": cl.ID, "text": clip(cl.Text, 80),
		"shape": cl.Shape, "level_at_call": rankName[cl.Lvl], "vclock_before": cl.B, "vclock_after": cl.A, "in_file": cl.file, "line": cl.line}
}

var payPieces = []string{"a", "b", "Z", "0", "7", " ", " ", "_", ".", ":", "=", "%", "%d", "%s", "[", "]", "(", ")", "é", "한", "😀", "\t", "\\n", "-"}

func payload(r *vlib.Rand) []string {
	var n int
	switch r.Intn(10) {
	case 0:
		n = 0
	case 1:
		n = 1
	case 2:
		n = r.Range(900, 1100)
	case 3:
		if r.Chance(1, 4) {
			n = r.Range(4000, 9000)
		} else {
			n = r.Range(100, 300)
		}
	default:
		n = r.Range(2, 60)
	}
	p := make([]string, n)
	for i := range p {
		p[i] = payPieces[r.Intn(len(payPieces))]
	}
	return p
}

func esc(s string) string { return strings.ReplaceAll(s, "%", "%%") }

// buildCall prepares one log call. Every message starts with the 10-byte id (so that the
// message-prefix id of Error…Infoln is the chosen one), carries the unique token ~gGG~NNNNNN~
// and ends with ~E$.
func buildCall(r *vlib.Rand, g, n, ep int, id string) *call {
	cl := &call{G: g, N: n, EP: ep, ID: id}
	head := fmt.Sprintf("%s~g%02d~%06d~", id, g, n)
	pay := payload(r)
	k := 0
	if len(pay) > 0 {
		k = r.Intn(len(pay) + 1)
	}
	p1, p2 := strings.Join(pay[:k], ""), strings.Join(pay[k:], "")
	v := int(r.I32())
	cl.Shape = r.Intn(3)
	var args []interface{}
	var format string
	if !epIsF[ep] {
		switch cl.Shape {
		case 0:
			cl.Text = head + p1 + p2 + "~E$"
			args = []interface{}{cl.Text}
		case 1:
			a0, a1 := head+p1, p2+"~E$"
			cl.Text = a0 + " " + a1 // Sprintln joins operands with one space
			args = []interface{}{a0, a1}
		default:
			a0, a2 := head+p1, p2+"~E$"
			cl.Text = a0 + " " + strconv.Itoa(v) + " " + a2
			args = []interface{}{a0, v, a2}
		}
	} else {
		switch cl.Shape {
		case 0:
			cl.Text = head + p1 + p2 + "~E$"
			format, args = "%s", []interface{}{cl.Text}
		case 1:
			a0, a2 := head+p1, p2+"~E$"
			cl.Text = a0 + "|" + strconv.Itoa(v) + "|" + a2
			format, args = "%s|%d|%s", []interface{}{a0, v, a2}
		default:
			cl.Text = head + p1 + p2 + "~E$"
			format, args = esc(head+p1)+"%v~E$", []interface{}{p2}
		}
	}
	switch ep {
	case epError:
		cl.invoke = func(fl *logfile.FileLogger) { fl.Error(args...) }
	case epErrorf:
		cl.invoke = func(fl *logfile.FileLogger) { fl.Errorf(format, args...) }
	case epWarn:
		cl.invoke = func(fl *logfile.FileLogger) { fl.Warn(args...) }
	case epWarnf:
		cl.invoke = func(fl *logfile.FileLogger) { fl.Warnf(format, args...) }
	case epInfo:
		cl.invoke = func(fl *logfile.FileLogger) { fl.Info(args...) }
	case epInfof:
		cl.invoke = func(fl *logfile.FileLogger) { fl.Infof(format, args...) }
	case epInfoln:
		cl.invoke = func(fl *logfile.FileLogger) { fl.Infoln(args...) }
	case epDebug:
		cl.invoke = func(fl *logfile.FileLogger) { fl.Debug(args...) }
	case epDebugf:
		cl.invoke = func(fl *logfile.FileLogger) { fl.Debugf(format, args...) }
	case epPrintln:
		cl.invoke = func(fl *logfile.FileLogger) { fl.Println(id, args...) }
	case epPrintf:
		cl.invoke = func(fl *logfile.FileLogger) { fl.Printf(id, format, args...) }
	}
	return cl
}

// id pools: 10-byte ids are shared by all entry points (message prefix == explicit id);
// ids of other lengths are only used as explicit ids.
func idPool(r *vlib.Rand, n10, nOther int) (ten []string, other []string) {
	const set = "ABCDEFGHIJKLMNOPQRSTUVWXYZ0123456789"
	for i := 0; i < n10; i++ {
		b := []byte("WA00000000")
		for j := 2; j < 8; j++ {
			b[j] = set[r.Intn(len(set))]
		}
		b[8] = byte('a' + (i/10)%26)
		b[9] = byte('0' + i%10)
		ten = append(ten, string(b))
	}
	for i := 0; i < nOther; i++ {
		switch r.Intn(3) {
		case 0:
			other = append(other, fmt.Sprintf("W%d", i))
		case 1:
			other = append(other, fmt.Sprintf("WA-long-explicit-id-%02d-%s", i, randName(r, 4, 8, "")))
		default:
			other = append(other, fmt.Sprintf("WA%03d", i))
		}
	}
	return
}

func pickEPandID(r *vlib.Rand, ten, other []string) (int, string) {
	ep := r.Intn(nEP)
	if (ep == epPrintln || ep == epPrintf) && len(other) > 0 && r.Chance(1, 3) {
		return ep, other[r.Intn(len(other))]
	}
	return ep, ten[r.Intn(len(ten))]
}

func (s *scn) gated(cl *call) bool { return epRank[cl.EP] >= 0 && epRank[cl.EP] < cl.Lvl }

// locate parses the given files, checks that every physical line is blank, a header, a colour
// trailer or exactly one whole message, and marks where each call was found.
// Keys reported here: FileLogger:line-torn, FileLogger:order (a message written twice).
func (s *scn) locate(files map[string]string, calls []*call, detail func() map[string]interface{}) map[string]*parsed {
	by := map[[2]int]*call{}
	for _, cl := range calls {
		cl.present, cl.file, cl.line, cl.nfound = false, "", 0, 0
		by[[2]int{cl.G, cl.N}] = cl
	}
	out := map[string]*parsed{}
	for _, name := range sortedKeys(files) {
		p := parseLog(name, files[name])
		out[name] = p
		if s.ownDiag {
			s.c.Max("max_open_failure_own_diagnostic_lines_in_one_file", int64(len(p.notok)))
		} else if len(p.notok) > 0 {
			// in the order of the file
			p.junk = mergeByLine(p.junk, p.notok)
		}
		if len(p.proc) > 0 {
			d := detail()
			d["file"], d["lines"] = name, firstN(p.proc, 8)
			s.c.Fail("FileLogger:process-log-line-in-log-file", fmt.Sprintf("%s holds %d line(s) the process itself printed through log.Print; first: %s", name, len(p.proc), clip(p.proc[0], 200)), d)
		}
		if len(p.junk) > 0 {
			d := detail()
			d["file"] = name
			d["unrecognised_lines"] = firstN(p.junk, 8)
			s.c.Fail("FileLogger:line-torn", fmt.Sprintf("%s: %d physical line(s) are not one whole message; first: %s", name, len(p.junk), clip(p.junk[0], 200)), d)
		}
		for _, rc := range p.recs {
			cl := by[[2]int{rc.g, rc.n}]
			if cl == nil {
				d := detail()
				d["file"], d["line"], d["content"] = name, rc.line, clip(rc.rest, 300)
				s.c.Fail("FileLogger:line-torn", fmt.Sprintf("%s line %d carries a token no call produced", name, rc.line), d)
				continue
			}
			i := strings.Index(rc.rest, cl.Text)
			ok := i >= 0
			if ok {
				pre, post := rc.rest[:i], rc.rest[i+len(cl.Text):]
				if strings.ContainsAny(pre, "~$") || !(post == "" || post == "\x1b[0m") {
					ok = false
				}
			}
			if !ok {
				d := detail()
				d["file"], d["line"], d["content"], d["call"] = name, rc.line, clip(rc.rest, 400), cl.brief()
				d["expected_text"] = clip(cl.Text, 400)
				s.c.Fail("FileLogger:line-torn", fmt.Sprintf("%s line %d does not hold the whole message of %s call g%d/n%d", name, rc.line, epName[cl.EP], cl.G, cl.N), d)
				continue
			}
			cl.nfound++
			if cl.nfound > 1 {
				d := detail()
				d["call"], d["first_at"], d["again_at"] = cl.brief(), fmt.Sprintf("%s:%d", cl.file, cl.line), fmt.Sprintf("%s:%d", name, rc.line)
				s.c.Fail("FileLogger:order", fmt.Sprintf("message of one %s call was written twice", epName[cl.EP]), d)
				continue
			}
			cl.present, cl.file, cl.line = true, name, rc.line
			s.c.Count("lines_matched_whole", 1)
			s.c.SetAdd("entry_points_seen_in_file", epName[cl.EP])
			if s.stdout {
				s.c.Count("lines_matched_whole_with_stdout_mirror_on", 1)
				s.c.SetAdd("entry_points_seen_in_file_with_stdout_mirror_on", epName[cl.EP])
				if cl.EP == epPrintln || cl.EP == epPrintf {
					s.c.Count("id_entry_point_lines_in_file_with_stdout_mirror_on", 1)
				}
			}
		}
	}
	return out
}

func firstN(s []string, n int) []string {
	if len(s) > n {
		return s[:n]
	}
	return s
}

// checkLevelGate: nothing below the configured level appears.
func (s *scn) checkLevelGate(calls []*call, detail func() map[string]interface{}) {
	for _, cl := range calls {
		if s.gated(cl) {
			s.c.Count("calls_below_level", 1)
			if cl.present {
				d := detail()
				d["call"] = cl.brief()
				s.c.Fail("FileLogger:level-gate", fmt.Sprintf("%s line written although the level is %s", epName[cl.EP], rankName[cl.Lvl]), d)
			}
		}
	}
}

// checkSequential is the single-goroutine oracle: call order in the file, and the suppression
// window decided from the monitor's clock brackets (B ≤ library's now ≤ A for each call).
func (s *scn) checkSequential(calls []*call, detail func() map[string]interface{}) {
	type br struct{ b, a int64 }
	last := map[string]br{}
	ivl := int64(s.interval) * 1000
	prevLine := 0
	prevFile := ""
	for _, cl := range calls {
		if cl.present {
			if cl.file == prevFile && cl.line <= prevLine {
				d := detail()
				d["call"] = cl.brief()
				d["previous_line"] = prevLine
				s.c.Fail("FileLogger:order", "single goroutine: a later call's line precedes an earlier call's line", d)
			}
			prevFile, prevLine = cl.file, cl.line
		}
		if s.gated(cl) {
			continue
		}
		if !epLimited[cl.EP] || ivl <= 0 {
			if !cl.present {
				d := detail()
				d["call"] = cl.brief()
				s.c.Fail("FileLogger:line-lost", fmt.Sprintf("%s line that passed the level gate and is not rate limited is not in the file", epName[cl.EP]), d)
			}
			continue
		}
		lj, seen := last[cl.ID]
		if cl.present {
			if seen && cl.A < lj.b+ivl {
				d := detail()
				d["call"] = cl.brief()
				d["previous_logged_same_id"] = map[string]int64{"vclock_before": lj.b, "vclock_after": lj.a}
				d["gap_ms_at_most"] = cl.A - lj.b
				s.c.Fail("FileLogger:suppression-missing", fmt.Sprintf("same id logged again %d ms (< %d s interval) after the previous logged line", cl.A-lj.b, s.interval), d)
			}
			if seen {
				s.c.Count("repeats_logged_outside_interval", 1)
			}
			last[cl.ID] = br{cl.B, cl.A}
			continue
		}
		if !seen {
			d := detail()
			d["call"] = cl.brief()
			s.c.Fail("FileLogger:line-lost", fmt.Sprintf("first %s line of id %q is not in the file", epName[cl.EP], cl.ID), d)
			continue
		}
		if cl.B >= lj.a+ivl {
			d := detail()
			d["call"] = cl.brief()
			d["previous_logged_same_id"] = map[string]int64{"vclock_before": lj.b, "vclock_after": lj.a}
			d["gap_ms_at_least"] = cl.B - lj.a
			s.c.Fail("FileLogger:suppression-too-long", fmt.Sprintf("line suppressed although the same id was last logged %d ms (>= %d s interval) earlier", cl.B-lj.a, s.interval), d)
			continue
		}
		s.c.Count("suppressed_inside_interval", 1)
		if cl.A < lj.b+ivl {
			s.c.Count("suppressed_decisively_inside", 1)
		}
	}
}

// checkConcurrent is the multi-goroutine oracle: per-goroutine order, and for every missing
// line a logged line of the same id that can explain the suppression.
func (s *scn) checkConcurrent(calls []*call, fileOrder map[string]int, lostKey func(cl *call) string, detail func() map[string]interface{}) {
	ivl := int64(s.interval) * 1000
	logged := map[string][]*call{}
	type pos struct {
		f, l int
		ok   bool
	}
	lastPos := map[int]pos{}
	for _, cl := range calls {
		if !cl.present {
			continue
		}
		if epLimited[cl.EP] {
			logged[cl.ID] = append(logged[cl.ID], cl)
		}
		p := pos{fileOrder[cl.file], cl.line, true}
		if q := lastPos[cl.G]; q.ok && (p.f < q.f || (p.f == q.f && p.l <= q.l)) {
			d := detail()
			d["call"] = cl.brief()
			s.c.Fail("FileLogger:order", fmt.Sprintf("goroutine %d: a later call's line precedes an earlier call's line", cl.G), d)
		}
		lastPos[cl.G] = p
	}
	for _, cl := range calls {
		if cl.present || s.gated(cl) {
			continue
		}
		if !epLimited[cl.EP] || ivl <= 0 {
			d := detail()
			d["call"] = cl.brief()
			s.c.Fail(lostKey(cl), fmt.Sprintf("%s line that passed the level gate and is not rate limited is in no file", epName[cl.EP]), d)
			continue
		}
		explained, any := false, false
		for _, j := range logged[cl.ID] {
			any = true
			if j.B <= cl.A && cl.B < j.A+ivl {
				explained = true
				break
			}
		}
		if explained {
			s.c.Count("suppressed_inside_interval", 1)
			continue
		}
		d := detail()
		d["call"] = cl.brief()
		if any {
			s.c.Fail("FileLogger:suppression-too-long", "line suppressed although no line of the same id was logged within the interval before it", d)
		} else {
			s.c.Fail(lostKey(cl), fmt.Sprintf("no line of id %q was written at all", cl.ID), d)
		}
	}
}

func briefCalls(calls []*call, max int) []map[string]interface{} {
	var out []map[string]interface{}
	for i, cl := range calls {
		if i >= max {
			break
		}
		out = append(out, cl.brief())
	}
	return out
}

// mergeByLine merges two lists of "line N ..." remarks by N (entries without a number first).
func mergeByLine(a, b []string) []string {
	num := func(x string) int {
		var n int
		if _, err := fmt.Sscanf(x, "line %d", &n); err != nil {
			return -1
		}
		return n
	}
	out := append(append([]string{}, a...), b...)
	for i := 1; i < len(out); i++ {
		for j := i; j > 0 && num(out[j]) < num(out[j-1]); j-- {
			out[j], out[j-1] = out[j-1], out[j]
		}
	}
	return out
}
