package main

// Several LIVE file loggers in one process.
//
// "the current log file … named from the log id, object name and current date" is the file of
// THE LOGGER THE LINE WAS LOGGED ON. A scenario keeps 2-4 loggers alive at once - separate homes
// (also with the very same id and object name in each), one home with different ids, one home
// with one id and different object names, or a mix - each with its own drawn configuration, and
// interleaves in drawn orders: lines on drawn loggers (ids from one pool shared by all loggers,
// so that one logger's suppression state must not silence another logger), plain log.Print lines
// of the process itself, day changes followed by the cycle of SOME loggers while the others
// stay, cycles without a day change, SetLevel on one logger, and bursts in which every logger is
// written to from its own goroutine at the same time. At the end every logger is judged by the
// same file oracles as a lone logger (whole lines, level gate, call order, suppression window,
// file named from its own id/oname/date of the days its clock has been in since its last cycle);
// in addition every message token is owned by exactly one logger: found in a file of another
// logger it is FileLogger:line-in-foreign-file.

import (
	"fmt"
	"os"
	"path/filepath"
	"sort"
	"strings"
	"sync"

	"verif/vlib"
)

type mlog struct {
	s       *scn
	idx     int
	calls   []*call
	allowed map[*call][]string
	notLast map[*call]bool // logged while another logger had opened its file more recently
	cur     []string       // files a line logged now may go to (the days since this logger's last cycle)
	names   []string       // every file this logger is entitled to, oldest first
	cycles  int
}

func perm(r *vlib.Rand, n int) []int {
	p := make([]int, n)
	for i := range p {
		p[i] = i
	}
	r.Shuffle(n, func(i, j int) { p[i], p[j] = p[j], p[i] })
	return p
}

func (m *mlog) entitle(name string) {
	for _, n := range m.names {
		if n == name {
			return
		}
	}
	m.names = append(m.names, name)
}

func secMultiLogger(c *vlib.Ctx, n int) {
	curSec = "multi-logger"
	c.Cases("multi-logger", n, func(i int, r *vlib.Rand) {
		day := randDay(r)
		setVirtual(day*dayMs + int64(r.Range(5*60*1000, 22*3600*1000)))
		L := pickInt(r, 2, 2, 2, 3, 3, 4)
		layout := []string{"separate homes", "separate homes, same id and object name in each", "one home, different ids",
			"one home, one id, different object names", "two loggers share a home, the others have their own"}[r.Intn(5)]
		ms := make([]*mlog, L)
		defer func() {
			for _, m := range ms {
				if m != nil {
					m.s.close()
				}
			}
		}()
		share := func(s, with *scn) {
			os.Remove(s.home)
			s.home, s.logs = with.home, with.logs
		}
		for j := 0; j < L; j++ {
			s := newScn(c, r.Fork(fmt.Sprintf("logger-%d", j)))
			rj := r.Fork(fmt.Sprintf("settings-%d", j))
			s.useApply = rj.Chance(3, 4)
			if s.useApply {
				s.interval = pickInt(rj, 0, 0, -1, 2, 10, 10, 3600)
				s.rot = !rj.Chance(1, 6)
				s.keep = pickInt(rj, 7, 7, 0, -1, 30, 400)
			}
			m := &mlog{s: s, idx: j, allowed: map[*call][]string{}, notLast: map[*call]bool{}}
			ms[j] = m
			if j == 0 {
				continue
			}
			first := ms[0].s
			switch layout {
			case "separate homes, same id and object name in each":
				s.id, s.oname, s.namesVia = first.id, first.oname, "WithOnameLogID"
			case "one home, different ids":
				share(s, first)
			case "one home, one id, different object names":
				share(s, first)
				s.id, s.namesVia = first.id, "WithOnameLogID"
			case "two loggers share a home, the others have their own":
				if j == 1 {
					share(s, first)
				}
			}
			// loggers in one home need different files: id-oname must differ, and neither may be
			// an id-prefix extension of the other's dated names
			for try := 0; ; try++ {
				clash := false
				for k := 0; k < j; k++ {
					o := ms[k].s
					if o.home == s.home && (o.id+"-"+o.oname == s.id+"-"+s.oname ||
						strings.HasPrefix(o.id+"-"+o.oname, s.id+"-"+s.oname+"-") || strings.HasPrefix(s.id+"-"+s.oname, o.id+"-"+o.oname+"-")) {
						clash = true
					}
					if o.home == s.home && layout != "one home, one id, different object names" && o.id == s.id {
						clash = true
					}
				}
				if !clash {
					break
				}
				s.namesVia = "WithOnameLogID"
				if layout == "one home, one id, different object names" {
					s.oname = randName(rj, 1, 10, "_.")
				} else {
					s.id, s.oname = randName(rj, 2, 8, "_."), randName(rj, 1, 10, "_.-")
				}
				if try > 50 {
					panic("worker bug: cannot draw distinct logger names")
				}
			}
		}
		var events []map[string]interface{}
		ev := func(what string, more ...interface{}) {
			e := map[string]interface{}{"event": what}
			for k := 0; k+1 < len(more); k += 2 {
				e[fmt.Sprint(more[k])] = more[k+1]
			}
			events = append(events, e)
		}
		descAll := func() []map[string]interface{} {
			var out []map[string]interface{}
			for _, m := range ms {
				d := m.s.desc()
				d["logger"], d["home"], d["files_entitled"] = m.idx, m.s.home, m.names
				out = append(out, d)
			}
			return out
		}
		detail := func() map[string]interface{} {
			return map[string]interface{}{"layout": layout, "loggers": descAll(), "events": events}
		}
		lastOpened := -1
		for _, m := range ms {
			m.s.start()
			m.entitle(logName(m.s.id, m.s.oname, true, day)) // the constructor opens a dated file first
			cur := logName(m.s.id, m.s.oname, m.s.rot, day)
			m.entitle(cur)
			m.cur = []string{cur}
			lastOpened = m.idx
			ev("logger created", "logger", m.idx)
		}
		ten, other := idPool(r, r.Range(2, 5), r.Range(0, 2))
		seq := 0
		daysMoved := int64(0)
		mk := func(rr *vlib.Rand, m *mlog, unique bool) *call {
			ep, id := pickEPandID(rr, ten, other)
			if unique {
				id = fmt.Sprintf("WU%08d", seq)
			}
			cl := buildCall(rr, m.idx*10, seq, ep, id)
			seq++
			cl.Lvl = m.s.level
			m.allowed[cl] = append([]string{}, m.cur...)
			m.notLast[cl] = lastOpened != m.idx
			m.calls = append(m.calls, cl)
			return cl
		}
		limit := func() int64 { return dayOf(vnow())*dayMs + 23*3600*1000 + 30*60*1000 }
		rounds := r.Range(2, 4)
		for rd := 0; rd < rounds; rd++ {
			// lines interleaved between the loggers
			K := r.Range(6, 30)
			var order []int
			for k := 0; k < K; k++ {
				m := ms[r.Intn(L)]
				if r.Chance(1, 4) {
					step := int64(pickInt(r, 1, 50, 700, 1500, 2500, 11000))
					if t := vnow() + step; t < limit() {
						advanceTo(t)
					}
				}
				cl := mk(r, m, r.Chance(1, 2))
				cl.B = vnow()
				cl.invoke(m.s.fl)
				cl.A = vnow()
				order = append(order, m.idx)
				if r.Chance(1, 6) {
					stdPrint(c, "between lines on different loggers", detail)
					c.Count("multi_logger_process_lines_interleaved", 1)
				}
			}
			ev("lines, one goroutine", "on_loggers_in_this_order", fmt.Sprint(order))
			switch x := r.Intn(6); {
			case x < 2 && daysMoved < 5:
				k := int64(pickInt(r, 1, 1, 1, 2))
				daysMoved += k
				day += k
				setVirtual(day*dayMs + int64(r.Range(30*1000, 22*3600*1000)))
				for _, m := range ms {
					if m.s.rot {
						nm := logName(m.s.id, m.s.oname, true, day)
						m.entitle(nm)
						m.cur = append(m.cur, nm) // until its cycle has run: any of the days since the last cycle
					}
				}
				// the cycle of some loggers; the others stay as they are
				var cycled, stayed []int
				pick := r.Intn(1<<uint(L)-1) + 1 // non-empty subset
				if r.Chance(1, 2) {
					pick = 1 << uint(r.Intn(L)) // exactly one
				}
				for _, j := range perm(r, L) {
					m := ms[j]
					if pick&(1<<uint(j)) == 0 {
						stayed = append(stayed, j)
						continue
					}
					m.s.fl.VerifCycle()
					m.cycles++
					m.cur = m.cur[len(m.cur)-1:]
					if m.s.rot {
						lastOpened = j
					}
					cycled = append(cycled, j)
				}
				ev("day changed, then the cycle of some loggers", "days", k, "new_date", ymdOfDay(day), "virtual_ms", vnow(), "cycled_in_this_order", fmt.Sprint(cycled), "stayed", fmt.Sprint(stayed))
				c.Count("multi_logger_day_changes", 1)
				if len(stayed) > 0 {
					c.Count("multi_logger_cycles_of_some_while_others_stay", 1)
				}
				checkStdLogger(c, "the cycle of loggers "+fmt.Sprint(cycled)+" after a day change", detail)
			case x == 2:
				j := r.Intn(L)
				ms[j].s.fl.VerifCycle()
				ms[j].cycles++
				if len(ms[j].cur) > 1 {
					ms[j].cur = ms[j].cur[len(ms[j].cur)-1:]
					lastOpened = j
				}
				ev("cycle of one logger, no day change since the previous event", "logger", j)
				checkStdLogger(c, fmt.Sprintf("a cycle of logger %d", j), detail)
			case x == 3:
				m := ms[r.Intn(L)]
				m.s.level = r.Intn(4)
				m.s.fl.SetLevel(rankConst[m.s.level])
				ev("SetLevel", "logger", m.idx, "level", rankName[m.s.level])
				c.Count("set_level_calls", 1)
			default:
				// every logger written to from its own goroutine at the same time
				M := r.Range(8, 40)
				per := make([][]*call, L)
				for j, m := range ms {
					rg := r.Fork(fmt.Sprintf("burst-%d-%d", rd, j))
					for k := 0; k < M; k++ {
						per[j] = append(per[j], mk(rg, m, true))
					}
				}
				var wg sync.WaitGroup
				gate := make(chan struct{})
				for j := range ms {
					wg.Add(1)
					go func(j int) {
						defer wg.Done()
						<-gate
						for _, cl := range per[j] {
							cl.B = vnow()
							cl.invoke(ms[j].s.fl)
							cl.A = vnow()
						}
					}(j)
				}
				close(gate)
				wg.Wait()
				ev("burst: one goroutine per logger at the same time", "calls_per_logger", M)
				c.Count("multi_logger_concurrent_bursts", 1)
			}
		}
		stdPrint(c, "after the last round", detail)
		checkStdLogger(c, "the last round", detail)
		if dayOf(vnow()) != day {
			c.Inconclusive(fmt.Sprintf("multi-logger#%d", i), "virtual day changed while the scenario ran")
			return
		}

		// ---- judgement --------------------------------------------------------------------------
		// who owns which file (per home)
		type fkey struct{ home, name string }
		owner := map[fkey]*mlog{}
		for _, m := range ms {
			for _, nm := range m.names {
				owner[fkey{m.s.home, nm}] = m
			}
		}
		ownFiles := make([]map[string]string, L)
		for j := range ownFiles {
			ownFiles[j] = map[string]string{}
		}
		seenHome := map[string]bool{}
		for _, m := range ms {
			if seenHome[m.s.home] {
				continue
			}
			seenHome[m.s.home] = true
			files, dirs := readDirFiles(m.s.logs)
			if len(dirs) > 0 {
				c.Fail("FileLogger:wrong-file-name", fmt.Sprintf("unexpected directory %q in logs", dirs[0]), detail())
			}
			for _, nm := range sortedKeys(files) {
				o := owner[fkey{m.s.home, nm}]
				if o == nil {
					d := detail()
					d["home"], d["files_in_logs"] = m.s.home, sortedKeys(files)
					c.Fail("FileLogger:wrong-file-name", fmt.Sprintf("unexpected file %q in logs: no logger of this home is named so on a date of the scenario", nm), d)
					continue
				}
				// every message token belongs to one logger: lines of another logger are reported
				// here and blanked out, the rest is judged as the owner's file
				lines := strings.Split(files[nm], "\n")
				for ln, text := range lines {
					t := tokRe.FindStringSubmatch(text)
					if t == nil {
						continue
					}
					var g int
					fmt.Sscanf(t[1], "%d", &g)
					if g/10 == o.idx || g/10 >= L {
						continue
					}
					from := ms[g/10]
					d := detail()
					d["file"], d["file_of_logger"], d["line_number"], d["line"], d["logged_on_logger"] = filepath.Join(m.s.logs, nm), o.idx, ln+1, clip(text, 300), from.idx
					c.Fail("FileLogger:line-in-foreign-file", fmt.Sprintf("a line logged on logger #%d (log id %q, object name %q) is in %q, the file of logger #%d (log id %q, object name %q, %s)",
						from.idx, from.s.id, from.s.oname, nm, o.idx, o.s.id, o.s.oname, map[bool]string{true: "same home", false: "another home"}[from.s.home == o.s.home]), d)
					lines[ln] = ""
				}
				ownFiles[o.idx][nm] = strings.Join(lines, "\n")
			}
		}
		for _, m := range ms {
			s, files := m.s, ownFiles[m.idx]
			det := func() map[string]interface{} {
				d := detail()
				d["judged_logger"], d["its_files_in_logs"], d["its_calls"] = m.idx, sortedKeys(files), briefCalls(m.calls, 60)
				return d
			}
			must := m.cur[len(m.cur)-1]
			if _, ok := files[must]; !ok && (len(m.cur) == 1) {
				key := "FileLogger:wrong-file-name"
				if m.cycles > 0 && daysMoved > 0 {
					key = "FileLogger:rotation"
				}
				c.Fail(key, fmt.Sprintf("logger #%d: its current file %q does not exist", m.idx, must), det())
			}
			s.locate(files, m.calls, det)
			fileIdx := map[string]int{}
			for k, nm := range m.names {
				fileIdx[nm] = k
			}
			// the undated name sorts with the day it was opened on: order between files is only
			// judged between dated files
			prevF := -1
			for _, cl := range m.calls {
				if !cl.present {
					continue
				}
				ok := false
				for _, nm := range m.allowed[cl] {
					if nm == cl.file {
						ok = true
					}
				}
				if !ok {
					d := det()
					d["call"], d["allowed_files"] = cl.brief(), m.allowed[cl]
					key := "FileLogger:wrong-file-name"
					if len(m.names) > 2 || (s.rot && len(m.names) > 1) {
						key = "FileLogger:rotation"
					}
					c.Fail(key, fmt.Sprintf("logger #%d: line is in %q, not in %v", m.idx, cl.file, m.allowed[cl]), d)
					continue
				}
				if f := fileIdx[cl.file]; s.rot {
					if f < prevF {
						d := det()
						d["call"] = cl.brief()
						c.Fail("FileLogger:order", fmt.Sprintf("logger #%d: a later call's line is in an earlier day's file than an earlier call's line", m.idx), d)
					}
					prevF = f
				}
				c.Count("multi_logger_lines_matched", 1)
				if m.notLast[cl] {
					c.Count("multi_logger_lines_matched_on_a_logger_that_did_not_open_its_file_last", 1)
				}
			}
			s.checkLevelGate(m.calls, det)
			s.checkSequential(m.calls, det)
		}
		c.Count("multi_logger_scenarios", 1)
		c.Count("multi_logger_loggers", int64(L))
		c.Max("max_live_loggers_in_one_scenario", int64(L))
		c.SetAdd("multi_logger_layouts", layout)
		c.Distinct(vlib.HashStr(fmt.Sprint(layout, descAll(), events)))
		if c.WantSample() && i%9 == 0 {
			var per []map[string]interface{}
			for _, m := range ms {
				names := append([]string{}, m.names...)
				sort.Strings(names)
				per = append(per, map[string]interface{}{"logger": m.idx, "log_id": m.s.id, "oname": m.s.oname, "files": names, "calls": len(m.calls), "first_calls": briefCalls(m.calls, 2)})
			}
			c.Sample(map[string]interface{}{"section": "multi-logger", "layout": layout, "loggers": per, "events": events})
		}
	})
}
