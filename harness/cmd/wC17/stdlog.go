package main

// The process-wide standard logger (package log) is not the file logger's: a file logger writes
// its lines into ITS file, and what the process itself prints through log.Print does not belong
// into any logger's file. The worker gives the standard logger a writer of its own before the
// first file logger exists and then, around every constructor / configuration / cycle, checks
// that writer, flags and prefix are still the ones the process had (log.Writer() before/after)
// and that a line printed through log.Print arrived at that writer - and (parseLog) in no log file.

import (
	"fmt"
	"io"
	"log"
	"os"
	"strings"
	"sync"

	"verif/vlib"
)

type stdSink struct {
	mu    sync.Mutex
	last  string
	lines int64
}

func (p *stdSink) Write(b []byte) (int, error) {
	p.mu.Lock()
	p.last = string(b)
	p.lines++
	p.mu.Unlock()
	return len(b), nil
}

const stdMark = "~std~"

var (
	stdProbe  = &stdSink{}
	stdSeq    int
	stdFlags  int
	stdPrefix string
)

// installStdLogProbe points the standard logger to the worker's own writer (flags and prefix are
// left as they are). Nothing is ever "repaired" afterwards: if a file logger takes the standard
// logger over, the scenario goes on as it would in a real process and is judged as it is.
func installStdLogProbe() {
	log.SetOutput(stdProbe)
	stdFlags, stdPrefix = log.Flags(), log.Prefix()
}

func describeWriter(w io.Writer) string {
	if f, ok := w.(*os.File); ok && f != nil {
		return "file " + f.Name()
	}
	return fmt.Sprintf("%T", w)
}

// checkStdLogger: the standard logger still has the writer, flags and prefix the process had.
func checkStdLogger(c *vlib.Ctx, where string, detail func() map[string]interface{}) bool {
	ok := true
	if w := log.Writer(); w != io.Writer(stdProbe) {
		d := detail()
		d["after"], d["standard_logger_now_writes_to"] = where, describeWriter(w)
		c.Fail("FileLogger:standard-logger-redirected", "after "+where+" the process-wide standard logger (log.Writer()) writes to "+clip(describeWriter(w), 160), d)
		ok = false
	}
	if fl, px := log.Flags(), log.Prefix(); fl != stdFlags || px != stdPrefix {
		d := detail()
		d["after"], d["flags_now"], d["prefix_now"] = where, fl, px
		c.Fail("FileLogger:standard-logger-reconfigured", fmt.Sprintf("after %s the process-wide standard logger has flags %d prefix %q (the process had %d and %q)", where, fl, px, stdFlags, stdPrefix), d)
		ok = false
	}
	c.Count("standard_logger_checks", 1)
	return ok
}

// stdPrint logs one line of the process itself through the standard logger and checks that it
// arrived where the process had pointed the standard logger to.
func stdPrint(c *vlib.Ctx, where string, detail func() map[string]interface{}) {
	stdSeq++
	tok := fmt.Sprintf("%s%06d~", stdMark, stdSeq)
	log.Print(tok + " a line the process itself logs through package log")
	stdProbe.mu.Lock()
	last := stdProbe.last
	stdProbe.mu.Unlock()
	if !strings.Contains(last, tok) {
		d := detail()
		d["when"], d["line"], d["standard_logger_now_writes_to"] = where, tok, describeWriter(log.Writer())
		c.Fail("FileLogger:standard-logger-redirected", "a log.Print of the process ("+where+") did not arrive at the writer the process had given the standard logger", d)
		return
	}
	c.Count("process_log_lines_arrived_at_own_writer", 1)
}
