package main

// Time zone of the process and the stdout sink.
//
// "All clocks / all configurations" includes the zone the host runs in. Nothing the property
// states depends on it: file names, the rotation instant and file ages are those of the
// (virtual) clock the logger itself uses - dateutil, which counts days in UTC - so the oracles
// are the same in every zone. Two mechanisms put the logger into other zones:
//
//   - the child re-executes itself once with TZ=<zone chosen from shard and seed>, so that even
//     state computed while packages initialise is computed in that zone (the production way of
//     being in a zone);
//   - in the plain flavour every scenario additionally sets time.Local to a zone drawn from its
//     own stream (fixed offsets and IANA zones with DST rules), so that every section meets
//     every zone whatever the sharding. Under the race detector time.Local is never written
//     (the loggers' timer goroutines of earlier scenarios are still alive).

import (
	"bytes"
	"fmt"
	"os"
	"sync"
	"sync/atomic"
	"syscall"
	"time"
	_ "time/tzdata"

	"verif/vlib"
)

// zones a child process can be started in (TZ values)
var processZones = []string{"UTC", "Asia/Tokyo", "Pacific/Kiritimati", "America/New_York", "Pacific/Pago_Pago", "Asia/Kolkata", "Europe/Berlin"}

type zoneChoice struct {
	name string
	loc  *time.Location
}

var (
	processZone  = "UTC"
	processLocal *time.Location // time.Local as the runtime set it up from TZ
	caseZones    []zoneChoice
	perCaseZones bool
)

func offName(sec int) string {
	sign := '+'
	if sec < 0 {
		sign, sec = '-', -sec
	}
	return fmt.Sprintf("UTC%c%02d:%02d", sign, sec/3600, sec%3600/60)
}

const zoneEnvMark = "VERIF_C17_PROCESS_ZONE"

// initZones puts the process into its zone (re-executing itself once) and prepares the zones
// the scenarios draw from. Must run before any logger exists.
func initZones(c *vlib.Ctx) {
	want := os.Getenv("VERIF_C17_ZONE") // manual override
	if want == "" {
		want = processZones[(uint64(c.Shard)+c.Seed)%uint64(len(processZones))]
	}
	if os.Getenv(zoneEnvMark) == "" {
		os.Setenv("TZ", want)
		os.Setenv(zoneEnvMark, want)
		if exe, err := os.Executable(); err == nil {
			syscall.Exec(exe, os.Args, os.Environ()) // only returns on failure
		}
	}
	processZone = want
	processLocal = time.Local
	// the runtime must really be in that zone: compare its offsets with the zone's own
	if loc, err := time.LoadLocation(want); err == nil {
		same := true
		for _, y := range []int{2001, 2024, 2050} {
			for _, m := range []time.Month{1, 7} {
				t := time.Date(y, m, 15, 12, 0, 0, 0, time.UTC)
				_, a := t.In(time.Local).Zone()
				_, b := t.In(loc).Zone()
				if a != b {
					same = false
				}
			}
		}
		if !same {
			time.Local, processLocal = loc, loc
			c.Count("process_zone_set_through_time_Local_not_TZ", 1)
		}
	} else {
		c.Note("zone " + want + " cannot be loaded: " + err.Error())
		processZone = "UTC"
	}
	_, off := time.Date(2024, 1, 15, 12, 0, 0, 0, time.UTC).In(time.Local).Zone()
	c.SetAdd("process_time_zones", fmt.Sprintf("%s (%s in January)", processZone, offName(off)))

	perCaseZones = c.Flavour != "race"
	for _, sec := range []int{0, 9 * 3600, 14 * 3600, -5 * 3600, -11 * 3600, 5*3600 + 1800, -12 * 3600, 12*3600 + 45*60, -(9*3600 + 1800), 1 * 3600, -1 * 3600} {
		caseZones = append(caseZones, zoneChoice{"fixed " + offName(sec), time.FixedZone(offName(sec), sec)})
	}
	for _, nm := range []string{"UTC", "Asia/Tokyo", "Asia/Seoul", "Pacific/Kiritimati", "America/New_York", "Pacific/Pago_Pago", "Asia/Kolkata", "Europe/Berlin",
		"Australia/Lord_Howe", "Pacific/Apia", "America/St_Johns", "Pacific/Chatham"} {
		if loc, err := time.LoadLocation(nm); err == nil {
			caseZones = append(caseZones, zoneChoice{nm, loc})
		}
	}
}

// enterZone sets the zone the next scenario runs in and returns its name.
func enterZone(c *vlib.Ctx, rc *vlib.Rand) string {
	pick := rc.Intn(len(caseZones) + 3) // always drawn, so that the stream does not depend on the flavour
	if !perCaseZones {
		return "process zone " + processZone
	}
	if pick >= len(caseZones) {
		time.Local = processLocal
		c.SetAdd("scenario_time_zones", "process zone "+processZone)
		return "process zone " + processZone
	}
	z := caseZones[pick]
	time.Local = z.loc
	c.SetAdd("scenario_time_zones", z.name)
	return z.name
}

// zoneOffsetAt is the offset (seconds east of UTC) of the scenario's zone at a virtual instant.
func zoneOffsetAt(ms int64) int {
	_, off := time.UnixMilli(ms).In(time.Local).Zone()
	return off
}

// ---- stdout sink ---------------------------------------------------------------------------------

// With the stdout mirror on (and while a logger has no file) the logger writes to the process's
// standard output. The worker replaces os.Stdout by a pipe it drains itself: nothing reaches the
// driver, and the drained message lines are counted as evidence that the mirror really was on.

var (
	sinkBytes, sinkLines, sinkMsgLines atomic.Int64
	sinkW                              *os.File
	sinkDone                           sync.WaitGroup
)

func installStdoutSink() {
	r, w, err := os.Pipe()
	if err != nil {
		if f, e := os.OpenFile(os.DevNull, os.O_WRONLY, 0); e == nil {
			os.Stdout = f
		}
		return
	}
	os.Stdout, sinkW = w, w
	sinkDone.Add(1)
	go func() {
		defer sinkDone.Done()
		buf := make([]byte, 256<<10)
		var carry []byte
		for {
			n, err := r.Read(buf)
			if n > 0 {
				sinkBytes.Add(int64(n))
				data := buf[:n]
				for {
					k := bytes.IndexByte(data, '\n')
					if k < 0 {
						if len(carry) < 1<<20 {
							carry = append(carry, data...)
						}
						break
					}
					line := data[:k]
					if len(carry) > 0 {
						line = append(carry, line...)
					}
					sinkLines.Add(1)
					if tokRe.Match(line) {
						sinkMsgLines.Add(1)
					}
					carry = carry[:0]
					data = data[k+1:]
				}
			}
			if err != nil {
				return
			}
		}
	}()
}

// closeStdoutSink stops the sink and publishes what it drained.
func closeStdoutSink(c *vlib.Ctx) {
	if sinkW == nil {
		return
	}
	// os.Stdout itself is left alone (timer goroutines of earlier loggers are still alive): writes
	// to the closed pipe fail and are ignored by fmt and log
	sinkW.Close()
	sinkDone.Wait()
	c.Count("stdout_sink_bytes_drained", sinkBytes.Load())
	c.Count("stdout_sink_lines_drained", sinkLines.Load())
	c.Count("stdout_sink_message_lines_drained", sinkMsgLines.Load())
}
