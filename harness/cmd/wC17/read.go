package main

// 5. read window: Read(file, endpos, length) returns real bytes of the named file at the
// offset it reports, at most length of them, and nothing from outside <home>/logs.

import (
	"fmt"
	"math"
	"os"
	"path/filepath"
	"runtime"
	"strings"

	"github.com/whatap/golib/logger/logfile"

	"verif/vlib"
)

const canaryMark = "\x7fC17-CANARY-OUTSIDE-LOGS\x7f"

func biasedPos(r *vlib.Rand, size int64) int64 {
	switch r.Intn(14) {
	case 0:
		return -1
	case 1:
		return int64(-2 - r.Intn(1000))
	case 2:
		return math.MinInt64
	case 3:
		return 0
	case 4:
		return 1
	case 5:
		return size - 1
	case 6:
		return size
	case 7:
		return size + 1
	case 8:
		return 2*size + int64(r.Intn(100))
	case 9:
		return math.MaxInt64
	}
	if size <= 0 {
		return int64(r.Intn(3))
	}
	return int64(r.Intn(int(size) + 1))
}

func biasedLen(r *vlib.Rand, size int64) int64 {
	switch r.Intn(16) {
	case 0:
		return 0
	case 1:
		return 1
	case 2:
		return 2
	case 3:
		return size - 1
	case 4:
		return size
	case 5:
		return size + 1
	case 6:
		return 10*size + 7
	case 7:
		return math.MaxInt64
	case 8:
		return -1
	case 9:
		if r.Bool() {
			return math.MinInt64
		}
		return int64(-2 - r.Intn(5000))
	}
	if size <= 0 {
		return int64(1 + r.Intn(64))
	}
	return int64(1 + r.Intn(int(size)))
}

func secRead(c *vlib.Ctx, n int) {
	c.Cases("read-window", n, func(i int, r *vlib.Rand) {
		day := randDay(r)
		setVirtual(day*dayMs + int64(r.Range(10*60*1000, 20*3600*1000)))
		s := newScn(c, r)
		defer s.close()
		s.useApply, s.interval, s.keep, s.level = true, 0, 0, 0
		s.rot = !r.Chance(1, 6)
		// canaries outside <home>/logs
		canary := strings.Repeat(canaryMark, 40)
		os.WriteFile(filepath.Join(s.home, "canary.txt"), []byte(canary), 0o644)
		os.MkdirAll(filepath.Join(s.home, "logs-evil"), 0o755)
		os.WriteFile(filepath.Join(s.home, "logs-evil", "secret.log"), []byte(canary), 0o644)
		os.WriteFile(filepath.Join(s.home, "logs.bak"), []byte(canary), 0o644)
		rootCanary := filepath.Join(tmpRoot, "canary-root.txt")
		os.WriteFile(rootCanary, []byte(canary), 0o644)
		s.start()
		// content: real log lines written through the logger, plus planted files
		for k, m := 0, r.Range(0, 60); k < m; k++ {
			buildCall(r, 0, k, r.Intn(nEP), fmt.Sprintf("WQ%08d", k)).invoke(s.fl)
		}
		planted := map[string]int{"empty.log": 0, "one.log": 1, "small.bin": r.Range(2, 300), "page.log": 4096, "big.log": r.Range(5000, 90000)}
		for name, sz := range planted {
			os.WriteFile(filepath.Join(s.logs, name), r.Bytes(sz), 0o644)
		}
		os.MkdirAll(filepath.Join(s.logs, "sub"), 0o755)
		os.WriteFile(filepath.Join(s.logs, "sub", "inner.log"), r.Bytes(r.Range(1, 500)), 0o644)
		cur := logName(s.id, s.oname, s.rot, day)
		names := []string{cur, cur, cur, "empty.log", "one.log", "small.bin", "page.log", "big.log", filepath.Join("sub", "inner.log"),
			"../logs/" + cur, "./" + cur, "sub/../" + cur}
		nilRes := 0
		probe := func(name string, endpos, length int64) {
			want, rerr := os.ReadFile(filepath.Join(s.logs, name))
			detail := func() map[string]interface{} {
				return map[string]interface{}{"logger": s.desc(), "file": name, "file_size": len(want), "endpos": endpos, "length": length}
			}
			var res *logfile.LogData
			if p := vlib.Catch(func() { res = s.fl.Read(name, endpos, length) }); p != nil {
				d := detail()
				d["panic"] = fmt.Sprint(p)
				key := "FileLogger.Read:panic"
				if length < 0 {
					key = "FileLogger.Read:panic/negative-length"
				}
				c.Fail(key, fmt.Sprintf("Read(%q, %d, %d) on a %d-byte file panics: %v", name, endpos, length, len(want), p), d)
				c.Count("read_panics", 1)
				return
			}
			c.Count("read_calls", 1)
			c.SetAdd("read_arg_shapes", shape(endpos, length, int64(len(want))))
			if res == nil {
				nilRes++
				if nilRes%64 == 0 {
					runtime.GC() // Read leaves the descriptor to the finalizer on its nil paths
				}
				c.Count("read_nil_results", 1)
				return
			}
			if rerr != nil {
				d := detail()
				d["text"] = clip(res.Text, 200)
				c.Fail("FileLogger.Read:content-mismatch", fmt.Sprintf("Read(%q) returned data but no such file exists in logs", name), d)
				return
			}
			c.Count("read_nonnil_compared", 1)
			if length > 0 && int64(len(res.Text)) > length {
				d := detail()
				d["returned_bytes"] = len(res.Text)
				c.Fail("FileLogger.Read:over-length", fmt.Sprintf("%d bytes returned for length %d", len(res.Text), length), d)
			}
			lo := res.Before
			hi := lo + int64(len(res.Text))
			if lo < 0 || hi > int64(len(want)) || string(want[lo:hi]) != res.Text {
				d := detail()
				d["before"], d["next"], d["returned_bytes"] = res.Before, res.Next, len(res.Text)
				d["returned_hex"] = vlib.Hex([]byte(res.Text))
				if lo >= 0 && hi <= int64(len(want)) {
					d["file_hex_at_before"] = vlib.Hex(want[lo:hi])
				}
				c.Fail("FileLogger.Read:content-mismatch", fmt.Sprintf("Text is not the file's bytes [%d,%d) (file size %d)", lo, hi, len(want)), d)
				return
			}
			if len(res.Text) > 0 {
				c.Count("read_nonempty_windows", 1)
			}
			end := endpos
			if end < 0 {
				end = int64(len(want))
			}
			if hi == end {
				c.Count("read_window_ends_at_endpos", 1)
			}
			if c.WantSample() && i%19 == 0 && len(res.Text) > 0 {
				c.Sample(map[string]interface{}{"section": "read-window", "file": name, "file_size": len(want), "endpos": endpos, "length": length,
					"before": res.Before, "next": res.Next, "text_bytes": len(res.Text)})
			}
		}
		for q, m := 0, r.Range(30, 70); q < m; q++ {
			name := names[r.Intn(len(names))]
			st, err := os.Stat(filepath.Join(s.logs, name))
			var size int64
			if err == nil {
				size = st.Size()
			}
			probe(name, biasedPos(r, size), biasedLen(r, size))
		}
		for _, name := range []string{"nope.log", "", "sub", ".", "sub/", cur + "x"} {
			probe(name, biasedPos(r, 10), biasedLen(r, 10))
		}
		// traversal probes
		abs := filepath.Join(s.home, "canary.txt")
		up := strings.Repeat("../", strings.Count(s.logs, "/")+2)
		trav := []struct{ name, class string }{
			{"../canary.txt", "dotdot"},
			{"./../canary.txt", "dotdot"},
			{"..//canary.txt", "dotdot"},
			{"sub/../../canary.txt", "dotdot"},
			{"sub/../sub/../../canary.txt", "dotdot"},
			{cur + "/../../canary.txt", "dotdot"},
			{"nonexistent/../../canary.txt", "dotdot"},
			{"../../canary-root.txt", "dotdot"},
			{up + strings.TrimPrefix(abs, "/"), "dotdot"},
			{"../logs-evil/secret.log", "sibling-prefix"},
			{"../logs.bak", "sibling-prefix"},
			{abs, "absolute"},
			{"/" + abs, "absolute"},
			{rootCanary, "absolute"},
		}
		for _, t := range trav {
			for _, a := range [][2]int64{{-1, 64}, {int64(len(canary)), int64(len(canary))}, {100, 50}, {-1, math.MaxInt64}} {
				var res *logfile.LogData
				p := vlib.Catch(func() { res = s.fl.Read(t.name, a[0], a[1]) })
				c.Count("read_traversal_probes", 1)
				c.SetAdd("read_traversal_shapes", t.class)
				if p != nil {
					c.Fail("FileLogger.Read:panic", fmt.Sprintf("Read(%q, %d, %d) panics: %v", t.name, a[0], a[1], p), map[string]interface{}{"file": t.name, "panic": fmt.Sprint(p)})
					continue
				}
				if res == nil {
					nilRes++
					if nilRes%64 == 0 {
						runtime.GC()
					}
					continue
				}
				if len(res.Text) > 0 && strings.Contains(canary, res.Text) {
					c.Fail("FileLogger.Read:path-traversal/"+t.class,
						fmt.Sprintf("Read(%q, %d, %d) served %d bytes of a file outside <home>/logs", t.name, a[0], a[1], len(res.Text)),
						map[string]interface{}{"logger": s.desc(), "file_argument": t.name, "endpos": a[0], "length": a[1], "home": "<home>", "logs_dir": "<home>/logs",
							"resolves_to": strings.Replace(filepath.Join(s.logs, t.name), s.home, "<home>", 1), "before": res.Before, "next": res.Next,
							"text_prefix": clip(res.Text, 60)})
				}
			}
		}
		c.Distinct(vlib.HashStr(fmt.Sprint(s.desc(), day, planted)))
	})
}

func shape(endpos, length, size int64) string {
	e := "end-in-range"
	switch {
	case endpos < 0:
		e = "end-negative"
	case endpos == 0:
		e = "end-zero"
	case endpos == size:
		e = "end-at-eof"
	case endpos > size:
		e = "end-beyond-eof"
	}
	l := "len-in-range"
	switch {
	case length < 0:
		l = "len-negative"
	case length == 0:
		l = "len-zero"
	case length > size:
		l = "len-beyond-size"
	}
	return e + "," + l
}
