package main

// 5. read window: Read(file, endpos, length) returns real bytes of the named file at the
// offset it reports, at most length of them, and nothing from outside <home>/logs.

import (
	"fmt"
	"hash/maphash"
	"math"
	"os"
	"path/filepath"
	"runtime"
	"strings"
	"sync"
	"sync/atomic"

	"github.com/whatap/golib/logger/logfile"

	"verif/vlib"
)

const canaryMark = "\x7fC17-CANARY-OUTSIDE-LOGS\x7f"

func biasedPos(r *vlib.Rand, size int64) int64 {
	switch r.Intn(14) {
	case 0:
		return -1
	case 1:
		return int64(-2 - r.Intn(1000))
	case 2:
		return math.MinInt64
	case 3:
		return 0
	case 4:
		return 1
	case 5:
		return size - 1
	case 6:
		return size
	case 7:
		return size + 1
	case 8:
		return 2*size + int64(r.Intn(100))
	case 9:
		return math.MaxInt64
	}
	if size <= 0 {
		return int64(r.Intn(3))
	}
	return int64(r.Intn(int(size) + 1))
}

func biasedLen(r *vlib.Rand, size int64) int64 {
	switch r.Intn(16) {
	case 0:
		return 0
	case 1:
		return 1
	case 2:
		return 2
	case 3:
		return size - 1
	case 4:
		return size
	case 5:
		return size + 1
	case 6:
		return 10*size + 7
	case 7:
		return math.MaxInt64
	case 8:
		return -1
	case 9:
		if r.Bool() {
			return math.MinInt64
		}
		return int64(-2 - r.Intn(5000))
	}
	if size <= 0 {
		return int64(1 + r.Intn(64))
	}
	return int64(1 + r.Intn(int(size)))
}

func secRead(c *vlib.Ctx, n int) {
	curSec = "read-window"
	c.Cases("read-window", n, func(i int, r *vlib.Rand) {
		day := randDay(r)
		setVirtual(day*dayMs + int64(r.Range(10*60*1000, 20*3600*1000)))
		s := newScn(c, r)
		defer s.close()
		s.useApply, s.interval, s.keep, s.level = true, 0, 0, 0
		s.rot = !r.Chance(1, 6)
		// canaries outside <home>/logs
		canary := strings.Repeat(canaryMark, 40)
		os.WriteFile(filepath.Join(s.home, "canary.txt"), []byte(canary), 0o644)
		os.MkdirAll(filepath.Join(s.home, "logs-evil"), 0o755)
		os.WriteFile(filepath.Join(s.home, "logs-evil", "secret.log"), []byte(canary), 0o644)
		os.WriteFile(filepath.Join(s.home, "logs.bak"), []byte(canary), 0o644)
		rootCanary := filepath.Join(tmpRoot, "canary-root.txt")
		os.WriteFile(rootCanary, []byte(canary), 0o644)
		s.start()
		// content: real log lines written through the logger, plus planted files
		for k, m := 0, r.Range(0, 60); k < m; k++ {
			buildCall(r, 0, k, r.Intn(nEP), fmt.Sprintf("WQ%08d", k)).invoke(s.fl)
		}
		planted := map[string]int{"empty.log": 0, "one.log": 1, "small.bin": r.Range(2, 300), "page.log": 4096, "big.log": r.Range(5000, 90000)}
		for name, sz := range planted {
			os.WriteFile(filepath.Join(s.logs, name), r.Bytes(sz), 0o644)
		}
		os.MkdirAll(filepath.Join(s.logs, "sub"), 0o755)
		os.WriteFile(filepath.Join(s.logs, "sub", "inner.log"), r.Bytes(r.Range(1, 500)), 0o644)
		cur := logName(s.id, s.oname, s.rot, day)
		names := []string{cur, cur, cur, "empty.log", "one.log", "small.bin", "page.log", "big.log", filepath.Join("sub", "inner.log"),
			"../logs/" + cur, "./" + cur, "sub/../" + cur}
		nilRes := 0
		probe := func(name string, endpos, length int64) {
			want, rerr := os.ReadFile(filepath.Join(s.logs, name))
			detail := func() map[string]interface{} {
				return map[string]interface{}{"logger": s.desc(), "file": name, "file_size": len(want), "endpos": endpos, "length": length}
			}
			var res *logfile.LogData
			if p := vlib.Catch(func() { res = s.fl.Read(name, endpos, length) }); p != nil {
				d := detail()
				d["panic"] = fmt.Sprint(p)
				key := "FileLogger.Read:panic"
				if length < 0 {
					key = "FileLogger.Read:panic/negative-length"
				}
				c.Fail(key, fmt.Sprintf("Read(%q, %d, %d) on a %d-byte file panics: %v", name, endpos, length, len(want), p), d)
				c.Count("read_panics", 1)
				return
			}
			c.Count("read_calls", 1)
			c.SetAdd("read_arg_shapes", shape(endpos, length, int64(len(want))))
			if res == nil {
				nilRes++
				if nilRes%64 == 0 {
					runtime.GC() // Read leaves the descriptor to the finalizer on its nil paths
				}
				c.Count("read_nil_results", 1)
				return
			}
			if rerr != nil {
				d := detail()
				d["text"] = clip(res.Text, 200)
				c.Fail("FileLogger.Read:content-mismatch", fmt.Sprintf("Read(%q) returned data but no such file exists in logs", name), d)
				return
			}
			c.Count("read_nonnil_compared", 1)
			if length > 0 && int64(len(res.Text)) > length {
				d := detail()
				d["returned_bytes"] = len(res.Text)
				c.Fail("FileLogger.Read:over-length", fmt.Sprintf("%d bytes returned for length %d", len(res.Text), length), d)
			}
			lo := res.Before
			hi := lo + int64(len(res.Text))
			if lo < 0 || hi > int64(len(want)) || string(want[lo:hi]) != res.Text {
				d := detail()
				d["before"], d["next"], d["returned_bytes"] = res.Before, res.Next, len(res.Text)
				d["returned_hex"] = vlib.Hex([]byte(res.Text))
				if lo >= 0 && hi <= int64(len(want)) {
					d["file_hex_at_before"] = vlib.Hex(want[lo:hi])
				}
				c.Fail("FileLogger.Read:content-mismatch", fmt.Sprintf("Text is not the file's bytes [%d,%d) (file size %d)", lo, hi, len(want)), d)
				return
			}
			if len(res.Text) > 0 {
				c.Count("read_nonempty_windows", 1)
			}
			end := endpos
			if end < 0 {
				end = int64(len(want))
			}
			if hi == end {
				c.Count("read_window_ends_at_endpos", 1)
			}
			if c.WantSample() && i%19 == 0 && len(res.Text) > 0 {
				c.Sample(map[string]interface{}{"section": "read-window", "file": name, "file_size": len(want), "endpos": endpos, "length": length,
					"before": res.Before, "next": res.Next, "text_bytes": len(res.Text)})
			}
		}
		for q, m := 0, r.Range(30, 70); q < m; q++ {
			name := names[r.Intn(len(names))]
			st, err := os.Stat(filepath.Join(s.logs, name))
			var size int64
			if err == nil {
				size = st.Size()
			}
			probe(name, biasedPos(r, size), biasedLen(r, size))
		}
		for _, name := range []string{"nope.log", "", "sub", ".", "sub/", cur + "x"} {
			probe(name, biasedPos(r, 10), biasedLen(r, 10))
		}
		// traversal probes
		abs := filepath.Join(s.home, "canary.txt")
		up := strings.Repeat("../", strings.Count(s.logs, "/")+2)
		trav := []struct{ name, class string }{
			{"../canary.txt", "dotdot"},
			{"./../canary.txt", "dotdot"},
			{"..//canary.txt", "dotdot"},
			{"sub/../../canary.txt", "dotdot"},
			{"sub/../sub/../../canary.txt", "dotdot"},
			{cur + "/../../canary.txt", "dotdot"},
			{"nonexistent/../../canary.txt", "dotdot"},
			{"../../canary-root.txt", "dotdot"},
			{up + strings.TrimPrefix(abs, "/"), "dotdot"},
			{"../logs-evil/secret.log", "sibling-prefix"},
			{"../logs.bak", "sibling-prefix"},
			{abs, "absolute"},
			{"/" + abs, "absolute"},
			{rootCanary, "absolute"},
		}
		for _, t := range trav {
			for _, a := range [][2]int64{{-1, 64}, {int64(len(canary)), int64(len(canary))}, {100, 50}, {-1, math.MaxInt64}} {
				var res *logfile.LogData
				p := vlib.Catch(func() { res = s.fl.Read(t.name, a[0], a[1]) })
				c.Count("read_traversal_probes", 1)
				c.SetAdd("read_traversal_shapes", t.class)
				if p != nil {
					c.Fail("FileLogger.Read:panic", fmt.Sprintf("Read(%q, %d, %d) panics: %v", t.name, a[0], a[1], p), map[string]interface{}{"file": t.name, "panic": fmt.Sprint(p)})
					continue
				}
				if res == nil {
					nilRes++
					if nilRes%64 == 0 {
						runtime.GC()
					}
					continue
				}
				if len(res.Text) > 0 && strings.Contains(canary, res.Text) {
					c.Fail("FileLogger.Read:path-traversal/"+t.class,
						fmt.Sprintf("Read(%q, %d, %d) served %d bytes of a file outside <home>/logs", t.name, a[0], a[1], len(res.Text)),
						map[string]interface{}{"logger": s.desc(), "file_argument": t.name, "endpos": a[0], "length": a[1], "home": "<home>", "logs_dir": "<home>/logs",
							"resolves_to": strings.Replace(filepath.Join(s.logs, t.name), s.home, "<home>", 1), "before": res.Before, "next": res.Next,
							"text_prefix": clip(res.Text, 60)})
				}
			}
		}
		c.Distinct(vlib.HashStr(fmt.Sprint(s.desc(), day, planted)))
	})
}

func shape(endpos, length, size int64) string {
	e := "end-in-range"
	switch {
	case endpos < 0:
		e = "end-negative"
	case endpos == 0:
		e = "end-zero"
	case endpos == size:
		e = "end-at-eof"
	case endpos > size:
		e = "end-beyond-eof"
	}
	l := "len-in-range"
	switch {
	case length < 0:
		l = "len-negative"
	case length == 0:
		l = "len-zero"
	case length > size:
		l = "len-beyond-size"
	}
	return e + "," + l
}

// ---- 5b. read while logging --------------------------------------------------------------------
//
// Several goroutines log (every entry point, unique ids) while others call Read on the live file
// with tail requests (endpos < 0) and explicit end positions of every kind. The log file is only
// ever appended to, so whatever the interleaving was, each returned (Before, Text) must equal the
// bytes [Before, Before+len(Text)) of the file as it is after the run. The lines themselves are
// judged by the multi-goroutine oracle. Also runs under the race detector.

type liveObs struct {
	Reader, K      int
	Name           string
	Endpos, Length int64
	Size0, Size1   int64 // size of the file seen by the monitor just before / just after the call
	Nil            bool
	Panic          string
	Before, Next   int64
	N              int    // len(Text)
	Sum            uint64 // hash of Text
	Head, Tail     string // first / last bytes of Text
}

var liveSeed = maphash.MakeSeed()

func liveLen(r *vlib.Rand, size int64) int64 {
	switch x := r.Intn(20); {
	case x < 6:
		return int64(r.Range(1, 256))
	case x < 9:
		return int64(pickInt(r, 64, 100, 1024, 4096, 8192))
	case x < 15:
		return int64(r.Range(257, 8192))
	}
	return biasedLen(r, size)
}

func livePos(r *vlib.Rand, size int64) int64 {
	switch x := r.Intn(20); {
	case x < 7:
		return -1
	case x < 8:
		return int64(-2 - r.Intn(1000))
	case x < 9:
		return math.MinInt64
	}
	return biasedPos(r, size)
}

func secReadLive(c *vlib.Ctx, n int) {
	curSec = "read-while-logging"
	race := c.Flavour == "race"
	var nilSeen atomic.Int64
	c.Cases("read-while-logging", n, func(i int, r *vlib.Rand) {
		if !race {
			setVirtual(randDay(r)*dayMs + int64(r.Range(5*60*1000, 20*3600*1000)))
		}
		day := dayOf(vnow())
		s := newScn(c, r)
		defer s.close()
		s.useApply = r.Chance(4, 5)
		if s.useApply {
			s.interval = pickInt(r, 0, 0, -1, 10)
			s.rot = !r.Chance(1, 5)
			s.keep = pickInt(r, 0, 7, 7, 30)
		}
		G := pickInt(r, 1, 2, 2, 4, 4, 8)
		R := pickInt(r, 1, 2, 2, 3, 4)
		K := r.Range(60, 200)
		// every writer logs at least minM lines and then goes on until the readers are done (at most capM)
		minM, capM := r.Range(50, 300), 6000/G
		if race {
			K, minM, capM = r.Range(20, 70), r.Range(30, 100), 1600/G
		}
		procs := pickInt(r, 2, 4, 8, 16)
		old := runtime.GOMAXPROCS(procs)
		defer runtime.GOMAXPROCS(old)
		per := make([][]*call, G+1)
		// goroutine index G: lines written before the readers start
		for k, m := 0, r.Range(0, 40); k < m; k++ {
			cl := buildCall(r, G, k, r.Intn(nEP), fmt.Sprintf("W%02d%07d", G, k))
			cl.Lvl = s.level
			per[G] = append(per[G], cl)
		}
		wr := make([]*vlib.Rand, G)
		for g := range wr {
			wr[g] = r.Fork(fmt.Sprintf("g%d", g))
		}
		s.start()
		cur := logName(s.id, s.oname, s.rot, day)
		path := filepath.Join(s.logs, cur)
		for _, cl := range per[G] {
			cl.B = vnow()
			cl.invoke(s.fl)
			cl.A = vnow()
		}
		names := []string{cur, cur, cur, cur, "./" + cur, "sub/../" + cur, "../logs/" + cur}
		size := func() int64 {
			if st, err := os.Stat(path); err == nil {
				return st.Size()
			}
			return -1
		}
		obs := make([][]liveObs, R)
		var wg sync.WaitGroup
		gate := make(chan struct{})
		var readersLeft atomic.Int32
		readersLeft.Store(int32(R))
		for g := 0; g < G; g++ {
			wg.Add(1)
			go func(g int, rg *vlib.Rand) {
				defer wg.Done()
				<-gate
				for k := 0; k < capM && (k < minM || readersLeft.Load() > 0); k++ {
					cl := buildCall(rg, g, k, rg.Intn(nEP), fmt.Sprintf("W%02d%07d", g, k)) // unique id per line: the rate limiter never applies
					cl.Lvl = s.level
					per[g] = append(per[g], cl)
					cl.B = vnow()
					cl.invoke(s.fl)
					cl.A = vnow()
					if (k+g)%9 == 0 {
						runtime.Gosched()
					}
				}
			}(g, wr[g])
		}
		for j := 0; j < R; j++ {
			rj := r.Fork(fmt.Sprintf("reader%d", j))
			wg.Add(1)
			go func(j int, rj *vlib.Rand) {
				defer wg.Done()
				defer readersLeft.Add(-1)
				<-gate
				for k := 0; k < K; k++ {
					o := liveObs{Reader: j, K: k, Name: names[rj.Intn(len(names))]}
					o.Size0 = size()
					o.Endpos, o.Length = livePos(rj, o.Size0), liveLen(rj, o.Size0)
					var res *logfile.LogData
					if p := vlib.Catch(func() { res = s.fl.Read(o.Name, o.Endpos, o.Length) }); p != nil {
						o.Panic = fmt.Sprint(p)
					}
					o.Size1 = size()
					switch {
					case o.Panic != "":
					case res == nil:
						o.Nil = true
						if nilSeen.Add(1)%64 == 0 {
							runtime.GC() // Read leaves the descriptor to the finalizer on its nil paths
						}
					default:
						o.Before, o.Next, o.N = res.Before, res.Next, len(res.Text)
						o.Sum = maphash.String(liveSeed, res.Text)
						o.Head, o.Tail = res.Text[:min(96, o.N)], res.Text[max(0, o.N-96):]
					}
					obs[j] = append(obs[j], o)
				}
			}(j, rj)
		}
		close(gate)
		wg.Wait()
		if dayOf(vnow()) != day {
			c.Inconclusive(fmt.Sprintf("read-while-logging#%d", i), "virtual day changed while the scenario ran")
			return
		}
		calls := append([]*call{}, per[G]...)
		var written []int
		for g := 0; g < G; g++ {
			calls = append(calls, per[g]...)
			written = append(written, len(per[g]))
			c.Max("max_live_lines_of_one_writer", int64(len(per[g])))
		}
		files, _ := readDirFiles(s.logs)
		final := files[cur]
		detail := func() map[string]interface{} {
			return map[string]interface{}{"logger": s.desc(), "virtual_date": ymdOfDay(day), "writer_goroutines": G, "calls_per_writer": written,
				"reader_goroutines": R, "reads_per_reader": K, "gomaxprocs": procs, "file": cur, "final_file_size": len(final), "files_in_logs": sortedKeys(files)}
		}
		// ---- the reads
		for j := range obs {
			for _, o := range obs[j] {
				c.Count("live_read_calls", 1)
				tail := o.Endpos < 0
				od := func() map[string]interface{} {
					d := detail()
					d["read"] = map[string]interface{}{"reader": o.Reader, "nth_read": o.K, "file_argument": o.Name, "endpos": o.Endpos, "length": o.Length,
						"file_size_seen_before_call": o.Size0, "file_size_seen_after_call": o.Size1, "before": o.Before, "next": o.Next, "text_bytes": o.N,
						"text_head_hex": vlib.Hex([]byte(o.Head)), "text_tail_hex": vlib.Hex([]byte(o.Tail))}
					return d
				}
				if o.Panic != "" {
					key := "FileLogger.Read:panic"
					if o.Length < 0 {
						key = "FileLogger.Read:panic/negative-length"
					}
					d := od()
					d["panic"] = o.Panic
					c.Fail(key, fmt.Sprintf("Read(%q, %d, %d) on the live file panics: %s", o.Name, o.Endpos, o.Length, o.Panic), d)
					continue
				}
				if o.Nil {
					c.Count("live_read_nil_results", 1)
					continue
				}
				c.Count("live_reads_compared", 1)
				c.SetAdd("live_read_arg_shapes", shape(o.Endpos, o.Length, o.Size0))
				if o.Length > 0 && int64(o.N) > o.Length {
					c.Fail("FileLogger.Read:over-length", fmt.Sprintf("%d bytes returned for length %d", o.N, o.Length), od())
				}
				lo, hi := o.Before, o.Before+int64(o.N)
				ok := lo >= 0 && hi <= int64(len(final))
				if ok {
					w := final[lo:hi]
					ok = w[:min(96, o.N)] == o.Head && w[max(0, o.N-96):] == o.Tail && maphash.String(liveSeed, w) == o.Sum
				}
				if !ok {
					d := od()
					if lo >= 0 && hi <= int64(len(final)) {
						w := final[lo:hi]
						d["file_head_hex_at_before"], d["file_tail_hex_at_before"] = vlib.Hex([]byte(w[:min(96, o.N)])), vlib.Hex([]byte(w[max(0, o.N-96):]))
					}
					if o.N >= 12 {
						if at := strings.Index(final, o.Head); at >= 0 && at+o.N <= len(final) && maphash.String(liveSeed, final[at:at+o.N]) == o.Sum {
							d["text_is_actually_at_offset"] = at
						}
					}
					c.Fail("FileLogger.Read:content-mismatch/live-file",
						fmt.Sprintf("Read(%q, %d, %d) while the file was being appended to: Text is not the file's bytes [%d,%d) (final size %d)", o.Name, o.Endpos, o.Length, lo, hi, len(final)), d)
					continue
				}
				grew := o.Size1 > o.Size0
				if o.N > 0 {
					c.Count("live_nonempty_windows_matched", 1)
				}
				if grew {
					c.Count("live_reads_while_file_grew", 1)
				}
				if tail {
					c.Count("live_tail_reads_matched", 1)
					if grew && o.N > 1 {
						c.Count("live_tail_reads_while_file_grew", 1)
					}
				}
				if c.WantSample() && i%23 == 0 && tail && grew && o.N > 0 {
					c.Sample(map[string]interface{}{"section": "read-while-logging", "endpos": o.Endpos, "length": o.Length, "file_size_seen_before_call": o.Size0,
						"file_size_seen_after_call": o.Size1, "final_file_size": len(final), "before": o.Before, "next": o.Next, "text_bytes": o.N})
				}
			}
		}
		// ---- the lines
		expect := map[string]bool{cur: true}
		if s.useApply && !s.rot {
			expect[logName(s.id, s.oname, true, day)] = true
		}
		for _, f := range sortedKeys(files) {
			if !expect[f] {
				c.Fail("FileLogger:wrong-file-name", fmt.Sprintf("unexpected file %q in logs (expected %q)", f, cur), detail())
			}
		}
		if _, ok := files[cur]; !ok {
			c.Fail("FileLogger:wrong-file-name", fmt.Sprintf("log file %q does not exist", cur), detail())
		}
		s.locate(files, calls, detail)
		for _, cl := range calls {
			if cl.present && cl.file != cur {
				d := detail()
				d["call"] = cl.brief()
				c.Fail("FileLogger:wrong-file-name", fmt.Sprintf("line found in %q, current file is %q", cl.file, cur), d)
			}
			if cl.present {
				c.Count("live_lines_matched", 1)
			}
		}
		s.checkLevelGate(calls, detail)
		s.checkConcurrent(calls, map[string]int{}, func(*call) string { return "FileLogger:line-lost" }, detail)
		c.Count("live_scenarios", 1)
		c.SetAdd("gomaxprocs_used", fmt.Sprint(procs))
		c.Distinct(vlib.HashStr(fmt.Sprint("live", s.desc(), G, minM, R, K, len(per[G]))))
	})
}
