// wC17 — file logger: whole lines in call order in the file named from id/oname/date,
// suppression only inside the interval, rotation at the cycle after a date change (also after the
// open of the new file had failed for a while), retention
// of exactly the expired own dated files, read window = real bytes (also of the live file while
// it is appended to), no path outside logs. Every scenario draws the whole configuration (level,
// names, rotation, keep-days, interval, stdout mirror, how each of them is given) and runs in a
// drawn time zone (zone.go).
package main

import (
	"fmt"
	"os"
	"path/filepath"
	"runtime"
	"strings"
	"sync"
	"sync/atomic"
	"time"

	"verif/vlib"
)

func main() {
	c := vlib.Start("C17")
	initZones(c) // re-executes the child once, in the time zone of this shard
	installStdoutSink()
	installStdLogProbe() // before the first file logger exists
	initTmp(c)
	defer cleanupTmp()
	race := c.Flavour == "race"
	if race {
		// The virtual clock is a plain global in golib: under the race detector it is set once,
		// before any logger (and its timer goroutine) exists, and never touched again.
		r := c.Rand("race-clock")
		setVirtual(randDay(r)*dayMs + int64(r.Range(3600*1000, 12*3600*1000)))
	}
	sh := int64(c.NShards)

	nMulti := c.N(240, 4800)
	if race {
		nMulti = c.N(120, 1600)
	}
	secLinesMulti(c, nMulti)
	c.Floor("multi_goroutine_lines_matched", int64(nMulti)*40/sh, c.Counter("multi_goroutine_lines_matched"))
	c.Floor("multi_goroutine_scenarios", int64(nMulti)/10/sh, c.Counter("multi_goroutine_scenarios"))

	nLive := c.N(64, 960)
	if race {
		nLive = c.N(36, 480)
	}
	secReadLive(c, nLive)
	c.Floor("live_reads_compared", int64(nLive)*8/sh, c.Counter("live_reads_compared"))
	c.Floor("live_tail_reads_matched", int64(nLive)*3/sh, c.Counter("live_tail_reads_matched"))
	c.Floor("live_lines_matched", int64(nLive)*40/sh, c.Counter("live_lines_matched"))
	// the stdout mirror really was on: id-keyed lines found in the file with it on, and drained from the sink
	c.Floor("id_entry_point_lines_in_file_with_stdout_mirror_on", int64(nMulti)/sh, c.Counter("id_entry_point_lines_in_file_with_stdout_mirror_on"))

	if !race {
		n := c.N(480, 9600)
		secLinesSingle(c, n)
		c.Floor("single_goroutine_lines_matched", int64(n)*2/sh, c.Counter("single_goroutine_lines_matched"))
		c.Floor("suppressed_decisively_inside", int64(n)/10/sh, c.Counter("suppressed_decisively_inside"))
		c.Floor("repeats_logged_outside_interval", int64(n)/10/sh, c.Counter("repeats_logged_outside_interval"))
		c.Floor("calls_below_level", int64(n)/sh, c.Counter("calls_below_level"))
		c.Floor("scenarios_with_id_volume", int64(n)/20/sh, c.Counter("scenarios_with_id_volume"))

		n = c.N(200, 3200)
		secMultiLogger(c, n)
		c.Floor("multi_logger_scenarios", int64(n)/10/sh, c.Counter("multi_logger_scenarios"))
		c.Floor("multi_logger_lines_matched", int64(n)*3/sh, c.Counter("multi_logger_lines_matched"))
		c.Floor("multi_logger_lines_matched_on_a_logger_that_did_not_open_its_file_last", int64(n)/sh, c.Counter("multi_logger_lines_matched_on_a_logger_that_did_not_open_its_file_last"))
		c.Floor("multi_logger_cycles_of_some_while_others_stay", int64(n)/40/sh, c.Counter("multi_logger_cycles_of_some_while_others_stay"))
		c.Floor("multi_logger_process_lines_interleaved", int64(n)/4/sh, c.Counter("multi_logger_process_lines_interleaved"))

		n = c.N(320, 6400)
		secRotation(c, n)
		c.Floor("day_boundaries_crossed_then_cycled", int64(n)/10/sh, c.Counter("day_boundaries_crossed_then_cycled"))
		c.Floor("lines_after_cycle_in_new_file", int64(n)/5/sh, c.Counter("lines_after_cycle_in_new_file"))

		n = c.N(640, 6400)
		secRotationFine(c, n)
		c.Floor("fine_day_boundaries_crossed_then_cycled", int64(n)/10/sh, c.Counter("fine_day_boundaries_crossed_then_cycled"))
		c.Floor("fine_crossings_by_steps_up_to_one_minute", int64(n)/25/sh, c.Counter("fine_crossings_by_steps_up_to_one_minute"))
		c.Floor("fine_lines_after_cycle_in_current_file", int64(n)/5/sh, c.Counter("fine_lines_after_cycle_in_current_file"))

		n = c.N(80, 800)
		secRotationConstruct(c, n)
		c.Floor("construct_date_changed_after_creation_then_cycled", int64(n)/10/sh, c.Counter("construct_date_changed_after_creation_then_cycled"))

		n = c.N(480, 4800)
		secRotationOpenFailure(c, n)
		c.Floor("open_failure_steps_that_had_to_open_a_file", int64(n)/10/sh, c.Counter("open_failure_steps_that_had_to_open_a_file"))
		c.Floor("open_failure_steps_file_absent_while_failing", int64(n)/10/sh, c.Counter("open_failure_steps_file_absent_while_failing"))
		c.Floor("open_failure_lines_after_recovery_in_current_file", int64(n)/5/sh, c.Counter("open_failure_lines_after_recovery_in_current_file"))

		n = c.N(64, 1280)
		secRotationConcurrent(c, n)
		c.Floor("concurrent_rotation_lines", int64(n)*20/sh, c.Counter("concurrent_rotation_lines"))

		n = c.N(400, 8000)
		secRetention(c, n)
		c.Floor("retention_files_judged", int64(n)*2/sh, c.Counter("retention_files_judged"))
		c.Floor("retention_expired_removed", int64(n)/10/sh, c.Counter("retention_expired_removed"))
		c.Floor("retention_edge_keep_exact_kept", int64(n)/40/sh, c.Counter("retention_edge_keep_exact_kept"))
		c.Floor("retention_edge_keep_exact_kept_east_of_utc", 1, c.Counter("retention_edge_keep_exact_kept_east_of_utc"))
		c.Floor("retention_edge_keep_exact_kept_west_of_utc", 1, c.Counter("retention_edge_keep_exact_kept_west_of_utc"))

		n = c.N(240, 4800)
		secRead(c, n)
		c.Floor("read_nonnil_compared", int64(n)*2/sh, c.Counter("read_nonnil_compared"))
		c.Floor("read_traversal_probes", int64(n)/2/sh, c.Counter("read_traversal_probes"))
	}
	c.Floor("standard_logger_checks", int64(nMulti)/sh, c.Counter("standard_logger_checks"))
	c.Floor("process_log_lines_arrived_at_own_writer", int64(nMulti)/2/sh, c.Counter("process_log_lines_arrived_at_own_writer"))
	c.Floor("scenarios_with_level_name_not_plain_lower_case", int64(nMulti)/20/sh, c.Counter("scenarios_with_level_name_not_plain_lower_case"))
	c.Floor("scenarios_with_boolean_not_plain_lower_case", int64(nMulti)/20/sh, c.Counter("scenarios_with_boolean_not_plain_lower_case"))
	closeStdoutSink(c)
	c.Floor("stdout_sink_message_lines_drained", int64(nMulti)/sh, c.Counter("stdout_sink_message_lines_drained"))
	c.Finish()
}

func pickInt(r *vlib.Rand, v ...int) int { return v[r.Intn(len(v))] }

// ---- 1. lines, single goroutine, virtual time stepped around the suppression interval ----------

func secLinesSingle(c *vlib.Ctx, n int) {
	curSec = "lines-single"
	c.Cases("lines-single", n, func(i int, r *vlib.Rand) {
		day := randDay(r)
		t0 := day*dayMs + int64(r.Range(5*60*1000, 6*3600*1000))
		setVirtual(t0)
		s := newScn(c, r)
		defer s.close()
		s.useApply = r.Chance(4, 5)
		if s.useApply {
			s.interval = pickInt(r, 0, -1, 1, 2, 5, 5, 10, 10, 30, 60, 600)
			s.rot = !r.Chance(1, 5)
			s.keep = pickInt(r, 0, 1, 7, 30)
		}
		s.singleton = !singletonUsed // once per process: the production accessor GetFileLogger
		singletonUsed = true
		s.start()
		name := logName(s.id, s.oname, s.rot, day)
		path := filepath.Join(s.logs, name)
		ten, other := idPool(r, r.Range(1, 5), r.Range(0, 2))
		nCalls := r.Range(15, 90)
		setLevelAt := -1
		if r.Chance(1, 3) {
			setLevelAt = r.Intn(nCalls)
		}
		ivl := int64(s.interval) * 1000
		limit := day*dayMs + 23*3600*1000
		lastT := map[string]int64{}
		var calls []*call
		size := func() int64 {
			if st, err := os.Stat(path); err == nil {
				return st.Size()
			}
			return -1
		}
		// one call: bracket the virtual clock, invoke, remember when the id was last written
		do := func(k, ep int, id string) {
			cl := buildCall(r, 0, k, ep, id)
			if k == setLevelAt {
				s.level = r.Intn(4)
				s.fl.SetLevel(rankConst[s.level])
				c.Count("set_level_calls", 1)
			}
			cl.Lvl = s.level
			before := size()
			cl.B = vnow()
			cl.invoke(s.fl)
			cl.A = vnow()
			if size() > before && epLimited[ep] {
				lastT[id] = cl.A
			}
			calls = append(calls, cl)
			c.SetAdd("entry_points_called", epName[ep])
		}
		// Id volume (added after seeded change C17r6-2: the table of last-logged times lost ids
		// with a negative hash when it grew): in a quarter of the scenarios every id of the
		// pool is logged once, then 60…900 further distinct ids are logged once each — the
		// logger's table (bounded at 1000 ids, never reached here) grows through its 76/153/
		// 307/614-entry thresholds with the pool's ids already in it — and only then does the
		// main loop repeat the pool's ids inside and outside the interval.
		k0 := 0
		if r.Chance(1, 4) {
			volume := pickInt(r, 60, 90, 170, 330, 650, 900)
			limited := []int{}
			for e := 0; e < nEP; e++ {
				if epLimited[e] {
					limited = append(limited, e)
				}
			}
			once := func(id string, explicit bool) {
				ep := limited[r.Intn(len(limited))]
				if explicit {
					ep = pickInt(r, epPrintln, epPrintf)
				}
				do(k0, ep, id)
				k0++
				if r.Chance(1, 8) {
					advanceTo(vnow() + int64(r.Range(1, 20)))
				}
			}
			for _, id := range ten {
				once(id, false)
			}
			for _, id := range other {
				once(id, true)
			}
			have := map[string]bool{}
			for _, id := range ten {
				have[id] = true
			}
			fill, _ := idPool(r, volume, 0)
			distinct := len(ten) + len(other)
			for _, id := range fill {
				if !have[id] {
					have[id] = true
					once(id, false)
					distinct++
				}
			}
			// some of the filler ids join the pool that is repeated
			for j := 0; j < 3; j++ {
				ten = append(ten, fill[r.Intn(len(fill))])
			}
			c.Count("scenarios_with_id_volume", 1)
			c.Max("max_distinct_ids_on_one_logger", int64(distinct))
			if setLevelAt >= 0 {
				setLevelAt += k0
			}
		}
		for k := k0; k < k0+nCalls; k++ {
			ep, id := pickEPandID(r, ten, other)
			// step the virtual clock, aimed at the edge of this id's interval
			lt, seen := lastT[id]
			var target int64
			switch x := r.Intn(20); {
			case x < 7:
			case x < 10:
				target = vnow() + int64(r.Range(1, 500))
			case x < 14 && seen && ivl > 0:
				target = lt + ivl - int64(r.Range(1500, 4000)) // decisively inside
			case x < 18 && seen && ivl > 0:
				target = lt + ivl + int64(pickInt(r, 0, 0, 1, 50, 1000)) // decisively outside (clock only runs forward)
			case seen && ivl > 0:
				target = lt + 3*ivl
			}
			if target > 0 && target < limit {
				advanceTo(target)
			}
			do(k, ep, id)
		}
		if dayOf(vnow()) != day {
			c.Inconclusive(fmt.Sprintf("lines-single#%d", i), "virtual day changed while the scenario ran")
			return
		}
		files, dirs := readDirFiles(s.logs)
		detail := func() map[string]interface{} {
			return map[string]interface{}{"logger": s.desc(), "virtual_start_ms": t0, "virtual_date": ymdOfDay(day),
				"expected_file": name, "files_in_logs": sortedKeys(files), "calls": briefCalls(calls, 90)}
		}
		expect := map[string]bool{name: true}
		if s.useApply && !s.rot {
			expect[logName(s.id, s.oname, true, day)] = true // opened by the constructor before rotation was switched off
		}
		for _, f := range sortedKeys(files) {
			if !expect[f] {
				c.Fail("FileLogger:wrong-file-name", fmt.Sprintf("unexpected file %q in logs (expected %q)", f, name), detail())
			}
		}
		if _, ok := files[name]; !ok {
			c.Fail("FileLogger:wrong-file-name", fmt.Sprintf("log file %q does not exist", name), detail())
		}
		if len(dirs) > 0 {
			c.Fail("FileLogger:wrong-file-name", fmt.Sprintf("unexpected directory %q in logs", dirs[0]), detail())
		}
		s.locate(files, calls, detail)
		for _, cl := range calls {
			if cl.present && cl.file != name {
				d := detail()
				d["call"] = cl.brief()
				c.Fail("FileLogger:wrong-file-name", fmt.Sprintf("line found in %q, current file is %q", cl.file, name), d)
			}
			if cl.present {
				c.Count("single_goroutine_lines_matched", 1)
			}
		}
		s.checkLevelGate(calls, detail)
		s.checkSequential(calls, detail)
		c.Distinct(vlib.HashStr(fmt.Sprint(s.desc(), len(calls), calls[0].Text)))
		if c.WantSample() && i%7 == 0 {
			c.Sample(map[string]interface{}{"section": "lines-single", "logger": s.desc(), "file": name, "first_calls": briefCalls(calls, 6)})
		}
	})
}

// ---- 2. lines, many goroutines (also the race-detector workload) ------------------------------

func secLinesMulti(c *vlib.Ctx, n int) {
	curSec = "lines-multi"
	c.Cases("lines-multi", n, func(i int, r *vlib.Rand) {
		if c.Flavour != "race" {
			setVirtual(randDay(r)*dayMs + int64(r.Range(5*60*1000, 20*3600*1000)))
		}
		day := dayOf(vnow())
		s := newScn(c, r)
		defer s.close()
		s.useApply = r.Chance(4, 5)
		if s.useApply {
			s.interval = pickInt(r, 0, 0, -1, 1, 10, 10, 3600)
			s.rot = !r.Chance(1, 5)
		}
		G := pickInt(r, 1, 2, 2, 3, 4, 4, 8, 8, 16, 16, r.Range(1, 16))
		M := r.Range(10, 100)
		procs := pickInt(r, 1, 2, 4, 16)
		old := runtime.GOMAXPROCS(procs)
		defer runtime.GOMAXPROCS(old)
		ten, other := idPool(r, r.Range(1, 4)+G, r.Range(0, 3))
		shared := ten[:len(ten)-G]
		per := make([][]*call, G)
		var calls []*call
		for g := 0; g < G; g++ {
			rg := r.Fork(fmt.Sprintf("g%d", g))
			for k := 0; k < M; k++ {
				ep, id := pickEPandID(rg, shared, other)
				if rg.Chance(1, 3) {
					id = ten[len(shared)+g] // an id only this goroutine uses
					if ep == epPrintln || ep == epPrintf {
						ep = rg.Intn(epDebug)
					}
				}
				cl := buildCall(rg, g, k, ep, id)
				cl.Lvl = s.level
				per[g] = append(per[g], cl)
				calls = append(calls, cl)
			}
		}
		s.start()
		name := logName(s.id, s.oname, s.rot, day)
		var wg sync.WaitGroup
		gate := make(chan struct{})
		for g := 0; g < G; g++ {
			wg.Add(1)
			go func(g int) {
				defer wg.Done()
				<-gate
				for k, cl := range per[g] {
					cl.B = vnow()
					cl.invoke(s.fl)
					cl.A = vnow()
					if (k+g)%7 == 0 {
						runtime.Gosched()
					}
				}
			}(g)
		}
		close(gate)
		wg.Wait()
		if dayOf(vnow()) != day {
			c.Inconclusive(fmt.Sprintf("lines-multi#%d", i), "virtual day changed while the scenario ran")
			return
		}
		files, _ := readDirFiles(s.logs)
		detail := func() map[string]interface{} {
			return map[string]interface{}{"logger": s.desc(), "virtual_date": ymdOfDay(day), "goroutines": G, "calls_per_goroutine": M,
				"gomaxprocs": procs, "expected_file": name, "files_in_logs": sortedKeys(files)}
		}
		expect := map[string]bool{name: true}
		if s.useApply && !s.rot {
			expect[logName(s.id, s.oname, true, day)] = true
		}
		for _, f := range sortedKeys(files) {
			if !expect[f] {
				c.Fail("FileLogger:wrong-file-name", fmt.Sprintf("unexpected file %q in logs (expected %q)", f, name), detail())
			}
		}
		if _, ok := files[name]; !ok {
			c.Fail("FileLogger:wrong-file-name", fmt.Sprintf("log file %q does not exist", name), detail())
		}
		s.locate(files, calls, detail)
		for _, cl := range calls {
			if cl.present && cl.file != name {
				d := detail()
				d["call"] = cl.brief()
				c.Fail("FileLogger:wrong-file-name", fmt.Sprintf("line found in %q, current file is %q", cl.file, name), d)
			}
			if cl.present {
				c.Count("multi_goroutine_lines_matched", 1)
			}
		}
		s.checkLevelGate(calls, detail)
		s.checkConcurrent(calls, map[string]int{}, func(*call) string { return "FileLogger:line-lost" }, detail)
		c.Count("multi_goroutine_scenarios", 1)
		c.Max("max_goroutines", int64(G))
		c.SetAdd("gomaxprocs_used", fmt.Sprint(procs))
		c.Distinct(vlib.HashStr(fmt.Sprint(s.desc(), G, M, calls[0].Text)))
		if c.WantSample() && i%11 == 0 {
			c.Sample(map[string]interface{}{"section": "lines-multi", "logger": s.desc(), "goroutines": G, "calls_per_goroutine": M,
				"file": name, "first_calls": briefCalls(calls, 4)})
		}
	})
}

// ---- 3. rotation (sequential): advance across day boundaries, cycle, log again --------------------

func pickDays(r *vlib.Rand) int64 {
	switch r.Intn(12) {
	case 0, 1, 2, 3:
		return 1
	case 4:
		return 2
	case 5:
		return int64(pickInt(r, 7, 8, 28, 29, 30, 31))
	case 6:
		return int64(pickInt(r, 365, 366, 399, 400))
	case 7:
		return 0
	}
	return int64(r.Range(1, 400))
}

type tracked struct {
	name string
	day  int64
}

func secRotation(c *vlib.Ctx, n int) {
	curSec = "rotation"
	c.Cases("rotation", n, func(i int, r *vlib.Rand) {
		day := randDay(r)
		tod := int64(r.Range(10*60*1000, 23*3600*1000))
		if r.Chance(1, 3) {
			tod = int64(r.Range(23*3600*1000+57*60*1000, 23*3600*1000+58*60*1000+30*1000))
		}
		setVirtual(day*dayMs + tod)
		s := newScn(c, r)
		defer s.close()
		s.useApply = r.Chance(7, 8)
		if s.useApply {
			s.interval = pickInt(r, 0, 0, 10)
			s.rot = !r.Chance(1, 8)
			s.keep = pickInt(r, 0, -1, 20000, 20000, r.Range(1, 12), r.Range(1, 12), r.Range(1, 400))
		}
		s.start()
		var calls []*call
		allowed := map[*call][]string{}
		seq := 0
		batch := func(k int, names ...string) {
			for j := 0; j < k; j++ {
				ep := r.Intn(nEP)
				id := fmt.Sprintf("WR%08d", seq) // unique id per line: the rate limiter never applies
				cl := buildCall(r, 0, seq, ep, id)
				cl.Lvl = s.level
				seq++
				cl.B = vnow()
				cl.invoke(s.fl)
				cl.A = vnow()
				calls = append(calls, cl)
				allowed[cl] = names
			}
		}
		var dated []tracked
		// the constructor always opens a dated file first (rotation defaults to on)
		dated = append(dated, tracked{logName(s.id, s.oname, true, day), day})
		curName := logName(s.id, s.oname, s.rot, day)
		batch(r.Range(2, 8), curName)
		hops := r.Range(1, 3)
		var hopLog []map[string]interface{}
		files := map[string]string{}
		detail := func() map[string]interface{} {
			return map[string]interface{}{"logger": s.desc(), "hops": hopLog, "files_in_logs": sortedKeys(files), "calls": briefCalls(calls, 60)}
		}
		must := func(age int64) int { // 1 must exist, -1 must be gone, 0 either
			if s.keep > 0 {
				if age <= int64(s.keep) {
					return 1
				}
				if s.rot {
					return -1
				}
				return 0
			}
			if age <= 0 {
				return 1
			}
			return 0
		}
		// judge the calls made since the previous hop: every line in (one of) its allowed
		// file(s), whole, in call order. Done per hop because retention may prune the file later.
		judged := 0
		prevF, prevL := -1, 0
		judge := func() {
			s.locate(files, calls, detail)
			order := map[string]int{}
			for j, t := range dated {
				order[t.name] = j
			}
			for _, cl := range calls[judged:] {
				names := allowed[cl]
				if s.gated(cl) {
					c.Count("calls_below_level", 1)
					if cl.present {
						d := detail()
						d["call"] = cl.brief()
						c.Fail("FileLogger:level-gate", fmt.Sprintf("%s line written although the level is %s", epName[cl.EP], rankName[cl.Lvl]), d)
					}
					continue
				}
				if !cl.present {
					gone := false
					for _, nm := range names {
						if _, ok := files[nm]; !ok {
							gone = true
						}
					}
					if gone {
						continue // one of its possible files was legitimately pruned in this very cycle
					}
					key := "FileLogger:line-lost"
					if len(names) > 1 {
						key = "FileLogger:line-lost/rotation-window"
					}
					d := detail()
					d["call"], d["allowed_files"] = cl.brief(), names
					c.Fail(key, fmt.Sprintf("%s line is in none of %v", epName[cl.EP], names), d)
					continue
				}
				okFile := false
				for _, nm := range names {
					if nm == cl.file {
						okFile = true
					}
				}
				if !okFile {
					d := detail()
					d["call"], d["allowed_files"] = cl.brief(), names
					c.Fail("FileLogger:rotation", fmt.Sprintf("line logged after the cycle is in %q, not in %v", cl.file, names), d)
					continue
				}
				if len(names) == 1 && judged > 0 && s.rot {
					c.Count("lines_after_cycle_in_new_file", 1)
				}
				f := order[cl.file]
				if f < prevF || (f == prevF && cl.line <= prevL) {
					d := detail()
					d["call"] = cl.brief()
					c.Fail("FileLogger:order", "a later call's line precedes an earlier call's line", d)
				}
				prevF, prevL = f, cl.line
			}
			judged = len(calls)
		}
		for h := 0; h < hops; h++ {
			k := pickDays(r)
			newDay := day + k
			var newTod int64
			switch {
			case k == 0:
				newTod = (vnow() % dayMs) + int64(r.Range(120*1000, 20*60*1000))
				if newTod > 23*3600*1000+55*60*1000 {
					k, newDay, newTod = 1, day+1, int64(r.Range(30*1000, 120*1000))
				}
			case r.Chance(1, 3):
				newTod = int64(r.Range(30*1000, 120*1000))
			default:
				newTod = int64(r.Range(10*60*1000, 23*3600*1000))
			}
			oldName := curName
			oldSnap, oldErr := os.ReadFile(filepath.Join(s.logs, oldName))
			target := newDay*dayMs + newTod
			if target <= vnow()+110*1000 {
				target = vnow() + 120*1000
				newDay = dayOf(target)
				k = newDay - day
			}
			setVirtual(target)
			newName := logName(s.id, s.oname, s.rot, newDay)
			oldSurvives := !s.rot || must(k) == 1 || s.keep <= 0
			nB := 0
			if oldSurvives && r.Chance(1, 2) {
				nB = r.Range(1, 4)
				batch(nB, oldName, newName) // between the advance and the cycle: either day's file
			}
			s.fl.VerifCycle()
			oldSnap2, oldErr2 := os.ReadFile(filepath.Join(s.logs, oldName))
			nC := r.Range(2, 8)
			batch(nC, newName)
			hopLog = append(hopLog, map[string]interface{}{"from": ymdOfDay(day), "to": ymdOfDay(newDay), "days": k, "virtual_ms": target,
				"old_file": oldName, "new_file": newName, "lines_between_advance_and_cycle": nB, "lines_after_cycle": nC})
			if dayOf(vnow()) != newDay {
				c.Inconclusive(fmt.Sprintf("rotation#%d", i), "virtual day changed while the hop ran")
				return
			}
			if s.rot && k > 0 {
				dated = append(dated, tracked{newName, newDay})
				c.Count("day_boundaries_crossed_then_cycled", 1)
				c.Max("max_days_in_one_advance", k)
			}
			files, _ = readDirFiles(s.logs)
			// retention verdicts for every dated file this logger has produced
			for _, t := range dated {
				_, exists := files[t.name]
				switch m := must(newDay - t.day); {
				case m == 1 && !exists:
					d := detail()
					d["file"], d["age_days"] = t.name, newDay-t.day
					c.Fail("FileLogger.clearOldLog:removed-foreign/own-recent", fmt.Sprintf("own file of age %d days removed with keep-days %d", newDay-t.day, s.keep), d)
				case m == -1 && exists:
					d := detail()
					d["file"], d["age_days"] = t.name, newDay-t.day
					c.Fail("FileLogger.clearOldLog:kept-expired", fmt.Sprintf("own dated file of age %d days still there after the cycle with keep-days %d", newDay-t.day, s.keep), d)
				case m == -1:
					c.Count("rotation_old_file_expired_and_removed", 1)
				}
			}
			// the old day's file: only grows by the in-between lines, frozen once the cycle returned
			if newName != oldName && oldErr == nil && oldErr2 == nil {
				now, ok := files[oldName]
				switch {
				case !strings.HasPrefix(string(oldSnap2), string(oldSnap)):
					c.Fail("FileLogger:rotation", "old day's file was rewritten (its earlier content is no longer a prefix)", detail())
				case ok && now != string(oldSnap2):
					d := detail()
					d["appended_after_cycle"] = clip(strings.TrimPrefix(now, string(oldSnap2)), 300)
					c.Fail("FileLogger:rotation", "old day's file changed after the cycle had returned", d)
				case ok:
					c.Count("old_file_unchanged_after_cycle", 1)
				}
			}
			if _, ok := files[newName]; !ok {
				c.Fail("FileLogger:rotation", fmt.Sprintf("after the cycle on %s the file %q does not exist", ymdOfDay(newDay), newName), detail())
			}
			// no files other than the ones this logger is entitled to
			ok := map[string]bool{newName: true}
			for _, t := range dated {
				ok[t.name] = true
			}
			for _, f := range sortedKeys(files) {
				if !ok[f] {
					c.Fail("FileLogger:wrong-file-name", fmt.Sprintf("unexpected file %q in logs", f), detail())
				}
			}
			judge()
			day, curName = newDay, newName
		}
		c.Distinct(vlib.HashStr(fmt.Sprint(s.desc(), hopLog)))
		if c.WantSample() && i%13 == 0 {
			c.Sample(map[string]interface{}{"section": "rotation", "logger": s.desc(), "hops": hopLog, "files_at_end": sortedKeys(files)})
		}
	})
}

// ---- 3b. rotation while goroutines keep logging -------------------------------------------------

func secRotationConcurrent(c *vlib.Ctx, n int) {
	curSec = "rotation-concurrent"
	c.Cases("rotation-concurrent", n, func(i int, r *vlib.Rand) {
		day0 := randDay(r)
		setVirtual(day0*dayMs + int64(r.Range(10*60*1000, 20*3600*1000)))
		s := newScn(c, r)
		defer s.close()
		s.useApply, s.interval, s.keep, s.rot = true, 0, 0, true
		s.level = pickInt(r, 0, 0, 0, 1, 2)
		G := pickInt(r, 1, 2, 4, 8)
		M := r.Range(150, 500)
		H := r.Range(1, 4)
		procs := pickInt(r, 2, 4, 16)
		old := runtime.GOMAXPROCS(procs)
		defer runtime.GOMAXPROCS(old)
		per := make([][]*call, G)
		var calls []*call
		for g := 0; g < G; g++ {
			rg := r.Fork(fmt.Sprintf("g%d", g))
			for k := 0; k < M; k++ {
				cl := buildCall(rg, g, k, rg.Intn(nEP), fmt.Sprintf("W%02d%07d", g, k))
				cl.Lvl = s.level
				per[g] = append(per[g], cl)
				calls = append(calls, cl)
			}
		}
		s.start()
		days := []int64{day0}
		names := []string{logName(s.id, s.oname, true, day0)}
		var epoch, advanced atomic.Int32
		var total atomic.Int64
		var wg sync.WaitGroup
		gate := make(chan struct{})
		for g := 0; g < G; g++ {
			wg.Add(1)
			go func(g int) {
				defer wg.Done()
				<-gate
				for k, cl := range per[g] {
					cl.Ep0 = epoch.Load()
					cl.B = vnow()
					cl.invoke(s.fl)
					cl.A = vnow()
					cl.Adv1 = advanced.Load()
					total.Add(1)
					if (k+g)%5 == 0 {
						runtime.Gosched()
					}
				}
			}(g)
		}
		close(gate)
		all := int64(G * M)
		for h := 1; h <= H; h++ {
			want := all * int64(h) / int64(H+1)
			for spin := 0; total.Load() < want; spin++ {
				if spin < 20 {
					runtime.Gosched()
				} else {
					time.Sleep(20 * time.Microsecond)
				}
			}
			d := days[h-1] + pickDays(r)
			if d == days[h-1] {
				d++
			}
			days = append(days, d)
			names = append(names, logName(s.id, s.oname, true, d))
			advanced.Store(int32(h))
			setVirtual(d*dayMs + int64(r.Range(10*60*1000, 20*3600*1000)))
			for y := r.Intn(4); y > 0; y-- {
				runtime.Gosched()
			}
			s.fl.VerifCycle()
			epoch.Store(int32(h))
		}
		wg.Wait()
		files, _ := readDirFiles(s.logs)
		idx := map[string]int{}
		for j, nm := range names {
			idx[nm] = j
		}
		detail := func() map[string]interface{} {
			return map[string]interface{}{"logger": s.desc(), "goroutines": G, "calls_per_goroutine": M, "gomaxprocs": procs,
				"day_files": names, "files_in_logs": sortedKeys(files)}
		}
		for _, f := range sortedKeys(files) {
			if _, ok := idx[f]; !ok {
				c.Fail("FileLogger:wrong-file-name", fmt.Sprintf("unexpected file %q in logs", f), detail())
			}
		}
		for h, nm := range names {
			if _, ok := files[nm]; !ok {
				c.Fail("FileLogger:rotation", fmt.Sprintf("file %q of day %d of the scenario does not exist", nm, h), detail())
			}
		}
		s.locate(files, calls, detail)
		for _, cl := range calls {
			if !cl.present {
				continue
			}
			c.Count("concurrent_rotation_lines", 1)
			f := int32(idx[cl.file])
			if cl.Ep0 != cl.Adv1 {
				c.Count("concurrent_rotation_lines_overlapping_a_cycle", 1)
			}
			if f < cl.Ep0 || f > cl.Adv1 {
				d := detail()
				d["call"] = cl.brief()
				d["cycles_completed_before_call"], d["clock_advances_before_return"], d["file_index"] = cl.Ep0, cl.Adv1, f
				c.Fail("FileLogger:rotation", fmt.Sprintf("line is in day file #%d although %d cycle(s) had completed before the call and %d advance(s) had happened when it returned", f, cl.Ep0, cl.Adv1), d)
			}
		}
		s.checkConcurrent(calls, idx, func(cl *call) string {
			if cl.Ep0 != cl.Adv1 {
				return "FileLogger:line-lost/rotation-window"
			}
			return "FileLogger:line-lost"
		}, detail)
		c.Count("concurrent_rotation_cycles", int64(H))
		c.Distinct(vlib.HashStr(fmt.Sprint(s.desc(), G, M, days)))
	})
}

// ---- 4. retention ---------------------------------------------------------------------------------

type seed struct {
	name    string
	class   string
	content string
	expect  int // 1 keep, -1 remove, 0 either
	age     int64
}

func secRetention(c *vlib.Ctx, n int) {
	curSec = "retention"
	c.Cases("retention", n, func(i int, r *vlib.Rand) {
		day0 := randDay(r)
		t0 := day0*dayMs + int64(r.Range(10*60*1000, 23*3600*1000))
		setVirtual(t0)
		s := newScn(c, r)
		defer s.close()
		s.useApply = r.Chance(7, 8)
		if s.useApply {
			s.keep = pickInt(r, 1, 1, 2, 3, 5, 7, 7, 10, 30, 100, 365, r.Range(1, 60))
			if r.Chance(1, 10) {
				s.keep = pickInt(r, 0, -1, -7)
			}
			s.rot = !r.Chance(1, 12)
			s.interval = 10
		}
		mode := r.Intn(3)
		final := t0
		switch mode {
		case 1:
			final = t0 + int64(r.Range(65*1000, 50*60*1000))
		case 2:
			final = t0 + int64(r.Range(1, 40))*dayMs
		}
		finalDay := dayOf(final)
		os.Mkdir(s.logs, 0o755)
		judge := func(age int64) int {
			if s.keep > 0 {
				if age <= int64(s.keep) {
					return 1
				}
				if s.rot {
					return -1
				}
				return 0
			}
			if age <= int64(s.keep) || age <= 0 {
				return 1
			}
			return 0
		}
		reserved := map[string]bool{
			logName(s.id, s.oname, true, day0): true, logName(s.id, s.oname, true, finalDay): true, logName(s.id, s.oname, false, 0): true}
		var seeds []seed
		have := map[string]bool{}
		add := func(name, class string, expect int, age int64) {
			if reserved[name] || have[name] || name == "" {
				return
			}
			have[name] = true
			seeds = append(seeds, seed{name: name, class: class, content: "seed " + name + " " + string(r.Bytes(r.Intn(120))), expect: expect, age: age})
		}
		onames := []string{s.oname, s.oname, "other", "a-b", ""}
		own := func(oname, date string) string {
			if oname == "" {
				return s.id + "-" + date + ".log"
			}
			return s.id + "-" + oname + "-" + date + ".log"
		}
		kp := int64(s.keep)
		ages := []int64{kp - 1, kp, kp + 1, kp + 2, 1, 2, 400, 3000, -1, -30}
		for _, a := range ages {
			if r.Chance(2, 3) {
				d := finalDay - a
				on := onames[r.Intn(len(onames))]
				cls := "own-recent"
				if judge(a) != 1 {
					cls = "own-expired"
				}
				add(own(on, ymdOfDay(d)), cls, judge(a), a)
			}
		}
		for _, dt := range []string{"19991231", "19700101", "20000101", "20000229"} {
			if r.Chance(1, 3) {
				t, _ := time.Parse("20060102", dt)
				a := finalDay - t.Unix()/86400
				add(own(onames[r.Intn(len(onames))], dt), "own-expired", judge(a), a)
			}
		}
		for _, dt := range []string{"21000101", "99991231", "21500615"} {
			if r.Chance(1, 4) {
				add(own(s.oname, dt), "own-future", 1, -40000)
			}
		}
		expired := ymdOfDay(finalDay - kp - 3 - int64(r.Intn(500)))
		if s.keep <= 0 {
			expired = ymdOfDay(finalDay - 10 - int64(r.Intn(500)))
		}
		foreign := []struct{ name, class string }{
			{s.id + "x-" + s.oname + "-" + expired + ".log", "other-id-suffix"},
			{"x" + s.id + "-" + s.oname + "-" + expired + ".log", "other-id-prefix"},
			{s.id + "_" + s.oname + "-" + expired + ".log", "other-id-suffix"},
			{s.id + expired + ".log", "other-id-suffix"},
			{swapCase(s.id) + "-" + s.oname + "-" + expired + ".log", "other-id-case"},
			{expired + ".log", "other-id-none"},
			{s.id + "-heapdump.log", "nondate-8-chars"},
			{s.id + "-" + s.oname + "-abcdefgh.log", "nondate-8-chars"},
			{s.id + "-" + s.oname + "-2020010a.log", "nondate-8-chars"},
			{s.id + "-" + s.oname + "-+2020010.log", "nondate-8-chars"},
			{s.id + "-" + s.oname + "-0x7d0101.log", "nondate-8-chars"},
			{s.id + "-" + s.oname + "-" + expired[:7] + ".log", "nondate-other-length"},
			{s.id + "-" + s.oname + "-" + expired + "1.log", "nondate-other-length"},
			{s.id + "-" + s.oname + "-.log", "nondate-other-length"},
			{s.id + "-.log", "nondate-other-length"},
			{s.id + "-" + s.oname + "-" + expired, "no-extension"},
			{s.id + "-" + s.oname + "-20201301.log", "invalid-date"},
			{s.id + "-" + s.oname + "-20200230.log", "invalid-date"},
			{s.id + "-" + s.oname + "-20210229.log", "invalid-date"},
			{s.id + "-" + s.oname + "-20200001.log", "invalid-date"},
			{s.id + "-" + s.oname + "-20200100.log", "invalid-date"},
			{s.id + "-" + s.oname + "-20200132.log", "invalid-date"},
			{s.id + "-" + s.oname + "-20200431.log", "invalid-date"},
			{s.id + "-" + s.oname + "-19991301.log", "invalid-date"},
			{s.id + "-" + s.oname + "-19990230.log", "invalid-date"},
			{s.id + "-" + s.oname + "-00000000.log", "invalid-date"},
			{s.id + "-" + s.oname + "-20009999.log", "invalid-date"},
		}
		for _, f := range foreign {
			if r.Chance(1, 2) {
				if f.class == "other-id-case" && swapCase(s.id) == s.id {
					continue
				}
				add(f.name, f.class, 1, 0)
			}
		}
		for _, sd := range seeds {
			os.WriteFile(filepath.Join(s.logs, sd.name), []byte(sd.content), 0o644)
		}
		// sub-directories (one of them named like an expired own file) and files outside logs
		subs := map[string]string{}
		if r.Chance(2, 3) {
			subs[filepath.Join("sub", own(s.oname, expired))] = "inner " + expired
			subs[filepath.Join("sub", "note.txt")] = "note"
		}
		if r.Chance(1, 2) {
			subs[filepath.Join(own(s.oname, ymdOfDay(finalDay-kp-20-3000)), "x.log")] = "inside a directory named like an expired own file"
		}
		outside := map[string]string{"outside.txt": "outside " + s.id, own(s.oname, expired): "expired-looking, but not in logs"}
		for rel, content := range subs {
			os.MkdirAll(filepath.Join(s.logs, filepath.Dir(rel)), 0o755)
			os.WriteFile(filepath.Join(s.logs, rel), []byte(content), 0o644)
		}
		for rel, content := range outside {
			os.WriteFile(filepath.Join(s.home, rel), []byte(content), 0o644)
		}
		s.start()
		switch mode {
		case 0:
			s.fl.VerifClearOldLog()
		default:
			// retention inside the cycle only runs more than one minute after the logger started
			if min := vnow() + 65*1000; final < min {
				final = min
			}
			advanceTo(final)
			s.fl.VerifCycle()
		}
		if dayOf(vnow()) != finalDay {
			c.Inconclusive(fmt.Sprintf("retention#%d", i), "virtual day changed while the scenario ran")
			return
		}
		first, _ := readDirFiles(s.logs)
		s.fl.VerifClearOldLog() // a second pass changes nothing more
		files, dirs := readDirFiles(s.logs)
		detail := func() map[string]interface{} {
			var sl []map[string]interface{}
			for _, sd := range seeds {
				_, ex := files[sd.name]
				sl = append(sl, map[string]interface{}{"name": sd.name, "class": sd.class, "age_days": sd.age,
					"expected": map[int]string{1: "kept", -1: "removed", 0: "either"}[sd.expect], "exists_after": ex})
			}
			return map[string]interface{}{"logger": s.desc(), "virtual_date_of_cycle": ymdOfDay(finalDay), "logger_created_on": ymdOfDay(day0),
				"how": []string{"VerifClearOldLog", "advance >1 min, VerifCycle", "advance days, VerifCycle"}[mode], "seeded": sl, "dirs_after": dirs}
		}
		if len(first) != len(files) {
			c.Fail("FileLogger.clearOldLog:not-idempotent", "a second retention pass at the same time removed more files", detail())
		}
		for _, sd := range seeds {
			got, exists := files[sd.name]
			c.Count("retention_files_judged", 1)
			c.SetAdd("retention_classes_seeded", sd.class)
			switch {
			case sd.expect == 1 && !exists:
				c.Fail("FileLogger.clearOldLog:removed-foreign/"+sd.class, fmt.Sprintf("%q (%s) was removed by retention of log id %q keep-days %d", sd.name, sd.class, s.id, s.keep), detail())
			case sd.expect == -1 && exists:
				c.Fail("FileLogger.clearOldLog:kept-expired", fmt.Sprintf("%q is %d days old (keep-days %d) and was not removed", sd.name, sd.age, s.keep), detail())
			case exists && got != sd.content:
				c.Fail("FileLogger.clearOldLog:modified-foreign/"+sd.class, fmt.Sprintf("%q was modified", sd.name), detail())
			}
			if sd.expect == -1 && !exists {
				c.Count("retention_expired_removed", 1)
				if sd.age == kp+1 {
					c.Count("retention_edge_keep_plus_one_removed", 1)
					switch off := zoneOffsetAt(vnow()); {
					case off > 0:
						c.Count("retention_edge_keep_plus_one_removed_east_of_utc", 1)
					case off < 0:
						c.Count("retention_edge_keep_plus_one_removed_west_of_utc", 1)
					}
				}
			}
			if sd.expect == 1 && exists {
				c.Count("retention_kept_intact", 1)
				if sd.age == kp && s.keep > 0 {
					c.Count("retention_edge_keep_exact_kept", 1)
					switch off := zoneOffsetAt(vnow()); {
					case off > 0:
						c.Count("retention_edge_keep_exact_kept_east_of_utc", 1)
					case off < 0:
						c.Count("retention_edge_keep_exact_kept_west_of_utc", 1)
					}
				}
			}
		}
		// the logger's own files: the one it opened on day0 and the current one
		cur := logName(s.id, s.oname, s.rot, finalDay)
		if _, ok := files[cur]; !ok {
			c.Fail("FileLogger.clearOldLog:removed-foreign/own-current", fmt.Sprintf("current log file %q is gone", cur), detail())
		}
		d0 := logName(s.id, s.oname, true, day0)
		if _, ok := files[d0]; d0 != cur {
			switch m := judge(finalDay - day0); {
			case m == 1 && !ok:
				c.Fail("FileLogger.clearOldLog:removed-foreign/own-recent", fmt.Sprintf("%q (age %d) removed with keep-days %d", d0, finalDay-day0, s.keep), detail())
			case m == -1 && ok:
				c.Fail("FileLogger.clearOldLog:kept-expired", fmt.Sprintf("%q (age %d) kept with keep-days %d", d0, finalDay-day0, s.keep), detail())
			}
		}
		okNames := map[string]bool{cur: true, d0: true}
		for _, sd := range seeds {
			okNames[sd.name] = true
		}
		for _, f := range sortedKeys(files) {
			if !okNames[f] {
				c.Fail("FileLogger:wrong-file-name", fmt.Sprintf("unexpected file %q in logs", f), detail())
			}
		}
		for rel, content := range subs {
			b, err := os.ReadFile(filepath.Join(s.logs, rel))
			if err != nil || string(b) != content {
				c.Fail("FileLogger.clearOldLog:removed-foreign/subdir", fmt.Sprintf("file %q inside a sub-directory of logs is gone or changed", rel), detail())
			}
			c.Count("retention_subdir_files_checked", 1)
		}
		for rel, content := range outside {
			b, err := os.ReadFile(filepath.Join(s.home, rel))
			if err != nil || string(b) != content {
				c.Fail("FileLogger.clearOldLog:removed-foreign/outside-logs", fmt.Sprintf("file %q outside logs is gone or changed", rel), detail())
			}
		}
		c.SetAdd("retention_modes", []string{"direct", "cycle-after-minutes", "cycle-after-days"}[mode])
		c.Distinct(vlib.HashStr(fmt.Sprint(s.desc(), mode, finalDay, len(seeds), seeds)))
		if c.WantSample() && i%17 == 0 {
			c.Sample(map[string]interface{}{"section": "retention", "case": detail()})
		}
	})
}

func swapCase(s string) string {
	b := []byte(s)
	for i, ch := range b {
		switch {
		case ch >= 'a' && ch <= 'z':
			b[i] = ch - 32
		case ch >= 'A' && ch <= 'Z':
			b[i] = ch + 32
		}
	}
	return string(b)
}
