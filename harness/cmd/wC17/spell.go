package main

// How a configuration value is WRITTEN. "All configurations" includes every spelling the logger
// accepts for a value handed over as text: the level name (log_level), the boolean keys
// (log_rotation_enabled, log_stdout_enabled) and the numeric keys (log_keep_days, _log_interval).
//
// The definition of what a spelling means is written down here, independent of golib's code:
//
//   - a configuration value is taken without the blanks around it; an empty value is "not set"
//     (what the production configuration object, conffile.FileConfig, documents and does);
//   - a level name is one of error / warn / info / debug in any mix of upper and lower case;
//     everything else - other words, abbreviations, numbers - is "not a level name" and gives the
//     documented default level, warn;
//   - a boolean is one of 1 t T TRUE true True / 0 f F FALSE false False (the spellings the Go
//     standard library documents for ParseBool); everything else gives the key's default;
//   - an integer is an optional sign and decimal digits that fit 32 bits; everything else gives
//     the key's default.
//
// A scenario first fixes the EFFECTIVE setting (level rank, rotation on/off, …) and then draws a
// spelling that means exactly that; a spelling that means "default" is only drawn when the
// effective setting is the default. modelLevel / modelBool / modelInt re-derive the meaning from
// the text actually written and the worker stops if generator and model ever disagree.

import (
	"fmt"
	"strings"

	"verif/vlib"
)

func trimBlanks(s string) string { return strings.Trim(s, " \t") }

func asciiLower(s string) string {
	b := []byte(s)
	for i, ch := range b {
		if ch >= 'A' && ch <= 'Z' {
			b[i] = ch + 32
		}
	}
	return string(b)
}

// modelLevel: severity rank (0=debug .. 3=error) a log_level text means.
func modelLevel(text string) int {
	switch asciiLower(trimBlanks(text)) {
	case "debug":
		return 0
	case "info":
		return 1
	case "warn":
		return 2
	case "error":
		return 3
	}
	return 2 // not a level name (or not set): the documented default
}

var boolSpell = map[bool][]string{true: {"true", "TRUE", "True", "1", "t", "T"}, false: {"false", "FALSE", "False", "0", "f", "F"}}

func modelBool(text string, def bool) bool {
	t := trimBlanks(text)
	for _, v := range []bool{true, false} {
		for _, sp := range boolSpell[v] {
			if t == sp {
				return v
			}
		}
	}
	return def
}

func modelInt(text string, def int) int {
	t := trimBlanks(text)
	neg := false
	if t != "" && (t[0] == '+' || t[0] == '-') {
		neg = t[0] == '-'
		t = t[1:]
	}
	if t == "" {
		return def
	}
	var v int64
	for i := 0; i < len(t); i++ {
		if t[i] < '0' || t[i] > '9' {
			return def
		}
		v = v*10 + int64(t[i]-'0')
		if v > 1<<31 {
			return def
		}
	}
	if neg {
		v = -v
	}
	if v > 1<<31-1 || v < -(1<<31) {
		return def
	}
	return int(v)
}

// around puts blanks around a value one time in four.
func around(rc *vlib.Rand, text, class string) (string, string) {
	if !rc.Chance(1, 4) {
		return text, class
	}
	pads := []string{" ", "  ", "\t", " \t"}
	switch rc.Intn(3) {
	case 0:
		text = pads[rc.Intn(len(pads))] + text
	case 1:
		text = text + pads[rc.Intn(len(pads))]
	default:
		text = pads[rc.Intn(len(pads))] + text + pads[rc.Intn(len(pads))]
	}
	return text, class + "+blanks-around"
}

func mixCase(rc *vlib.Rand, name string) string {
	for try := 0; ; try++ {
		b := []byte(name)
		for i := range b {
			if rc.Bool() {
				b[i] -= 32
			}
		}
		s := string(b)
		// really mixed: not all lower, not all upper, not just the first letter
		if s != name && s != strings.ToUpper(name) && s != strings.ToUpper(name[:1])+name[1:] {
			return s
		}
		if try > 20 {
			return strings.ToUpper(name[:2]) + name[2:]
		}
	}
}

var notLevelNames = []string{"warning", "information", "err", "trace", "fatal", "verbose", "off", "all", "none", "notice", "critical",
	"w", "inf", "debugg", "errors", "in fo", "warn!", "info,debug", "level=info", "0", "1", "2", "3", "4", "-1", "10", "LOG_LEVEL_INFO", "WARNING", "Trace"}

// spellLevel draws a spelling of the level with severity rank lv.
func spellLevel(rc *vlib.Rand, lv int) (text, class string) {
	name := rankName[lv]
	if lv == 2 && rc.Chance(1, 3) {
		// "not a level name" means the default level
		switch x := rc.Intn(10); {
		case x == 0:
			return "", "empty"
		case x == 1:
			return []string{" ", "\t", "   "}[rc.Intn(3)], "blanks-only"
		default:
			w := notLevelNames[rc.Intn(len(notLevelNames))]
			cl := "not-a-level-name"
			if w[0] >= '0' && w[0] <= '9' || w[0] == '-' {
				cl = "number"
			}
			return around(rc, w, cl)
		}
	}
	switch rc.Intn(5) {
	case 0, 1:
		text, class = name, "lower"
	case 2:
		text, class = strings.ToUpper(name), "UPPER"
	case 3:
		text, class = strings.ToUpper(name[:1])+name[1:], "Capitalised"
	default:
		text, class = mixCase(rc, name), "mIxEd"
	}
	return around(rc, text, class)
}

var notBools = []string{"yes", "no", "on", "off", "Y", "N", "tRUE", "fALSE", "TrUe", "enabled", "disabled", "2", "-1", "10", "01", "true!", "tru", "fals", "truee", "t r u e", "nil"}

// spellBool draws a spelling of v for a key whose default is def.
func spellBool(rc *vlib.Rand, v, def bool) (text, class string) {
	if v == def && rc.Chance(1, 4) {
		switch x := rc.Intn(8); {
		case x == 0:
			return "", "empty"
		case x == 1:
			return " ", "blanks-only"
		default:
			return around(rc, notBools[rc.Intn(len(notBools))], "not-a-boolean")
		}
	}
	sp := boolSpell[v]
	k := rc.Intn(len(sp) + 2)
	if k >= len(sp) {
		k = 0 // the plain lower-case word stays the most frequent one
	}
	class = []string{"lower", "UPPER", "Capitalised", "digit", "letter", "LETTER"}[k]
	return around(rc, sp[k], class)
}

var notInts = []string{"%d.0", "%dd", "0x%d", "%d days", "seven", "%d,0", "%de0", "1_%d", "%d-", "--%d", "99999999999", "2147483648", "-2147483649", "٧"}

// spellInt draws a spelling of v for a key whose default is def.
func spellInt(rc *vlib.Rand, v, def int) (text, class string) {
	if v == def && rc.Chance(1, 4) {
		switch x := rc.Intn(8); {
		case x == 0:
			return "", "empty"
		case x == 1:
			return "\t", "blanks-only"
		default:
			f := notInts[rc.Intn(len(notInts))]
			if strings.Contains(f, "%d") {
				f = fmt.Sprintf(f, v)
			}
			return around(rc, f, "not-an-integer")
		}
	}
	abs := v
	if abs < 0 {
		abs = -abs
	}
	switch x := rc.Intn(8); {
	case x == 0 && v >= 0:
		text, class = fmt.Sprintf("+%d", v), "plus-sign"
	case x == 1:
		sign := ""
		if v < 0 {
			sign = "-"
		}
		text, class = fmt.Sprintf("%s%0*d", sign, len(fmt.Sprint(abs))+1+rc.Intn(3), abs), "leading-zeros"
	case x == 2 && v == 0:
		text, class = "-0", "minus-zero"
	default:
		text, class = fmt.Sprint(v), "plain"
	}
	return around(rc, text, class)
}

// confLine is how key and value are written into a whatap.conf (java properties syntax: blanks
// around the separator belong to neither side; blanks after the value are part of it and are
// dropped by the configuration object).
func confLine(rc *vlib.Rand, key, value string) string {
	sep := []string{"=", "=", " = ", " =", "= ", ":", " : "}[rc.Intn(7)]
	return key + sep + value + "\n"
}
