package main

// ---- 3c. rotation, fine grained -------------------------------------------------------------------
//
// The clock is placed at a random distance before midnight (1 ms … 3 h, biased to the last two
// minutes and the last second) and then moved by steps of every size (a few ms, seconds, under a
// minute, about one minute, minutes, hours, days) that cross one or several day boundaries; small
// steps that stay inside the day, repeated cycles without a step and (in a third of the
// scenarios) steps BACKWARDS across midnight are mixed in, so that the logger's once-a-minute
// retention pass is sometimes taken by a cycle and sometimes not. After every step one explicit
// cycle runs and lines are logged again.
//
// Oracle (no model of the logger's internals): the monitor keeps the set of days its own reading
// of the virtual clock has been in since the last cycle that began and ended on one day
// ("visited"). A line may only be in the file named from one of those days - exactly one file
// once such a cycle has returned: the file of the current virtual date. Files of other days do
// not change once the cycle has returned, no file ever loses earlier content, and no own file
// that was never older than keep-days at any visited date disappears.

import (
	"fmt"
	"os"
	"path/filepath"
	"runtime"
	"sort"
	"strings"

	"verif/vlib"
)

// drawBeforeMidnight: distance to the next midnight in ms.
func drawBeforeMidnight(r *vlib.Rand) int64 {
	switch x := r.Intn(10); {
	case x < 3:
		return int64(pickInt(r, 1, 1, 2, 3, 5, 10, 50, 100, 500, 999, 1000, r.Range(1, 1000), r.Range(1, 1000)))
	case x < 7:
		return int64(pickInt(r, 1001, 5000, 10000, 30000, 59000, 59999, 60000, 60001, 61000, 119999, 120000,
			r.Range(1001, 120000), r.Range(1001, 120000), r.Range(1001, 60000), r.Range(1001, 60000)))
	}
	return int64(r.Range(120001, 3*3600*1000))
}

// drawAdvance: size of one clock step in ms.
func drawAdvance(r *vlib.Rand) int64 {
	switch r.Intn(14) {
	case 0, 1:
		return int64(r.Range(1, 50))
	case 2, 3:
		return int64(r.Range(1000, 10000))
	case 4, 5, 6:
		return int64(r.Range(10001, 59900))
	case 7, 8:
		return 60000 + int64(pickInt(r, -1, 0, 1, -1, 0, 1, r.Range(-60, 60)))
	case 9, 10:
		return int64(r.Range(60100, 3600*1000))
	case 11:
		return int64(r.Range(3600*1000+1, int(dayMs)-1))
	}
	k := pickDays(r)
	if k == 0 {
		k = 1
	}
	return k*dayMs + int64(pickInt(r, 0, 0, r.Range(-3*3600*1000, 3*3600*1000)))
}

func drawSmallAdvance(r *vlib.Rand) int64 {
	switch r.Intn(6) {
	case 0:
		return int64(r.Range(1, 50))
	case 1:
		return int64(r.Range(1000, 10000))
	case 2, 3:
		return int64(r.Range(10001, 59900))
	case 4:
		return 60000 + int64(pickInt(r, -1, 0, 1, r.Range(-60, 60)))
	}
	return int64(r.Range(60100, 10*60*1000))
}

func stepClass(a int64) string {
	if a < 0 {
		a = -a
	}
	switch {
	case a < 1000:
		return "ms"
	case a <= 10000:
		return "seconds"
	case a < 59900:
		return "under-60s"
	case a <= 60100:
		return "about-60s"
	case a < 3600*1000:
		return "minutes"
	case a < dayMs:
		return "hours"
	}
	return "days"
}

func secRotationFine(c *vlib.Ctx, n int) {
	c.Cases("rotation-fine", n, func(i int, r *vlib.Rand) { fineScenario(c, "rotation-fine", i, r, false, false) })
}

// secRotationConstruct: the date changes right after the constructor has returned (possibly
// before the logger's own goroutine has executed its first statement), then cycle, then lines.
func secRotationConstruct(c *vlib.Ctx, n int) {
	c.Cases("rotation-construct", n, func(i int, r *vlib.Rand) { fineScenario(c, "rotation-construct", i, r, true, false) })
}

// secRotationOpenFailure: the same scenarios, but most cycles that have to open a new file (and
// a few that do not) first run with an obstacle that makes the open fail (faults.go); lines are
// logged while it is there; then it is removed, the cycle runs once or twice and the fault-free
// oracle applies again: lines are in the file of the current virtual date.
func secRotationOpenFailure(c *vlib.Ctx, n int) {
	c.Cases("rotation-open-failure", n, func(i int, r *vlib.Rand) {
		probeFaults(c)
		fineScenario(c, "rotation-open-failure", i, r, false, true)
	})
}

// keyOpenFailure is the key of rotation failures in scenarios in which opening a file had been
// made to fail for a while.
const keyOpenFailure = "FileLogger:rotation/after-open-failure"

// keyNewborn is the key of rotation failures in scenarios in which the date changed between the
// constructor opening the first file and the end of the logger's start-up.
const keyNewborn = "FileLogger:rotation/date-changed-right-after-creation"

func fineScenario(c *vlib.Ctx, section string, i int, r *vlib.Rand, construct, faulty bool) {
	curSec = section
	day0 := randDay(r)
	mid := (day0 + 1) * dayMs
	d := drawBeforeMidnight(r)
	// the logger is created `lead` ms before the start instant; creating it takes real time
	// (seconds on a loaded machine), so it is never created less than 10 s before midnight
	lead := int64(pickInt(r, 0, 0, 0, 2000, 30000, 59000, 61000, 300000))
	if d+lead < 10000 {
		lead = int64(pickInt(r, 10000, 15000, 30000))
	}
	jumpTo, procs1 := int64(-1), false
	if construct {
		d, lead = int64(pickInt(r, 1000, 2000, 5000, 30000, r.Range(1000, 30000), r.Range(1000, 30000))), 0
		over := int64(pickInt(r, 0, 1, r.Range(2, 50), r.Range(1000, 10000), r.Range(10000, 59000), 59999, 60001,
			r.Range(60100, 3600*1000), r.Range(3600*1000, int(dayMs)-1)))
		if r.Chance(1, 6) {
			over += int64(r.Range(1, 400)) * dayMs
		}
		jumpTo = mid + over
		procs1 = r.Chance(3, 4)
	}
	setVirtual(mid - d - lead)
	s := newScn(c, r)
	defer s.close()
	var active *fault // the obstacle that is in place right now
	defer func() {
		if active != nil {
			active.remove()
		}
	}()
	hadFault, inFault := false, false
	faultLine := map[*call]bool{}
	var faultClasses []string
	s.useApply = r.Chance(3, 4)
	if s.useApply {
		s.interval = pickInt(r, 0, 0, 10)
		s.rot = !r.Chance(1, 6)
		s.keep = pickInt(r, 0, -1, 20000, 20000, 20000, r.Range(1, 12), r.Range(1, 12), r.Range(1, 400))
	}
	allowBack := r.Chance(1, 3)
	nSteps := r.Range(1, 5)
	if construct {
		nSteps = r.Range(1, 3)
		s.afterNew = func() { setVirtual(jumpTo) }
	}
	oldProcs := 0
	restoreProcs := func() {
		if oldProcs > 0 {
			runtime.GOMAXPROCS(oldProcs)
			oldProcs = 0
		}
	}
	defer restoreProcs()
	if procs1 {
		// one P: the logger's goroutine has not run yet when the constructor returns
		oldProcs = runtime.GOMAXPROCS(1)
	}
	s.start()
	restoreProcs()

	name := func(day int64) string { return logName(s.id, s.oname, s.rot, day) }
	visited := map[int64]bool{}
	everNames := map[string]bool{logName(s.id, s.oname, true, day0): true} // the constructor opens a dated file first
	tracked := map[string]int64{}                                          // own dated files known to exist → their day
	visit := func(t int64) {
		dd := dayOf(t)
		visited[dd] = true
		everNames[name(dd)] = true
	}
	visitedDays := func() []int64 {
		var out []int64
		for dd := range visited {
			out = append(out, dd)
		}
		sort.Slice(out, func(a, b int) bool { return out[a] < out[b] })
		return out
	}
	allowedNames := func() []string {
		seen := map[string]bool{}
		var out []string
		for _, dd := range visitedDays() {
			if nm := name(dd); !seen[nm] {
				seen[nm] = true
				out = append(out, nm)
			}
		}
		return out
	}
	visit(mid - d - lead)
	if construct {
		visit(jumpTo)
	}
	visit(vnow())
	for dd := range visited {
		everNames[logName(s.id, s.oname, true, dd)] = true
	}
	// the date changed while the logger was being created (deliberately, or because creating
	// it took longer than the distance to midnight)
	newborn := len(visited) > 1
	// own dated files that exist now. (Which day's file the constructor opened is only certain
	// when the date did not change during start-up; and until ApplyConfig the logger ran with the
	// default keep-days 7, so a cycle of its own goroutine may already have pruned that file.)
	atStart, _ := readDirFiles(s.logs)
	for dd := range visited {
		nm := logName(s.id, s.oname, true, dd)
		if _, ok := atStart[nm]; ok {
			tracked[nm] = dd
		}
	}
	if newborn && !construct {
		c.Count("fine_scenarios_date_changed_during_creation", 1)
	}

	var calls []*call
	allowed := map[*call][]string{}
	afterCycle := map[*call]bool{}
	seq := 0
	cycles := 0
	batch := func(k int) {
		for j := 0; j < k; j++ {
			ep := r.Intn(nEP)
			id := fmt.Sprintf("WF%08d", seq) // unique id per line: the rate limiter never applies
			cl := buildCall(r, 0, seq, ep, id)
			cl.Lvl = s.level
			seq++
			cl.B = vnow()
			visit(cl.B)
			cl.invoke(s.fl)
			cl.A = vnow()
			visit(cl.A)
			calls = append(calls, cl)
			allowed[cl] = allowedNames()
			afterCycle[cl] = cycles > 0
			if inFault {
				faultLine[cl] = true
			}
		}
	}

	var stepLog []map[string]interface{}
	var plan []string
	files := map[string]string{}
	hadBack := false
	detail := func() map[string]interface{} {
		m := map[string]interface{}{"logger": s.desc(), "created_on": ymdOfDay(day0), "created_ms_before_midnight": d + lead,
			"start_instant_ms_before_midnight": d, "steps": stepLog, "files_in_logs": sortedKeys(files), "calls": briefCalls(calls, 60)}
		if construct {
			m["clock_set_right_after_constructor_returned_to_ms_after_midnight"] = jumpTo - mid
			m["one_P_while_creating"] = procs1
		}
		if newborn {
			m["date_changed_while_logger_was_created"] = true
		}
		if hadFault {
			m["open_made_to_fail_by"] = faultClasses
		}
		return m
	}
	rotKey := func() string {
		if hadFault {
			return keyOpenFailure
		}
		if newborn {
			return keyNewborn
		}
		if hadBack {
			return "FileLogger:rotation/clock-stepped-back"
		}
		return "FileLogger:rotation"
	}
	expired := func(age int64) bool { // may retention have removed an own dated file of this age?
		if s.keep > 0 {
			return age > int64(s.keep)
		}
		return age > 0
	}

	judged := 0
	lastLine := map[string]int{}
	judge := func() {
		s.locate(files, calls, detail)
		for nm := range lastLine {
			if _, ok := files[nm]; !ok {
				delete(lastLine, nm)
			}
		}
		for _, cl := range calls[judged:] {
			names := allowed[cl]
			if s.gated(cl) {
				c.Count("calls_below_level", 1)
				if cl.present {
					dd := detail()
					dd["call"] = cl.brief()
					c.Fail("FileLogger:level-gate", fmt.Sprintf("%s line written although the level is %s", epName[cl.EP], rankName[cl.Lvl]), dd)
				}
				continue
			}
			if faultLine[cl] {
				// logged while the obstacle was there (or before the first cycle after its removal):
				// the line may be in the old file or dropped, but never in a file of another name
				if !cl.present {
					c.Count("open_failure_lines_during_fault_dropped", 1)
					continue
				}
				okFile := false
				for _, nm := range names {
					if nm == cl.file {
						okFile = true
					}
				}
				if !okFile {
					dd := detail()
					dd["call"], dd["allowed_files"] = cl.brief(), names
					c.Fail(keyOpenFailure, fmt.Sprintf("line logged while the file could not be opened is in %q, a file of none of the dates the clock has been in (%v)", cl.file, names), dd)
				}
				c.Count("open_failure_lines_during_fault_written", 1)
				continue
			}
			if !cl.present {
				gone := false
				for _, nm := range names {
					if _, ok := files[nm]; !ok {
						gone = true
					}
				}
				if gone {
					continue // one of its possible files was pruned in this very cycle
				}
				key := "FileLogger:line-lost"
				if len(names) > 1 {
					key = "FileLogger:line-lost/rotation-window"
				}
				if hadFault {
					key = keyOpenFailure
				}
				dd := detail()
				dd["call"], dd["allowed_files"] = cl.brief(), names
				c.Fail(key, fmt.Sprintf("%s line is in none of %v", epName[cl.EP], names), dd)
				continue
			}
			okFile := false
			for _, nm := range names {
				if nm == cl.file {
					okFile = true
				}
			}
			if !okFile {
				dd := detail()
				dd["call"], dd["allowed_files"] = cl.brief(), names
				c.Fail(rotKey(), fmt.Sprintf("line logged after the cycle is in %q, not in %v (file of the current virtual date)", cl.file, names), dd)
				continue
			}
			if len(names) == 1 && afterCycle[cl] && s.rot {
				c.Count("fine_lines_after_cycle_in_current_file", 1)
			}
			if len(names) == 1 && hadFault {
				c.Count("open_failure_lines_after_recovery_in_current_file", 1)
			}
			if cl.line <= lastLine[cl.file] {
				dd := detail()
				dd["call"] = cl.brief()
				c.Fail("FileLogger:order", "a later call's line precedes an earlier call's line in the same file", dd)
			}
			lastLine[cl.file] = cl.line
		}
		judged = len(calls)
	}

	curDay := day0
	if len(visited) > 1 {
		curDay = -1
	}
	// one step: optional clock move, optional lines before the cycle, cycle, lines, verdicts
	doStep := func(kind string, target int64, between bool, withFault bool) {
		pre, _ := readDirFiles(s.logs)
		from := vnow()
		visit(from)
		moved := target >= 0
		var flt *fault
		if withFault {
			// the obstacle is in place before the date changes (the logger's own timer may run the
			// cycle at any moment after that)
			tday := dayOf(from)
			if moved {
				tday = dayOf(target)
			}
			cls := s.faultClasses(name(tday))
			flt = s.newFault(cls[r.Intn(len(cls))], name(tday))
			if err := flt.inject(); err != nil {
				c.Count("open_failure_obstacle_could_not_be_installed", 1)
				flt = nil
			} else {
				active, hadFault, inFault, s.ownDiag = flt, true, true, true
				faultClasses = append(faultClasses, flt.class)
			}
		}
		if moved {
			setVirtual(target)
			visit(target)
			if target < from {
				hadBack = true
			}
		}
		nB := 0
		if between {
			nB = r.Range(1, 3)
			batch(nB)
		}
		nFaultCycles, absent, nRecover := 0, 0, 1
		if flt != nil {
			// nothing in here opens a file or reports (the obstacle may be "no descriptor left")
			nFaultCycles = r.Range(1, 3)
			for k := 0; k < nFaultCycles; k++ {
				visit(vnow())
				s.fl.VerifCycle()
				visit(vnow())
				cycles++
				if fi, err := os.Lstat(filepath.Join(s.logs, name(dayOf(vnow())))); err != nil || !fi.Mode().IsRegular() {
					absent++
				}
				batch(r.Range(1, 3))
			}
			flt.remove()
			active = nil
			if r.Chance(1, 3) {
				batch(r.Range(1, 2)) // the obstacle is gone, the cycle has not run yet
			}
			inFault = false
			nRecover = r.Range(1, 2)
		}
		cb := vnow()
		visit(cb)
		for k := 0; k < nRecover; k++ {
			s.fl.VerifCycle()
		}
		ca := vnow()
		visit(ca)
		cycles++
		prior := visitedDays()
		decisive := dayOf(cb) == dayOf(ca)
		D := dayOf(ca)
		if decisive {
			visited = map[int64]bool{D: true}
		} else {
			c.Count("fine_cycles_spanning_midnight", 1)
		}
		snapA, _ := readDirFiles(s.logs)
		nC := r.Range(1, 5)
		batch(nC)
		files, _ = readDirFiles(s.logs)
		st := map[string]interface{}{"kind": kind, "vclock_before_step": from, "date_before_step": ymdOf(from), "vclock_at_cycle": cb,
			"date_at_cycle": ymdOf(ca), "lines_between_step_and_cycle": nB, "lines_after_cycle": nC, "file_after_cycle": name(D)}
		if moved {
			st["step_ms"], st["vclock_target"], st["step_class"] = target-from, target, stepClass(target-from)
		}
		if flt != nil {
			st["open_made_to_fail_by"], st["cycles_while_failing"], st["cycles_after_obstacle_removed"] = flt.class, nFaultCycles, nRecover
			st["cycles_while_failing_after_which_the_file_was_absent"] = absent
			c.Count("open_failure_steps", 1)
			c.Count("open_failure_cycles_under_fault", int64(nFaultCycles))
			c.SetAdd("open_failure_classes_exercised", flt.class)
			needsOpen := dayOf(ca) != dayOf(from)
			if _, ok := pre[name(dayOf(ca))]; !ok {
				needsOpen = true
			}
			if needsOpen {
				c.Count("open_failure_steps_that_had_to_open_a_file", 1)
				c.SetAdd("open_failure_families_on_a_date_change", faultFamily(flt.class))
			}
			if needsOpen && absent > 0 {
				c.Count("open_failure_steps_file_absent_while_failing", 1)
				c.SetAdd("open_failure_classes_observed_to_block_the_open", flt.class)
			} else if needsOpen {
				c.Count("open_failure_steps_file_opened_despite_obstacle", 1)
				c.SetAdd("open_failure_classes_observed_not_to_block_the_open", flt.class)
			}
		}
		stepLog = append(stepLog, st)

		// after the cycle the file of the current virtual date exists
		if decisive {
			if _, ok := snapA[name(D)]; !ok {
				c.Fail(rotKey(), fmt.Sprintf("after the cycle on %s the file %q does not exist", ymdOfDay(D), name(D)), detail())
			} else if s.rot {
				tracked[name(D)] = D
			}
		}
		// no file loses earlier content
		for _, nm := range sortedKeys(pre) {
			if now, ok := snapA[nm]; ok && !strings.HasPrefix(now, pre[nm]) {
				dd := detail()
				dd["file"] = nm
				c.Fail(rotKey(), fmt.Sprintf("file %q was rewritten (its earlier content is no longer a prefix)", nm), dd)
			}
		}
		// files of other days are frozen once the cycle has returned
		cur := map[string]bool{}
		for _, nm := range allowedNames() {
			cur[nm] = true
		}
		for _, nm := range sortedKeys(snapA) {
			if cur[nm] {
				continue
			}
			if now, ok := files[nm]; ok && now != snapA[nm] {
				dd := detail()
				dd["file"], dd["appended_after_cycle"] = nm, clip(strings.TrimPrefix(now, snapA[nm]), 300)
				c.Fail(rotKey(), fmt.Sprintf("file %q of another day changed after the cycle had returned", nm), dd)
			} else if ok {
				c.Count("fine_other_day_files_unchanged_after_cycle", 1)
			}
		}
		// own dated files: gone only if older than keep-days at some visited date
		days := append(prior, visitedDays()...)
		var tnames []string
		for nm := range tracked {
			tnames = append(tnames, nm)
		}
		sort.Strings(tnames)
		for _, nm := range tnames {
			if _, ok := files[nm]; ok {
				continue
			}
			may := false
			for _, v := range days {
				if expired(v - tracked[nm]) {
					may = true
				}
			}
			if !may {
				dd := detail()
				dd["file"], dd["age_days"] = nm, D-tracked[nm]
				c.Fail("FileLogger.clearOldLog:removed-foreign/own-recent", fmt.Sprintf("own file of age %d days removed with keep-days %d", D-tracked[nm], s.keep), dd)
			} else {
				c.Count("fine_old_file_expired_and_removed", 1)
			}
			delete(tracked, nm)
		}
		for _, f := range sortedKeys(files) {
			if !everNames[f] {
				c.Fail("FileLogger:wrong-file-name", fmt.Sprintf("unexpected file %q in logs", f), detail())
			}
		}
		judge()
		if decisive {
			if construct && cycles == 1 && s.rot {
				c.Count("construct_date_changed_after_creation_then_cycled", 1)
				if procs1 {
					c.Count("construct_date_changed_after_creation_then_cycled_one_P", 1)
				}
				c.SetAdd("construct_jump_classes", stepClass(jumpTo-(mid-d)))
			}
			if curDay >= 0 && D != curDay && s.rot {
				cls := "natural"
				if moved {
					cls = stepClass(target - from)
				}
				if D < curDay {
					c.Count("fine_backward_day_boundaries_crossed_then_cycled", 1)
					c.SetAdd("fine_backward_step_classes", cls)
				} else {
					c.Count("fine_day_boundaries_crossed_then_cycled", 1)
					c.SetAdd("fine_crossing_step_classes", cls)
					if cls == "ms" || cls == "seconds" || cls == "under-60s" || cls == "about-60s" {
						c.Count("fine_crossings_by_steps_up_to_one_minute", 1)
					}
				}
			}
			if curDay >= 0 && D == curDay {
				c.Count("fine_cycles_without_date_change", 1)
			}
			curDay = D
		} else {
			curDay = -1
		}
	}

	if construct {
		plan = append(plan, fmt.Sprint("newborn-jump:", jumpTo-mid, ":", procs1))
		doStep("first-cycle-after-date-change-right-after-creation", -1, r.Chance(1, 3), false)
	} else {
		batch(r.Range(1, 5))
	}
	if lead > 0 {
		// move to the start instant, with or without a cycle there
		plan = append(plan, "to-start")
		if r.Chance(1, 2) {
			doStep("to-start-instant", mid-d, false, false)
		} else if mid-d > vnow() {
			visit(vnow())
			setVirtual(mid - d)
			visit(mid - d)
			batch(r.Range(0, 2))
		}
	}
	pendingCross := !construct
	if construct {
		nSteps--
	}
	for st := 0; st < nSteps; st++ {
		now := vnow()
		nextMid := (dayOf(now) + 1) * dayMs
		kind, target := "", int64(-1)
		x := r.Intn(10)
		if pendingCross {
			x = 9
		}
		if (x == 6 || x == 7) && !allowBack {
			x = 4
		}
		switch {
		case x <= 3: // approach the next midnight, cross it with the following step
			d2 := drawBeforeMidnight(r)
			kind, target = "approach-midnight", nextMid-d2
			if target <= now {
				kind, target = "cycle-again", -1
			}
			pendingCross = true
			plan = append(plan, fmt.Sprint("approach:", d2))
		case x <= 5:
			a := drawSmallAdvance(r)
			kind, target = "small-step", now+a
			plan = append(plan, fmt.Sprint("small:", a))
		case x <= 7: // back across the most recent midnight (or several)
			e := drawBeforeMidnight(r)
			k := int64(pickInt(r, 0, 0, 0, 1, r.Range(1, 40)))
			kind, target = "step-back-across-midnight", (dayOf(now)-k)*dayMs-e
			pendingCross = r.Chance(2, 3)
			plan = append(plan, fmt.Sprint("back:", k, ":", e))
		case x == 8:
			kind = "cycle-again"
			plan = append(plan, "again")
		default:
			pendingCross = false
			a := drawAdvance(r)
			over := int64(pickInt(r, 0, 0, 1, 2, r.Range(3, 50), r.Range(1000, 10000), r.Range(10000, 59000), r.Range(60000, 600000)))
			stay := r.Chance(1, 6)
			kind, target = "step-across-midnight", now+a
			if target < nextMid && !stay {
				target = nextMid + over
			}
			plan = append(plan, fmt.Sprint("cross:", a, ":", over, ":", stay))
		}
		between := target >= 0 && r.Chance(1, 3)
		withFault := false
		if faulty {
			if target >= 0 && dayOf(target) != dayOf(now) {
				withFault = r.Chance(4, 5)
			} else {
				withFault = r.Chance(1, 6)
			}
		}
		doStep(kind, target, between, withFault)
	}
	if faulty {
		c.Count("open_failure_scenarios", 1)
	}
	if !construct {
		c.Count("fine_scenarios", 1)
		if hadBack {
			c.Count("fine_scenarios_with_backward_step", 1)
		}
	}
	c.Distinct(vlib.HashStr(fmt.Sprint(section, s.desc(), day0, d, lead, plan)))
	if c.WantSample() && i%13 == 0 {
		c.Sample(map[string]interface{}{"section": section, "logger": s.desc(), "created_on": ymdOfDay(day0), "open_made_to_fail_by": faultClasses,
			"start_instant_ms_before_midnight": d, "steps": stepLog, "files_at_end": sortedKeys(files)})
	}
}
