// Histories: Cardinality() and GetBytes() are observations that may come anywhere between
// mutations of one object. The property makes the estimate a function of the state ("serializing
// then rebuilding a counter preserves its state and estimate", "merging … yields exactly the
// state of a counter that saw the union"), so whatever the call history of an object was, every
// observation must agree with (a) the reference model of the registers, (b) the independent
// evaluation of the estimator on the registers unpacked from GetBytes() of that same object at
// that moment and (c) a counter freshly rebuilt from those bytes. Derived state that an
// implementation keeps next to the registers (an estimate, a count of empty registers, a
// serialized form) and forgets to refresh on one of the mutation paths shows up only when an
// observation precedes the mutation on the same object and another one follows it, so the
// schedule of observations and mutations is drawn at random.
package main

import (
	"bytes"
	"fmt"

	"github.com/whatap/golib/util/hll"

	"verif/vlib"
)

// obsVariants: the order of the calls that make one observation (B = GetBytes, C = Cardinality).
var obsVariants = []string{"BC", "CB", "BCB", "CCBB", "BBCC", "CBC", "C", "CC"}

// observe makes one observation of h, whose registers the model md predicts, and checks it.
// after: see crossCheck. regKey is the finding key for a register mismatch with the model.
// Returns the estimate and the byte form observed.
func (w *W) observe(regKey string, h *hll.HyperLogLog, md *model, variant, after int, det func() map[string]interface{}) (uint64, []byte) {
	c := w.c
	order := obsVariants[variant%len(obsVariants)]
	var bs [][]byte
	var bsAt []int
	var cs []uint64
	take := func(k int) { // copied (into reused buffers): what was returned at this moment
		w.bufs[len(bs)] = append(w.bufs[len(bs)][:0], h.GetBytes()...)
		bs = append(bs, w.bufs[len(bs)])
		bsAt = append(bsAt, k)
	}
	for k, ch := range order {
		if ch == 'B' {
			take(k)
		} else {
			cs = append(cs, h.Cardinality())
		}
	}
	if len(bs) == 0 { // the estimate alone was asked for; the state is read afterwards
		take(len(order))
	}
	c.Count("observations", 1)
	c.SetAdd("observation_call_orders", order)
	for k := 1; k < len(bs); k++ {
		if !bytes.Equal(bs[k], bs[0]) {
			d := det()
			d["calls"] = order
			d["bytes_first"], d["bytes_again"] = vlib.Hex(bs[0]), vlib.Hex(bs[k])
			c.Fail("GetBytes:not-repeatable", fmt.Sprintf("p=%d: calls %q (B=GetBytes, C=Cardinality) on one counter with no mutation in between: GetBytes() at call %d differs from GetBytes() at call %d", md.p, order, bsAt[k], bsAt[0]), d)
		}
	}
	for k := 1; k < len(cs); k++ {
		if cs[k] != cs[0] {
			d := det()
			d["calls"] = order
			d["cardinalities"] = cs
			c.Fail("Cardinality:not-repeatable", fmt.Sprintf("p=%d: calls %q (B=GetBytes, C=Cardinality) on one counter with no mutation in between: Cardinality() returned %v", md.p, order, cs), d)
		}
	}
	regs := w.checkRegsBytes(regKey, bs[0], md, func() map[string]interface{} {
		d := det()
		d["calls"] = order
		return d
	})
	if regs == nil {
		if _, r2, problem := unpack(bs[0]); problem == "" {
			regs = r2 // the estimate is still held against the registers this object reports
			md = &model{p: md.p, regs: r2}
		}
	}
	w.judgeCard(cs[0], regs, md, -1, false, func() map[string]interface{} {
		d := det()
		d["calls"] = order
		d["note"] = "n is not tracked in this section"
		return d
	})
	c.Count("cardinality_evaluations_interleaved", 1)
	w.crossCheck(h, cs[0], bs[0], after, det)
	return cs[0], bs[0] // bs[0] is valid until the next observation
}

type hslot struct {
	h        *hll.HyperLogLog
	md       *model
	known    []item   // a sample of the items this counter has seen (for duplicates)
	observed bool     // this object has been observed before
	since    []string // kinds of mutation since the last observation of this object (or since it was made)
	origin   string   // how this object came to be, until its first observation
}

func (s *hslot) learn(r *vlib.Rand, its []item) {
	for _, it := range its {
		if len(s.known) < 512 {
			s.known = append(s.known, it)
		} else if r.Intn(4) == 0 {
			s.known[r.Intn(len(s.known))] = it
		}
	}
}

// grows tells whether merging o into md changes md.
func (md *model) grows(o *model) bool {
	for i, v := range o.regs {
		if v > md.regs[i] {
			return true
		}
	}
	return false
}

func (w *W) history(i int, r *vlib.Rand) {
	c := w.c
	p := 4 + i%13
	m := 1 << uint(p)
	k := r.Range(2, 4)
	budget := []int{6, m/4 + 6, m, 3 * m, 6 * m}[r.Intn(5)]
	if p >= 14 && budget > 3*m {
		budget = 3 * m
	}
	pool, sp := genItems(r, budget)
	if r.Intn(3) == 0 {
		// a share of the pool are items of high rank for this precision, several per register
		var nhr int
		if pool, nhr = mixHighRank(r, p, pool); nhr > 0 {
			sp.Kind += "+high-rank"
			c.Count("history_high_rank_items", int64(nhr))
			c.Count("histories_with_high_rank_items", 1)
		}
	}
	used := 0
	var log []string
	fails := 0
	det := func() map[string]interface{} {
		d := map[string]interface{}{"precision": p, "counters": k, "pool_generator": sp, "history": append([]string(nil), log...),
			"note": "pool[a:b] are items a..b-1 of the pool made by the generator; the case is regenerated from its id and seed"}
		if fails++; fails <= 4 && used <= 400 {
			d["pool_used"] = itemStrings(pool[:used])
		}
		return d
	}
	note := func(f string, a ...interface{}) {
		if len(log) < 200 {
			log = append(log, fmt.Sprintf(f, a...))
		}
	}
	mism := 0
	slots := make([]*hslot, k)
	sent := w.newSentinels(r, p)

	batch := func() int {
		switch r.Intn(8) {
		case 0, 1:
			return 1
		case 2, 3:
			return 1 + r.Intn(8)
		case 4:
			return m/16 + 1
		case 5:
			return m/4 + 1
		case 6:
			return m/2 + r.Intn(m+1)
		default:
			return 1 + r.Intn(2*m)
		}
	}
	// offer gives items to slot j and records whether a register grew
	offer := func(j int, its []item, what string) {
		s := slots[j]
		grew := false
		for _, it := range its {
			if idx, rk := s.md.place(it.v); rk > s.md.regs[idx] {
				grew = true // according to the reference; offerBoth compares the counter's answer
			}
			w.offerBoth(s.h, s.md, it, &mism, det)
		}
		kind := "Offer-nogrow"
		if grew {
			kind = "Offer-grow"
		}
		s.since = append(s.since, kind)
		s.learn(r, its)
		c.Count("offers", int64(len(its)))
		c.Count("history_mutations", 1)
		c.Count("history_mutation/"+kind, 1)
		note("c%d: offer %d items (%s) -> %s", j, len(its), what, kind)
	}
	offerNew := func(j int) {
		b := batch()
		if b > len(pool)-used {
			b = len(pool) - used
		}
		if b == 0 {
			if used == 0 {
				return
			}
			its := make([]item, 1+r.Intn(8))
			for x := range its {
				its[x] = pool[r.Intn(used)]
			}
			offer(j, its, "drawn from the part of the pool already used")
			return
		}
		offer(j, pool[used:used+b], fmt.Sprintf("pool[%d:%d], new to every counter", used, used+b))
		used += b
	}
	offerDup := func(j int) {
		s := slots[j]
		if len(s.known) == 0 {
			offerNew(j)
			return
		}
		its := make([]item, 1+r.Intn(12))
		for x := range its {
			its[x] = s.known[r.Intn(len(s.known))]
		}
		offer(j, its, "items this counter has seen before")
	}
	fresh := func(origin string, h *hll.HyperLogLog, md *model, known []item) *hslot {
		return &hslot{h: h, md: md, known: append([]item(nil), known...), origin: origin, since: []string{origin}}
	}
	intact := func(what string, s *hslot, before []byte) {
		if before != nil && !bytes.Equal(s.h.GetBytes(), before) {
			d := det()
			d["bytes_before"], d["bytes_after"] = vlib.Hex(before), vlib.Hex(s.h.GetBytes())
			c.Fail("Merge:modifies-input", fmt.Sprintf("p=%d: %s changed its argument", p, what), d)
		}
	}
	observe := func(j int) {
		s := slots[j]
		variant, after := r.Intn(len(obsVariants)), r.Intn(3)
		note("c%d: observe %s, then %s", j, obsVariants[variant], []string{"nothing", "Cardinality, GetBytes again", "GetBytes, Cardinality again"}[after])
		w.observe("history:register-differs", s.h, s.md, variant, after, det)
		c.Count("history_observations", 1)
		switch {
		case !s.observed:
			c.Count("first_observation_of_"+s.origin, 1)
		case len(s.since) == 0:
			c.Count("observe_observe", 1)
		default:
			c.Count("observe_mutate_observe", 1)
			only := s.since[0]
			for _, kd := range s.since {
				if kd != only {
					only = ""
				}
			}
			if only != "" {
				c.Count("observe_only_"+only+"_observe", 1)
			}
			c.Max("max_mutations_between_observations", int64(len(s.since)))
		}
		s.observed = true
		s.since = s.since[:0]
	}

	// starting objects: new, or holding items nobody has observed yet, or rebuilt from bytes
	for j := range slots {
		slots[j] = fresh("New", newCounter(r, p), newModel(p), nil)
		if slots[j].h == nil {
			c.Fail("history:register-differs", fmt.Sprintf("constructor returned nil for precision %d", p), det())
			return
		}
		note("c%d: new counter", j)
		if r.Intn(3) == 0 {
			offerNew(j)
		}
	}

	// Serialized snapshots handed out earlier belong to the caller: the slices themselves are
	// kept (not copies) and must still hold the same bytes after anything done later, and
	// writing into one must not reach the counter it came from.
	type heldSnap struct {
		ref, want []byte
		who       string
	}
	var held []heldSnap
	hold := func(j int) {
		b := slots[j].h.GetBytes()
		held = append(held, heldSnap{b, append([]byte(nil), b...), fmt.Sprintf("c%d.GetBytes() taken at log line %d", j, len(log))})
		note("c%d: snapshot kept by the caller", j)
		c.Count("snapshots_held", 1)
	}
	checkHeld := func() {
		for x := range held {
			if !bytes.Equal(held[x].ref, held[x].want) {
				d := det()
				d["snapshot"], d["had"], d["has_now"] = held[x].who, vlib.Hex(held[x].want), vlib.Hex(held[x].ref)
				c.Fail("GetBytes:result-altered-later", fmt.Sprintf("p=%d: the bytes returned by %s changed after later calls on the counters (the returned slice is not the caller's own)", p, held[x].who), d)
				held[x].want = append([]byte(nil), held[x].ref...)
			}
			c.Count("held_snapshot_checks", 1)
		}
	}
	scribble := func() {
		if len(held) == 0 {
			return
		}
		x := r.Intn(len(held))
		for y := range held[x].ref {
			held[x].ref[y] = 0xA5
		}
		held[x].want = append([]byte(nil), held[x].ref...)
		note("caller overwrites its snapshot (%s)", held[x].who)
		c.Count("snapshots_scribbled", 1)
		for j := range slots { // no counter may have been reached by that write
			w.observe("GetBytes:result-aliases-state", slots[j].h, slots[j].md, 0, 0, det)
		}
	}

	steps := r.Range(6, 36)
	obsPct := []int{30, 50, 70}[r.Intn(3)]
	for st := 0; st < steps; st++ {
		checkHeld()
		j := r.Intn(k)
		s := slots[j]
		if r.Intn(10) == 0 {
			hold(j)
			continue
		}
		if r.Intn(25) == 0 {
			scribble()
			continue
		}
		if r.Intn(100) < obsPct {
			observe(j)
			continue
		}
		switch op := r.Intn(16); {
		case op < 4:
			offerNew(j)
		case op < 6:
			offerDup(j)
		case op < 7:
			if used > 0 {
				its := make([]item, 1+r.Intn(8))
				for x := range its {
					its[x] = pool[r.Intn(used)]
				}
				offer(j, its, "drawn from the part of the pool already used")
			}
		case op < 11: // AddAll: in-place union
			var src *hslot
			var what string
			switch r.Intn(8) {
			case 0:
				src, what = s, fmt.Sprintf("c%d itself", j)
			case 1:
				src, what = fresh("New", hll.NewHyperLogLogInt(uint32(p)), newModel(p), nil), "a new empty counter"
			case 2:
				q := r.Intn(k)
				bh, _ := w.build(append([]byte(nil), slots[q].h.GetBytes()...), r.Intn(6), det)
				src, what = fresh("Build", bh, slots[q].md.clone(), nil), fmt.Sprintf("BuildHyperLogLog(c%d.GetBytes())", q)
			default:
				q := r.Intn(k)
				src, what = slots[q], fmt.Sprintf("c%d", q)
			}
			if src.h == nil {
				c.Fail("Build:roundtrip", "BuildHyperLogLog(GetBytes()) returned nil", det())
				break
			}
			var before []byte
			if src != s && r.Bool() {
				before = append([]byte(nil), src.h.GetBytes()...)
			}
			kind := "AddAll-nogrow"
			if s.md.grows(src.md) {
				kind = "AddAll-grow"
			}
			note("c%d.AddAll(%s) -> %s", j, what, kind)
			s.h.AddAll(src.h)
			s.md.union(src.md)
			s.learn(r, src.known)
			s.since = append(s.since, kind)
			intact("AddAll", src, before)
			c.Count("history_mutations", 1)
			c.Count("history_mutation/"+kind, 1)
		case op < 12: // AddAll of another precision: rejected, nothing changes
			q := 4 + r.Intn(13)
			if q == p {
				q = 4 + (p-4+1)%13
			}
			o := hll.NewHyperLogLogInt(uint32(q))
			for x := r.Intn(40); x > 0; x-- {
				o.OfferLong(r.U64())
			}
			note("c%d.AddAll(counter of precision %d): must be rejected", j, q)
			if pv := vlib.Catch(func() { s.h.AddAll(o) }); pv == nil {
				c.Fail("Merge:precision-mismatch-accepted", fmt.Sprintf("AddAll of a precision-%d counter into a precision-%d counter did not fail", q, p), det())
			} else {
				c.Count("mismatches_rejected", 1)
			}
			s.since = append(s.since, "AddAll-rejected")
			c.Count("history_mutations", 1)
			c.Count("history_mutation/AddAll-rejected", 1)
		case op < 14: // Merge: a new object takes a slot
			nops := r.Intn(4)
			ops := []int{j}
			for x := 0; x < nops; x++ {
				ops = append(ops, r.Intn(k))
			}
			mm := newModel(p)
			var known []item
			rest := make([]*hll.HyperLogLog, 0, nops)
			befores := make([][]byte, len(ops))
			check := r.Bool()
			for x, q := range ops {
				mm.union(slots[q].md)
				known = append(known, slots[q].known[:minInt(len(slots[q].known), 128)]...)
				if x > 0 {
					rest = append(rest, slots[q].h)
				}
				if check {
					befores[x] = append([]byte(nil), slots[q].h.GetBytes()...)
				}
			}
			t := w.merge(r, sent, s.h, rest, det)
			dst := r.Intn(k)
			note("c%d = Merge of counters %v", dst, ops)
			if t == nil {
				c.Fail("Merge:not-union", fmt.Sprintf("p=%d: Merge returned nil", p), det())
				break
			}
			for x, q := range ops {
				intact("Merge", slots[q], befores[x])
			}
			slots[dst] = fresh("Merge-result", t, mm, known)
			c.Count("history_mutations", 1)
			c.Count("history_mutation/Merge-result", 1)
			if r.Intn(4) == 0 {
				observe(dst)
			}
		default: // serialize and rebuild: a new object takes the slot
			var t *hll.HyperLogLog
			in := append([]byte(nil), s.h.GetBytes()...)
			note("c%d = BuildHyperLogLog(c%d.GetBytes())", j, j)
			var pv interface{}
			if t, pv = w.build(in, r.Intn(6), det); pv != nil || t == nil {
				c.Fail("Build:roundtrip", fmt.Sprintf("BuildHyperLogLog(GetBytes()) failed: %v", pv), det())
				break
			}
			slots[j] = fresh("Build", t, s.md.clone(), s.known)
			c.Count("history_mutations", 1)
			c.Count("history_mutation/Build", 1)
		}
	}
	// every object is observed at the end, in random order, some of them twice
	perm := make([]int, 0, k+2)
	for j := 0; j < k; j++ {
		perm = append(perm, j)
	}
	perm = append(perm, r.Intn(k))
	r.Shuffle(len(perm), func(x, y int) { perm[x], perm[y] = perm[y], perm[x] })
	for _, j := range perm {
		observe(j)
		checkHeld()
	}
	w.sentinelsIntact(sent, det)
	c.Count("histories", 1)
	c.Eval(int64(len(log)))
	c.SetAdd("precisions_history", fmt.Sprint(p))
	if used > 0 {
		hh := vlib.HashStr(fmt.Sprint(log))
		for _, s := range slots {
			hh = vlib.Mix(hh ^ vlib.HashBytes(s.h.GetBytes()))
		}
		c.Distinct(hh)
	}
	if i < 80 && p <= 5 && used > 0 && used <= 12 && len(log) <= 24 && c.WantSample() {
		c.Sample(map[string]interface{}{"kind": "history", "precision": p, "pool_used": itemStrings(pool[:used]), "history": log,
			"final_cardinalities": func() []uint64 {
				out := make([]uint64, k)
				for j, s := range slots {
					out[j] = s.h.Cardinality()
				}
				return out
			}()})
	}
}
