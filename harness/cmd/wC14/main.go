// wC14 — HyperLogLog state depends only on the set offered; merge equals union.
//
// The real counter (github.com/whatap/golib/util/hll) is driven next to an independent
// register model (own integer-murmur port, own index/rank derivation, plain []uint8
// registers) and an independent evaluation of the estimator written from the paper
// (Flajolet, Fusy, Gandouet, Meunier 2007, fig. 3, without the large-range correction,
// which the code under test documents as deliberately left out).
package main

import (
	"bytes"
	"encoding/binary"
	"fmt"
	"math"
	"math/bits"
	"runtime/debug"
	"sort"

	"github.com/whatap/golib/util/hll"

	"verif/vlib"
)

// ---- independent reference --------------------------------------------------------------

// refMurmurLong: MurmurHash 2.0 specialised to one 64-bit integer (two 32-bit lanes, seed 0,
// no length mixing), as in stream-lib's MurmurHash.hashLong. 32-bit items are widened first.
func refMurmurLong(d uint64) uint32 {
	const m = 0x5bd1e995
	var h uint32
	k := uint32(d) * m
	k ^= k >> 24
	h ^= k * m
	k = uint32(d>>32) * m
	k ^= k >> 24
	h *= m
	h ^= k * m
	h ^= h >> 13
	h *= m
	h ^= h >> 15
	return h
}

type model struct {
	p    uint
	regs []uint8
}

func newModel(p int) *model { return &model{p: uint(p), regs: make([]uint8, 1<<uint(p))} }

// place: register = top p bits of the 32-bit hash; rank = number of leading zeros of the
// remaining 32-p bits plus one (all-zero remainder: 32-p+1).
func (md *model) place(x uint64) (int, uint8) {
	h := refMurmurLong(x)
	idx := int(h >> (32 - md.p))
	lz := bits.LeadingZeros32(h << md.p)
	if lim := 32 - int(md.p); lz > lim {
		lz = lim
	}
	return idx, uint8(lz + 1)
}

// offer returns whether the register grew.
func (md *model) offer(x uint64) bool {
	idx, rk := md.place(x)
	if rk > md.regs[idx] {
		md.regs[idx] = rk
		return true
	}
	return false
}

func (md *model) clone() *model {
	return &model{p: md.p, regs: append([]uint8(nil), md.regs...)}
}

func (md *model) union(o *model) {
	for i, v := range o.regs {
		if v > md.regs[i] {
			md.regs[i] = v
		}
	}
}

func (md *model) occupied() int {
	n := 0
	for _, v := range md.regs {
		if v != 0 {
			n++
		}
	}
	return n
}

// unpack reads the byte form: int32 precision, int32 word count, words (big endian), six
// 5-bit registers per word starting at the least significant bits.
func unpack(b []byte) (p int, regs []uint8, problem string) {
	if len(b) < 8 {
		return 0, nil, fmt.Sprintf("byte form has %d bytes", len(b))
	}
	p = int(int32(binary.BigEndian.Uint32(b)))
	cnt := int(int32(binary.BigEndian.Uint32(b[4:])))
	if p < 0 || p > 30 || cnt < 0 || len(b) != 8+4*cnt {
		return p, nil, fmt.Sprintf("byte form inconsistent: precision=%d words=%d length=%d", p, cnt, len(b))
	}
	m := 1 << uint(p)
	if cnt*6 < m {
		return p, nil, fmt.Sprintf("byte form has %d words, too few for %d registers", cnt, m)
	}
	regs = make([]uint8, m)
	for i, off := 0, 8; i < m; off += 4 {
		w := binary.BigEndian.Uint32(b[off:])
		for j := 0; j < 6 && i < m; j, i = j+1, i+1 {
			regs[i] = uint8(w & 31)
			w >>= 5
		}
	}
	return p, regs, ""
}

// negPow2[r] = 2^-r, exact.
var negPow2 = func() (t [64]float64) {
	for r := range t {
		t[r] = math.Ldexp(1, -r)
	}
	return
}()

type estimate struct {
	val    float64 // the algorithm's answer before rounding
	raw    float64 // alpha*m^2 / sum 2^-r
	empty  int     // V
	linear bool    // small-range (linear counting) branch taken
	other  float64 // the answer of the other branch when raw is within rounding of 2.5 m, else NaN
}

// refEstimate evaluates the estimator of the paper on a register array. Every 2^-r is a
// multiple of 2^-31 and the sum is at most 2^16, so the float64 sum is exact in any order.
func refEstimate(regs []uint8) estimate {
	m := float64(len(regs))
	var alpha float64
	switch len(regs) {
	case 16:
		alpha = 0.673
	case 32:
		alpha = 0.697
	case 64:
		alpha = 0.709
	default:
		alpha = 0.7213 / (1 + 1.079/m)
	}
	sum := 0.0
	v := 0
	for _, r := range regs {
		sum += negPow2[r&63]
		if r == 0 {
			v++
		}
	}
	e := estimate{raw: alpha * m * m / sum, empty: v, other: math.NaN()}
	lin := math.NaN()
	if v > 0 {
		lin = m * math.Log(m/float64(v))
	}
	if e.raw <= 2.5*m && v > 0 {
		e.val, e.linear = lin, true
	} else {
		e.val = e.raw
	}
	if math.Abs(e.raw-2.5*m) <= 1e-9*m && v > 0 {
		if e.linear {
			e.other = e.raw
		} else {
			e.other = lin
		}
	}
	return e
}

func roundsTo(got uint64, val float64) bool {
	if math.IsNaN(val) {
		return false
	}
	return math.Abs(float64(got)-val) <= 0.5+1e-9*(1+math.Abs(val))
}

// ---- items ------------------------------------------------------------------------------

// item: a 32-bit item is offered with Offer(uint32), a 64-bit item with OfferLong(uint64).
type item struct {
	v    uint64
	wide bool
}

func (it item) String() string {
	if it.wide {
		return fmt.Sprintf("64:%d", it.v)
	}
	return fmt.Sprintf("32:%d", it.v)
}

func offerReal(h *hll.HyperLogLog, it item) bool {
	if it.wide {
		return h.OfferLong(it.v)
	}
	return h.Offer(uint32(it.v))
}

type genSpec struct {
	Mode string `json:"mode"` // 32 | 64 | mixed
	Kind string `json:"kind"` // sequential | affine | random
	A    uint32 `json:"a"`
	B    uint32 `json:"b"`
	N    int    `json:"n"`
}

// genItems makes n items that are pairwise distinct as elements (the low 32 bits run through
// a bijection of the 32-bit integers, so no two items share them).
func genItems(r *vlib.Rand, n int) ([]item, genSpec) {
	sp := genSpec{N: n}
	sp.Mode = []string{"32", "64", "mixed"}[r.Intn(3)]
	switch r.Intn(4) {
	case 0:
		sp.Kind, sp.A, sp.B = "sequential", 1, uint32(r.I32())
	case 1:
		sp.Kind, sp.A, sp.B = "sequential", 1, 1 // 1,2,3,... as the repository's own tests do
	default:
		sp.Kind, sp.A, sp.B = "affine", r.U32()|1, r.U32()
	}
	items := make([]item, n)
	for i := 0; i < n; i++ {
		lo := uint64(sp.A*uint32(i) + sp.B)
		switch sp.Mode {
		case "32":
			items[i] = item{lo, false}
		case "64":
			items[i] = item{uint64(r.U32())<<32 | lo, true}
		default:
			switch r.Intn(3) {
			case 0:
				items[i] = item{lo, false}
			case 1:
				items[i] = item{lo, true} // a small value offered as a 64-bit item
			default:
				items[i] = item{uint64(r.U32()|1)<<32 | lo, true}
			}
		}
	}
	return items, sp
}

func itemStrings(items []item) interface{} {
	if len(items) > 400 {
		out := make([]string, 0, 401)
		for _, it := range items[:400] {
			out = append(out, it.String())
		}
		return append(out, fmt.Sprintf("… %d items in all; the case is regenerated from its id and seed", len(items)))
	}
	out := make([]string, len(items))
	for i, it := range items {
		out[i] = it.String()
	}
	return out
}

func pickN(r *vlib.Rand, m int, allow20 bool) int {
	switch r.Intn(16) {
	case 0:
		return r.Intn(4)
	case 1:
		return m / 20
	case 2:
		return m/20 + 1 + r.Intn(3)
	case 3:
		return m / 4
	case 4:
		return m / 2
	case 5:
		return m
	case 6:
		return 2 * m
	case 7:
		return 5 * m / 2
	case 8:
		return 3 * m
	case 9:
		return 4 * m
	case 10:
		return 5 * m
	case 11:
		if allow20 {
			return 20 * m
		}
		return 5 * m
	case 12:
		return r.Intn(m + 1)
	default:
		return r.Intn(5*m + 1)
	}
}

func newCounter(r *vlib.Rand, p int) *hll.HyperLogLog {
	if p == 10 && r.Bool() {
		return hll.NewHyperLogLogDefault()
	}
	return hll.NewHyperLogLogInt(uint32(p))
}

// ---- the monitor ------------------------------------------------------------------------

type W struct {
	c       *vlib.Ctx
	scratch []byte
	bufs    [4][]byte
}

// memo builds the (possibly large) description of a case once and hands out shallow copies,
// so that a broken build that fails thousands of checks does not spend its time formatting.
func memo(f func() map[string]interface{}) func() map[string]interface{} {
	var base map[string]interface{}
	return func() map[string]interface{} {
		if base == nil {
			base = f()
		}
		out := make(map[string]interface{}, len(base)+6)
		for k, v := range base {
			out[k] = v
		}
		return out
	}
}

func pclass(p int) string {
	if p <= 10 {
		return "p<=10"
	}
	return "p>10"
}

func diffRegs(a, b []uint8) []string {
	var out []string
	for i := range a {
		if i < len(b) && a[i] != b[i] {
			out = append(out, fmt.Sprintf("register %d: counter=%d model=%d", i, a[i], b[i]))
			if len(out) >= 8 {
				break
			}
		}
	}
	return out
}

// checkRegs: the registers unpacked from GetBytes() equal the model's. Returns the unpacked
// registers (nil when the byte form is unusable).
func (w *W) checkRegs(h *hll.HyperLogLog, md *model, det func() map[string]interface{}) []uint8 {
	return w.checkRegsBytes("Offer:register-differs", h.GetBytes(), md, det)
}

// checkRegsBytes is checkRegs on a byte form that was already taken from the counter.
func (w *W) checkRegsBytes(key string, b []byte, md *model, det func() map[string]interface{}) []uint8 {
	p, regs, problem := unpack(b)
	w.c.Count("state_comparisons", 1)
	if problem != "" || p != int(md.p) {
		d := det()
		d["bytes"] = vlib.Hex(b)
		w.c.Fail(key, fmt.Sprintf("GetBytes(): %s (precision %d expected %d)", problem, p, md.p), d)
		return nil
	}
	if !bytes.Equal(regs, md.regs) {
		d := det()
		d["differences"] = diffRegs(regs, md.regs)
		w.c.Fail(key, fmt.Sprintf("p=%d: registers unpacked from GetBytes() differ from the reference model: %v", p, diffRegs(regs, md.regs)), d)
	}
	return regs
}

// checkCard: Cardinality() equals the independent evaluation of the estimator on the same
// registers; for hashed (not crafted) sets of n distinct items it also lies within the bound.
//
// Cardinality() is an observation: it may come anywhere in a history, so every call is also
// held against the state of the same object right after the call (the registers unpacked from
// GetBytes() are still the ones the estimate was judged on), against the estimate of a counter
// freshly rebuilt from those bytes, and against a second call (see crossCheck).
func (w *W) checkCard(h *hll.HyperLogLog, regs []uint8, md *model, n int, hashedSet bool, det func() map[string]interface{}) (lnRatio float64, usable bool) {
	if regs == nil {
		return 0, false
	}
	got := h.Cardinality()
	lnRatio, usable = w.judgeCard(got, regs, md, n, hashedSet, det)
	w.scratch = append(w.scratch[:0], h.GetBytes()...) // copied: what was returned at this moment
	after := w.scratch
	if _, r2, problem := unpack(after); problem != "" || !bytes.Equal(r2, regs) {
		d := det()
		d["bytes_after"] = vlib.Hex(after)
		w.c.Fail("Cardinality:changes-state", fmt.Sprintf("p=%d: the registers unpacked from GetBytes() right after Cardinality() differ from those right before it %s %v", md.p, problem, diffRegs(r2, regs)), d)
		return lnRatio, usable
	}
	// the repeated questions on a part of the calls only (they cost as much as the call itself);
	// which ones is a function of the case, so that a replay does the same
	w.crossCheck(h, got, after, []int{1, 2, 0, 0}[got%4], det)
	return lnRatio, usable
}

// crossCheck: b is the byte form of h taken next to the call that returned got. A counter
// freshly rebuilt from b has the same estimate. With after != 0 also: the rebuilt counter
// has the same bytes, rebuilding did not disturb h, and asking h again (1: estimate then
// bytes, 2: bytes then estimate) gives the same answers.
func (w *W) crossCheck(h *hll.HyperLogLog, got uint64, b []byte, after int, det func() map[string]interface{}) {
	c := w.c
	var rb *hll.HyperLogLog
	sum := vlib.HashBytes(b)
	// how the bytes are handed over (as they are / as a window of a larger buffer) is a function
	// of the case, so that a replay does the same
	var pv interface{}
	if rb, pv = w.build(b, int(got/4%6), det); pv != nil || rb == nil || vlib.HashBytes(b) != sum {
		d := det()
		d["bytes"] = vlib.Hex(b)
		c.Fail("Build:roundtrip", fmt.Sprintf("BuildHyperLogLog(GetBytes()) failed (or wrote to its argument): %v", pv), d)
		return
	}
	c.Count("estimates_compared_with_rebuilt_counter", 1)
	if c2 := rb.Cardinality(); c2 != got {
		d := det()
		d["bytes"] = vlib.Hex(b)
		d["cardinality"], d["cardinality_rebuilt"] = got, c2
		c.Fail("Build:roundtrip", fmt.Sprintf("Cardinality()=%d, but a counter freshly rebuilt from GetBytes() of the same object says %d: the estimate is not a function of the state", got, c2), d)
	}
	if after == 0 {
		return
	}
	if b2 := rb.GetBytes(); !bytes.Equal(b2, b) {
		d := det()
		d["bytes"], d["rebuilt"] = vlib.Hex(b), vlib.Hex(b2)
		c.Fail("Build:roundtrip", "bytes of the rebuilt counter differ from the bytes it was built from", d)
	}
	for k := 0; k < 2; k++ {
		if (k == 0) == (after == 1) {
			if c3 := h.Cardinality(); c3 != got {
				d := det()
				d["cardinality_first"], d["cardinality_again"] = got, c3
				c.Fail("Cardinality:not-repeatable", fmt.Sprintf("Cardinality() returned %d and then %d with no mutation in between", got, c3), d)
			}
		} else if b3 := h.GetBytes(); !bytes.Equal(b3, b) {
			d := det()
			d["bytes_first"], d["bytes_again"] = vlib.Hex(b), vlib.Hex(b3)
			c.Fail("GetBytes:not-repeatable", "GetBytes() changed with only Cardinality()/GetBytes()/BuildHyperLogLog(copy) calls in between", d)
		}
	}
}

// cardOf calls Cardinality() where the caller has no model at hand: the value is judged on
// the registers that GetBytes() of the same object reports right after the call, and against
// a freshly rebuilt counter.
func (w *W) cardOf(h *hll.HyperLogLog, det func() map[string]interface{}) uint64 {
	got := h.Cardinality()
	b := append([]byte(nil), h.GetBytes()...)
	p, regs, problem := unpack(b)
	if problem != "" {
		return got // the byte form is judged where the model is at hand
	}
	w.judgeCard(got, regs, &model{p: uint(p), regs: regs}, -1, false, det)
	w.crossCheck(h, got, b, 2, det)
	return got
}

// judgeCard judges one value returned by Cardinality() against the registers of that moment.
func (w *W) judgeCard(got uint64, regs []uint8, md *model, n int, hashedSet bool, det func() map[string]interface{}) (lnRatio float64, usable bool) {
	if regs == nil {
		return 0, false
	}
	c := w.c
	p := int(md.p)
	m := float64(len(regs))
	e := refEstimate(regs)
	c.Count("cardinality_evaluations", 1)
	switch {
	case e.linear:
		c.Count("cardinality_linear_counting_branch", 1)
	case e.raw <= 2.5*m:
		c.Count("cardinality_raw_below_2.5m_no_empty_register", 1)
	default:
		c.Count("cardinality_raw_branch", 1)
	}
	if !roundsTo(got, e.val) && !roundsTo(got, e.other) {
		d := det()
		d["cardinality"] = got
		d["reference_estimate"] = e.val
		d["raw_estimate"] = e.raw
		d["empty_registers"] = e.empty
		d["registers"] = fmt.Sprint(regs[:minInt(len(regs), 64)])
		if e.empty == 0 && e.raw <= 2.5*m {
			if hashedSet {
				c.Count("zero_empty_small_range_states_hashed_sets", 1)
				c.SetAdd("zero_empty_small_range_precisions_hashed_sets", fmt.Sprintf("p%02d", p))
			} else {
				c.Count("zero_empty_small_range_states_crafted_sets", 1)
				c.SetAdd("zero_empty_small_range_precisions_crafted_sets", fmt.Sprintf("p%02d", p))
			}
			c.Fail("Cardinality:linear-counting-with-zero-empty-registers",
				fmt.Sprintf("p=%d n=%d: no register is empty and the raw estimate %.2f <= 2.5m=%.0f; Cardinality()=%d (m*ln(m/0)=+Inf), the algorithm gives %.0f", p, n, e.raw, 2.5*m, got, e.val), d)
			return 0, false // same root cause: do not report the bound under a second key
		}
		c.Fail("Cardinality:estimator-differs",
			fmt.Sprintf("p=%d n=%d: Cardinality()=%d, estimator on the same registers gives %.3f (raw %.3f, empty %d, linear=%v)", p, n, got, e.val, e.raw, e.empty, e.linear), d)
	}
	if !hashedSet {
		return 0, false
	}
	errAbs := math.Abs(float64(got) - float64(n))
	if 20*n <= len(regs) {
		// Small set. The only randomness is which items share a register; the reference model
		// knows how many did, and each such item can cost at most one unit.
		tol := math.Max(2, 0.03*float64(n)) + float64(n-md.occupied()) + 0.5
		c.Count("small_set_checks", 1)
		c.Max("max_small_set_error_permille_of_tolerance", int64(1000*errAbs/tol))
		if errAbs > tol {
			d := det()
			d["cardinality"] = got
			d["tolerance"] = tol
			c.Fail("Cardinality:small-set", fmt.Sprintf("p=%d n=%d (<= m/20): Cardinality()=%d, off by %.0f > %.1f", p, n, got, errAbs, tol), d)
		}
		return 0, false
	}
	// One evaluation on a hashed set. The estimate is c/Σ2^-r, right-skewed for small m, so
	// the band is on ln(estimate/n): 12 standard errors (1.04/√m each) with a floor of 6 % for
	// the known bias around 2.5 m – 5 m, or 8 items absolute (index collisions among few items).
	// A calibration with the reference model alone (2·10^7 sets per precision at p = 4..6,
	// 10^6 at p = 10) put the extremes of ln(estimate/n) at 8 standard errors; 7 standard errors
	// of relative error, as first planned, are exceeded about once in 10^4 evaluations at p = 4.
	// Systematic errors smaller than this band are the business of the median check below.
	lim := math.Max(12*1.04/math.Sqrt(m), 0.06)
	x := math.Log(float64(got) / float64(n))
	excess := math.Min(math.Abs(x)/lim, errAbs/8.5)
	c.Count("error_bound_checks/"+pclass(p), 1)
	c.Max("max_error_permille_of_bound/"+pclass(p), int64(1000*math.Min(excess, 1e6)))
	if excess > 1 {
		d := det()
		d["cardinality"] = got
		d["ln_ratio_limit"] = lim
		d["raw_estimate"] = e.raw
		d["empty_registers"] = e.empty
		c.Fail("Cardinality:error-bound/"+pclass(p), fmt.Sprintf("p=%d n=%d: Cardinality()=%d, |ln(estimate/n)|=%.3f > %.3f", p, n, got, math.Abs(x), lim), d)
	}
	return x, true
}

// medianCheck: over many independent hashed sets the median of ln(estimate/n) is close to 0;
// a rank, index or constant that is wrong by a factor shows here even where one evaluation
// at a small precision cannot tell. Only run when the process saw at least 60 sets.
func (w *W) medianCheck(class string, xs []float64, limit float64) {
	if len(xs) < 60 {
		return
	}
	sort.Float64s(xs)
	med := xs[len(xs)/2]
	w.c.Count("median_checks", 1)
	w.c.Max("max_abs_median_ln_ratio_permille/"+class, int64(1000*math.Abs(med)))
	if math.Abs(med) > limit {
		w.c.Fail("Cardinality:error-bound/"+class, fmt.Sprintf("median of ln(Cardinality()/n) over %d independent hashed sets (%s, n >= m/4) is %.3f, limit %.2f: the estimates are off by a factor %.2f", len(xs), class, med, limit, math.Exp(med)),
			map[string]interface{}{"sets": len(xs), "median_ln_ratio": med, "note": "aggregate over the accuracy-median section of this shard"})
	}
}

// checkBuild: BuildHyperLogLog(GetBytes()) preserves bytes and estimate.
func (w *W) checkBuild(h *hll.HyperLogLog, det func() map[string]interface{}) *hll.HyperLogLog {
	b := h.GetBytes()
	keep := append([]byte(nil), b...)
	var h2 *hll.HyperLogLog
	var pv interface{}
	if h2, pv = w.build(b, int(vlib.HashBytes(keep)%6), det); pv != nil || h2 == nil {
		d := det()
		d["bytes"] = vlib.Hex(keep)
		w.c.Fail("Build:roundtrip", fmt.Sprintf("BuildHyperLogLog(GetBytes()) failed: %v", pv), d)
		return nil
	}
	w.c.Count("build_roundtrips", 1)
	b2 := h2.GetBytes()
	if !bytes.Equal(b2, keep) {
		d := det()
		d["bytes"], d["rebuilt"] = vlib.Hex(keep), vlib.Hex(b2)
		w.c.Fail("Build:roundtrip", "bytes of the rebuilt counter differ from the bytes it was built from", d)
	}
	if !bytes.Equal(h.GetBytes(), keep) {
		w.c.Fail("Build:roundtrip", "building from GetBytes() changed the original counter", det())
	}
	c1, c2 := w.cardOf(h, det), w.cardOf(h2, det)
	if c1 != c2 {
		d := det()
		d["bytes"] = vlib.Hex(keep)
		w.c.Fail("Build:roundtrip", fmt.Sprintf("estimate %d became %d after BuildHyperLogLog(GetBytes())", c1, c2), d)
	}
	return h2
}

func minInt(a, b int) int {
	if a < b {
		return a
	}
	return b
}

// offerBoth offers one item to the counter and the model and compares the booleans.
func (w *W) offerBoth(h *hll.HyperLogLog, md *model, it item, mism *int, det func() map[string]interface{}) {
	want := md.offer(it.v)
	got := offerReal(h, it)
	if got != want {
		*mism++
		if *mism <= 3 {
			idx, rk := md.place(it.v)
			d := det()
			d["item"] = it.String()
			w.c.Fail("Offer:return-value", fmt.Sprintf("p=%d: Offer(%s) returned %v, reference: register %d rank %d, register grew = %v", md.p, it, got, idx, rk, want), d)
		}
	}
}

func main() {
	c := vlib.Start("C14")
	w := &W{c: c}
	// the live heap is a few counters; every observation allocates its byte form anew. Collect
	// less often (no verdict depends on it).
	debug.SetGCPercent(1600)

	// (0) the integers 1,2,3,… (what the repository's own tests offer), every precision, up to 5 m;
	// independent of the seed. Checked after every item for p <= 8, every m/16 items above.
	c.Cases("sequential", 13*2, func(i int, r *vlib.Rand) {
		p := 4 + i%13
		wide := i >= 13
		m := 1 << uint(p)
		step := 1
		if p > 8 {
			step = m / 16
		}
		h := hll.NewHyperLogLogInt(uint32(p))
		md := newModel(p)
		mism := 0
		n := 0
		det := func() map[string]interface{} {
			return map[string]interface{}{"precision": p, "items": fmt.Sprintf("the integers 1..%d offered in order as %d-bit items", n, map[bool]int{false: 32, true: 64}[wide])}
		}
		regs := w.checkRegs(h, md, det)
		w.checkCard(h, regs, md, 0, true, det)
		for n = 1; n <= 5*m; n++ {
			w.offerBoth(h, md, item{uint64(n), wide}, &mism, det)
			if n%step == 0 {
				regs := w.checkRegs(h, md, det)
				w.checkCard(h, regs, md, n, true, det)
				c.Eval(1)
			}
		}
		n = 5 * m
		w.checkBuild(h, det)
		c.Count("offers", int64(5*m))
		c.DistinctEnum(int64(5 * m / step))
	})

	// (1) registers, Offer's boolean, estimator and accuracy, after every batch ----------------
	nOffer := c.N(3900, 104000)
	c.Cases("offer", nOffer, func(i int, r *vlib.Rand) {
		p := 4 + i%13
		m := 1 << uint(p)
		n := pickN(r, m, true)
		items, sp := genItems(r, n)
		dupDen := []int{0, 0, 8, 2}[r.Intn(4)] // chance 1/dupDen of re-offering an earlier item after each offer
		det := memo(func() map[string]interface{} {
			return map[string]interface{}{"precision": p, "generator": sp, "duplicate_chance_den": dupDen, "items": itemStrings(items)}
		})
		// checkpoints: every cardinality up to 40 (half of the cases), the grid, some random cuts
		cps := map[int]bool{0: true, n: true}
		if r.Bool() {
			for k := 1; k <= 40 && k <= n; k++ {
				cps[k] = true
			}
		}
		for _, g := range []int{1, 2, 3, m / 20, m/20 + 1, m / 4, m / 2, m, 2 * m, 5 * m / 2, 3 * m, 5 * m} {
			if g <= n {
				cps[g] = true
			}
		}
		for k := r.Intn(8); k > 0; k-- {
			cps[r.Intn(n+1)] = true
		}
		cuts := make([]int, 0, len(cps))
		for k := range cps {
			cuts = append(cuts, k)
		}
		sort.Ints(cuts)

		h := newCounter(r, p)
		md := newModel(p)
		if h == nil {
			c.Fail("Offer:register-differs", fmt.Sprintf("constructor returned nil for precision %d", p), det())
			return
		}
		mism := 0
		pos := 0
		var offers int64
		for _, cp := range cuts {
			for ; pos < cp; pos++ {
				w.offerBoth(h, md, items[pos], &mism, det)
				offers++
				if dupDen > 0 && r.Intn(dupDen) == 0 {
					w.offerBoth(h, md, items[r.Intn(pos+1)], &mism, det)
					offers++
				}
			}
			regs := w.checkRegs(h, md, det)
			w.checkCard(h, regs, md, cp, true, func() map[string]interface{} {
				d := det()
				d["offered_so_far"] = cp
				return d
			})
			c.Eval(1)
		}
		c.Count("offers", offers)
		c.Max("max_cardinality", int64(n))
		c.SetAdd("precisions", fmt.Sprint(p))
		c.SetAdd("item_widths", sp.Mode)
		c.SetAdd("cardinality_class", nClass(n, m))
		// serialisation, and the rebuilt counter keeps working
		if h2 := w.checkBuild(h, det); h2 != nil && n > 0 {
			md2 := md.clone()
			extra, _ := genItems(r, 1+r.Intn(50))
			for _, it := range extra {
				it.v ^= 0x5a5a5a5a00000000
				it.wide = true
				w.offerBoth(h2, md2, it, &mism, det)
			}
			// checkBuild asked h2 for its estimate before these offers: ask again after them
			w.checkCard(h2, w.checkRegs(h2, md2, det), md2, 0, false, det)
			w.checkRegs(h, md, det) // the original is not aliased by the rebuilt one
		}
		if n > 0 {
			c.DistinctBytes(h.GetBytes())
		}
		if i < 40 && i%13 < 3 && n > 0 && n <= 12 && c.WantSample() {
			c.Sample(map[string]interface{}{"kind": "offer", "precision": p, "items": itemStrings(items), "bytes": vlib.Hex(h.GetBytes()), "cardinality": h.Cardinality()})
		}
	})

	// (1b) the median of ln(estimate/n) over independent hashed sets, per shard (self-contained so
	// that the replay of this section on the same shard reproduces it)
	c.Section("accuracy-median", true, func() {
		r := c.Rand(fmt.Sprintf("accuracy-median/%d/%d", c.Shard, c.NShards))
		per := c.N(16, 80)
		xs := map[string][]float64{}
		for p := 4; p <= 16; p++ {
			m := 1 << uint(p)
			for k := 0; k < per; k++ {
				n := []int{m / 4, m / 2, m, 2 * m, 3 * m, 5 * m, 10 * m}[r.Intn(7)]
				items, _ := genItems(r, n)
				h := hll.NewHyperLogLogInt(uint32(p))
				for _, it := range items {
					offerReal(h, it)
				}
				if _, regs, problem := unpack(h.GetBytes()); problem == "" {
					if e := refEstimate(regs); e.empty == 0 && e.raw <= 2.5*float64(m) {
						continue // the state of the recorded Cardinality defect; reported by the other sections
					}
				}
				got := w.cardOf(h, func() map[string]interface{} {
					return map[string]interface{}{"precision": p, "items": n, "note": "set " + fmt.Sprint(k) + " of the accuracy-median section of this shard"}
				})
				x := math.Log(float64(got) / float64(n))
				xs[pclass(p)] = append(xs[pclass(p)], math.Max(x, -10))
				c.Count("offers", int64(n))
			}
		}
		c.Count("median_sets", int64(len(xs["p<=10"])+len(xs["p>10"])))
		w.medianCheck("p<=10", xs["p<=10"], 0.25)
		w.medianCheck("p>10", xs["p>10"], 0.06)
		c.Eval(2)
	})

	// (2) set-only dependence: order and duplicates never change the state --------------------
	c.Cases("order", c.N(1300, 52000), func(i int, r *vlib.Rand) {
		p := 4 + i%13
		m := 1 << uint(p)
		n := pickN(r, m, false)
		items, sp := genItems(r, n)
		det := memo(func() map[string]interface{} {
			return map[string]interface{}{"precision": p, "generator": sp, "items": itemStrings(items)}
		})
		a := hll.NewHyperLogLogInt(uint32(p))
		md := newModel(p)
		mism := 0
		for _, it := range items {
			w.offerBoth(a, md, it, &mism, det)
		}
		ref := append([]byte(nil), a.GetBytes()...)
		w.checkRegs(a, md, det)
		for v := 0; v < 3; v++ {
			// a different order, with random duplicates sprinkled in
			seq := append([]item(nil), items...)
			for k := r.Intn(n + 2); k > 0 && n > 0; k-- {
				seq = append(seq, items[r.Intn(n)])
			}
			switch v {
			case 0:
				r.Shuffle(len(seq), func(x, y int) { seq[x], seq[y] = seq[y], seq[x] })
			case 1:
				for x, y := 0, len(seq)-1; x < y; x, y = x+1, y-1 {
					seq[x], seq[y] = seq[y], seq[x]
				}
			default:
				sort.Slice(seq, func(x, y int) bool { return refMurmurLong(seq[x].v) > refMurmurLong(seq[y].v) })
			}
			b := hll.NewHyperLogLogInt(uint32(p))
			for _, it := range seq {
				offerReal(b, it)
			}
			c.Count("orderings_compared", 1)
			if got := b.GetBytes(); !bytes.Equal(got, ref) {
				d := det()
				d["order"] = itemStrings(seq)
				d["bytes_first"], d["bytes_second"] = vlib.Hex(ref), vlib.Hex(got)
				c.Fail("state:order-dependent", fmt.Sprintf("p=%d n=%d: the same set offered in another order with duplicates gives different GetBytes() (variant %d)", p, n, v), d)
			}
			if ca, cb := w.cardOf(a, det), w.cardOf(b, det); ca != cb {
				c.Fail("state:order-dependent", fmt.Sprintf("p=%d n=%d: estimates differ (%d, %d) for the same set", p, n, ca, cb), det())
			}
		}
		c.Count("offers", int64(4*n))
		if n > 0 {
			c.DistinctBytes(ref)
		}
	})

	// (3) merge = union ---------------------------------------------------------------------------
	c.Cases("merge", c.N(1950, 52000), func(i int, r *vlib.Rand) {
		p := 4 + i%13
		m := 1 << uint(p)
		n := pickN(r, m, false)
		items, sp := genItems(r, n)
		k := r.Range(2, 5)
		parts := make([]*hll.HyperLogLog, k)
		pm := make([]*model, k)
		member := make([][]item, k)
		for j := range parts {
			parts[j] = hll.NewHyperLogLogInt(uint32(p))
			pm[j] = newModel(p)
		}
		overlap := r.Intn(3) // 0: disjoint split, 1: some items in several parts, 2: heavy overlap
		for _, it := range items {
			j := r.Intn(k)
			if r.Intn(8) == 0 {
				j = 0 // uneven parts; some parts may stay empty
			}
			member[j] = append(member[j], it)
			for q := 0; q < k; q++ {
				if q != j && ((overlap == 1 && r.Intn(6) == 0) || (overlap == 2 && r.Bool())) {
					member[q] = append(member[q], it)
				}
			}
		}
		det := memo(func() map[string]interface{} {
			d := map[string]interface{}{"precision": p, "generator": sp, "parts": k}
			for j := range member {
				d[fmt.Sprintf("part_%d", j)] = itemStrings(member[j])
			}
			return d
		})
		mism := 0
		for j := range parts {
			for _, it := range member[j] {
				w.offerBoth(parts[j], pm[j], it, &mism, det)
			}
		}
		union := hll.NewHyperLogLogInt(uint32(p))
		um := newModel(p)
		order := append([]item(nil), items...)
		r.Shuffle(len(order), func(x, y int) { order[x], order[y] = order[y], order[x] })
		for _, it := range order {
			w.offerBoth(union, um, it, &mism, det)
		}
		ub := append([]byte(nil), union.GetBytes()...)
		w.checkRegs(union, um, det)
		before := make([][]byte, k)
		for j := range parts {
			before[j] = append([]byte(nil), parts[j].GetBytes()...)
		}
		sent := w.newSentinels(r, p)
		mg := func(recv *hll.HyperLogLog, ops ...*hll.HyperLogLog) *hll.HyperLogLog {
			return w.merge(r, sent, recv, ops, det)
		}
		inputsIntact := func(after string) {
			for j := range parts {
				if !bytes.Equal(parts[j].GetBytes(), before[j]) {
					d := det()
					d["input"] = j
					d["bytes_before"], d["bytes_after"] = vlib.Hex(before[j]), vlib.Hex(parts[j].GetBytes())
					c.Fail("Merge:modifies-input", fmt.Sprintf("p=%d: input %d of %d changed after %s", p, j, k, after), d)
				}
			}
		}
		same := func(law string, got *hll.HyperLogLog, want []byte) {
			c.Count("merge_results_compared", 1)
			if got == nil {
				c.Fail("Merge:not-union", fmt.Sprintf("p=%d: %s returned nil", p, law), det())
				return
			}
			if gb := got.GetBytes(); !bytes.Equal(gb, want) {
				d := det()
				d["law"] = law
				d["bytes_got"], d["bytes_want"] = vlib.Hex(gb), vlib.Hex(want)
				_, gr, _ := unpack(gb)
				_, wr, _ := unpack(want)
				if gr != nil && wr != nil {
					d["differences"] = diffRegs(gr, wr)
				}
				c.Fail("Merge:not-union", fmt.Sprintf("p=%d n=%d parts=%d: %s differs from the counter that saw the union", p, n, k, law), d)
			}
		}
		// union, byte for byte
		merged := mg(parts[0], parts[1:]...)
		same("Merge(parts...)", merged, ub)
		inputsIntact("Merge")
		// against the model too (the union counter itself was checked against it above)
		if merged != nil {
			mm := pm[0].clone()
			for j := 1; j < k; j++ {
				mm.union(pm[j])
			}
			regs := w.checkRegs(merged, mm, det)
			w.checkCard(merged, regs, mm, n, true, det)
		}
		// commutativity: any order of the operands
		perm := make([]int, k)
		for j := range perm {
			perm[j] = j
		}
		r.Shuffle(k, func(x, y int) { perm[x], perm[y] = perm[y], perm[x] })
		rest := make([]*hll.HyperLogLog, 0, k-1)
		for _, j := range perm[1:] {
			rest = append(rest, parts[j])
		}
		same(fmt.Sprintf("commutativity: operands in order %v", perm), mg(parts[perm[0]], rest...), ub)
		// associativity: left fold and right fold of pairwise merges
		left := parts[0]
		for j := 1; j < k; j++ {
			left = mg(left, parts[j])
		}
		same("associativity: ((a+b)+c)+…", left, ub)
		right := parts[k-1]
		for j := k - 2; j >= 0; j-- {
			right = mg(parts[j], right)
		}
		same("associativity: a+(b+(c+…))", right, ub)
		// the caller keeps all parts in one slice and folds a few at a time: every operand list is a
		// window of that slice, with the parts still to come in its spare capacity
		if k >= 3 {
			all := append([]*hll.HyperLogLog(nil), parts...)
			step := 1 + r.Intn(k-2)
			acc := all[0]
			for lo := 1; lo < k && acc != nil; lo += step {
				acc = acc.Merge(all[lo:minInt(lo+step, k)]...)
			}
			same(fmt.Sprintf("chunked fold: parts[lo:lo+%d] at a time out of one slice", step), acc, ub)
			for j := range all {
				if all[j] != parts[j] {
					c.Fail("Merge:writes-callers-slice", fmt.Sprintf("p=%d: folding the caller's slice of %d parts %d at a time (acc.Merge(all[lo:hi]...)) replaced element %d of that slice", p, k, step, j), det())
				}
			}
			c.Count("chunked_folds", 1)
		}
		// idempotence
		j0 := r.Intn(k)
		same("idempotence: a+a", mg(parts[j0], parts[j0]), before[j0])
		same("idempotence: a+a+a", mg(parts[j0], parts[j0], parts[j0]), before[j0])
		same("Merge() without operands", mg(parts[j0]), before[j0])
		if merged != nil {
			same("idempotence: union+union", mg(merged, merged), ub)
			same("absorption: union+part", mg(merged, parts[j0]), ub)
		}
		same("identity: a+empty", mg(parts[j0], hll.NewHyperLogLogInt(uint32(p))), before[j0])
		same("identity: empty+a", mg(hll.NewHyperLogLogInt(uint32(p)), parts[j0]), before[j0])
		inputsIntact("the commutativity/associativity/idempotence merges")
		// the result is a counter of its own: offering to it does not reach the inputs
		if merged != nil {
			mm := um.clone()
			extra, _ := genItems(r, 1+r.Intn(2*m))
			for _, it := range extra {
				it.v ^= 0x3c3c3c3c00000000
				it.wide = true
				w.offerBoth(merged, mm, it, &mism, det)
			}
			w.checkCard(merged, w.checkRegs(merged, mm, det), mm, 0, false, det) // observed before the offers too
			inputsIntact("offering items to the merge result")
			if !bytes.Equal(union.GetBytes(), ub) {
				c.Fail("Merge:modifies-input", "the union counter changed", det())
			}
		}
		// AddAll: in-place union, the argument untouched
		if k >= 2 {
			x, _ := w.build(before[0], i, det)
			if x != nil {
				xm := pm[0].clone()
				if i%3 != 0 { // two thirds: the receiver was observed before the in-place merge
					w.observe("Merge:not-union", x, xm, i%len(obsVariants), 0, det)
				}
				x.AddAll(parts[1])
				xm.union(pm[1])
				w.observe("Merge:not-union", x, xm, (i/3)%len(obsVariants), (i/5)%3, det)
				x.AddAll(parts[1]) // again: nothing changes
				w.observe("Merge:not-union", x, xm, (i/7)%len(obsVariants), 0, det)
				inputsIntact("AddAll")
			}
		}
		w.sentinelsIntact(sent, det)
		c.Count("merges", 1)
		c.Eval(13)
		c.SetAdd("merge_parts", fmt.Sprint(k))
		if n > 0 {
			c.DistinctBytes(ub)
		}
		if i < 60 && n > 0 && n <= 10 && c.WantSample() {
			c.Sample(map[string]interface{}{"kind": "merge", "detail": det(), "union_bytes": vlib.Hex(ub)})
		}
	})

	// (4) mismatched precision is rejected, not merged silently --------------------------------
	c.Cases("precision-mismatch", 13*13, func(i int, r *vlib.Rand) {
		pa, pb := 4+i/13, 4+i%13
		if pa == pb {
			return
		}
		a, b := hll.NewHyperLogLogInt(uint32(pa)), hll.NewHyperLogLogInt(uint32(pb))
		ia, _ := genItems(r, r.Intn(3<<uint(pa)))
		ib, _ := genItems(r, r.Intn(3<<uint(pb)))
		for _, it := range ia {
			offerReal(a, it)
		}
		for _, it := range ib {
			offerReal(b, it)
		}
		ba, bb := append([]byte(nil), a.GetBytes()...), append([]byte(nil), b.GetBytes()...)
		det := memo(func() map[string]interface{} {
			return map[string]interface{}{"precision_a": pa, "precision_b": pb, "items_a": len(ia), "items_b": len(ib)}
		})
		var res *hll.HyperLogLog
		sent := w.newSentinels(r, pa)
		pv := vlib.Catch(func() { res = w.merge(r, sent, a, []*hll.HyperLogLog{b}, det) })
		if pv == nil && res != nil {
			c.Fail("Merge:precision-mismatch-accepted", fmt.Sprintf("Merge of a precision-%d counter with a precision-%d counter returned a counter (estimate %d) instead of failing", pa, pb, res.Cardinality()), det())
		} else {
			c.Count("mismatches_rejected", 1)
		}
		// same size first, mismatch later in the operand list
		pv = vlib.Catch(func() { res = w.merge(r, sent, a, []*hll.HyperLogLog{hll.NewHyperLogLogInt(uint32(pa)), b}, det) })
		if pv == nil && res != nil {
			c.Fail("Merge:precision-mismatch-accepted", fmt.Sprintf("Merge(p%d, p%d, p%d) returned a counter instead of failing", pa, pa, pb), det())
		} else {
			c.Count("mismatches_rejected", 1)
		}
		a2 := hll.BuildHyperLogLog(ba)
		pv = vlib.Catch(func() { a2.AddAll(b) })
		if pv == nil {
			c.Fail("Merge:precision-mismatch-accepted", fmt.Sprintf("AddAll of a precision-%d counter into a precision-%d counter did not fail", pb, pa), det())
		} else {
			c.Count("mismatches_rejected", 1)
			if !bytes.Equal(a2.GetBytes(), ba) {
				c.Fail("Merge:modifies-input", "a rejected AddAll changed the receiver", det())
			}
		}
		w.sentinelsIntact(sent, det)
		if !bytes.Equal(a.GetBytes(), ba) || !bytes.Equal(b.GetBytes(), bb) {
			c.Fail("Merge:modifies-input", fmt.Sprintf("a rejected merge (p%d with p%d) changed an input", pa, pb), det())
		}
		c.Eval(2)
		c.DistinctEnum(1)
	})

	// (5) crafted sets: the estimator on states that hashed sets rarely reach -------------------
	// Items are chosen, with the reference hash, so that every accepted item raises its
	// register and no rank exceeds tmax, until at most `empties` registers are empty. Only the
	// register and estimator oracles apply (the accuracy bound presumes a set that was not
	// chosen by looking at the hash).
	c.Cases("crafted", c.N(520, 7800), func(i int, r *vlib.Rand) {
		p := 4 + i%13
		m := 1 << uint(p)
		tmax := uint8(1 + r.Intn(3))
		empties := []int{0, 0, 0, 1, 2, m / 8, m / 2}[r.Intn(7)]
		wide := r.Bool()
		base := r.U32()
		md := newModel(p)
		var items []item
		for x, left := base, m; left > empties; x++ {
			idx, rk := md.place(uint64(x))
			if rk <= tmax && rk > md.regs[idx] {
				if md.regs[idx] == 0 {
					left--
				}
				md.regs[idx] = rk
				items = append(items, item{uint64(x), wide})
			}
		}
		det := memo(func() map[string]interface{} {
			return map[string]interface{}{"precision": p, "max_rank": tmax, "empty_registers_target": empties, "items": itemStrings(items)}
		})
		h := hll.NewHyperLogLogInt(uint32(p))
		m2 := newModel(p)
		mism := 0
		for _, it := range items {
			w.offerBoth(h, m2, it, &mism, det) // every one of them must report growth
		}
		regs := w.checkRegs(h, m2, det)
		w.checkCard(h, regs, m2, len(items), false, det)
		if h2 := w.checkBuild(h, det); h2 != nil {
			_, r2, _ := unpack(h2.GetBytes())
			w.checkCard(h2, r2, m2, len(items), false, det)
		}
		c.Count("crafted_states", 1)
		c.Count("offers", int64(len(items)))
		c.DistinctBytes(h.GetBytes())
	})

	// (5b) the byte-array hashes: functions of the bytes in the argument, writing nothing
	c.Cases("hash-bytes", c.N(520, 10400), w.hashBytes)

	// (6) observations interleaved with mutations, on the same objects -------------------------
	c.Cases("history", c.N(2600, 52000), w.history)

	sh := int64(c.NShards)
	c.Floor("state_comparisons", int64(c.N(5200, 104000))/sh, c.Counter("state_comparisons"))
	c.Floor("cardinality_evaluations", int64(c.N(5200, 104000))/sh, c.Counter("cardinality_evaluations"))
	c.Floor("cardinality_linear_counting_branch", int64(c.N(1500, 30000))/sh, c.Counter("cardinality_linear_counting_branch"))
	c.Floor("cardinality_raw_branch", int64(c.N(600, 12000))/sh, c.Counter("cardinality_raw_branch"))
	c.Floor("merge_results_compared", int64(c.N(2600, 52000))/sh, c.Counter("merge_results_compared"))
	c.Floor("orderings_compared", int64(c.N(700, 14000))/sh, c.Counter("orderings_compared"))
	c.Floor("build_roundtrips", int64(c.N(300, 6000))/sh, c.Counter("build_roundtrips"))
	c.Floor("history_observations", int64(c.N(3000, 60000))/sh, c.Counter("history_observations"))
	c.Floor("history_mutations", int64(c.N(3000, 60000))/sh, c.Counter("history_mutations"))
	c.Floor("observe_mutate_observe", int64(c.N(1200, 24000))/sh, c.Counter("observe_mutate_observe"))
	c.Floor("held_snapshot_checks", int64(c.N(8000, 160000))/sh, c.Counter("held_snapshot_checks"))
	c.Floor("snapshots_scribbled", int64(c.N(100, 2000))/sh, c.Counter("snapshots_scribbled"))
	for _, kind := range []string{"Offer-grow", "Offer-nogrow", "AddAll-grow", "AddAll-nogrow", "AddAll-rejected"} {
		c.Floor("observe_only_"+kind+"_observe", int64(c.N(32, 640))/sh, c.Counter("observe_only_"+kind+"_observe"))
	}
	for _, kind := range []string{"Merge-result", "Build"} {
		c.Floor("first_observation_of_"+kind, int64(c.N(160, 3200))/sh, c.Counter("first_observation_of_"+kind))
	}
	c.Floor("estimates_compared_with_rebuilt_counter", int64(c.N(8000, 160000))/sh, c.Counter("estimates_compared_with_rebuilt_counter"))
	c.Floor("merge_calls_lent_window", int64(c.N(1500, 30000))/sh, c.Counter("merge_calls_lent_window"))
	c.Floor("merge_calls_exact_capacity", int64(c.N(1500, 30000))/sh, c.Counter("merge_calls_exact_capacity"))
	c.Floor("build_calls_lent_window", int64(c.N(5000, 100000))/sh, c.Counter("build_calls_lent_window"))
	c.Floor("hash_calls_lent_window", int64(c.N(300, 6000))/sh, c.Counter("hash_calls_lent_window"))
	c.Floor("median_sets", 20, c.Counter("median_sets"))
	c.Floor("mismatches_rejected", 3, c.Counter("mismatches_rejected"))
	c.Finish()
	fmt.Println("done")
}

func nClass(n, m int) string {
	switch {
	case n == 0:
		return "0"
	case 20*n <= m:
		return "<=m/20"
	case n <= m:
		return "<=m"
	case 2*n <= 5*m:
		return "<=2.5m"
	case n <= 5*m:
		return "<=5m"
	default:
		return ">5m"
	}
}
