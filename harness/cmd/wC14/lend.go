// Slice arguments stay the caller's. A caller that keeps its counters (or its bytes) in one
// array and hands the library a window of it — acc.Merge(parts[i:j]...), BuildHyperLogLog(buf[a:b]),
// MurmurHashByte(buf[a:b]) — passes a slice whose capacity reaches beyond its length. "Merge …
// leaves its inputs untouched" and "state depends only on the set offered" leave no room for
// the library to store anything through such an argument, neither inside the window nor into
// the spare capacity behind it (an append on the argument does exactly that). So in a share
// of the calls everywhere in this worker the argument is a window of a larger array with
// sentinel elements around it, the whole array is compared afterwards, and the result has to
// be the one the exact-capacity call gives.
package main

import (
	"bytes"
	"fmt"

	"github.com/whatap/golib/util/hll"

	"verif/vlib"
)

// lent is an argument slice handed to the library as arr[lo:hi] (capacity up to len(arr)).
type lent[T comparable] struct {
	arr, want []T
	lo, hi    int
}

// lend copies xs into the middle of a new array with pre sentinels before and post behind.
func lend[T comparable](xs []T, pre, post int, sentinel func(k int) T) *lent[T] {
	arr := make([]T, pre+len(xs)+post)
	for k := 0; k < pre; k++ {
		arr[k] = sentinel(k)
	}
	copy(arr[pre:], xs)
	for k := 0; k < post; k++ {
		arr[pre+len(xs)+k] = sentinel(pre + k)
	}
	return &lent[T]{arr: arr, want: append([]T(nil), arr...), lo: pre, hi: pre + len(xs)}
}

// arg is the window: len = len(xs), cap = len(xs)+post. Never nil, also when it is empty.
func (l *lent[T]) arg() []T { return l.arr[l.lo:l.hi] }

func (l *lent[T]) shape() string {
	return fmt.Sprintf("argument = array[%d:%d] of an array of %d elements (len %d, cap %d)", l.lo, l.hi, len(l.arr), l.hi-l.lo, len(l.arr)-l.lo)
}

// changed names the elements of the caller's array that are no longer what the caller put there.
func (l *lent[T]) changed() []string {
	var out []string
	for k := range l.arr {
		if l.arr[k] != l.want[k] {
			where := "inside the argument"
			if k < l.lo {
				where = "before the argument"
			} else if k >= l.hi {
				where = fmt.Sprintf("in the spare capacity behind the argument (offset %d past its length)", k-l.hi)
			}
			out = append(out, fmt.Sprintf("array[%d] %s: had %v, has %v", k, where, l.want[k], l.arr[k]))
			if len(out) >= 6 {
				break
			}
		}
	}
	return out
}

// lendShape draws how an argument is handed over: half of the calls exact (cap == len), the
// others with 1..3 elements of spare capacity, half of those with elements before it as well.
func lendShape(r *vlib.Rand) (pre, post int) {
	switch r.Intn(4) {
	case 0, 1:
		return 0, 0
	case 2:
		return 0, 1 + r.Intn(3)
	default:
		return 1 + r.Intn(2), 1 + r.Intn(3)
	}
}

// sentinels are counters of the case's precision that are no operand of any merge; they sit
// around the operand windows. Their state is compared at the end of the case.
type sentinels struct {
	hs     []*hll.HyperLogLog
	before [][]byte
	p      int
}

func (w *W) newSentinels(r *vlib.Rand, p int) *sentinels {
	s := &sentinels{p: p}
	for k := 0; k < 5; k++ {
		h := hll.NewHyperLogLogInt(uint32(p))
		for x := 0; x < 3; x++ {
			h.OfferLong(r.U64() | 0x7700000000000000)
		}
		s.hs = append(s.hs, h)
		s.before = append(s.before, append([]byte(nil), h.GetBytes()...))
	}
	return s
}

func (w *W) sentinelsIntact(s *sentinels, det func() map[string]interface{}) {
	for k, h := range s.hs {
		w.c.Count("sentinel_counters_compared", 1)
		if b := h.GetBytes(); !bytes.Equal(b, s.before[k]) {
			d := det()
			d["sentinel"] = k
			d["bytes_before"], d["bytes_after"] = vlib.Hex(s.before[k]), vlib.Hex(b)
			w.c.Fail("Merge:writes-callers-slice", fmt.Sprintf("p=%d: a counter that only sat next to the operands in the caller's array (never passed to the library) changed its state", s.p), d)
		}
	}
}

// merge is recv.Merge(ops...) with the operand list handed over in the drawn shape. In the
// lent shapes the caller's array is compared afterwards and (every other time) the result is
// compared with the one of the exact-capacity call.
func (w *W) merge(r *vlib.Rand, s *sentinels, recv *hll.HyperLogLog, ops []*hll.HyperLogLog, det func() map[string]interface{}) *hll.HyperLogLog {
	c := w.c
	pre, post := lendShape(r)
	if pre+post == 0 {
		c.Count("merge_calls_exact_capacity", 1)
		if len(ops) == 0 && r.Bool() {
			return recv.Merge()
		}
		return recv.Merge(append(make([]*hll.HyperLogLog, 0, len(ops)), ops...)...)
	}
	l := lend(ops, pre, post, func(k int) *hll.HyperLogLog { return s.hs[k%len(s.hs)] })
	res := recv.Merge(l.arg()...)
	c.Count("merge_calls_lent_window", 1)
	c.SetAdd("merge_window_shapes", fmt.Sprintf("len%d/pre%d/post%d", len(ops), pre, post))
	if ch := l.changed(); ch != nil {
		d := det()
		d["argument"] = l.shape()
		d["changed"] = ch
		d["note"] = "counters are printed as pointers; the array held the operands in the window and sentinel counters around it"
		c.Fail("Merge:writes-callers-slice", fmt.Sprintf("p=%d: Merge(array[%d:%d]...) changed the caller's array: %s", s.p, l.lo, l.hi, ch[0]), d)
	}
	if r.Bool() && res != nil {
		ex := recv.Merge(append(make([]*hll.HyperLogLog, 0, len(ops)), ops...)...)
		c.Count("merge_lent_vs_exact_compared", 1)
		if ex == nil || !bytes.Equal(ex.GetBytes(), res.GetBytes()) {
			d := det()
			d["argument"] = l.shape()
			c.Fail("Merge:not-union", fmt.Sprintf("p=%d: Merge of %d operands passed as a window with spare capacity gives another state than the same operands passed in a slice of exact capacity", s.p, len(ops)), d)
		}
	}
	return res
}

// build is BuildHyperLogLog(b) with b handed over in shape sh (0: as it is, 1: window with
// spare capacity behind, 2: window in the middle of a larger buffer). The buffer around and
// inside the window must be unchanged; b itself is never written to by this function.
func (w *W) build(b []byte, sh int, det func() map[string]interface{}) (h *hll.HyperLogLog, pv interface{}) {
	c := w.c
	if sh%3 == 0 {
		c.Count("build_calls_exact_capacity", 1)
		pv = vlib.Catch(func() { h = hll.BuildHyperLogLog(b) })
		return
	}
	pre, post := 0, 1+len(b)%7
	if sh%3 == 2 {
		pre = 1 + len(b)%5
	}
	l := lend(b, pre, post, func(k int) byte { return byte(0xC3 + 7*k) })
	pv = vlib.Catch(func() { h = hll.BuildHyperLogLog(l.arg()) })
	c.Count("build_calls_lent_window", 1)
	if ch := l.changed(); ch != nil {
		d := det()
		d["argument"] = l.shape()
		d["changed"] = ch
		c.Fail("Build:writes-callers-slice", fmt.Sprintf("BuildHyperLogLog(buffer[%d:%d]) changed the caller's buffer: %s", l.lo, l.hi, ch[0]), d)
	}
	if h != nil && pv == nil && sh%6 == 1 {
		// the caller reuses its buffer: the counter that was built keeps its state
		got := append([]byte(nil), h.GetBytes()...)
		for k := range l.arr {
			l.arr[k] ^= 0x5A
		}
		c.Count("build_buffers_reused", 1)
		if b2 := h.GetBytes(); !bytes.Equal(b2, got) {
			d := det()
			d["argument"] = l.shape()
			d["bytes_before"], d["bytes_after"] = vlib.Hex(got), vlib.Hex(b2)
			c.Fail("Build:aliases-argument", "the counter built from a buffer changed its state when the caller overwrote the buffer afterwards", d)
		}
	}
	return
}

// hashBytes: the byte-array hashes of MurmurHash.go are functions of the bytes in the window
// and write nothing.
func (w *W) hashBytes(i int, r *vlib.Rand) {
	c := w.c
	n := r.Intn(40)
	if r.Intn(6) == 0 {
		n = r.Intn(300)
	}
	data := make([]byte, n)
	for k := range data {
		data[k] = byte(r.U32())
	}
	seed := r.U32()
	det := func() map[string]interface{} {
		return map[string]interface{}{"data": vlib.Hex(data), "seed": seed}
	}
	exact := append(make([]byte, 0, n), data...)
	type fn struct {
		name string
		call func(b []byte) uint64
	}
	fns := []fn{
		{"MurmurHashByte", func(b []byte) uint64 { return uint64(hll.MurmurHashByte(b)) }},
		{"MurmurHashByteSeed", func(b []byte) uint64 { return uint64(hll.MurmurHashByteSeed(b, seed)) }},
		{"MurmurHashLongByte", func(b []byte) uint64 { return hll.MurmurHashLongByte(b, int32(len(b))) }},
	}
	for _, f := range fns {
		var want uint64
		if pv := vlib.Catch(func() { want = f.call(exact) }); pv != nil {
			c.Fail("MurmurHash:panic", fmt.Sprintf("%s on %d bytes panicked: %v", f.name, n, pv), det())
			continue
		}
		if !bytes.Equal(exact, data) {
			c.Fail("MurmurHash:writes-callers-slice", fmt.Sprintf("%s changed its argument", f.name), det())
			copy(exact, data)
		}
		for v := 0; v < 2; v++ {
			pre, post := []int{0, 1 + r.Intn(9)}[v], 1+r.Intn(9)
			l := lend(data, pre, post, func(k int) byte { return byte(r.U32()) })
			var got uint64
			pv := vlib.Catch(func() { got = f.call(l.arg()) })
			c.Count("hash_calls_lent_window", 1)
			if ch := l.changed(); ch != nil {
				d := det()
				d["argument"], d["changed"] = l.shape(), ch
				c.Fail("MurmurHash:writes-callers-slice", fmt.Sprintf("%s(buffer[%d:%d]) changed the caller's buffer: %s", f.name, l.lo, l.hi, ch[0]), d)
			}
			if pv != nil || got != want {
				d := det()
				d["argument"] = l.shape()
				d["buffer"] = vlib.Hex(l.want)
				c.Fail("MurmurHash:depends-on-bytes-outside-argument", fmt.Sprintf("%s of the same %d bytes: %#x from a slice of exact capacity, %#x (panic: %v) from a window of a larger buffer", f.name, n, want, got, pv), d)
			}
		}
	}
	c.DistinctBytes(data)
}
