package main

import (
	"math/bits"
	"sort"
	"sync"

	"verif/vlib"
)

// High-rank items. Random items almost never reach ranks above 12 (probability 2^-rank), so
// the upper half of the 5-bit register range — and two counters holding DIFFERENT high ranks in
// the same register — would never be seen. The pool below is found by scanning the first 2^23
// 32-bit items with the reference hash: per precision p the items whose rank at p is at least
// min(14, 32-p-1), grouped by register.
const hrScan = 1 << 23

type hrItem struct {
	v    uint64
	reg  int
	rank uint8
}

var (
	hrOnce sync.Once
	hrPool [17][]hrItem
)

func highRank(p int) []hrItem {
	hrOnce.Do(func() {
		for x := uint64(0); x < hrScan; x++ {
			h := refMurmurLong(x)
			for q := 4; q <= 16; q++ {
				lz := bits.LeadingZeros32(h << uint(q))
				if lim := 32 - q; lz > lim {
					lz = lim
				}
				thr := 14
				if 32-q-1 < thr {
					thr = 32 - q - 1
				}
				if lz+1 >= thr {
					hrPool[q] = append(hrPool[q], hrItem{x, int(h >> uint(32-q)), uint8(lz + 1)})
				}
			}
		}
	})
	return hrPool[p]
}

// mixHighRank replaces part of a generated pool by high-rank items of precision p, preferring
// registers for which several distinct high ranks are available, and keeps the pool pairwise
// distinct as elements. Returns the new pool and how many high-rank items it holds.
func mixHighRank(r *vlib.Rand, p int, pool []item) ([]item, int) {
	hr := highRank(p)
	if len(hr) == 0 || len(pool) == 0 {
		return pool, 0
	}
	byReg := map[int][]hrItem{}
	for _, it := range hr {
		byReg[it.reg] = append(byReg[it.reg], it)
	}
	var rich []int
	for reg, its := range byReg {
		ranks := map[uint8]bool{}
		for _, it := range its {
			ranks[it.rank] = true
		}
		if len(ranks) >= 2 {
			rich = append(rich, reg)
		}
	}
	sort.Ints(rich)
	want := len(pool)/4 + 4
	if want > len(pool) {
		want = len(pool)
	}
	chosen := map[uint64]bool{}
	var picks []hrItem
	for t := 0; t < 3 && len(rich) > 0 && len(picks) < want; t++ {
		its := byReg[rich[r.Intn(len(rich))]]
		for n := r.Range(2, 8); n > 0 && len(picks) < want; n-- {
			it := its[r.Intn(len(its))]
			if !chosen[it.v] {
				chosen[it.v] = true
				picks = append(picks, it)
			}
		}
	}
	for tries := 0; len(picks) < want && tries < 4*want; tries++ {
		it := hr[r.Intn(len(hr))]
		if !chosen[it.v] {
			chosen[it.v] = true
			picks = append(picks, it)
		}
	}
	out := make([]item, 0, len(pool))
	for _, it := range pool {
		if it.v < hrScan { // could coincide (as an element) with a scanned item
			continue
		}
		out = append(out, it)
	}
	if len(out)+len(picks) > len(pool) {
		out = out[:len(pool)-len(picks)]
	}
	for _, pk := range picks {
		out = append(out, item{pk.v, r.Intn(3) == 0}) // the same element offered as a 32- or a 64-bit item
	}
	r.Shuffle(len(out), func(a, b int) { out[a], out[b] = out[b], out[a] })
	return out, len(picks)
}
