package main

// Equal-hash keys ("twins") and keys congruent modulo the table capacities, for the linked
// types.
//
// twins: groups of DISTINCT keys with the same FULL hash value, per hash function:
//
//	StringKeyLinkedMap, StringIntLinkedMap, StringLongLinkedMap   hash.HashStr (CRC-32): groups found by an
//	                              independent birthday search and verified with the library's function (pmap.CRCGroups)
//	StringLinkedSet               Java hashCode: blocks "Aa" / "BB" / "C#" (pmap.JavaGroups, verified with stringutil.HashCode)
//	IntKeyLinkedMap               key & MaxInt32: k and k ^ MinInt32
//	LongKeyLinkedMap              key ^ key>>32 (arithmetic shift): k and ^k
//	LinkedMap, LinkedSet          the harness's LinkedKey: ids of lmap's twin range hash in groups of four
//	the other int/long keyed types hash with the identity on the (sign-extended) key: no twins exist
//
// Every group is checked with the independent restatement of the type's hash
// (TypeDesc.BucketHash); the structural walker in turn checks the keyHash the library stored
// in each entry against that restatement. Members are mixed into the key pool and addressed
// directly so that both members of a pair are stored together, inserted in either order (and
// at either end), removed one at a time, looked up, enumerated and carried across growths.
//
// level groups: 2..5 keys sharing a bucket in the table of capacity c_i (and of up to two
// following capacities 2c+1) for the capacities the configuration goes through, from all
// regions of the key range.

import (
	"math"

	"github.com/whatap/golib/util/stringutil"

	"verif/lmap"
	"verif/pmap"
	"verif/vlib"
)

type twinSet struct {
	groups [][]any
	of     map[any]int
	mem    []any
}

func (t *twinSet) add(g []any) {
	if t.of == nil {
		t.of = map[any]int{}
	}
	for _, k := range g {
		if _, dup := t.of[k]; dup {
			return
		}
	}
	for _, k := range g {
		t.of[k] = len(t.groups)
		t.mem = append(t.mem, k)
	}
	t.groups = append(t.groups, g)
}

func (t *twinSet) empty() bool { return t == nil || len(t.mem) == 0 }

var javaGroups [][]string
var javaGroupsDropped int

func init() { javaGroups, javaGroupsDropped = pmap.JavaGroups(stringutil.HashCode) }

func sameFullHash(t *lmap.TypeDesc, g []any) bool {
	for _, k := range g[1:] {
		if k == g[0] || t.BucketHash(k) != t.BucketHash(g[0]) {
			return false
		}
	}
	return len(g) >= 2
}

var int64Specials = []int64{0, 1, -1, 2, 101, -101, 203, math.MaxInt32, math.MinInt32, 1 << 32, -(1 << 32), 101 << 32,
	math.MaxInt64, math.MinInt64, math.MaxInt64 - 1, math.MinInt64 + 1, 1<<32 | 101}

// twinGroups draws n equal-hash groups for the type (nil when its hash is injective).
func twinGroups(t *lmap.TypeDesc, r *vlib.Rand, n int) [][]any {
	var out [][]any
	strs := func(all [][]string) {
		if len(all) == 0 {
			return
		}
		for i := 0; i < n; i++ {
			g := all[r.Intn(len(all))]
			if r.Intn(3) == 0 && len(all) > 12 {
				g = all[len(all)-1-r.Intn(12)] // the larger groups are at the end
			}
			a := make([]any, len(g))
			for j, s := range g {
				a[j] = s
			}
			r.Shuffle(len(a), func(i, j int) { a[i], a[j] = a[j], a[i] })
			out = append(out, a)
		}
	}
	switch {
	case t.Name == "StringLinkedSet":
		strs(javaGroups)
	case t.Key == lmap.KString:
		strs(pmap.CRCGroups().Groups)
	case t.Name == "IntKeyLinkedMap":
		for i := 0; i < n; i++ {
			k := int64(r.I32())
			if r.Intn(3) == 0 {
				k = int64(int32(int64Specials[r.Intn(len(int64Specials))]))
			}
			out = append(out, []any{k, int64(int32(k) ^ math.MinInt32)})
		}
	case t.Name == "LongKeyLinkedMap":
		for i := 0; i < n; i++ {
			k := r.I64()
			if r.Intn(3) == 0 {
				k = int64Specials[r.Intn(len(int64Specials))]
			}
			out = append(out, []any{k, ^k})
		}
	case t.Key == lmap.KLinked:
		for i := 0; i < n; i++ {
			b := lmap.TwinBase + 4*int64(r.Intn(1<<28))
			g := []any{b, b + 1, b + 2, b + 3}
			r.Shuffle(4, func(i, j int) { g[i], g[j] = g[j], g[i] })
			out = append(out, g[:r.Range(2, 4)])
		}
	}
	ok := out[:0]
	for _, g := range out {
		if sameFullHash(t, g) {
			if r.Bool() {
				g[0], g[1] = g[1], g[0]
			}
			ok = append(ok, g)
		}
	}
	return ok
}

func twinGroupCount(r *vlib.Rand, size int) int {
	switch {
	case size <= 6:
		return 1
	case size <= 30:
		return r.Range(1, 3)
	}
	return r.Range(2, 10)
}

// capLevels lists the capacities a configuration goes through.
func capLevels(t *lmap.TypeDesc, cfg lmap.Config, n int) []int {
	c := 101
	if t.HasCapLF && !cfg.Default && cfg.Cap > 0 {
		c = cfg.Cap
	}
	l := []int{c}
	for len(l) < n {
		l = append(l, 2*l[len(l)-1]+1)
	}
	return l
}

// levelGroup: up to gsize keys falling into the bucket of base for every capacity in mods.
func levelGroup(t *lmap.TypeDesc, r *vlib.Rand, base int64, mods []int, gsize int) []any {
	is32 := t.Key == lmap.KInt32
	norm := func(v int64) int64 {
		if is32 {
			return int64(int32(v))
		}
		return v
	}
	base = norm(base)
	same := func(k int64) bool {
		hk, hb := t.BucketHash(k), t.BucketHash(base)
		for _, n := range mods {
			if hk%uint(n) != hb%uint(n) {
				return false
			}
		}
		return true
	}
	M := uint(1)
	for _, n := range mods {
		M *= uint(n)
	}
	g := []any{base}
	has := map[int64]bool{base: true}
	take := func(k int64) bool {
		if is32 && (k < math.MinInt32 || k > math.MaxInt32) {
			return false
		}
		if !has[k] && same(k) {
			g, has[k] = append(g, k), true
			return true
		}
		return false
	}
	target := t.BucketHash(base) % M
	for tries := 0; len(g) < gsize && tries < 4*gsize; tries++ {
		var v0 int64
		span := int64(M) * 4
		if span > 1<<20 {
			span = 1 << 20
		}
		off := int64(r.Intn(int(span)))
		switch r.Intn(8) {
		case 0:
			if is32 {
				v0 = math.MinInt32 + off
			} else {
				v0 = math.MinInt64 + off
			}
		case 1:
			v0 = -off - 1
		case 2:
			v0 = off
		case 3:
			if is32 {
				v0 = math.MaxInt32 - 2*span + off
			} else {
				v0 = math.MaxInt64 - 2*span + off
			}
		case 4:
			if is32 {
				v0 = int64(r.I32())
			} else {
				v0 = 1<<32 + off - span/2 // around 2^32: the fold of the long hashes
			}
		case 5:
			if is32 {
				v0 = int64(r.I32())
			} else {
				v0 = -(1 << 32) + off - span/2
			}
		default:
			if is32 {
				v0 = int64(r.I32())
			} else {
				v0 = r.I64()
			}
		}
		// where the hash is additive in the key (identity, masks) the distance is known …
		h0 := t.BucketHash(v0) % M
		if take(v0+int64((target+M-h0)%M)) || take(v0-int64((h0+M-target)%M)) {
			continue
		}
		// … elsewhere (folded long keys) scan a little
		for j := int64(1); j < 1500; j++ {
			if take(v0 + j) {
				break
			}
		}
	}
	return g
}

// levelGroups: about want keys in groups of 2..5 spread over the capacity levels.
func levelGroups(t *lmap.TypeDesc, r *vlib.Rand, cfg lmap.Config, want int) [][]any {
	levels := capLevels(t, cfg, 5)
	var out [][]any
	got := 0
	for n := 0; got < want && n < 40; n++ {
		lv := r.Intn(len(levels) - 1)
		span := 1 + r.Intn(3)
		var mods []int
		M := int64(1)
		for j := lv; j < len(levels) && len(mods) < span && M*int64(levels[j]) < 1<<26; j++ {
			mods = append(mods, levels[j])
			M *= int64(levels[j])
		}
		if len(mods) == 0 {
			continue
		}
		var base int64
		switch r.Intn(5) {
		case 0:
			base = int64Specials[r.Intn(len(int64Specials))]
		case 1:
			base = -int64(r.Intn(1000)) - 1
		case 2:
			base = int64(r.Intn(1000))
		default:
			base = r.I64()
		}
		g := levelGroup(t, r, base, mods, r.Range(2, 5))
		if len(g) >= 2 {
			out = append(out, g)
			got += len(g)
		}
	}
	return out
}

// ---- coverage --------------------------------------------------------------------------

func (h *hist) live(k any) bool {
	for i := range h.m.Ents {
		if h.m.Ents[i].K == k {
			return true
		}
	}
	return false
}

// partnerLive: is k a twin, and is ANOTHER member of its group stored (model)?
func (h *hist) partnerLive(k any) (twin, partner bool) {
	if h.tw.empty() || k == nil {
		return false, false
	}
	g, ok := h.tw.of[k]
	if !ok {
		return false, false
	}
	for _, o := range h.tw.groups[g] {
		if o != k && h.live(o) {
			return true, true
		}
	}
	return true, false
}

func (h *hist) liveTwinGroups() int {
	if h.tw.empty() {
		return 0
	}
	n := 0
	for _, g := range h.tw.groups {
		l := 0
		for _, k := range g {
			if h.live(k) {
				l++
			}
		}
		if l >= 2 {
			n++
		}
	}
	return n
}

// pickTwin: a member of an equal-hash group; insertions prefer an absent member whose partner
// is stored, removals a stored member whose partner is stored, lookups any member whose
// partner is stored.
func (h *hist) pickTwin(r *vlib.Rand, name string) any {
	m := h.tw.mem
	start := r.Intn(len(m))
	if r.Intn(4) != 0 {
		for j := 0; j < len(m) && j < 16; j++ {
			k := m[(start+j)%len(m)]
			_, partner := h.partnerLive(k)
			if !partner {
				continue
			}
			self := h.live(k)
			switch name {
			case "Put", "PutFirst", "PutLast", "Add", "AddFirst", "AddLast", "AddNoOver", "Unipoint":
				if !self {
					return k
				}
			case "Remove":
				if self {
					return k
				}
			default:
				return k
			}
		}
	}
	return m[start]
}

func (h *hist) twinCoverage(op lmap.Op, twin, partner, self bool, info lmap.StepInfo) {
	if !twin || !partner {
		return
	}
	c := h.c
	c.Count("equal_hash_ops_with_partner_stored", 1)
	switch op.Name {
	case "Put", "PutFirst", "PutLast", "Add", "AddFirst", "AddLast", "AddNoOver", "Unipoint":
		if info.Inserted {
			c.Count("equal_hash_second_member_inserted", 1)
			c.SetAdd("equal_hash_second_member_inserted_types", h.t.Name)
			if h.live(op.K) {
				if _, still := h.partnerLive(op.K); still {
					c.Count("equal_hash_second_member_inserted_both_stay", 1)
					c.Count("equal_hash_both_stored_"+h.t.Name, 1)
				}
			}
		} else if self {
			c.Count("equal_hash_member_updated_or_moved_with_partner_stored", 1)
		}
	case "Remove":
		if self {
			c.Count("equal_hash_member_removed_partner_stays", 1)
		} else {
			c.Count("equal_hash_absent_member_removed_partner_stays", 1)
		}
	case "Get", "GetLRU", "ContainsKey":
		if self {
			c.Count("equal_hash_lookup_of_stored_member_with_partner_stored", 1)
		} else {
			c.Count("equal_hash_lookup_of_absent_member_with_partner_stored", 1)
		}
	}
}

// growthCoverage: the old table at the moment of a growth (keys: the content before the
// operation that grew the table).
func (h *hist) growthCoverage(oldLen int, before []any) {
	c := h.c
	type bucket struct {
		n   int
		neg bool
		h   map[uint]int
	}
	bs := map[uint]*bucket{}
	for _, k := range before {
		full := h.t.BucketHash(k)
		b := bs[full%uint(oldLen)]
		if b == nil {
			b = &bucket{h: map[uint]int{}}
			bs[full%uint(oldLen)] = b
		}
		b.n++
		b.h[full]++
		if x, ok := k.(int64); ok && x < 0 {
			b.neg = true
		}
	}
	maxChain, neg, twins := 0, false, false
	for _, b := range bs {
		if b.n > maxChain {
			maxChain = b.n
		}
		if b.n >= 2 {
			neg = neg || b.neg
			for _, n := range b.h {
				if n >= 2 {
					twins = true
				}
			}
		}
	}
	c.Count("growths_examined", 1)
	c.Max("max_old_chain_at_growth", int64(maxChain))
	if maxChain >= 2 {
		c.Count("growths_with_old_chain_ge2", 1)
		c.Count("growths_with_old_chain_ge2_"+h.t.Name, 1)
	}
	if maxChain >= 3 {
		c.Count("growths_with_old_chain_ge3", 1)
	}
	if neg {
		c.Count("growths_with_negative_key_in_old_chain", 1)
	}
	if twins {
		c.Count("growths_with_equal_hash_keys_in_old_chain", 1)
		c.SetAdd("growths_with_equal_hash_keys_in_old_chain_types", h.t.Name)
	}
}
