// wC09 — linked hash maps/sets behave as bounded insertion-ordered dictionaries.
//
// For each of the thirteen linked types of util/hmap, generated operation histories are run
// on a real instance and, in lock-step, on the sequential reference model (verif/lmap.Model).
// After EVERY operation: the returned value, then the real state read through the private
// fields by the structural walker (order list, buckets, count) against the model state, then
// every public observer (Size, IsEmpty, IsFull, first/last key and value, Keys, Values,
// Entries, KeyArray) against the model. A divergence is reported under
// <Type>.<Method>:<kind>, the model is re-synchronised from the real (structurally sound)
// state and the history goes on, so one defect does not hide the rest of a history.
package main

import (
	"fmt"
	"hash/crc32"
	"math"
	"runtime/debug"
	"sort"
	"strings"
	"time"

	"verif/lmap"
	"verif/pmap"
	"verif/vlib"
)

const callLimit = 10 * time.Second // one probed call
const histLimit = 30 * time.Second // one whole history (a self-deadlock is recognised from the stack long before)

// ---- key and value pools ---------------------------------------------------------------

var interestingInts = []int64{
	0, 1, 2, 3, -1, -2, 7,
	101, 202, 303, 404, 203, 406, 407, 814, // multiples of the table sizes 101, 203, 407
	20503, 41006, 61509, 8344721, // 101*203 and 101*203*407: collide before and after growth
	-101, -20503,
	math.MaxInt32, math.MinInt32, math.MaxInt32 - 1, math.MinInt32 + 1,
	1 << 31, 1 << 32, 1<<32 + 1, -(1 << 32), 101 << 32, 1<<32 | 101,
	math.MaxInt64, math.MinInt64, math.MaxInt64 - 1, math.MinInt64 + 1,
}

func javaHash(s string) int {
	h := 0
	for i := 0; i < len(s); i++ {
		h = 31*h + int(s[i])
	}
	return h
}

// strings found by search to fall into bucket 0 of a 101-bucket table (some also of the
// 203-bucket table after the first growth) under CRC32 (maps) and under Java's hashCode (set).
var crcBucket0, javaBucket0 []string

func init() {
	both := 0
	for n := 0; len(crcBucket0) < 10; n++ {
		s := fmt.Sprintf("z%d", n)
		h := uint(int32(crc32.ChecksumIEEE([]byte(s))))
		if h%101 == 0 && (h%203 == 0 || len(crcBucket0)-both < 6) {
			if h%203 == 0 {
				both++
			}
			crcBucket0 = append(crcBucket0, s)
		}
	}
	both = 0
	for n := 0; len(javaBucket0) < 10; n++ {
		s := fmt.Sprintf("j%d", n)
		h := uint(javaHash(s))
		if h%101 == 0 && (h%203 == 0 || len(javaBucket0)-both < 6) {
			if h%203 == 0 {
				both++
			}
			javaBucket0 = append(javaBucket0, s)
		}
	}
}

var interestingStrings = []string{"", "a", "b", "ab", "ba", " ", "\x00", "한국어", "\xff\xfe", "key", "KEY",
	"a-rather-long-key-0123456789012345678901234567890123456789012345678901234567890123456789"}

func keyPool(t *lmap.TypeDesc, r *vlib.Rand, size int) []any {
	pool, _ := keyPoolFor(t, r, size, lmap.Config{Default: true}, false)
	return pool
}

// keyPoolFor builds the pool of one history: equal-hash groups and level groups (twins.go)
// first, then the interesting keys, then a run.
func keyPoolFor(t *lmap.TypeDesc, r *vlib.Rand, size int, cfg lmap.Config, withGroups bool) ([]any, *twinSet) {
	seen := map[any]bool{}
	var pool []any
	tw := &twinSet{}
	add := func(k any) {
		if t.Key == lmap.KInt32 {
			k = int64(int32(k.(int64)))
		}
		if !seen[k] {
			seen[k] = true
			pool = append(pool, k)
		}
	}
	if withGroups && size <= 3 && r.Bool() {
		withGroups = false // half of the tiny pools stay as they were
	}
	if withGroups {
		for _, g := range twinGroups(t, r, twinGroupCount(r, size)) {
			if len(pool)+len(g) > size {
				g = g[:2]
			}
			if len(pool)+len(g) > size && len(pool) > 0 {
				break
			}
			for _, k := range g {
				add(k)
			}
			tw.add(g)
		}
		if t.Key != lmap.KString && size >= 6 {
			for _, g := range levelGroups(t, r, cfg, minInt(size/3, 60)) {
				for _, k := range g {
					if len(pool) < size {
						add(k)
					}
				}
			}
		}
	}
	special := size/2 + 2
	if withGroups {
		special = len(pool) + (size-len(pool))/2 + 1
	}
	if t.Key == lmap.KString {
		cand := append([]string{}, interestingStrings...)
		if t.Name == "StringLinkedSet" {
			cand = append(cand, javaBucket0...)
		} else {
			cand = append(cand, crcBucket0...)
		}
		r.Shuffle(len(cand), func(i, j int) { cand[i], cand[j] = cand[j], cand[i] })
		if r.Chance(2, 3) {
			add("") // the empty string is in most pools
		}
		for i := 0; i < len(cand) && len(pool) < special; i++ {
			add(cand[i])
		}
		base := r.Intn(1000)
		for i := 0; len(pool) < size; i++ {
			add(fmt.Sprintf("k%d", base+i))
		}
		return pool, tw
	}
	cand := append([]int64{}, interestingInts...)
	r.Shuffle(len(cand), func(i, j int) { cand[i], cand[j] = cand[j], cand[i] })
	for i := 0; i < len(cand) && len(pool) < special; i++ {
		add(cand[i])
	}
	base := r.I64()
	if r.Bool() {
		base = int64(r.Intn(2000)) - 1000
	}
	stride := []int64{1, 1, 101, 203, 20503, 1 << 32}[r.Intn(6)]
	if t.Key == lmap.KInt32 && int32(stride) == 0 {
		stride = 407
	}
	for i := int64(0); len(pool) < size; i++ {
		add(base + i*stride)
	}
	return pool, tw
}

func minInt(a, b int) int {
	if a < b {
		return a
	}
	return b
}

type valGen struct {
	t    *lmap.TypeDesc
	none any
	n    int64
}

func (g *valGen) next(r *vlib.Rand) any {
	g.n++
	switch g.t.Val {
	case lmap.VObj:
		switch r.Intn(20) {
		case 0:
			return nil
		case 1:
			return ""
		case 2:
			return int64(0)
		case 3, 4:
			return fmt.Sprintf("v%d", g.n)
		case 5, 6:
			return int64(r.Intn(4) + 1) // repeated small values
		}
		return 1000 + g.n
	case lmap.VInt32:
		switch r.Intn(12) {
		case 0:
			return int64(0)
		case 1:
			return int64(-1)
		case 2:
			return int64(math.MaxInt32)
		case 3:
			return int64(math.MinInt32)
		case 4, 5:
			return int64(r.Intn(4) + 1)
		}
		return 1000 + g.n
	case lmap.VInt64:
		switch r.Intn(12) {
		case 0:
			return int64(0)
		case 1:
			return int64(-1)
		case 2:
			return int64(math.MaxInt64)
		case 3:
			return int64(math.MinInt64)
		case 4, 5:
			return int64(r.Intn(4) + 1)
		}
		return 1000 + g.n
	case lmap.VFloat32:
		switch r.Intn(10) {
		case 0:
			return float32(0)
		case 1:
			return float32(-1)
		case 2:
			return float32(1e10)
		case 3:
			return float32(-7.75)
		case 4, 5:
			return float32(r.Intn(4)+1) / 4
		}
		return float32(g.n) / 4
	}
	return nil
}

// ---- operation weights -----------------------------------------------------------------

type wop struct {
	name string
	w    int
}

var opWeights = []wop{
	{"Put", 22}, {"PutFirst", 9}, {"PutLast", 9},
	{"Add", 5}, {"AddFirst", 3}, {"AddLast", 3}, {"AddNoOver", 3}, {"Unipoint", 3},
	{"Get", 8}, {"GetLRU", 5}, {"ContainsKey", 5}, {"ContainsValue", 4},
	{"Remove", 10}, {"RemoveFirst", 4}, {"RemoveLast", 4},
	{"Clear", 1}, {"Sort", 2}, {"SetMax", 2}, {"ToString", 1}, {"GetKeySet", 1},
}

var observers = []string{"Size", "IsEmpty", "IsFull", "FirstKey", "LastKey", "FirstValue", "LastValue",
	"Keys", "Values", "Entries", "KeyArray"}

var maxChoices = []int{0, 0, 1, 2, 5, 50}
var capChoices = []int{1, 2, 3, 7, 101}
var lfChoices = []float32{0.5, 0.75, 1, 2}

// ---- one history -----------------------------------------------------------------------

type hist struct {
	c    *vlib.Ctx
	t    *lmap.TypeDesc
	cfg  lmap.Config
	in   *lmap.Inst
	m    *lmap.Model
	run  *lmap.Runner
	dead map[string]bool
	log  []string // executed operations, for the replay file
	pool []any
	tw   *twinSet // equal-hash key groups mixed into the pool (twins.go)
	stop bool
	tlen int
	muts int
	grew int // table growths seen by the light steps of a size-class history
	// lookupCap > 0 (size-class histories): a full observation looks up at most about this many
	// of the stored keys (every stride-th, rotating phase) instead of all of them
	lookupCap int
	tlenSC    int

	curOp     lmap.Op // the call in progress (read by the main goroutine if the history never returns)
	curMethod string
}

var reported = map[string]int{}       // finding key -> occurrences in this process
var conventions = map[string]string{} // type.method situation -> raw spelling of "nothing"

func (h *hist) fail(key, what string, extra map[string]any) {
	reported[key]++
	if h.c.IsKnown(key) || reported[key] > 1 {
		h.c.Fail(key, what, nil)
		return
	}
	d := map[string]any{
		"type": h.t.Name, "config": h.cfg, "operations": append([]string(nil), h.log...),
		"model_keys": fmt.Sprint(h.m.Keys()), "model_values": fmt.Sprint(h.m.Values()), "model_max": h.m.Max,
	}
	for k, v := range extra {
		d[k] = v
	}
	h.c.Fail(key, what, d)
}

func (h *hist) key(op lmap.Op, method, kind string) string {
	k := h.t.Name + "." + h.t.Real(method) + ":" + kind
	if s, ok := op.K.(string); ok && s == "" && op.Name == method {
		k += "/empty-key"
	}
	return k
}

func sameMultiset(a, b []any) bool {
	if len(a) != len(b) {
		return false
	}
	cnt := map[any]int{}
	for _, x := range a {
		cnt[x]++
	}
	for _, x := range b {
		cnt[x]--
		if cnt[x] < 0 {
			return false
		}
	}
	return true
}

func isUpdate(name string) bool {
	switch name {
	case "Put", "PutFirst", "PutLast", "Add", "AddFirst", "AddLast", "AddNoOver", "Unipoint", "Get", "GetLRU":
		return true
	}
	return false
}

// classify names the kind of a state divergence after op.
func classify(m *lmap.Model, info lmap.StepInfo, op lmap.Op, keys, vals []any) string {
	mk := m.Keys()
	same := sameMultiset(mk, keys)
	if info.Inserted && !contains(keys, op.K) {
		return "wrong-size" // the new key was not admitted at all (whatever else then differs follows from that)
	}
	switch {
	case m.Max > 0 && len(mk) <= m.Max && len(keys) > m.Max:
		return "bound-exceeded"
	case !same && (len(info.Evicted) > 0 || (info.Existing && isUpdate(op.Name) && m.Max > 0)):
		return "wrong-eviction"
	case len(mk) != len(keys):
		return "wrong-size"
	case same && !lmap.SeqEqual(mk, keys):
		return "wrong-order"
	}
	return "wrong-return" // a stored key or value is not the one the model holds
}

func contains(s []any, k any) bool {
	for _, x := range s {
		if x == k {
			return true
		}
	}
	return false
}

func seqKind(exp, got []any) string {
	if sameMultiset(exp, got) {
		return "wrong-order"
	}
	return "wrong-return"
}

// observe compares every public observer with the model (the real state is already known to
// equal the model state, so a mismatch here is the observer's own fault).
func (h *hist) observe(full bool) {
	type one struct {
		op  lmap.Op
		res lmap.Result
	}
	var list []one
	for _, o := range observers {
		if h.t.Supports(o) && !h.dead[h.t.Name+"."+o] {
			list = append(list, one{op: lmap.Op{Name: o}})
		}
	}
	if full {
		if h.t.Supports("GetKeySet") && !h.dead[h.t.Name+".GetKeySet"] {
			list = append(list, one{op: lmap.Op{Name: "GetKeySet"}})
		}
		// every stored key must be found again by the public lookups
		stride := 1
		if h.lookupCap > 0 && len(h.m.Ents) > h.lookupCap {
			stride = len(h.m.Ents)/h.lookupCap + 1
		}
		for i, e := range h.m.Ents {
			if stride > 1 && i%stride != len(h.log)%stride {
				continue
			}
			list = append(list, one{op: lmap.Op{Name: "ContainsKey", K: e.K}})
			if h.t.Supports("Get") {
				list = append(list, one{op: lmap.Op{Name: "Get", K: e.K}})
			}
		}
		h.c.Count("lookup_all_checks", 1)
		if h.liveTwinGroups() > 0 {
			h.c.Count("lookup_all_checks_with_equal_hash_pair_stored", 1)
		}
		// every member of an equal-hash group, stored or not
		if !h.tw.empty() {
			for _, k := range h.tw.mem {
				list = append(list, one{op: lmap.Op{Name: "ContainsKey", K: k}})
			}
		}
	}
	for i := range list {
		h.curOp, h.curMethod = list[i].op, list[i].op.Name
		list[i].res = lmap.Apply(h.in, list[i].op)
	}
	for _, x := range list {
		exp := h.m.Step(x.op)
		h.c.Count("observer_checks", 1)
		if x.res.Equal(exp) {
			continue
		}
		kind := "wrong-return"
		if x.res.Panic != "" {
			kind = "panic"
		} else if exp.Kind == lmap.RSeq {
			kind = seqKind(exp.Seq, x.res.Seq)
		}
		h.fail(h.key(x.op, x.op.Name, kind), fmt.Sprintf("%s.%s = %v, the model (and the walked structure) say %v",
			h.t.Name, x.op, x.res, exp), map[string]any{"observer": x.op.String(), "got": x.res.String(), "expected": exp.String()})
	}
}

// state walks the real structure; false = structurally unsound (reported, history abandoned).
func (h *hist) state(op lmap.Op, full bool) (*lmap.Snapshot, bool) {
	var s *lmap.Snapshot
	if full || h.m.Size() <= 48 {
		s = lmap.Walk(h.in)
		h.c.Count("walker_runs", 1)
	} else {
		s = lmap.WalkOrder(h.in) // large structure: buckets every 8th operation, order list every time
		h.c.Count("walker_order_only_runs", 1)
	}
	if len(s.Problems) > 0 {
		h.fail(h.key(op, op.Name, "structure-corrupt"), fmt.Sprintf("after %s the private structure of %s is unsound: %s", op, h.t.Name, s.Problems[0]),
			map[string]any{"problems": s.Problems})
		h.stop = true
		return s, false
	}
	if h.tlen != 0 && s.TableLen != h.tlen {
		h.c.Count("rehashes_observed", 1)
	}
	h.tlen = s.TableLen
	h.c.Max("max_table_len", int64(s.TableLen))
	if s.MaxChain > 0 {
		h.c.Max("max_chain_len", int64(s.MaxChain))
	}
	h.c.Max("max_size", int64(len(s.Keys)))
	if s.MaxChain >= 3 {
		h.c.Count("states_with_chain_ge3", 1)
	}
	return s, true
}

func (h *hist) convention(op lmap.Op, res lmap.Result, situation string) {
	if res.Raw == "" {
		return
	}
	k := fmt.Sprintf("%s.%s %s", h.t.Name, h.t.Real(op.Name), situation)
	if h.cfg.None != nil {
		k += fmt.Sprintf(" NONE=%v", h.cfg.None)
	}
	if old, ok := conventions[k]; ok && old != res.Raw {
		h.fail(h.key(lmap.Op{}, op.Name, "wrong-return"), fmt.Sprintf("%s spells \"nothing\" as %s and as %s in the same situation", k, old, res.Raw), nil)
	}
	conventions[k] = res.Raw
	h.c.SetAdd("absent_conventions", k+" -> "+res.Raw)
}

// step executes one operation on both sides and checks everything.
func (h *hist) step(op lmap.Op, full bool) {
	c := h.c
	h.log = append(h.log, op.String())
	h.curOp, h.curMethod = op, op.Name
	res := lmap.Apply(h.in, op)
	c.Count("ops", 1)
	c.Count("op_"+op.Name, 1)
	preSize := h.m.Size()
	if res.Panic != "" {
		h.fail(h.key(op, op.Name, "panic"), fmt.Sprintf("%s.%s panics: %s", h.t.Name, h.t.Real(op.Name), res.Panic),
			map[string]any{"panic": res.Panic})
		s, ok := h.state(op, true)
		if !ok {
			return
		}
		// the panicking call is treated as not executed; if it changed the state anyway, follow it
		if !lmap.SeqEqual(s.Keys, h.m.Keys()) || !lmap.SeqEqual(s.Vals, h.m.Values()) {
			c.Count("state_changed_by_panicking_call", 1)
			h.m.Resync(s.Keys, s.Vals, s.Max)
		}
		return
	}
	twin, partner := h.partnerLive(op.K)
	self := twin && h.live(op.K)
	exp := h.m.Step(op)
	info := h.m.Last
	h.twinCoverage(op, twin, partner, self, info)
	if !res.Equal(exp) {
		h.fail(h.key(op, op.Name, "wrong-return"), fmt.Sprintf("%s.%s returned %v, model %v", h.t.Name, op, res, exp),
			map[string]any{"got": res.String(), "expected": exp.String()})
	} else if exp.Kind == lmap.RVal && exp.Absent {
		switch {
		case isUpdate(op.Name) && op.Name != "Get" && op.Name != "GetLRU" && !info.Existing:
			h.convention(op, res, "new-key")
		case (op.Name == "Get" || op.Name == "GetLRU" || op.Name == "Remove") && !info.Existing:
			h.convention(op, res, "absent-key")
		case (op.Name == "RemoveFirst" || op.Name == "RemoveLast") && preSize == 0:
			h.convention(op, res, "empty")
		}
	}
	// coverage of the situations the property talks about
	if info.Changed {
		h.muts++
	}
	if n := len(info.Evicted); n > 0 {
		c.Count("evictions", int64(n))
		if op.Name == "PutFirst" || op.Name == "AddFirst" {
			c.Count("evictions_from_back", int64(n))
		} else {
			c.Count("evictions_from_front", int64(n))
		}
	}
	if info.Existing && isUpdate(op.Name) && h.m.Max > 0 && h.m.Size() >= h.m.Max {
		c.Count("updates_of_existing_key_when_full", 1)
	}
	if info.Existing && info.Changed && (op.Name == "PutFirst" || op.Name == "PutLast" || op.Name == "GetLRU" || op.Name == "AddFirst" || op.Name == "AddLast") {
		c.Count("moves_to_an_end", 1)
	}
	if op.Name == "SetMax" && op.N > 0 && h.m.Size() > op.N {
		c.Count("setmax_below_current_size", 1)
	}
	if op.Name == "Sort" && info.Changed {
		c.Count("sorts_that_reordered", 1)
	}
	if s, ok := op.K.(string); ok && s == "" {
		c.Count("ops_with_empty_string_key", 1)
	}
	if k, ok := op.K.(int64); ok && (k < 0 || k >= math.MaxInt32) {
		c.Count("ops_with_negative_or_extreme_key", 1)
	}

	oldLen := h.tlen
	s, ok := h.state(op, full)
	if !ok {
		return
	}
	if oldLen != 0 && s.TableLen > oldLen {
		// the content before the operation: what is there now, without the key just inserted, with the keys just evicted
		before := make([]any, 0, len(s.Keys)+len(info.Evicted))
		for _, k := range s.Keys {
			if !(info.Inserted && k == op.K) {
				before = append(before, k)
			}
		}
		before = append(before, info.Evicted...)
		h.growthCoverage(oldLen, before)
		if h.liveTwinGroups() > 0 {
			c.Count("rehashes_with_equal_hash_pair_stored", 1)
		}
	}
	if !lmap.SeqEqual(s.Keys, h.m.Keys()) || !lmap.SeqEqual(s.Vals, h.m.Values()) || s.Count != h.m.Size() {
		kind := classify(h.m, info, op, s.Keys, s.Vals)
		h.fail(h.key(op, op.Name, kind), fmt.Sprintf("after %s.%s the structure holds keys %v values %v; model keys %v values %v (max %d, evicted by model %v)",
			h.t.Name, op, clip(s.Keys), clip(s.Vals), clip(h.m.Keys()), clip(h.m.Values()), h.m.Max, info.Evicted),
			map[string]any{"real_keys": fmt.Sprint(s.Keys), "real_values": fmt.Sprint(s.Vals), "real_count": s.Count, "real_max": s.Max})
		h.m.Resync(s.Keys, s.Vals, h.m.Max)
		c.Count("resyncs", 1)
	}
	if s.Max != h.m.Max {
		h.fail(h.key(op, "SetMax", "wrong-return"), fmt.Sprintf("%s: max field is %d, model bound %d", h.t.Name, s.Max, h.m.Max), nil)
		h.m.Max = s.Max
	}
	h.observe(full)
}

func clip(s []any) string {
	if len(s) > 12 {
		return fmt.Sprintf("%v…(%d)", s[:12], len(s))
	}
	return fmt.Sprint(s)
}

// a type one of whose histories ran into a call that neither returned nor parked: its helper
// goroutine is still spinning, further histories would only add more of them
var hungTypes = map[string]bool{}

func runHistory(c *vlib.Ctx, t *lmap.TypeDesc, idx int, r *vlib.Rand, dead map[string]bool) {
	if hungTypes[t.Name] {
		c.Eval(-1)
		c.Count("histories_skipped_after_hang", 1)
		return
	}
	// configuration
	cfg := lmap.Config{Default: true}
	if t.HasCapLF && r.Chance(4, 5) {
		cfg = lmap.Config{Cap: capChoices[r.Intn(len(capChoices))], LF: lfChoices[r.Intn(len(lfChoices))]}
	}
	cfg.Max = maxChoices[r.Intn(len(maxChoices))]
	if t.Key == lmap.KLinked && r.Chance(1, 3) {
		// keys of a dynamic type without == (the structure has to use Equals)
		cfg.UKeys = true
		c.Count("histories_with_uncomparable_keys", 1)
	}
	if t.HasNone && r.Chance(1, 5) {
		if t.Val == lmap.VFloat32 {
			cfg.None = float32(-1)
		} else {
			cfg.None = int64(-1)
		}
	}
	var nOps, poolSize int
	grow := false
	switch x := r.Intn(20); {
	case x < 11:
		nOps, poolSize = r.Range(4, 40), []int{2, 3, 4, 6, 8, 12}[r.Intn(6)]
	case x < 17:
		nOps, poolSize = r.Range(40, 150), []int{4, 8, 16, 30, 60}[r.Intn(5)]
	default:
		nOps, poolSize = r.Range(150, 400), []int{8, 30, 100, 180, 260}[r.Intn(5)]
		if r.Chance(1, 5) {
			// growth history: mostly insertions of many distinct keys, no bound, so that the
			// default 101-bucket table grows twice (101 -> 203 -> 407)
			grow, nOps, poolSize = true, 400, 400
			cfg.Max = 0
		}
	}
	h := &hist{c: c, t: t, cfg: cfg, dead: dead}
	h.pool, h.tw = keyPoolFor(t, r, poolSize, cfg, true)
	if !h.tw.empty() {
		c.Count("histories_with_equal_hash_groups", 1)
		c.SetAdd("types_with_equal_hash_groups", t.Name)
	}
	h.in = t.New(cfg)
	h.m = lmap.NewModel(t, cfg)
	h.run = lmap.NewRunner()
	defer h.run.Close()
	h.in.EnumLimit = 4*poolSize + 64
	vg := &valGen{t: t}

	ctor := "default"
	if !cfg.Default {
		ctor = fmt.Sprintf("cap=%d,lf=%v", cfg.Cap, cfg.LF)
	}
	c.SetAdd("constructors", t.Name+"("+ctor+")")
	c.SetAdd("max_sizes", fmt.Sprint(cfg.Max))
	c.SetAdd("types_covered", t.Name)
	h.log = append(h.log, fmt.Sprintf("New%s(%s) max=%d none=%v", t.Name, ctor, cfg.Max, cfg.None))

	var sig uint64
	var crashed any
	body := func() {
		defer func() {
			if e := recover(); e != nil {
				crashed = fmt.Sprintf("%v\n%s", e, debug.Stack())
			}
		}()
		// the empty structure
		if s, ok := h.state(lmap.Op{Name: "New"}, true); ok {
			if len(s.Keys) != 0 {
				h.fail(t.Name+".New:wrong-size", "a fresh instance is not empty", nil)
			}
			h.observe(false)
		}

		// usable weighted operations of this type
		var ops []wop
		total := 0
		for _, w := range opWeights {
			if grow {
				switch w.name {
				case "Put", "PutFirst", "PutLast":
					w.w *= 3
				case "Clear", "SetMax":
					w.w = 0
				case "Remove", "RemoveFirst", "RemoveLast":
					w.w /= 4
				}
			}
			if t.Supports(w.name) && w.w > 0 {
				ops = append(ops, w)
				total += w.w
			}
		}
		fresh := int64(1 << 40)
		sig = vlib.HashStr(t.Name + fmt.Sprint(cfg))
		for n := 0; n < nOps && !h.stop; n++ {
			x := r.Intn(total)
			var name string
			for _, w := range ops {
				if x < w.w {
					name = w.name
					break
				}
				x -= w.w
			}
			op := lmap.Op{Name: name}
			// key
			switch {
			case !h.tw.empty() && r.Chance(1, 7):
				op.K = h.pickTwin(r, name)
			case len(h.m.Ents) > 0 && r.Chance(1, 8):
				op.K = h.m.Ents[r.Intn(len(h.m.Ents))].K
			case r.Chance(1, 25):
				fresh++
				if t.Key == lmap.KString {
					op.K = fmt.Sprintf("fresh%d", fresh)
				} else if t.Key == lmap.KInt32 {
					op.K = int64(int32(fresh * 7919))
				} else {
					op.K = fresh * 7919
				}
			default:
				op.K = h.pool[r.Intn(len(h.pool))]
			}
			switch name {
			case "Put", "PutFirst", "PutLast", "Add", "AddFirst", "AddLast", "AddNoOver":
				if !t.IsSet() {
					op.V = vg.next(r)
				}
			case "ContainsValue":
				op.K = nil
				if len(h.m.Ents) > 0 && r.Chance(3, 4) {
					op.V = h.m.Ents[r.Intn(len(h.m.Ents))].V
				} else {
					op.V = vg.next(r)
				}
				if op.V == nil {
					op.V = int64(77) // ContainsValue(nil) is documented to panic on the object maps
				}
			case "Sort":
				op.K = nil
				op.Desc = r.Bool()
			case "SetMax":
				op.K = nil
				op.N = maxChoices[r.Intn(len(maxChoices))]
			case "RemoveFirst", "RemoveLast", "Clear", "ToString", "GetKeySet":
				op.K = nil
			}
			sig = vlib.Mix(sig ^ vlib.HashStr(op.String()))
			if dead[t.Name+"."+name] {
				c.Count("ops_skipped_known_self_deadlock", 1)
				continue
			}
			h.step(op, n%8 == 7 || n == nOps-1)
		}
	}
	// The whole history runs on a helper goroutine: a call that re-locks the instance's own
	// mutex parks that goroutine for ever, which the runner recognises from its stack.
	switch out, stack := h.run.Do(body, histLimit); out {
	case lmap.SelfDeadlock:
		h.fail(h.key(h.curOp, h.curMethod, "self-deadlock"), fmt.Sprintf("%s.%s never returns on a private single-goroutine instance: parked in sync.(*Mutex).Lock beneath its own frame",
			t.Name, t.Real(h.curMethod)), map[string]any{"stack": stack})
	case lmap.Hung:
		hungTypes[t.Name] = true
		// Not parked: a busy loop or a starved machine. The clock cannot tell which; the private
		// links can: a cyclic hash chain / an order-list cycle that avoids the header (seen at two
		// looks, while the helper goroutine is inside a method of the structure) proves that the
		// walk in progress cannot end.
		if strings.Contains(stack, "github.com/whatap/golib/util/hmap.") {
			if lmap.FindCycle(h.in) != "" {
				time.Sleep(20 * time.Millisecond)
				if cyc := lmap.FindCycle(h.in); cyc != "" {
					c.Count("histories_abandoned_after_endless_walk", 1)
					reported[h.key(h.curOp, h.curMethod, "never-returns")]++
					c.Fail(h.key(h.curOp, h.curMethod, "never-returns"), fmt.Sprintf("%s.%s never returns on a private single-goroutine instance: the call is running inside the structure and %s — the walk over it cannot end",
						t.Name, t.Real(h.curMethod), cyc), map[string]any{"type": t.Name, "config": h.cfg, "operations": append([]string(nil), h.log...), "cycle": cyc, "stack": stack})
					return
				}
			}
		}
		c.Eval(-1) // an inconclusive case is not an evaluation
		c.Inconclusive(fmt.Sprintf("%s.%s", t.Name, t.Real(h.curMethod)), "history did not finish within 30 s and is not parked on a mutex (busy loop or starved machine); the remaining histories of this type are skipped in this process")
		return
	}
	if crashed != nil {
		panic(crashed)
	}
	c.Count("histories", 1)
	if h.muts > 0 {
		c.Distinct(sig)
	}
	if h.tlen > 101 || (!cfg.Default && h.tlen > cfg.Cap) {
		c.Count("histories_with_table_growth", 1)
	}
	if idx < 2 && c.WantSample() {
		l := h.log
		if len(l) > 40 {
			l = append(append([]string{}, l[:40]...), fmt.Sprintf("… %d more", len(h.log)-40))
		}
		c.Sample(map[string]any{"type": t.Name, "operations": l, "final_keys": clip(h.m.Keys()), "final_values": clip(h.m.Values())})
	}
}

// probeSelfDeadlocks calls every offered operation once on a small private instance. An
// operation whose call parks on the instance's own mutex is reported and left out of the
// histories (it would end every history it occurs in); the outcome depends only on the tree,
// so histories stay reproducible from their index.
func probeSelfDeadlocks(c *vlib.Ctx) map[string]bool {
	dead := map[string]bool{}
	c.Journal("selfdeadlock-probe#0", "probe")
	report := c.Only == "" || c.Only == "selfdeadlock-probe#0"
	for _, t := range lmap.Types {
		for _, name := range t.Ops() {
			in := t.New(lmap.Config{Default: true})
			pool := keyPool(t, vlib.NewRand(1), 4)
			vg := &valGen{t: t}
			rr := vlib.NewRand(2)
			run := lmap.NewRunner()
			op := lmap.Op{Name: name, K: pool[1], V: vg.next(rr), N: 5}
			if name == "ContainsValue" && op.V == nil {
				op.V = int64(1)
			}
			out, stack := run.Do(func() {
				for _, k := range pool {
					if t.IsSet() {
						lmap.Apply(in, lmap.Op{Name: "Put", K: k})
					} else {
						lmap.Apply(in, lmap.Op{Name: "Put", K: k, V: vg.next(rr)})
					}
				}
				lmap.Apply(in, op)
			}, callLimit)
			c.Count("selfdeadlock_probes", 1)
			switch out {
			case lmap.Returned:
				run.Close()
				continue
			case lmap.SelfDeadlock:
				if report {
					c.Fail(t.Name+"."+t.Real(name)+":self-deadlock",
						fmt.Sprintf("%s.%s never returns on a private, populated, single-goroutine instance: the call is parked in sync.(*Mutex).Lock beneath its own frame", t.Name, t.Real(name)),
						map[string]any{"type": t.Name, "operation": op.String(), "stack": stack})
				}
			default:
				if report {
					c.Inconclusive(t.Name+"."+t.Real(name), "probe call did not return within 10 s and is not parked on a mutex")
				}
			}
			dead[t.Name+"."+name] = true
		}
	}
	return dead
}

func main() {
	c := vlib.Start("C09")
	debug.SetGCPercent(1000) // tiny live heap, high allocation rate: do not collect every 4 MB
	dead := probeSelfDeadlocks(c)
	if c.Shard == 0 {
		grp := pmap.CRCGroups()
		c.Note(fmt.Sprintf("equal-hash string groups for the hash.HashStr keyed maps: %d, from %s", len(grp.Groups), grp.Source))
		if !grp.LibraryAgrees {
			c.Note("hash.HashStr is not CRC-32 IEEE on the reference collision groups (C15 checks that equality); the groups were searched with the library's own function")
		}
		c.Note(fmt.Sprintf("equal-hashCode string groups for StringLinkedSet: %d built from the blocks Aa/BB/C#, %d dropped because stringutil.HashCode does not give one value for them", len(javaGroups), javaGroupsDropped))
	}
	per := c.N(3000, 60000)
	for _, t := range lmap.Types {
		t := t
		c.Cases("hist-"+t.Name, per, func(i int, r *vlib.Rand) { runHistory(c, t, i, r, dead) })
	}
	// whole-structure operations at every table-size class (sizeclass.go)
	perSC := c.N(48, 480)
	for _, t := range lmap.Types {
		t := t
		c.Cases("sizeclass-"+t.Name, perSC, func(i int, r *vlib.Rand) { runSizeClass(c, t, i, r, dead) })
	}
	var dl []string
	for k := range dead {
		dl = append(dl, k)
	}
	sort.Strings(dl)
	for _, k := range dl {
		c.Note("operation left out of the histories after the self-deadlock probe: " + k)
	}
	exp := int64(per * len(lmap.Types) / c.NShards)
	c.Floor("histories", exp/10, c.Counter("histories"))
	c.Floor("ops", exp*3, c.Counter("ops"))
	c.Floor("walker_runs", exp*3, c.Counter("walker_runs"))
	c.Floor("evictions", exp/10, c.Counter("evictions"))
	c.Floor("rehashes_observed", exp/20, c.Counter("rehashes_observed"))
	// equal-hash groups and chains at growth (twins.go)
	c.Floor("equal_hash_second_member_inserted_both_stay", exp/5, c.Counter("equal_hash_second_member_inserted_both_stay"))
	c.Floor("equal_hash_member_removed_partner_stays", exp/20, c.Counter("equal_hash_member_removed_partner_stays"))
	c.Floor("equal_hash_lookup_of_absent_member_with_partner_stored", exp/20, c.Counter("equal_hash_lookup_of_absent_member_with_partner_stored"))
	c.Floor("lookup_all_checks_with_equal_hash_pair_stored", exp/5, c.Counter("lookup_all_checks_with_equal_hash_pair_stored"))
	c.Floor("rehashes_with_equal_hash_pair_stored", exp/100, c.Counter("rehashes_with_equal_hash_pair_stored"))
	c.Floor("growths_with_old_chain_ge2", exp/50, c.Counter("growths_with_old_chain_ge2"))
	c.Floor("growths_with_equal_hash_keys_in_old_chain", exp/120, c.Counter("growths_with_equal_hash_keys_in_old_chain"))
	c.Floor("growths_with_negative_key_in_old_chain", exp/80, c.Counter("growths_with_negative_key_in_old_chain"))
	for _, t := range lmap.Types {
		if g := twinGroups(t, vlib.NewRand(1), 1); len(g) > 0 {
			c.Floor("equal_hash_both_stored_"+t.Name, exp/60, c.Counter("equal_hash_both_stored_"+t.Name))
		}
	}
	c.Floor("updates_of_existing_key_when_full", exp/20, c.Counter("updates_of_existing_key_when_full"))
	scFloors(c, perSC, dead)
	c.Finish()
	fmt.Println("done")
}
