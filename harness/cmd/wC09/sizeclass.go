// Size-class histories: whole-structure operations applied AT every table-size class.
//
// A history of this section fills one instance (no bound) with distinct keys up to a planned
// list of sizes — just below, at and just above every growth threshold the constructor
// variant reaches within a feasible size (default 101/0.75: 75, 152, 305, 611, 1223; (1000, 1):
// 1000, 2001; (5000, 1): 5000; small tables: every doubling) and a last size beyond the last
// threshold. At each planned size ONE whole-structure operation (Clear, Sort ascending /
// descending, a bounded SetMax change followed by insertions that evict down to the bound,
// ToString, GetKeySet, ContainsValue, RemoveFirst/RemoveLast runs; scheduled by case index and
// stage number so that every operation meets every size class) is executed as a FULL step —
// return value, walked private structure (buckets, chains, order list in both directions,
// count), every public observer/enumeration and a lookup of every stored key against the
// model — followed by further point operations and another full step. The fill between two
// planned sizes uses light steps (return value, Size(), private count and table length after
// every operation; a full step every 64th) so that thousands of entries stay affordable.
// After a Clear the history refills to the next planned size: a structure emptied at one size
// class is used again across all the following ones.
package main

import (
	"fmt"
	"runtime/debug"
	"strconv"
	"strings"
	"time"

	"verif/lmap"
	"verif/vlib"
)

func scVariant(i int) int { return (i + i/16) % 8 }

func scCfgFor(t *lmap.TypeDesc, i int) lmap.Config {
	if !t.HasCapLF {
		return lmap.Config{Default: true}
	}
	switch scVariant(i) {
	case 4, 5:
		return lmap.Config{Cap: 1000, LF: 1}
	case 6:
		return lmap.Config{Cap: 5000, LF: 1}
	case 7:
		return []lmap.Config{{Cap: 7, LF: 0.75}, {Cap: 2, LF: 0.5}, {Cap: 3, LF: 2}, {Cap: 101, LF: 1}}[(i/8)%4]
	}
	return lmap.Config{Default: true}
}

// scThresholds restates the growth rule read in the pinned tree (a table of n buckets with load
// factor f takes int(n*f) entries; inserting a NEW key when that many are stored first
// re-buckets into 2n+1). Only used to PLAN sizes; what is counted is the observed table length.
func scThresholds(cfg lmap.Config, maxSize int) []int {
	n, lf := cfg.Cap, cfg.LF
	if cfg.Default {
		n, lf = 101, 0.75
	}
	var ths []int
	for len(ths) < 24 {
		t := int(float32(n) * lf)
		if t > maxSize {
			break
		}
		ths = append(ths, t)
		n = 2*n + 1
	}
	return ths
}

type scStage struct {
	size int
	pos  string
}

func scPlan(cfg lmap.Config) []scStage {
	maxSize := 1400
	switch cfg.Cap {
	case 1000:
		maxSize = 2100
	case 5000:
		maxSize = 5100
	}
	var st []scStage
	last := 0
	add := func(s int, pos string) {
		if s > last {
			st = append(st, scStage{s, pos})
			last = s
		}
	}
	for _, t := range scThresholds(cfg, maxSize) {
		if t < 4 {
			continue
		}
		add(t-1, "below")
		add(t, "at")
		add(t+1, "above")
	}
	add(last+40, "largest")
	return st
}

var scWhole = []string{"Clear", "Sort", "SetMax", "ToString", "GetKeySet", "ContainsValue", "RemoveFirst", "RemoveLast"}

func scOpsFor(t *lmap.TypeDesc, dead map[string]bool) []string {
	var ops []string
	for _, o := range scWhole {
		if t.Supports(o) && !dead[t.Name+"."+o] {
			ops = append(ops, o)
		}
	}
	return ops
}

func scTabClass(tl int) string {
	if tl < 101 {
		return "lt101"
	}
	return strconv.Itoa(tl)
}

// stepLight: one operation with the cheap checks only — return value against the model,
// Size() and the private count against the model size, table length tracked. Any mismatch is
// handed to the full comparison at once (which classifies and reports it).
func (h *hist) stepLight(op lmap.Op) {
	c := h.c
	h.curOp, h.curMethod = op, op.Name
	res := lmap.Apply(h.in, op)
	if res.Panic != "" {
		// let the full step report it (the call is repeated there; a panicking call is treated as not executed)
		h.step(op, true)
		return
	}
	h.log = append(h.log, op.String())
	c.Count("ops", 1)
	c.Count("ops_light", 1)
	c.Count("op_"+op.Name, 1)
	exp := h.m.Step(op)
	info := h.m.Last
	if info.Changed {
		h.muts++
	}
	ok := res.Equal(exp)
	if !ok {
		h.fail(h.key(op, op.Name, "wrong-return"), fmt.Sprintf("%s.%s returned %v, model %v", h.t.Name, op, res, exp),
			map[string]any{"got": res.String(), "expected": exp.String()})
	}
	sz := lmap.Apply(h.in, lmap.Op{Name: "Size"})
	if !sz.Equal(h.m.Step(lmap.Op{Name: "Size"})) || lmap.CountField(h.in) != h.m.Size() {
		ok = false
	}
	h.m.Last = info
	tl := lmap.TableLen(h.in)
	if h.tlen != 0 && tl != h.tlen {
		c.Count("rehashes_observed", 1)
		c.Count("rehashes_observed_in_size_class_histories", 1)
		h.grew++
		ok = false // right after a growth: the full comparison
	}
	h.tlen, h.tlenSC = tl, tl
	c.Max("max_table_len", int64(tl))
	if !ok {
		h.fullCompare(op)
	}
}

// tlenSync: after a full step (which tracks the table length itself) count the growth for the
// size-class bookkeeping.
func (h *hist) tlenSync() {
	if h.tlenSC != 0 && h.tlen > h.tlenSC {
		h.grew++
	}
	h.tlenSC = h.tlen
}

// fullCompare: walked structure and every observer against the model (the second half of step).
func (h *hist) fullCompare(op lmap.Op) {
	s, ok := h.state(op, true)
	if !ok {
		return
	}
	if !lmap.SeqEqual(s.Keys, h.m.Keys()) || !lmap.SeqEqual(s.Vals, h.m.Values()) || s.Count != h.m.Size() {
		kind := classify(h.m, h.m.Last, op, s.Keys, s.Vals)
		h.fail(h.key(op, op.Name, kind), fmt.Sprintf("after %s.%s the structure holds %d keys %v (count field %d); model %d keys %v (max %d)",
			h.t.Name, op, len(s.Keys), clip(s.Keys), s.Count, h.m.Size(), clip(h.m.Keys()), h.m.Max),
			map[string]any{"real_keys": fmt.Sprint(clipN(s.Keys, 400)), "real_count": s.Count, "real_max": s.Max, "table_len": s.TableLen})
		h.m.Resync(s.Keys, s.Vals, h.m.Max)
		h.c.Count("resyncs", 1)
	}
	h.observe(true)
	h.c.Count("full_compares_in_size_class_histories", 1)
}

func clipN(s []any, n int) []any {
	if len(s) > n {
		return s[:n]
	}
	return s
}

func (h *hist) scHas(k any) bool {
	for i := range h.m.Ents {
		if h.m.Ents[i].K == k {
			return true
		}
	}
	return false
}

func runSizeClass(c *vlib.Ctx, t *lmap.TypeDesc, idx int, r *vlib.Rand, dead map[string]bool) {
	if hungTypes[t.Name] {
		c.Eval(-1)
		c.Count("histories_skipped_after_hang", 1)
		return
	}
	cfg := scCfgFor(t, idx)
	if t.HasNone && r.Chance(1, 5) {
		if t.Val == lmap.VFloat32 {
			cfg.None = float32(-1)
		} else {
			cfg.None = int64(-1)
		}
	}
	plan := scPlan(cfg)
	ops := scOpsFor(t, dead)
	need := plan[len(plan)-1].size + 600
	h := &hist{c: c, t: t, cfg: cfg, dead: dead, lookupCap: 160}
	pool, tw := keyPoolFor(t, r, need, cfg, true)
	h.tw = tw
	for _, k := range pool {
		if s, ok := k.(string); ok && s == "" {
			continue // the refused empty key is the business of the hist- sections
		}
		h.pool = append(h.pool, k)
	}
	r.Shuffle(len(h.pool), func(i, j int) { h.pool[i], h.pool[j] = h.pool[j], h.pool[i] })
	h.in = t.New(cfg)
	h.m = lmap.NewModel(t, cfg)
	h.run = lmap.NewRunner()
	defer h.run.Close()
	h.in.EnumLimit = 4*need + 64
	vg := &valGen{t: t}
	ctor := "default"
	if !cfg.Default {
		ctor = fmt.Sprintf("cap=%d,lf=%v", cfg.Cap, cfg.LF)
	}
	c.SetAdd("sizeclass_constructors", t.Name+"("+ctor+")")
	h.log = append(h.log, fmt.Sprintf("New%s(%s) max=%d none=%v", t.Name, ctor, cfg.Max, cfg.None))
	sig := vlib.HashStr("sizeclass" + t.Name + fmt.Sprint(cfg))

	mkPut := func(k any) lmap.Op {
		name := "Put"
		switch x := r.Intn(10); {
		case x == 0 && t.Supports("PutLast"):
			name = "PutLast"
		case x == 1 && t.Supports("PutFirst"):
			name = "PutFirst"
		case x == 2 && t.Supports("Add"):
			name = "Add"
		}
		op := lmap.Op{Name: name, K: k}
		if !t.IsSet() {
			op.V = vg.next(r)
		}
		return op
	}
	next := 0
	fillCheck := false
	do := func(op lmap.Op, full bool) {
		sig = vlib.Mix(sig ^ vlib.HashStr(op.String()))
		if dead[t.Name+"."+op.Name] {
			return
		}
		if len(h.log) > 6000 {
			h.log = append(h.log[:1], h.log[3001:]...) // keep the constructor line and the most recent operations
		}
		switch {
		case full && fillCheck:
			h.step(op, false) // order list in both directions, count, every observer/enumeration
			h.tlenSync()
		case full:
			h.step(op, true)
			h.tlenSync()
		default:
			h.stepLight(op)
		}
	}
	// fillTo: insert unused keys (round-robin over the pool) or remove from an end until the model holds size
	fillTo := func(size int) bool {
		fillCheck = true
		defer func() { fillCheck = false }()
		misses, n := 0, 0
		for !h.stop && h.m.Size() < size {
			if misses > len(h.pool) {
				return false
			}
			k := h.pool[next%len(h.pool)]
			next++
			if h.scHas(k) {
				misses++
				continue
			}
			misses = 0
			n++
			do(mkPut(k), n%64 == 0)
		}
		for !h.stop && h.m.Size() > size {
			n++
			name := "Remove"
			switch x := r.Intn(3); {
			case x == 0 && t.Supports("RemoveFirst"):
				name = "RemoveFirst"
			case x == 1 && t.Supports("RemoveLast"):
				name = "RemoveLast"
			}
			op := lmap.Op{Name: name}
			if name == "Remove" {
				op.K = h.m.Ents[r.Intn(len(h.m.Ents))].K
			}
			do(op, n%64 == 0)
		}
		return !h.stop && h.m.Size() == size
	}
	quiet := func() { // point operations that do not raise the number of stored keys
		if len(h.m.Ents) == 0 {
			return
		}
		e := h.m.Ents[r.Intn(len(h.m.Ents))]
		switch x := r.Intn(10); {
		case x < 3:
			k := e.K
			if r.Intn(3) == 0 {
				k = h.pool[r.Intn(len(h.pool))]
			}
			name := "ContainsKey"
			if t.Supports("Get") && r.Bool() {
				name = "Get"
			}
			do(lmap.Op{Name: name, K: k}, false)
		case x < 5 && t.Supports("GetLRU"):
			do(lmap.Op{Name: "GetLRU", K: e.K}, false)
		case x < 8:
			do(mkPut(e.K), false) // update (and, for the -First/-Last forms, move) of a stored key
		default:
			do(lmap.Op{Name: "Remove", K: e.K}, false)
			do(mkPut(e.K), false)
		}
	}
	churn := func() {
		k := h.pool[r.Intn(len(h.pool))]
		switch x := r.Intn(10); {
		case x < 5:
			do(mkPut(k), false)
		case x < 8:
			do(lmap.Op{Name: "Remove", K: k}, false)
		default:
			quiet()
		}
	}
	wholeOp := func(name string) {
		switch name {
		case "Sort":
			do(lmap.Op{Name: "Sort", Desc: r.Bool()}, true)
		case "ContainsValue":
			v := vg.next(r)
			if len(h.m.Ents) > 0 && r.Bool() {
				v = h.m.Ents[r.Intn(len(h.m.Ents))].V
			}
			if v == nil {
				v = int64(77)
			}
			do(lmap.Op{Name: name, V: v}, true)
		case "RemoveFirst", "RemoveLast":
			for j, n := 0, r.Range(1, 6); j < n && !h.stop; j++ {
				do(lmap.Op{Name: name}, j == n-1)
			}
		case "SetMax":
			// a bounded change: the bound just below / at / above the current size (or well below),
			// then insertions of new keys at either end, which must evict down to the bound
			sz := h.m.Size()
			b := []int{sz - 1, sz, sz + 1, sz - r.Range(2, 30), sz / 2}[r.Intn(5)]
			if b < 1 {
				b = 1
			}
			do(lmap.Op{Name: "SetMax", N: b}, true)
			for j, n := 0, r.Range(2, 8); j < n && !h.stop; j++ {
				k := h.pool[next%len(h.pool)]
				next++
				if h.scHas(k) {
					continue
				}
				do(mkPut(k), j == n-1)
			}
			if !h.stop {
				do(lmap.Op{Name: "SetMax", N: 0}, true)
			}
		default:
			do(lmap.Op{Name: name}, true)
		}
	}

	var crashed any
	hung := false
	guarded := func(fn func()) bool {
		body := func() {
			defer func() {
				if e := recover(); e != nil {
					crashed = fmt.Sprintf("%v\n%s", e, debug.Stack())
				}
			}()
			fn()
		}
		switch out, stack := h.run.Do(body, histLimit); out {
		case lmap.SelfDeadlock:
			h.fail(h.key(h.curOp, h.curMethod, "self-deadlock"), fmt.Sprintf("%s.%s never returns on a private single-goroutine instance: parked in sync.(*Mutex).Lock beneath its own frame",
				t.Name, t.Real(h.curMethod)), map[string]any{"stack": stack})
			return false
		case lmap.Hung:
			hungTypes[t.Name] = true
			hung = true
			if strings.Contains(stack, "github.com/whatap/golib/util/hmap.") && lmap.FindCycle(h.in) != "" {
				time.Sleep(20 * time.Millisecond)
				if cyc := lmap.FindCycle(h.in); cyc != "" {
					c.Count("histories_abandoned_after_endless_walk", 1)
					reported[h.key(h.curOp, h.curMethod, "never-returns")]++
					c.Fail(h.key(h.curOp, h.curMethod, "never-returns"), fmt.Sprintf("%s.%s never returns on a private single-goroutine instance: the call is running inside the structure and %s — the walk over it cannot end",
						t.Name, t.Real(h.curMethod), cyc), map[string]any{"type": t.Name, "config": h.cfg, "operations": append([]string(nil), h.log...), "cycle": cyc, "stack": stack})
					return false
				}
			}
			c.Eval(-1)
			c.Inconclusive(fmt.Sprintf("%s.%s", t.Name, t.Real(h.curMethod)), "size-class stage did not finish within 30 s and is not parked on a mutex (busy loop or starved machine); the remaining histories of this type are skipped in this process")
			return false
		}
		if crashed != nil {
			panic(crashed)
		}
		return !h.stop
	}

	stages := 0
	alive := guarded(func() {
		if s, ok := h.state(lmap.Op{Name: "New"}, true); ok && len(s.Keys) != 0 {
			h.fail(t.Name+".New:wrong-size", "a fresh instance is not empty", nil)
		}
	})
	for si, st := range plan {
		if !alive || len(ops) == 0 {
			break
		}
		name := ops[(idx/8+si)%len(ops)]
		st := st
		alive = guarded(func() {
			if !fillTo(st.size) {
				return
			}
			tl, sz := lmap.TableLen(h.in), h.m.Size()
			wholeOp(name)
			if h.stop {
				return
			}
			c.Count("sizeclass_ops_applied", 1)
			c.Count("sizeclass_"+st.pos+"_"+name, 1)
			c.Count("sizeclass_"+st.pos+"_"+t.Name+"."+name, 1)
			c.Count("sizeclass_tab"+scTabClass(tl)+"_"+name, 1)
			c.Count("sizeclass_tab"+scTabClass(tl)+"_"+t.Name, 1)
			c.Max("max_sizeclass_size_at_whole_op", int64(sz))
			if name == "Clear" {
				c.Max("max_size_cleared_"+t.Name, int64(sz))
				c.Max("max_table_len_cleared_"+t.Name, int64(tl))
			}
			// further operations on what the whole-structure operation left behind
			nf := r.Range(10, 40)
			for n := 0; n < nf && !h.stop; n++ {
				if st.pos == "below" || st.pos == "at" {
					quiet()
				} else {
					churn()
				}
			}
			if !h.stop {
				do(lmap.Op{Name: "ContainsKey", K: h.pool[r.Intn(len(h.pool))]}, true) // full comparison
			}
			stages++
		})
	}
	if alive {
		// the structure that went through every class: drain half, clear, reuse small
		guarded(func() {
			if fillTo(h.m.Size() / 2) {
				tl := lmap.TableLen(h.in)
				do(lmap.Op{Name: "Clear"}, true)
				c.Count("sizeclass_final_clear_tab"+scTabClass(tl), 1)
				if fillTo(r.Range(1, 120)) {
					do(lmap.Op{Name: "ContainsKey", K: h.pool[0]}, true)
				}
			}
		})
	}
	if hung {
		return
	}
	c.Count("histories", 1)
	c.Count("sizeclass_histories", 1)
	c.Count("sizeclass_histories_"+t.Name, 1)
	if stages == len(plan) {
		c.Count("sizeclass_histories_completed", 1)
	}
	if h.grew >= 5 {
		c.Count("sizeclass_histories_crossing_5_or_more_growths", 1)
		c.Count("sizeclass_histories_crossing_5_or_more_growths_"+t.Name, 1)
	}
	c.Max("max_growths_in_one_history", int64(h.grew))
	if h.muts > 0 {
		c.Distinct(sig)
	}
	if idx < 1 && c.WantSample() {
		var pl []string
		for si, st := range plan {
			pl = append(pl, fmt.Sprintf("%d(%s):%s", st.size, st.pos, ops[(idx/8+si)%len(ops)]))
		}
		c.Sample(map[string]any{"type": t.Name, "constructor": ctor, "size_class_plan": pl, "operations_total": len(h.log), "growths": h.grew})
	}
}

// scFloors: every whole-structure operation met every size class (global minima carried by shard 0).
func scFloors(c *vlib.Ctx, per int, dead map[string]bool) {
	g := func(name string, min int64) {
		if c.Shard != 0 {
			min = 0
		}
		c.Floor(name, min, c.Counter(name))
	}
	scale := int64(per) / 48
	if scale < 1 {
		scale = 1
	}
	seen := map[string]bool{}
	for _, t := range lmap.Types {
		for _, op := range scOpsFor(t, dead) {
			for _, pos := range []string{"below", "at", "above"} {
				g("sizeclass_"+pos+"_"+t.Name+"."+op, scale)
			}
			if !seen[op] {
				seen[op] = true
				for _, pos := range []string{"below", "at", "above", "largest"} {
					g("sizeclass_"+pos+"_"+op, 2*scale)
				}
				for _, tl := range []int{101, 203, 407, 815, 1631, 3263} {
					g("sizeclass_tab"+strconv.Itoa(tl)+"_"+op, 2*scale)
				}
				for _, tl := range []int{1000, 2001} {
					g("sizeclass_tab"+strconv.Itoa(tl)+"_"+op, 1)
				}
			}
		}
		for _, tl := range []int{101, 203, 407, 815, 1631, 3263} {
			g("sizeclass_tab"+strconv.Itoa(tl)+"_"+t.Name, 2*scale)
		}
		if t.HasCapLF {
			for _, tl := range []int{1000, 2001, 5000} {
				g("sizeclass_tab"+strconv.Itoa(tl)+"_"+t.Name, 1)
			}
		}
		g("sizeclass_histories_crossing_5_or_more_growths_"+t.Name, int64(per)/20)
	}
	g("sizeclass_histories_completed", int64(per*len(lmap.Types))/10)
}
