package main

// Allocation SCALING under nested forged counts (added after seeded change C04r6-2: a map
// decoder that checks its count against the unread bytes and then sizes its table from it —
// one forged count stays within any affine bound, but thousands of nested levels, each
// claiming "as many entries as the rest of the input allows", make the total quadratic).
//
// The fixed bound 64·len + 1 MiB of the other sections cannot judge this input class: deep
// nesting costs the pinned decoder about one default hash table per 5 input bytes, a large but
// CONSTANT factor. "Proportional to the size of the input" is therefore decided here as a
// scaling law measured on the real decoder: the same generator produces inputs of S, 2S and 4S
// bytes (same kind, same forging rule), each decoded in a fresh killable server with the
// cumulative-allocation meter around the call; a linear decoder quadruples its allocation from
// S to 4S, a quadratic one multiplies it by 16. Verdict: alloc(4S) > 8·alloc(S) + 256 KiB.
// No wall clock is involved; CPU time is judged by the budget every server decode has.

import (
	"fmt"

	"verif/refcodec"
	"verif/vlib"
)

type nestKind struct {
	name string
	tags []byte // container tag per level, cycled
}

var nestKinds = []nestKind{
	{"map", []byte{refcodec.TMap}},
	{"list", []byte{refcodec.TList}},
	{"intmap", []byte{refcodec.TIntMap}},
	{"map-list", []byte{refcodec.TMap, refcodec.TList}},
	{"all-three", []byte{refcodec.TMap, refcodec.TIntMap, refcodec.TList}},
}

var forgeRules = []string{"rest/2", "rest/3", "rest/9", "rest", "rest-1", "102", "1000", "32767", "honest"}

func forged(rule string, rest int) int64 {
	switch rule {
	case "rest/2":
		return int64(rest / 2)
	case "rest/3":
		return int64(rest / 3)
	case "rest/9":
		return int64(rest / 9)
	case "rest":
		return int64(rest)
	case "rest-1":
		return int64(rest - 1)
	case "102":
		return 102
	case "1000":
		return 1000
	case "32767":
		return 32767
	}
	return 1 // honest: exactly one entry (the nested container)
}

// nestedForged builds about size bytes: level after level of containers whose count field
// is forged by rule from the number of bytes that follow, each holding (as its first entry)
// the next level. siblings > 0 puts that many small honest entries before the nested one.
func nestedForged(kind nestKind, rule string, size, siblings int) []byte {
	b := make([]byte, 0, size+16)
	for lvl := 0; len(b)+8 < size; lvl++ {
		tag := kind.tags[lvl%len(kind.tags)]
		rest := size - len(b) - 4
		cnt := forged(rule, rest)
		if cnt < 1 {
			cnt = 1
		}
		b = append(b, tag)
		b = append(b, decimalBytes(cnt)...)
		for s := 0; s < siblings && len(b)+12 < size; s++ {
			switch tag {
			case refcodec.TMap:
				b = append(b, 1, byte('a'+s%26), refcodec.TBool, 1)
			case refcodec.TIntMap:
				b = append(b, 0, 0, 0, byte(s+1), refcodec.TBool, 1)
			default:
				b = append(b, refcodec.TBool, 1)
			}
		}
		switch tag {
		case refcodec.TMap:
			b = append(b, 0) // key ""
		case refcodec.TIntMap:
			b = append(b, 0, 0, 0, 0) // key 0
		}
	}
	return b
}

func scalingSection() {
	nValue := dec("ReadValue")
	n := c.N(60, 600)
	c.Cases("alloc-scaling", n, func(i int, r *vlib.Rand) {
		kind := nestKinds[i%len(nestKinds)]
		rule := forgeRules[(i/len(nestKinds))%len(forgeRules)]
		base := []int{1500, 2500, 4000}[r.Intn(3)]
		siblings := []int{0, 0, 1, 3}[r.Intn(4)]
		id := fmt.Sprintf("alloc-scaling#%d", i)
		d := &decoders[nValue]
		if decoderSpent(d) {
			c.Eval(-1)
			return
		}
		var alloc [3]uint64
		var lens [3]int
		for k := 0; k < 3; k++ {
			in := nestedForged(kind, rule, base<<uint(k), siblings)
			lens[k] = len(in)
			c.Journal(id, d.Name+":fatal@nested-count")
			// a fresh server for every measurement: no warm pools, no grown stacks from the
			// previous size
			if srvs[0] != nil {
				srvs[0].stop()
				srvs[0] = nil
			}
			out, err := runBatch(&srvs[0], c.Out, []req{{dec: nValue, mode: modeHostile, b: in}})
			if err != nil {
				c.Inconclusive(id, "decode server could not be started: "+err.Error())
				return
			}
			rs := out[0][0]
			detail := func(extra map[string]interface{}) func() map[string]interface{} {
				return func() map[string]interface{} {
					x := map[string]interface{}{"decoder": d.Name, "case": id, "containers": kind.name, "count_rule": rule, "honest_siblings_per_level": siblings,
						"input_len": len(in), "input_head_hex": hexCap(in, 96), "generator": "nestedForged(kind, rule, size, siblings) in scaling.go"}
					for k, v := range extra {
						x[k] = v
					}
					return x
				}
			}
			if rs.died != nil {
				died(id, d, rs.died, d.Name+"|nested-count", "", "count/nested-count", fmt.Sprintf("decoding %d bytes of nested %s containers whose counts are forged as %s", len(in), kind.name, rule), detail)
				return
			}
			alloc[k] = rs.m.Alloc
			c.Count("scaling_decodes", 1)
			if rs.m.Panicked {
				c.Count("scaling_decodes_rejected", 1)
			} else {
				c.Count("scaling_decodes_returned", 1)
			}
		}
		c.Count("scaling_triples", 1)
		c.SetAdd("scaling_classes", kind.name+"/"+rule)
		c.Distinct(vlib.HashStr(fmt.Sprintf("%s|%s|%d|%d", kind.name, rule, base, siblings)))
		ratio := float64(alloc[2]) / float64(alloc[0]+1)
		c.Max("max_scaling_ratio_x100", int64(ratio*100))
		if alloc[2] > 8*alloc[0]+256<<10 {
			fail(d.Name+":alloc-superlinear@count/nested-count",
				fmt.Sprintf("nested %s containers with counts forged as %s: decoding %d / %d / %d bytes allocated %d / %d / %d bytes — four times the input costs %.1f times the memory (a decoder whose memory is proportional to its input stays near 4)",
					kind.name, rule, lens[0], lens[1], lens[2], alloc[0], alloc[1], alloc[2], ratio),
				func() map[string]interface{} {
					return map[string]interface{}{"decoder": d.Name, "case": id, "containers": kind.name, "count_rule": rule, "honest_siblings_per_level": siblings,
						"input_lens": lens, "allocated": alloc, "ratio_4S_over_S": ratio, "input_head_hex": hexCap(nestedForged(kind, rule, base, siblings), 96)}
				})
		}
		if i < 3 && c.WantSample() {
			c.Sample(map[string]interface{}{"case": id, "section": "alloc-scaling", "containers": kind.name, "count_rule": rule, "input_lens": lens, "allocated": alloc})
		}
	})
	c.Floor("scaling_triples", int64(n/c.NShards/2), c.Counter("scaling_triples"))
}
