package main

// Corpus families. A family draws one valid encoding (reference encoder ⇒ field map) and
// names the decoder it is meant for. Encoding i of a run belongs to family i mod len(families)
// (len is odd, so every shard count used here sees every family) and is generated from the
// PRNG stream of case i only.

import (
	"bytes"
	"compress/gzip"

	gio "github.com/whatap/golib/io"
	"github.com/whatap/golib/lang/service"
	"github.com/whatap/golib/lang/step"
	"github.com/whatap/golib/lang/value"

	"verif/refcodec"
	"verif/stepgen"
	"verif/valgen"
	"verif/vlib"
)

const (
	maxEnc    = 64 << 10
	maxEncBig = 192 << 10 // the big/* families: one blob or text above 65535 bytes (4-byte length prefix)
)

type enc struct {
	Family string
	Index  int // case index (rotates the input modes)
	Dec    int
	B      []byte
	Fields []refcodec.Field
	// golib's own writer output for the same object, when the family can build the golib
	// object (nil otherwise); only used to cross-check the reference encoder
	Golib []byte
	// Alt: drawn in a layout on which golib's own writer and reader disagree (both forms are
	// generated; set through altForm by the generator): admitted only when consumed completely
	Alt bool
	// Big: drawn by a big/* family (carries a blob / text with a 4-byte length prefix): may be
	// up to maxEncBig bytes long
	Big bool
}

func (e *enc) limit() int {
	if e.Big {
		return maxEncBig
	}
	return maxEnc
}

// altForm is set by a generator that draws one of two rival layouts of the same message
var altForm bool

type family struct {
	Name string
	Gen  func(r *vlib.Rand) *enc
}

var families []family

func fam(name string, gen func(r *vlib.Rand) *enc) { families = append(families, family{name, gen}) }

func fromW(decName string, w *W) *enc {
	return &enc{Dec: dec(decName), B: w.B, Fields: w.Fields}
}

func gzipBytes(b []byte) []byte {
	var buf bytes.Buffer
	z := gzip.NewWriter(&buf)
	z.Write(b)
	z.Close()
	return buf.Bytes()
}

func valueEnc(v refcodec.V) *enc {
	w := refcodec.NewW()
	w.Value(v)
	e := fromW("ReadValue", w)
	if len(w.B) <= maxEnc {
		o := gio.NewDataOutputX()
		value.WriteValue(o, valgen.ToGolib(v))
		e.Golib = o.ToByteArray()
	}
	return e
}

func stepEnc(s refcodec.RefStep) *enc {
	w := refcodec.NewW()
	w.Step(s)
	e := fromW("ReadStep/"+refcodec.StepTypeName(s.Type), w)
	o := gio.NewDataOutputX()
	step.WriteStep(o, stepgen.ToGolib(s))
	e.Golib = o.ToByteArray()
	return e
}

// listChain: lists nested depth levels deep; a level holds the nested list and sometimes a
// null or boolean before or after it, the innermost list holds one small leaf.
func listChain(r *vlib.Rand, depth int) refcodec.V {
	cur := refcodec.V{Tag: refcodec.TList, List: []refcodec.V{valgen.Leaf(r, 3)}}
	for d := 1; d < depth; d++ {
		items := []refcodec.V{cur}
		switch r.Intn(6) {
		case 0:
			items = []refcodec.V{{Tag: refcodec.TNull}, cur}
		case 1:
			items = []refcodec.V{cur, {Tag: refcodec.TBool, I: int64(r.Intn(2))}}
		}
		cur = refcodec.V{Tag: refcodec.TList, List: items}
	}
	return cur
}

func init() {
	// ---- tagged values -----------------------------------------------------------------
	fam("value/gen-shallow", func(r *vlib.Rand) *enc { return valueEnc(valgen.Gen(r, r.Intn(2), r.Range(0, 6))) })
	fam("value/gen-nested", func(r *vlib.Rand) *enc { return valueEnc(valgen.Gen(r, r.Range(2, 4), r.Range(1, 6))) })
	fam("value/gen-nested2", func(r *vlib.Rand) *enc {
		return valueEnc(valgen.GenTag(r, []byte{refcodec.TList, refcodec.TMap, refcodec.TIntMap}[r.Intn(3)], r.Range(1, 3), r.Range(1, 8)))
	})
	fam("value/deep", func(r *vlib.Rand) *enc { return valueEnc(valgen.Deep(r, r.Range(3, 40))) })
	// long chains of lists: what nesting adds up to only shows with hundreds of levels
	fam("value/list-chain", func(r *vlib.Rand) *enc { return valueEnc(listChain(r, r.Range(60, 500))) })
	fam("value/wide", func(r *vlib.Rand) *enc {
		tags := []byte{refcodec.TList, refcodec.TMap, refcodec.TIntMap, refcodec.TIntArray, refcodec.TLongArray, refcodec.TFloatArray, refcodec.TTextArray}
		n := []int{100, 127, 128, 129, 255, 256, 300, 1000, 3000}[r.Intn(9)]
		return valueEnc(valgen.Wide(r, tags[r.Intn(len(tags))], n))
	})
	fam("value/leaf", func(r *vlib.Rand) *enc { return valueEnc(valgen.Leaf(r, r.Range(0, 8))) })
	fam("value/each-tag", func(r *vlib.Rand) *enc {
		t := refcodec.ValueTags[r.Intn(len(refcodec.ValueTags))]
		return valueEnc(valgen.GenTag(r, t, 2, r.Range(0, 5)))
	})

	// ---- steps ---------------------------------------------------------------------------
	for _, t := range refcodec.StepRegistered {
		t := t
		fam("step/"+refcodec.StepTypeName(t), func(r *vlib.Rand) *enc { return stepEnc(stepgen.GenStep(r, t)) })
	}
	fam("step/stream", func(r *vlib.Rand) *enc {
		steps := stepgen.GenSteps(r, r.Range(2, 12))
		w := refcodec.NewW()
		sizes := w.Steps(steps)
		e := fromW("ReadStep/stream", w)
		// a stream cut at a step boundary (the empty stream included) is a complete shorter
		// stream: the format cannot tell
		e.Fields = append(e.Fields, refcodec.Field{Off: 0, Width: 0, Kind: kEnd, Name: "step-boundary"})
		off := 0
		for _, s := range sizes[:len(sizes)-1] {
			off += s
			e.Fields = append(e.Fields, refcodec.Field{Off: off, Width: 0, Kind: kEnd, Name: "step-boundary"})
		}
		gl := make([]step.Step, len(steps))
		for i := range steps {
			gl[i] = stepgen.ToGolib(steps[i])
		}
		e.Golib = step.ToBytesStep(gl)
		return e
	})
	fam("step/MessageStepX", func(r *vlib.Rand) *enc {
		s := stepgen.GenStep(r, refcodec.StepTMessageX)
		w := refcodec.NewW()
		w.Step(s)
		e := fromW("Read/MessageStepX", w)
		o := gio.NewDataOutputX()
		step.WriteStep(o, stepgen.ToGolib(s))
		e.Golib = o.ToByteArray()
		return e
	})
	fam("step/SqlStep_3", func(r *vlib.Rand) *enc {
		s := stepgen.GenStep(r, refcodec.StepTSql3)
		w := refcodec.NewW()
		w.StepBody(s)
		e := fromW("Read/SqlStep_3", w)
		o := gio.NewDataOutputX()
		stepgen.Sql3ToGolib(s).Write(o)
		e.Golib = o.ToByteArray()
		return e
	})

	// ---- transaction and service records -------------------------------------------------------
	txFam := func(r *vlib.Rand) *enc {
		t := stepgen.GenTxRecord(r)
		w := refcodec.NewW()
		w.TxRecord(t)
		e := fromW("TxRecord", w)
		e.Golib = stepgen.TxToGolib(t).ToBytes()
		return e
	}
	fam("txrecord/a", txFam)
	fam("txrecord/b", txFam)
	for _, t := range refcodec.SvcTypes {
		t := t
		fam("service/"+refcodec.SvcTypeName(t), func(r *vlib.Rand) *enc {
			s := stepgen.GenService(r, t)
			w := refcodec.NewW()
			w.Service(s)
			e := fromW("Service/"+refcodec.SvcTypeName(t), w)
			o := gio.NewDataOutputX()
			service.ToBytes(stepgen.SvcToGolib(s), o)
			e.Golib = o.ToByteArray()
			return e
		})
	}

	// ---- packs -------------------------------------------------------------------------
	pk := func(name string, g func(r *vlib.Rand) *W) {
		fam("pack/"+name, func(r *vlib.Rand) *enc { return fromW("ToPack/"+name, g(r)) })
	}
	pk("ParamPack", encParamPack)
	pk("CounterPack1", encCounterPack1)
	pk("ProfilePack", encProfilePack)
	pk("ActiveStackPack", encActiveStackPack)
	pk("TextPack", encTextPack)
	pk("ErrorSnapPack1", encErrorSnapPack)
	pk("RealtimeUserPack", encRealtimeUserPack)
	pk("StatServicePack", encStatServicePack)
	pk("StatGeneralPack", encStatGeneralPack)
	pk("StatSqlPack", encStatSqlPack)
	pk("StatHttpcPack", encStatHttpcPack)
	pk("StatErrorPack", encStatErrorPack)
	pk("StatRemoteIpPack", func(r *vlib.Rand) *W { return intIntPack(r, 0x1100, "statremoteip-count") })
	pk("StatUserAgentPack", func(r *vlib.Rand) *W { return intIntPack(r, 0x1200, "statuseragent-count") })
	pk("EventPack", encEventPack)
	pk("HitMapPack1", encHitMapPack)
	pk("ExtensionPack", encExtensionPack)
	pk("TagCountPack", encTagCountPack)
	pk("TagLogPack", encTagLogPack)
	pk("CompositePack", func(r *vlib.Rand) *W {
		if r.Chance(1, 3) {
			return encCompositeChain(r, r.Range(3, 40))
		}
		return encCompositePack(r, 2)
	})
	pk("LogSinkPack", encLogSinkPack)
	pk("ZipPack", func(r *vlib.Rand) *W { return encZipPack(r, 2) })
	pk("LogSinkZipPack", encLogSinkZipPack)
	pk("ServerInfoPack", encServerInfoPack)
	fam("pack/ProfileStepSplitPack", func(r *vlib.Rand) *enc { return fromW("Read/ProfileStepSplitPack", encStepSplitPack(r)) })

	// ---- primitives --------------------------------------------------------------------
	pr := func(name string, g func(r *vlib.Rand, w *W)) {
		fam("prim/"+name, func(r *vlib.Rand) *enc {
			w := refcodec.NewW()
			g(r, w)
			return fromW("DataInputX."+name, w)
		})
	}
	primGroup := []struct {
		name string
		g    func(r *vlib.Rand, w *W)
	}{
		{"ReadBool", func(r *vlib.Rand, w *W) { w.Bool(r.Bool()) }},
		{"ReadByte", func(r *vlib.Rand, w *W) { w.U8(byte(r.U64())) }},
		{"ReadShort", func(r *vlib.Rand, w *W) { w.I16(r.I16()) }},
		{"ReadUShort", func(r *vlib.Rand, w *W) { w.I16(r.I16()) }},
		{"ReadShortLittle", func(r *vlib.Rand, w *W) { w.I16(r.I16()) }},
		{"ReadInt3", func(r *vlib.Rand, w *W) { w.I24(r.I32()) }},
		{"ReadInt", func(r *vlib.Rand, w *W) { w.I32(r.I32()) }},
		{"ReadUnsignedInt", func(r *vlib.Rand, w *W) { w.I32(r.I32()) }},
		{"ReadIntLittle", func(r *vlib.Rand, w *W) { w.I32(r.I32()) }},
		{"ReadLong5", func(r *vlib.Rand, w *W) { w.I40(r.I64()) }},
		{"ReadLong", func(r *vlib.Rand, w *W) { w.I64(r.I64()) }},
		{"ReadFloat", func(r *vlib.Rand, w *W) { w.F32(r.F32()) }},
		{"ReadDouble", func(r *vlib.Rand, w *W) { w.F64(r.F64()) }},
	}
	// the fixed-width reads share two families (their encodings are 1…8 bytes: every prefix
	// and every byte value of them is enumerated anyway)
	fam("prim/fixed-a", func(r *vlib.Rand) *enc {
		p := primGroup[r.Intn(7)]
		w := refcodec.NewW()
		p.g(r, w)
		return fromW("DataInputX."+p.name, w)
	})
	fam("prim/fixed-b", func(r *vlib.Rand) *enc {
		p := primGroup[7+r.Intn(6)]
		w := refcodec.NewW()
		p.g(r, w)
		return fromW("DataInputX."+p.name, w)
	})
	pr("ReadDecimal", func(r *vlib.Rand, w *W) { w.Decimal(r.I64()) })
	pr("ReadBlob", func(r *vlib.Rand, w *W) {
		if r.Chance(1, 20) {
			w.Blob(r.Bytes([]int{65534, 65535}[r.Intn(2)]))
		} else if r.Chance(1, 20) {
			w.Blob(r.Bytes(r.Range(253, 4000)))
		} else {
			w.Blob(r.Blob(300))
		}
	})
	pr("ReadText", func(r *vlib.Rand, w *W) { w.Text(r.Str(400)) })
	pr("ReadIntBytes", func(r *vlib.Rand, w *W) { w.IntBytes(r.Blob(600)) })
	pr("ReadIntBytesLimit", func(r *vlib.Rand, w *W) { w.IntBytes(r.Blob(600)) })
	pr("ReadShortBytes", func(r *vlib.Rand, w *W) { w.ShortBytes(r.Blob(600)) })
	pr("ReadTextShortLength", func(r *vlib.Rand, w *W) { w.TextShort(r.Str(300)) })
	arrN := func(r *vlib.Rand) int {
		if r.Chance(1, 12) {
			return []int{127, 128, 255, 256, 1000}[r.Intn(5)]
		}
		return smallN(r, 12)
	}
	pr("ReadShortArray", func(r *vlib.Rand, w *W) {
		v := make([]int16, arrN(r))
		for i := range v {
			v[i] = r.I16()
		}
		w.ShortArray(v)
	})
	pr("ReadIntArray", func(r *vlib.Rand, w *W) {
		v := make([]int32, arrN(r))
		for i := range v {
			v[i] = r.I32()
		}
		w.IntArray(v)
	})
	pr("ReadLongArray", func(r *vlib.Rand, w *W) {
		v := make([]int64, arrN(r))
		for i := range v {
			v[i] = r.I64()
		}
		w.LongArray(v)
	})
	pr("ReadFloatArray", func(r *vlib.Rand, w *W) {
		v := make([]float32, arrN(r))
		for i := range v {
			v[i] = r.F32()
		}
		w.FloatArray(v)
	})
	pr("ReadDoubleArray", func(r *vlib.Rand, w *W) {
		v := make([]float64, arrN(r))
		for i := range v {
			v[i] = r.F64()
		}
		w.DoubleArray(v)
	})
	pr("ReadTextArray", func(r *vlib.Rand, w *W) {
		v := make([]string, arrN(r))
		for i := range v {
			v[i] = shortStr(r)
		}
		w.TextArray(v)
	})
	decArr := func(r *vlib.Rand, w *W, i32 bool) {
		n := arrN(r)
		decCount(w, n, "decimal-array-count")
		for i := 0; i < n; i++ {
			if i32 {
				w.Decimal(int64(r.I32()))
			} else {
				w.Decimal(r.I64())
			}
		}
	}
	pr("ReadDecimalArray", func(r *vlib.Rand, w *W) { decArr(r, w, false) })
	pr("ReadDecimalArrayInt", func(r *vlib.Rand, w *W) { decArr(r, w, true) })

	famSM()

	if len(families)%2 == 0 {
		fam("value/gen-shallow2", func(r *vlib.Rand) *enc { return valueEnc(valgen.Gen(r, 1, r.Range(0, 8))) })
	}
}

// ---- big/*: blobs and texts above 65535 bytes ----------------------------------------------
//
// The length prefix of a blob / text has three classes: one byte (≤ 253), 255 + 2 bytes
// (≤ 65535), 254 + 4 bytes (above). The third class needs a message of more than 64 KiB, which
// the other families never produce. Each big/* encoding carries exactly one such blob or text
// inside a pack, a step, a step stream, a value, a record or a primitive, so that the strict
// prefixes (first and last KiB, around every field-map entry, a stride through the rest) end
// inside it and the hostile values hit its 5-byte length prefix.

func bigLen(r *vlib.Rand) int {
	switch r.Intn(4) {
	case 0:
		return 65536 + r.Intn(3) // just above the 2-byte class
	case 1:
		return r.Range(65539, 70000)
	default:
		return r.Range(70000, 98000)
	}
}

// bigSteps: a few ordinary steps and one step that holds a blob / text of n bytes
func bigSteps(r *vlib.Rand, n int) []refcodec.RefStep {
	steps := stepgen.GenSteps(r, r.Range(0, 4))
	for i := range steps { // keep the others small
		steps[i] = smallStep(r, steps[i])
	}
	var s refcodec.RefStep
	switch r.Intn(4) {
	case 0:
		s = smallStep(r, stepgen.GenStep(r, refcodec.StepTMessage))
		s.Desc = r.AsciiN(n)
	case 1:
		s = smallStep(r, stepgen.GenStep(r, refcodec.StepTSqlX))
		if r.Bool() {
			s.P1 = r.Bytes(n)
		} else {
			s.P2 = r.Bytes(n)
		}
	case 2:
		s = smallStep(r, stepgen.GenStep(r, refcodec.StepTSecureMsg))
		s.SecValue = r.Bytes(n)
	default:
		s = smallStep(r, stepgen.GenStep(r, refcodec.StepTHttpcX))
		s.Version = 2
		s.Param = r.AsciiN(n)
	}
	at := r.Intn(len(steps) + 1)
	steps = append(steps[:at], append([]refcodec.RefStep{s}, steps[at:]...)...)
	return steps
}

// smallStep cuts the occasional 64 KiB blob / text of the step generator down
func smallStep(r *vlib.Rand, s refcodec.RefStep) refcodec.RefStep {
	cutB := func(b []byte) []byte {
		if len(b) > 400 {
			return b[:400]
		}
		return b
	}
	cutS := func(t string) string {
		if len(t) > 400 {
			return r.AsciiN(300)
		}
		return t
	}
	s.P1, s.P2, s.IpAddr, s.SecValue = cutB(s.P1), cutB(s.P2), cutB(s.IpAddr), cutB(s.SecValue)
	s.Driver, s.OriginUrl, s.Param, s.Desc, s.Title = cutS(s.Driver), cutS(s.OriginUrl), cutS(s.Param), cutS(s.Desc), cutS(s.Title)
	return s
}

func bigPack(r *vlib.Rand) *enc {
	n := bigLen(r)
	w := refcodec.NewW()
	var name string
	switch r.Intn(8) {
	case 0: // the steps blob holds a step with a big text: two nested blobs of the 4-byte class
		name = "ToPack/ProfilePack"
		w.ProfilePack(refcodec.RefProfilePack{Hdr: refHdr(r), Tx: stepgen.GenTxRecord(r), Steps: bigSteps(r, n)})
	case 1:
		name = "Read/ProfileStepSplitPack"
		w.StepSplitPack(refcodec.RefStepSplitPack{Hdr: refHdr(r), Txid: r.I64(), Inx: int64(r.I32()), Steps: bigSteps(r, n)})
	case 2: // profile blob or stack blob above 64 KiB
		name = "ToPack/ErrorSnapPack1"
		p := refcodec.RefErrorSnapPack{Hdr: refHdr(r), Seq: r.I64(), HasStack: true, AppendType: byte(r.U64()), AppendHash: r.I32()}
		if r.Bool() {
			p.Profile = bigSteps(r, n)
			p.Stack = make([]int32, smallN(r, 20))
		} else {
			p.Profile = stepgen.GenSteps(r, 0)
			p.Stack = make([]int32, n/4+1)
		}
		for i := range p.Stack {
			p.Stack[i] = r.I32()
		}
		w.ErrorSnapPack(p)
	case 3:
		name = "ToPack/RealtimeUserPack"
		packType(w, 0x0f00)
		packHeader(w, r)
		w.Blob(r.Bytes(n))
	case 4: // one text of the table above 64 KiB
		name = "ToPack/TextPack"
		packType(w, 0x0700)
		packHeader(w, r)
		cnt := r.Range(1, 4)
		at := r.Intn(cnt)
		decCount(w, cnt, "textpack-count")
		for i := 0; i < cnt; i++ {
			w.U8(byte(r.U64())).I32(r.I32())
			if i == at {
				w.Text(r.AsciiN(n))
			} else {
				w.Text(shortStr(r))
			}
		}
	case 5: // the record blob above 64 KiB: the records are packs, one of them with a long text
		name = "ToPack/ZipPack"
		packType(w, 0x170b)
		packHeader(w, r)
		w.U8(0)
		cnt := r.Range(1, 3)
		at := r.Intn(cnt)
		decCount(w, cnt, "zip-record-count")
		o := refcodec.NewW()
		for i := 0; i < cnt; i++ {
			if i == at {
				m := refcodec.NewW()
				packType(m, 0x170a)
				packHeader(m, r)
				version(m, 0, "logsink-version")
				m.Text(shortStr(r)).Decimal(r.I64())
				m.Value(mapValue(r, 1, 3))
				m.Decimal(r.I64()).Text(r.AsciiN(n))
				m.Mark(1, kTag, "logsink-fields-present")
				m.U8(0)
				appendW(o, m)
			} else {
				appendW(o, encTextPack(r))
			}
		}
		blobOf(w, o)
	case 6: // the content text of a log record
		name = "ToPack/LogSinkPack"
		packType(w, 0x170a)
		packHeader(w, r)
		version(w, 0, "logsink-version")
		w.Text(shortStr(r)).Decimal(r.I64())
		w.Value(mapValue(r, 1, 4))
		w.Decimal(r.I64()).Text(r.AsciiN(n))
		w.Mark(1, kTag, "logsink-fields-present")
		w.U8(0)
	default: // a parameter value that is a big blob / text
		name = "ToPack/ParamPack"
		packType(w, 0x0100)
		packHeader(w, r)
		w.I32(r.I32()).Decimal(r.I64()).Decimal(r.I64())
		keys := valgen.StrKeys(r, r.Range(1, 4))
		at := r.Intn(len(keys))
		decCount(w, len(keys), "param-count")
		for i, k := range keys {
			w.Text(k)
			if i == at {
				w.Value(bigLeaf(r, n))
			} else {
				w.Value(valgen.Gen(r, 1, 3))
			}
		}
	}
	e := fromW(name, w)
	e.Big = true
	return e
}

func bigLeaf(r *vlib.Rand, n int) refcodec.V {
	if r.Bool() {
		return refcodec.V{Tag: refcodec.TBlob, B: r.Bytes(n)}
	}
	return refcodec.V{Tag: refcodec.TText, S: r.AsciiN(n)}
}

func bigValueStepRecord(r *vlib.Rand) *enc {
	n := bigLen(r)
	var e *enc
	switch r.Intn(6) {
	case 0: // a leaf
		w := refcodec.NewW()
		w.Value(bigLeaf(r, n))
		e = fromW("ReadValue", w)
	case 1: // inside a list / a map / an int map, somewhere among small values
		cnt := r.Range(1, 5)
		at := r.Intn(cnt)
		v := refcodec.V{Tag: []byte{refcodec.TList, refcodec.TMap, refcodec.TIntMap}[r.Intn(3)]}
		keys := valgen.StrKeys(r, cnt)
		for i := 0; i < cnt; i++ {
			el := valgen.Leaf(r, 3)
			if i == at {
				el = bigLeaf(r, n)
			}
			switch v.Tag {
			case refcodec.TList:
				v.List = append(v.List, el)
			case refcodec.TMap:
				v.Keys = append(v.Keys, keys[i])
				v.Vals = append(v.Vals, el)
			default:
				v.IntKeys = append(v.IntKeys, int32(i*7+1))
				v.Vals = append(v.Vals, el)
			}
		}
		w := refcodec.NewW()
		w.Value(v)
		e = fromW("ReadValue", w)
	case 2: // an element of a text array
		cnt := r.Range(1, 5)
		v := refcodec.V{Tag: refcodec.TTextArray, Texts: make([]string, cnt)}
		for i := range v.Texts {
			v.Texts[i] = shortStr(r)
		}
		v.Texts[r.Intn(cnt)] = r.AsciiN(n)
		w := refcodec.NewW()
		w.Value(v)
		e = fromW("ReadValue", w)
	case 3: // one step
		st := bigSteps(r, n)
		var s refcodec.RefStep
		for _, x := range st {
			if len(x.Desc) >= n || len(x.P1) >= n || len(x.P2) >= n || len(x.SecValue) >= n || len(x.Param) >= n {
				s = x
			}
		}
		w := refcodec.NewW()
		w.Step(s)
		e = fromW("ReadStep/"+refcodec.StepTypeName(s.Type), w)
	case 4: // a step stream
		steps := bigSteps(r, n)
		w := refcodec.NewW()
		sizes := w.Steps(steps)
		e = fromW("ReadStep/stream", w)
		e.Fields = append(e.Fields, refcodec.Field{Off: 0, Width: 0, Kind: kEnd, Name: "step-boundary"})
		off := 0
		for _, s := range sizes[:len(sizes)-1] {
			off += s
			e.Fields = append(e.Fields, refcodec.Field{Off: off, Width: 0, Kind: kEnd, Name: "step-boundary"})
		}
	default: // a transaction record whose body blob exceeds 64 KiB (the origin url)
		t := stepgen.GenTxRecord(r)
		t.OriginUrl = r.AsciiN(n)
		w := refcodec.NewW()
		w.TxRecord(t)
		e = fromW("TxRecord", w)
	}
	e.Big = true
	return e
}

func bigPrim(r *vlib.Rand) *enc {
	n := bigLen(r)
	w := refcodec.NewW()
	name := "DataInputX.ReadBlob"
	switch r.Intn(3) {
	case 0:
		w.Blob(r.Bytes(n))
	case 1:
		name = "DataInputX.ReadText"
		w.Text(r.AsciiN(n))
	default:
		name = "DataInputX.ReadTextArray"
		cnt := r.Range(1, 4)
		v := make([]string, cnt)
		for i := range v {
			v[i] = shortStr(r)
		}
		v[r.Intn(cnt)] = r.AsciiN(n)
		w.TextArray(v)
	}
	e := fromW(name, w)
	e.Big = true
	return e
}

// bigFamilies are drawn by the cases behind the regular ones (main.go): case n+j belongs to
// bigFamilies[j mod 3]; the regular cases 0 … n-1 keep their families (i mod len(families)).
var bigFamilies = []family{
	{"big/pack", bigPack},
	{"big/value-step-record", bigValueStepRecord},
	{"big/prim", bigPrim},
}
