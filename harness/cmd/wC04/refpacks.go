package main

// Reference encodings of every registered pack type, written from the wire layout with the
// refcodec primitives only (refcodec.W records the field map: every length, count, type tag,
// version byte and decimal class byte with its offset and width). Nothing here calls a golib
// writer: the corpus element is the reference encoding, admitted to the corpus only when
// golib's decoder accepts it completely and consumes every byte of it (checked in main.go).
//
// Where golib's own writer and reader disagree about a layout (TagLogPack tag hash,
// ServerInfoPack attribute map tag, CounterPack1 optional sections — properties C03/C05) both
// forms are generated; the admission check keeps the one the decoder under test defines.

import (
	"verif/refcodec"
	"verif/stepgen"
	"verif/valgen"
	"verif/vlib"
)

type W = refcodec.W

const (
	kLen   = refcodec.KLen
	kCount = refcodec.KCount
	kTag   = refcodec.KTag
	kVer   = refcodec.KVersion
	kDec   = refcodec.KDecLen
	kEnd   = refcodec.KEnd
)

func packType(w *W, t int16) {
	w.Mark(2, kTag, "pack-type")
	w.I16(t)
}

// packHeader: both forms of the common header (the long one iff okind|onode != 0).
func packHeader(w *W, r *vlib.Rand) {
	pcode, oid, tm := r.I64(), r.I32(), r.I64()
	if r.Bool() {
		w.Decimal(pcode).I32(oid).I64(tm)
		return
	}
	okind, onode := r.I32(), r.I32()
	if okind|onode == 0 {
		okind = 1
	}
	w.Mark(1, kVer, "pack-header-form")
	w.U8(9).Decimal(pcode).I32(oid).I32(okind).I32(onode).I64(tm)
}

// decCount writes a decimal element count and records it (whole decimal) as a count field.
func decCount(w *W, n int, name string) {
	w.Mark(1+refcodec.DecimalClass(int64(n)), kCount, name)
	w.Decimal(int64(n))
}

func byteCount(w *W, n int, name string) {
	w.Mark(1, kCount, name)
	w.U8(byte(n))
}

func shortCount(w *W, n int, name string) {
	w.Mark(2, kCount, name)
	w.I16(int16(n))
}

func version(w *W, v byte, name string) {
	w.Mark(1, kVer, name)
	w.U8(v)
}

// small element counts: empty, one, two, a few, sometimes a class edge of the decimal count
func smallN(r *vlib.Rand, max int) int {
	switch r.Intn(8) {
	case 0:
		return 0
	case 1:
		return 1
	case 2:
		if max >= 128 && r.Chance(1, 3) {
			return []int{127, 128, 129}[r.Intn(3)]
		}
		return 2
	default:
		return r.Range(0, max)
	}
}

func shortStr(r *vlib.Rand) string {
	switch r.Intn(10) {
	case 0:
		return ""
	case 1:
		return r.Str(300)
	default:
		return r.Ident()
	}
}

func mapValue(r *vlib.Rand, depth, width int) refcodec.V {
	return valgen.GenTag(r, refcodec.TMap, depth, width)
}

// blobOf: inner stream as a blob of the outer one, field map relocated.
func blobOf(w *W, inner *W) { w.BlobOf(inner) }

// ---- the packs ------------------------------------------------------------------------

func encParamPack(r *vlib.Rand) *W {
	w := refcodec.NewW()
	packType(w, 0x0100)
	packHeader(w, r)
	w.I32(r.I32()).Decimal(r.I64()).Decimal(r.I64())
	keys := valgen.StrKeys(r, smallN(r, 10))
	decCount(w, len(keys), "param-count")
	for _, k := range keys {
		w.Text(k)
		w.Value(valgen.Gen(r, 2, 4))
	}
	return w
}

func meterSection(w *W, r *vlib.Rand, name string, entry func(o *W, withActx bool)) {
	switch r.Intn(4) {
	case 0: // absent
		w.Mark(1, kVer, name+"-form")
		w.U8(0)
	case 1: // old form: the form byte is the decimal class of the count
		n := smallN(r, 4)
		if n == 0 {
			n = 1
		}
		w.Mark(1, kVer, name+"-form")
		w.Mark(1+refcodec.DecimalClass(int64(n)), kCount, name+"-count")
		w.Decimal(int64(n))
		for i := 0; i < n; i++ {
			entry(w, false)
		}
	default: // form 9: decimal count, entries carry the active count
		n := smallN(r, 4)
		w.Mark(1, kVer, name+"-form")
		w.U8(9)
		decCount(w, n, name+"-count")
		for i := 0; i < n; i++ {
			entry(w, true)
		}
	}
}

func encCounterPack1(r *vlib.Rand) *W {
	w := refcodec.NewW()
	packType(w, 0x0201)
	packHeader(w, r)
	o := refcodec.NewW()
	d := func(n int) {
		for i := 0; i < n; i++ {
			o.Decimal(r.I64())
		}
	}
	f := func(n int) {
		for i := 0; i < n; i++ {
			o.F32(r.F32())
		}
	}
	d(20) // duration … act_svc_count
	n := smallN(r, 5)
	byteCount(o, n, "counter-actsvc-count")
	for i := 0; i < n; i++ {
		o.I16(r.I16())
	}
	f(7) // cpu … cpu_proc
	d(1) // cpu cores
	f(3) // mem swap disk
	d(4) // threads
	// db pool section: the decoder skips ONE map of (decimal, decimal) pairs
	if r.Chance(1, 3) {
		o.Mark(1, kTag, "counter-dbpool-present")
		o.U8(1)
		n := smallN(r, 4)
		decCount(o, n, "counter-dropmap-count")
		for i := 0; i < n; i++ {
			d(2)
		}
	} else {
		o.Mark(1, kTag, "counter-dbpool-present")
		o.U8(0)
	}
	o.Mark(1, kTag, "counter-netstat-present")
	if r.Bool() {
		o.U8(1)
		d(4)
	} else {
		o.U8(0)
	}
	d(1)
	f(1)
	d(1)
	o.I16(r.I16()) // ap type
	o.Mark(1, kTag, "counter-websocket-present")
	if r.Bool() {
		o.U8(1)
		d(3)
	} else {
		o.U8(0)
	}
	d(4) // start time, dropped, host ip, mac hash
	o.Mark(1, kTag, "counter-extra-present")
	if r.Bool() {
		// the decoder reads the body of an int map right after the presence byte
		o.U8(1)
		o.ValueBody(valgen.GenTag(r, refcodec.TIntMap, 1, 4))
	} else {
		o.U8(0)
	}
	o.I32(r.I32()) // pid
	n = smallN(r, 6)
	byteCount(o, n, "counter-activestat-count")
	for i := 0; i < n; i++ {
		o.I16(r.I16())
	}
	d(2) // thread pool
	meterSection(o, r, "counter-txcaller-oid", func(o *W, actx bool) {
		o.I32(r.I32()).Decimal(r.I64()).Decimal(int64(r.I32())).Decimal(int64(r.I32()))
		if actx {
			o.Decimal(int64(r.I32()))
		}
	})
	meterSection(o, r, "counter-sql-meter", func(o *W, actx bool) {
		o.I32(r.I32()).Decimal(r.I64()).Decimal(int64(r.I32())).Decimal(int64(r.I32()))
		if actx {
			o.Decimal(int64(r.I32()))
		}
		o.Decimal(r.I64()).Decimal(r.I64())
	})
	meterSection(o, r, "counter-httpc-meter", func(o *W, actx bool) {
		o.I32(r.I32()).Decimal(r.I64()).Decimal(int64(r.I32())).Decimal(int64(r.I32()))
		if actx {
			o.Decimal(int64(r.I32()))
		}
	})
	meterSection(o, r, "counter-txcaller-group", func(o *W, actx bool) {
		o.Decimal(r.I64())
		if actx {
			o.Decimal(int64(r.I32()))
		}
		o.Decimal(r.I64()).Decimal(int64(r.I32())).Decimal(int64(r.I32()))
		if actx {
			o.Decimal(int64(r.I32()))
		}
	})
	// deprecated okind meter: decimal count of (int32, 3 decimals)
	n = 0
	if r.Chance(1, 4) {
		n = smallN(r, 3)
	}
	decCount(o, n, "counter-okind-meter-count")
	for i := 0; i < n; i++ {
		o.I32(r.I32())
		d(3)
	}
	// unknown caller: version byte 0 / 1 / 2
	uv := byte(r.Intn(3))
	version(o, uv, "counter-txcaller-unknown-version")
	if uv > 0 {
		d(3)
		if uv >= 2 {
			d(1)
		}
	}
	d(1) // container key
	f(3)
	d(2)
	f(1)
	d(1)
	o.U8(byte(r.U64())) // version
	d(2)                // heap max, fd max
	f(1)
	d(1)
	// per caller project/oid meter: only the absent form is self-consistent between the
	// decoder (which expects a short array per entry) and any writer; both are generated
	if r.Chance(1, 4) {
		altForm = true
		n := r.Range(1, 3)
		many := r.Chance(1, 4)
		if many {
			n = r.Range(800, 1600) // many callers, small numbers
		}
		o.Mark(1, kVer, "counter-txcaller-poid-form")
		o.U8(9)
		decCount(o, n, "counter-txcaller-poid-count")
		for i := 0; i < n; i++ {
			if many {
				for j := 0; j < 5; j++ {
					o.Decimal(int64(r.Intn(100)))
				}
				byteCount(o, 0, "counter-txcaller-poid-acts-count")
				o.Decimal(int64(r.Intn(100)))
				continue
			}
			d(5)
			m := r.Intn(n + 1)
			byteCount(o, m, "counter-txcaller-poid-acts-count")
			for j := 0; j < m; j++ {
				o.I16(r.I16())
			}
			d(1)
		}
	} else {
		o.Mark(1, kVer, "counter-txcaller-poid-form")
		o.U8(0)
	}
	d(3)
	blobOf(w, o)
	return w
}

func encProfilePack(r *vlib.Rand) *W {
	w := refcodec.NewW()
	w.ProfilePack(refcodec.RefProfilePack{Hdr: refHdr(r), Tx: stepgen.GenTxRecord(r), Steps: stepgen.GenSteps(r, smallN(r, 8))})
	return w
}

func refHdr(r *vlib.Rand) refcodec.RefPackHeader08 {
	h := refcodec.RefPackHeader08{Pcode: r.I64(), Oid: r.I32(), Time: r.I64()}
	if r.Bool() {
		h.Okind, h.Onode = r.I32(), r.I32()
	}
	return h
}

func encStepSplitPack(r *vlib.Rand) *W {
	w := refcodec.NewW()
	w.StepSplitPack(refcodec.RefStepSplitPack{Hdr: refHdr(r), Txid: r.I64(), Inx: int64(r.I32()), Steps: stepgen.GenSteps(r, smallN(r, 8))})
	return w
}

func encErrorSnapPack(r *vlib.Rand) *W {
	w := refcodec.NewW()
	p := refcodec.RefErrorSnapPack{Hdr: refHdr(r), Seq: r.I64(), Profile: stepgen.GenSteps(r, smallN(r, 6)),
		HasStack: r.Bool(), AppendType: byte(r.U64()), AppendHash: r.I32()}
	if p.HasStack {
		p.Stack = make([]int32, smallN(r, 40))
		for i := range p.Stack {
			p.Stack[i] = r.I32()
		}
	}
	w.ErrorSnapPack(p)
	return w
}

func encActiveStackPack(r *vlib.Rand) *W {
	w := refcodec.NewW()
	packType(w, 0x0401)
	packHeader(w, r)
	v := byte(1)
	if r.Chance(1, 4) {
		v = 0 // the older form: no elapsed time at the end
	}
	version(w, v, "activestack-version")
	w.I64(r.I64()).I64(r.I64()).I32(r.I32()).I32(r.I32())
	st := make([]int32, smallN(r, 60))
	for i := range st {
		st[i] = r.I32()
	}
	w.IntArray(st)
	if v > 0 {
		w.Decimal(int64(r.I32()))
	}
	return w
}

func encTextPack(r *vlib.Rand) *W {
	w := refcodec.NewW()
	packType(w, 0x0700)
	packHeader(w, r)
	n := smallN(r, 20)
	decCount(w, n, "textpack-count")
	for i := 0; i < n; i++ {
		w.U8(byte(r.U64())).I32(r.I32())
		if r.Chance(1, 30) {
			w.Text(r.AsciiN([]int{253, 254, 255, 256, 4000}[r.Intn(5)]))
		} else {
			w.Text(shortStr(r))
		}
	}
	return w
}

func encRealtimeUserPack(r *vlib.Rand) *W {
	w := refcodec.NewW()
	packType(w, 0x0f00)
	packHeader(w, r)
	w.Blob(r.Blob(3000))
	return w
}

func timeCountMap(o *W, r *vlib.Rand, name string) {
	n := 0
	if r.Bool() {
		n = smallN(r, 5)
	}
	decCount(o, n, name)
	seen := map[int32]bool{}
	for i := 0; i < n; i++ {
		k := r.I32()
		for seen[k] {
			k++
		}
		seen[k] = true
		o.I32(k).Decimal(int64(r.I32())).Decimal(int64(r.I32())).Decimal(r.I64())
	}
}

func serviceRec(o *W, r *vlib.Rand) {
	o.I32(r.I32()).Bool(r.Bool())
	for i := 0; i < 26; i++ {
		o.Decimal(r.I64())
	}
	timeCountMap(o, r, "servicerec-sqlmap-count")
	timeCountMap(o, r, "servicerec-httpcmap-count")
}

// recordsPack: header, blob{ int16 count, records }, decimal record count [, tail]
func recordsPack(r *vlib.Rand, code int16, max int, name string, rec func(o *W, r *vlib.Rand)) *W {
	w := refcodec.NewW()
	packType(w, code)
	packHeader(w, r)
	o := refcodec.NewW()
	n := smallN(r, max)
	shortCount(o, n, name+"-records-count")
	for i := 0; i < n; i++ {
		rec(o, r)
	}
	blobOf(w, o)
	w.Decimal(int64(n))
	return w
}

func encStatServicePack(r *vlib.Rand) *W {
	return recordsPack(r, 0x0900, 4, "statservice", serviceRec)
}

func encStatSqlPack(r *vlib.Rand) *W {
	return recordsPack(r, 0x0a00, 8, "statsql", func(o *W, r *vlib.Rand) {
		o.I32(r.I32()).I32(r.I32()).U8(byte(r.U64())).Decimal(int64(r.I32())).Decimal(int64(r.I32()))
		ver := int64(-1)
		if r.Chance(1, 4) {
			ver = int64(r.Intn(3)) // the older record: no service hash at the end
		}
		o.Mark(1+refcodec.DecimalClass(ver), kVer, "sqlrec-version")
		o.Decimal(ver)
		for i := 0; i < 7; i++ {
			o.Decimal(r.I64())
		}
		if ver < 0 {
			o.Decimal(int64(r.I32()))
		}
	})
}

func encStatHttpcPack(r *vlib.Rand) *W {
	return recordsPack(r, 0x0b00, 8, "stathttpc", func(o *W, r *vlib.Rand) {
		o.I32(r.I32()).I32(r.I32()).I32(r.I32()).Decimal(int64(r.I32())).Decimal(int64(r.I32()))
		ver := int64(-1)
		if r.Chance(1, 4) {
			ver = int64(r.Intn(3))
		}
		o.Mark(1+refcodec.DecimalClass(ver), kVer, "httpcrec-version")
		o.Decimal(ver)
		for i := 0; i < 4; i++ {
			o.Decimal(r.I64())
		}
		if ver < 0 {
			o.Decimal(int64(r.I32()))
		}
	})
}

func encStatErrorPack(r *vlib.Rand) *W {
	return recordsPack(r, 0x0c00, 10, "staterror", func(o *W, r *vlib.Rand) {
		o.I32(r.I32()).I32(r.I32()).I64(r.I64()).Decimal(int64(r.I32())).Decimal(int64(r.I32()))
	})
}

func encStatGeneralPack(r *vlib.Rand) *W {
	w := refcodec.NewW()
	packType(w, 0x0910)
	packHeader(w, r)
	w.Text(shortStr(r))
	t := refcodec.NewW()
	keys := valgen.StrKeys(r, smallN(r, 6))
	shortCount(t, len(keys), "statgeneral-table-count")
	for _, k := range keys {
		t.Text(k)
		lt := byte(1 + r.Intn(5))
		t.Mark(1, kTag, "statgeneral-list-type")
		t.U8(lt)
		n := smallN(r, 12)
		t.Mark(3, kCount, "anylist-count")
		t.I24(int32(n))
		for i := 0; i < n; i++ {
			switch lt {
			case 1:
				t.Decimal(int64(r.I32()))
			case 2:
				t.Decimal(r.I64())
			case 3:
				t.F32(r.F32())
			case 4:
				t.F64(r.F64())
			default:
				t.Text(shortStr(r))
			}
		}
	}
	if len(keys) == 0 && r.Bool() {
		t = refcodec.NewW() // no table bytes at all
	}
	w.Mark(3, kLen, "int3-len")
	w.I24(int32(len(t.B)))
	base := len(w.B)
	w.Raw(t.B)
	for _, f := range t.Fields {
		f.Off += base
		w.Fields = append(w.Fields, f)
	}
	return w
}

func intIntPack(r *vlib.Rand, code int16, name string) *W {
	w := refcodec.NewW()
	packType(w, code)
	packHeader(w, r)
	n := smallN(r, 30)
	decCount(w, n, name)
	for i := 0; i < n; i++ {
		w.I32(r.I32()).I32(r.I32())
	}
	return w
}

func encEventPack(r *vlib.Rand) *W {
	w := refcodec.NewW()
	packType(w, 0x1400)
	packHeader(w, r)
	w.U8(byte(r.U64())).Text(shortStr(r)).Text(r.Str(600))
	n := smallN(r, 8)
	if r.Chance(1, 40) {
		n = 255
	}
	byteCount(w, n, "event-attr-count")
	for i := 0; i < n; i++ {
		switch {
		case i == 0 && r.Bool():
			w.Text("_esca_").Text([]string{"true", "false"}[r.Intn(2)])
		case i == 1 && r.Bool():
			w.Text("_status_").Text("7")
		default:
			w.Text(shortStr(r)).Text(shortStr(r))
		}
	}
	return w
}

func encHitMapPack(r *vlib.Rand) *W {
	w := refcodec.NewW()
	packType(w, 0x1501)
	packHeader(w, r)
	if r.Chance(1, 6) {
		// any other version byte: the message ends after it
		version(w, []byte{0, 2}[r.Intn(2)], "hitmap-version")
		return w
	}
	version(w, 1, "hitmap-version")
	for i := 0; i < 240; i++ {
		w.I16(r.I16())
	}
	return w
}

func encExtensionPack(r *vlib.Rand) *W {
	w := refcodec.NewW()
	packType(w, 0x1600)
	packHeader(w, r)
	version(w, 0, "extension-version")
	w.Bool(r.Bool())
	keys := valgen.StrKeys(r, smallN(r, 8))
	decCount(w, len(keys), "extension-header-count")
	for _, k := range keys {
		w.Text(k).I32(r.I32())
	}
	w.Value(valgen.GenTag(r, refcodec.TIntMap, 2, 5))
	return w
}

func encTagCountPack(r *vlib.Rand) *W {
	w := refcodec.NewW()
	packType(w, 0x1601)
	packHeader(w, r)
	version(w, 0, "tagcount-version")
	w.Text(shortStr(r)).Decimal(r.I64())
	w.Value(mapValue(r, 1, 5))
	w.Value(mapValue(r, 2, 6))
	return w
}

// TagLogPack: golib's writer emits a tag hash decimal, its reader (at the pinned revision)
// does not read one. Both layouts are produced; the admission check keeps what the reader
// under test consumes completely.
func encTagLogPack(r *vlib.Rand) *W {
	w := refcodec.NewW()
	packType(w, 0x1602)
	packHeader(w, r)
	version(w, 0, "taglog-version")
	w.Text(shortStr(r))
	altForm = true
	if r.Bool() {
		w.Decimal(r.I64())
	}
	w.Value(mapValue(r, 1, 5))
	w.Value(mapValue(r, 2, 6))
	return w
}

func encLogSinkBody(w *W, r *vlib.Rand) {
	packHeader(w, r)
	version(w, 0, "logsink-version")
	w.Text(shortStr(r)).Decimal(r.I64())
	w.Value(mapValue(r, 1, 4))
	w.Decimal(r.I64()).Text(r.Str(800))
	w.Mark(1, kTag, "logsink-fields-present")
	if r.Bool() {
		w.U8(1)
		w.Value(mapValue(r, 1, 4))
	} else {
		w.U8(0)
	}
}

func encLogSinkPack(r *vlib.Rand) *W {
	w := refcodec.NewW()
	packType(w, 0x170a)
	encLogSinkBody(w, r)
	return w
}

// smallPack: a member of a composite / zip pack (kept small; may itself be a container).
func smallPack(r *vlib.Rand, depth int) *W {
	k := r.Intn(9)
	if depth <= 0 && k == 8 {
		k = 0
	}
	switch k {
	case 0:
		return encTextPack(r)
	case 1:
		return encParamPack(r)
	case 2:
		return encEventPack(r)
	case 3:
		return encLogSinkPack(r)
	case 4:
		return encTagCountPack(r)
	case 5:
		return intIntPack(r, 0x1100, "statremoteip-count")
	case 6:
		return encStatErrorPack(r)
	case 7:
		return encActiveStackPack(r)
	default:
		if r.Bool() {
			return encCompositePack(r, depth-1)
		}
		return encZipPack(r, depth-1)
	}
}

func appendW(w *W, in *W) {
	base := len(w.B)
	w.Raw(in.B)
	for _, f := range in.Fields {
		f.Off += base
		w.Fields = append(w.Fields, f)
	}
}

func encCompositePack(r *vlib.Rand, depth int) *W {
	w := refcodec.NewW()
	packType(w, 0x1700)
	packHeader(w, r)
	n := smallN(r, 4)
	shortCount(w, n, "composite-count")
	for i := 0; i < n; i++ {
		appendW(w, smallPack(r, depth))
	}
	return w
}

// encCompositeChain: composite packs nested depth levels deep; every level holds the nested
// composite first and then zero to two small packs.
func encCompositeChain(r *vlib.Rand, depth int) *W {
	w := refcodec.NewW()
	packType(w, 0x1700)
	packHeader(w, r)
	if depth <= 0 {
		shortCount(w, 0, "composite-count")
		return w
	}
	n := r.Intn(3)
	shortCount(w, 1+n, "composite-count")
	appendW(w, encCompositeChain(r, depth-1))
	for i := 0; i < n; i++ {
		appendW(w, smallPack(r, 0))
	}
	return w
}

func encZipPack(r *vlib.Rand, depth int) *W {
	w := refcodec.NewW()
	packType(w, 0x170b)
	packHeader(w, r)
	w.U8(0) // status
	n := smallN(r, 4)
	decCount(w, n, "zip-record-count")
	o := refcodec.NewW()
	for i := 0; i < n; i++ {
		appendW(o, smallPack(r, depth))
	}
	blobOf(w, o)
	return w
}

func encLogSinkZipPack(r *vlib.Rand) *W {
	w := refcodec.NewW()
	packType(w, 0x170d)
	packHeader(w, r)
	n := smallN(r, 4)
	o := refcodec.NewW()
	for i := 0; i < n; i++ {
		appendW(o, encLogSinkPack(r))
	}
	if r.Chance(1, 4) {
		// zipped form: the records travel gzip-compressed (opaque at this level)
		w.Mark(1, kTag, "logsinkzip-status")
		w.U8(1)
		decCount(w, n, "zip-record-count")
		w.Blob(gzipBytes(o.B))
		return w
	}
	w.Mark(1, kTag, "logsinkzip-status")
	w.U8(0)
	decCount(w, n, "zip-record-count")
	blobOf(w, o)
	return w
}

// ServerInfoPack has no common header. golib's writer emits the attribute map without a
// type tag, its reader expects a tagged map (and ignores anything else): both are produced.
func encServerInfoPack(r *vlib.Rand) *W {
	w := refcodec.NewW()
	packType(w, 0x6500)
	w.I24(r.I32() >> 8).Decimal(r.I64()).Decimal(r.I64()).Decimal(r.I64()).Text(shortStr(r))
	m := mapValue(r, 1, 5)
	if r.Chance(3, 4) {
		w.Value(m)
	} else {
		altForm = true
		w.ValueBody(m)
	}
	return w
}
