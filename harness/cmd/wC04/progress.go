package main

// The progress page: 64 bytes of a file mapped MAP_SHARED by the worker and by the decode
// server. The server stores, before every decode, which answer it is working on, in which
// input mode, and its CPU clock at the start of that (sub-)request; after the answer is
// written (into its output buffer) it marks itself idle. The worker reads the page while it
// waits (CPU watchdog) and after the server has gone (who was the culprit).
//
//	[0:8]   index of the answer being worked on (= number of answers completed when idle)
//	[8:16]  CPU clock (ns, user+system of the server process) at the start of that answer
//	[16:24] state: 0 idle, 1 decoding; bits 8…15 the input mode of the running decode

import (
	"os"
	"sync/atomic"
	"syscall"
	"time"
	"unsafe"
)

const progressLen = 64

type progress struct {
	mem []byte
}

func (p *progress) word(i int) *uint64 { return (*uint64)(unsafe.Pointer(&p.mem[8*i])) }

// openProgress maps the page; without a path (or on failure) a private page is used, so that
// the server works stand-alone
func openProgress(path string) *progress {
	if path != "" {
		if f, err := os.OpenFile(path, os.O_RDWR, 0); err == nil {
			defer f.Close()
			if m, err := syscall.Mmap(int(f.Fd()), 0, progressLen, syscall.PROT_READ|syscall.PROT_WRITE, syscall.MAP_SHARED); err == nil {
				return &progress{mem: m}
			}
		}
	}
	return &progress{mem: make([]byte, progressLen)}
}

func createProgress(path string) (*progress, error) {
	f, err := os.OpenFile(path, os.O_RDWR|os.O_CREATE|os.O_TRUNC, 0o600)
	if err != nil {
		return nil, err
	}
	defer f.Close()
	if err := f.Truncate(progressLen); err != nil {
		return nil, err
	}
	m, err := syscall.Mmap(int(f.Fd()), 0, progressLen, syscall.PROT_READ|syscall.PROT_WRITE, syscall.MAP_SHARED)
	if err != nil {
		return nil, err
	}
	return &progress{mem: m}, nil
}

func (p *progress) close() {
	if p != nil && p.mem != nil {
		syscall.Munmap(p.mem)
		p.mem = nil
	}
}

// server side
func (p *progress) start(seq uint64, cpu time.Duration) {
	atomic.StoreUint64(p.word(1), uint64(cpu))
	atomic.StoreUint64(p.word(0), seq)
	atomic.StoreUint64(p.word(2), 1)
}
func (p *progress) mode(im int) { atomic.StoreUint64(p.word(2), 1|uint64(im)<<8) }
func (p *progress) idle(seq uint64) {
	atomic.StoreUint64(p.word(0), seq)
	atomic.StoreUint64(p.word(2), 0)
}

// worker side
type progState struct {
	seq      uint64
	cpuStart time.Duration
	decoding bool
	mode     int
}

func (p *progress) read() progState {
	st := atomic.LoadUint64(p.word(2))
	return progState{seq: atomic.LoadUint64(p.word(0)), cpuStart: time.Duration(atomic.LoadUint64(p.word(1))), decoding: st&1 == 1, mode: int(st >> 8 & 0xff)}
}
