package main

// The decode server: a second process of this same binary (WC04_SERVER=1) that performs the
// hostile decodes of fault space 2 one at a time and reports, per decode, whether the call
// returned or panicked, the exact number of bytes allocated (runtime.MemStats.TotalAlloc
// around the call, single decoding goroutine) and the CPU time the process burnt.
//
// Why a process of its own: a hostile length can end the decoding process with an
// unrecoverable runtime error ("out of memory", "stack overflow"). The worker that owns the
// evidence counters must survive that, name the exact input, and go on. The worker streams
// requests over a pipe; when the server dies the first unanswered request is the culprit, its
// stderr says how it died, and a fresh server takes over. The server inherits the address
// space limit (ulimit -v) the driver put on the worker.
//
// Termination is decided on CPU time: the worker polls the server's consumed CPU
// (/proc/<pid>/stat) while an answer is outstanding; 20 s of CPU for one input of at most
// 64 KiB is a violation ("nonterminating"), a stall without CPU consumption is inconclusive.

import (
	"bufio"
	"encoding/binary"
	"fmt"
	"io"
	"os"
	"os/exec"
	"path/filepath"
	"runtime"
	"runtime/debug"
	"strconv"
	"strings"
	"syscall"
	"time"
)

const (
	cpuLimit       = 20 * time.Second  // CPU budget of one decode
	stallLimit     = 180 * time.Second // wall time without an answer and without CPU use ⇒ inconclusive
	reqHeaderLen   = 8
	respLen        = 1 + 8 + 8 + 8
	maxBatchBytes  = 40 << 10
	retireAfter    = 128 << 20 // a server that allocated this much in one decode is replaced
	serverHeadroom = 1 << 30   // address space a decode server may add to what it starts with
)

// selfVMSize is the mapped address space of this process in bytes (0 if unknown).
func selfVMSize() uint64 {
	b, err := os.ReadFile("/proc/self/statm")
	if err != nil {
		return 0
	}
	f := strings.Fields(string(b))
	if len(f) < 1 {
		return 0
	}
	pages, err := strconv.ParseUint(f[0], 10, 64)
	if err != nil {
		return 0
	}
	return pages * uint64(os.Getpagesize())
}

func selfCPU() time.Duration {
	var ru syscall.Rusage
	syscall.Getrusage(syscall.RUSAGE_SELF, &ru)
	return time.Duration(ru.Utime.Nano() + ru.Stime.Nano())
}

// measured decode (used by the server; also by the worker itself for replays of one case)
type measure struct {
	Panicked bool
	Alloc    uint64
	CPU      time.Duration
}

func measuredDecode(d *decoder, b []byte) measure {
	var m0, m1 runtime.MemStats
	c0 := selfCPU()
	runtime.ReadMemStats(&m0)
	o := runDecode(d, true, b)
	runtime.ReadMemStats(&m1)
	return measure{o.Panicked, m1.TotalAlloc - m0.TotalAlloc, selfCPU() - c0}
}

func serverMain() {
	debug.SetMaxStack(512 << 20)
	// Address-space limit of the decode server: what the process has mapped at start plus
	// serverHeadroom (never more than the limit the driver put on the worker). A request of
	// hundreds of megabytes still succeeds and is measured by the allocation meter; a
	// 2^31-byte request, or a second giant block (a copy of the first), fails as "out of
	// memory" before gigabytes are touched. That keeps 24 concurrent servers from exhausting
	// the machine on a tree that allocates and copies hostile-length buffers.
	var rl syscall.Rlimit
	if vm := selfVMSize(); vm > 0 && syscall.Getrlimit(syscall.RLIMIT_AS, &rl) == nil && rl.Cur > vm+serverHeadroom {
		rl.Cur = vm + serverHeadroom
		syscall.Setrlimit(syscall.RLIMIT_AS, &rl)
	}
	br := bufio.NewReaderSize(os.Stdin, 1<<17)
	bw := bufio.NewWriterSize(os.Stdout, 1<<16)
	hdr := make([]byte, reqHeaderLen)
	resp := make([]byte, respLen)
	for {
		if _, err := io.ReadFull(br, hdr); err != nil {
			bw.Flush()
			return
		}
		di := int(binary.BigEndian.Uint32(hdr[0:4]))
		n := int(binary.BigEndian.Uint32(hdr[4:8]))
		buf := make([]byte, n)
		if _, err := io.ReadFull(br, buf); err != nil {
			return
		}
		m := measuredDecode(&decoders[di], buf)
		resp[0] = 0
		if m.Panicked {
			resp[0] = 1
		}
		binary.BigEndian.PutUint64(resp[1:], m.Alloc)
		binary.BigEndian.PutUint64(resp[9:], uint64(m.CPU))
		binary.BigEndian.PutUint64(resp[17:], uint64(selfCPU()))
		if m.Alloc > retireAfter {
			// A giant block was handed out. Reusing its address range would make the runtime
			// zero (and so touch) gigabytes on every later giant request; a fresh process gets
			// untouched zero pages from the OS. Answer, then let the worker start a new server.
			resp[0] |= 2
			bw.Write(resp)
			bw.Flush()
			os.Exit(0)
		}
		// every answer leaves the process before the next decode starts: the first unanswered
		// request is then exactly the one that ended the process
		bw.Write(resp)
		bw.Flush()
	}
}

// ---- client side ----------------------------------------------------------------------

type srvResp struct {
	m      measure
	cumCPU time.Duration
	retire bool
	err    error
}

type server struct {
	cmd     *exec.Cmd
	in      io.WriteCloser
	ch      chan srvResp
	errPath string
	lastCPU time.Duration // server's cumulative CPU at its last answer
	n       int
}

var serverSeq int

func startServer(outDir string) (*server, error) {
	serverSeq++
	s := &server{errPath: filepath.Join(outDir, fmt.Sprintf("server-%d.stderr", serverSeq))}
	exe, err := os.Executable()
	if err != nil {
		return nil, err
	}
	s.cmd = exec.Command(exe)
	// two Ps: one decoding goroutine plus the collector; keeps start-up and crash dumps small
	s.cmd.Env = append(os.Environ(), "WC04_SERVER=1", "GOMAXPROCS=2")
	ef, err := os.Create(s.errPath)
	if err != nil {
		return nil, err
	}
	s.cmd.Stderr = ef
	if s.in, err = s.cmd.StdinPipe(); err != nil {
		return nil, err
	}
	out, err := s.cmd.StdoutPipe()
	if err != nil {
		return nil, err
	}
	if err = s.cmd.Start(); err != nil {
		return nil, err
	}
	ef.Close()
	s.ch = make(chan srvResp, 1024)
	go func() {
		br := bufio.NewReaderSize(out, 1<<16)
		for {
			buf := make([]byte, respLen)
			if _, err := io.ReadFull(br, buf); err != nil {
				s.ch <- srvResp{err: err}
				return
			}
			s.ch <- srvResp{m: measure{buf[0]&1 == 1, binary.BigEndian.Uint64(buf[1:]), time.Duration(binary.BigEndian.Uint64(buf[9:]))},
				cumCPU: time.Duration(binary.BigEndian.Uint64(buf[17:])), retire: buf[0]&2 != 0}
		}
	}()
	return s, nil
}

// procCPU reads utime+stime of a process from /proc (clock ticks of 10 ms).
func procCPU(pid int) (time.Duration, bool) {
	b, err := os.ReadFile("/proc/" + strconv.Itoa(pid) + "/stat")
	if err != nil {
		return 0, false
	}
	s := string(b)
	i := strings.LastIndexByte(s, ')')
	if i < 0 {
		return 0, false
	}
	f := strings.Fields(s[i+1:])
	if len(f) < 13 {
		return 0, false
	}
	ut, e1 := strconv.ParseInt(f[11], 10, 64)
	st, e2 := strconv.ParseInt(f[12], 10, 64)
	if e1 != nil || e2 != nil {
		return 0, false
	}
	return time.Duration(ut+st) * 10 * time.Millisecond, true
}

func (s *server) kill() {
	if s.cmd.Process != nil {
		s.cmd.Process.Kill()
	}
	s.in.Close()
	s.cmd.Wait()
	go func() { // drain the reader goroutine
		for r := range s.ch {
			if r.err != nil {
				return
			}
		}
	}()
}

func (s *server) stop() {
	s.in.Close()
	done := make(chan struct{})
	go func() { s.cmd.Wait(); close(done) }()
	select {
	case <-done:
	case <-time.After(5 * time.Second):
		s.cmd.Process.Kill()
		<-done
	}
	os.Remove(s.errPath)
}

type death struct {
	Kind   string // fatal | nonterminating | stall | lost
	Reason string
	Stderr string
}

// diedHow inspects the stderr of a server that went away by itself.
func (s *server) diedHow() death {
	err := s.cmd.Wait()
	b, _ := os.ReadFile(s.errPath)
	txt := string(b)
	if len(txt) > 6000 {
		txt = txt[:3000] + "\n…\n" + txt[len(txt)-3000:]
	}
	first := ""
	for _, ln := range strings.Split(txt, "\n") {
		if strings.HasPrefix(ln, "fatal error:") || strings.HasPrefix(ln, "runtime:") || strings.HasPrefix(ln, "panic:") {
			first = ln
			if strings.HasPrefix(ln, "fatal error:") {
				break
			}
		}
	}
	if first != "" {
		return death{"fatal", first, txt}
	}
	return death{"lost", fmt.Sprintf("decode server ended without a runtime message (%v)", err), txt}
}

// one request of a batch
type req struct {
	dec int
	b   []byte
}

// result of one request: either a measurement or the way the server died on it
type res struct {
	m    measure
	died *death
}

// runBatch performs the requests in order and returns one result per request. A server
// death is attributed to the first unanswered request; the remaining ones are re-sent to a
// fresh server.
func runBatch(sp **server, outDir string, reqs []req) ([]res, error) {
	out := make([]res, len(reqs))
	next := 0
	for next < len(reqs) {
		if *sp == nil {
			s, err := startServer(outDir)
			if err != nil {
				return nil, err
			}
			*sp = s
		}
		s := *sp
		// send a slice of the remaining requests that fits the pipe (or a single large one)
		end, bytes := next, 0
		for end < len(reqs) && (end == next || bytes+len(reqs[end].b)+reqHeaderLen <= maxBatchBytes) {
			bytes += len(reqs[end].b) + reqHeaderLen
			end++
		}
		buf := make([]byte, 0, bytes)
		for _, q := range reqs[next:end] {
			var h [reqHeaderLen]byte
			binary.BigEndian.PutUint32(h[0:], uint32(q.dec))
			binary.BigEndian.PutUint32(h[4:], uint32(len(q.b)))
			buf = append(buf, h[:]...)
			buf = append(buf, q.b...)
		}
		werr := make(chan error, 1)
		go func() { _, e := s.in.Write(buf); werr <- e }()
		tick := time.NewTicker(250 * time.Millisecond)
		lastAnswer := time.Now()
		dead, retired := false, false
		for next < end && !dead {
			select {
			case r := <-s.ch:
				if r.err != nil {
					s.in.Close()
					t0 := time.Now()
					d := s.diedHow()
					if dbg {
						fmt.Fprintf(os.Stderr, "DBG death after %v since last answer; diedHow %v; %s\n", t0.Sub(lastAnswer), time.Since(t0), d.Reason)
					}
					out[next] = res{died: &d}
					dead = true
					break
				}
				out[next] = res{m: r.m}
				s.lastCPU = r.cumCPU
				s.n++
				lastAnswer = time.Now()
				if r.retire {
					// answered, and the server is leaving: the rest goes to a new one
					s.in.Close()
					s.cmd.Wait()
					retired = true
					dead = true
					break
				}
				next++
			case <-tick.C:
				if cpu, ok := procCPU(s.cmd.Process.Pid); ok && cpu-s.lastCPU > cpuLimit+time.Second {
					s.kill()
					out[next] = res{died: &death{Kind: "nonterminating", Reason: fmt.Sprintf("decode consumed more than %v of CPU without returning", cpuLimit)}}
					dead = true
				} else if time.Since(lastAnswer) > stallLimit {
					s.kill()
					out[next] = res{died: &death{Kind: "stall", Reason: fmt.Sprintf("no answer for %v of wall time while consuming less than %v of CPU", stallLimit, cpuLimit)}}
					dead = true
				}
			}
		}
		tick.Stop()
		if dead {
			*sp = nil
			os.Remove(s.errPath)
			if retired {
				c.Count("decode_servers_replaced_after_giant_allocation", 1)
			} else {
				c.Count("decode_servers_lost", 1)
			}
			next++ // this request has its result; continue after it
			continue
		}
		<-werr
	}
	return out, nil
}
