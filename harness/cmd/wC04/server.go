package main

// The decode server: a second process of this same binary (WC04_SERVER=1) that performs
// EVERY decode of this check — the admission decode of a corpus element, the prefixes of
// fault space 1, the hostile mutants of fault space 2 and the connection-mode scenarios — one
// at a time and reports, per decode, whether the call returned or panicked, whether the
// stream was consumed, the exact number of bytes allocated (runtime.MemStats.TotalAlloc
// around the call, single decoding goroutine) and the CPU time the process burnt.
//
// Why a process of its own: a decode of a damaged input can end the decoding process with an
// unrecoverable runtime error ("out of memory", "stack overflow") or never return. The worker
// that owns the evidence counters must survive that, name the exact input, and go on: a
// goroutine cannot be killed, a process can. The worker streams requests over a pipe; when
// the server dies the (sub-)request it was working on is the culprit (see the progress page
// below), its stderr says how it died, and a fresh server takes over. The server inherits the
// address space limit (ulimit -v) the driver put on the worker and lowers it for itself.
//
// Termination is decided on CPU time: while answers are outstanding the worker compares the
// server's consumed CPU (/proc/<pid>/stat) with the CPU clock the server noted at the start of
// the (sub-)request it is working on; 20 s of CPU for one input (all its input modes together)
// is a violation ("nonterminating"), a stall without CPU consumption is inconclusive.
//
// Answers are written in bulk (when the server is about to wait for input, every 1024 answers
// and every 300 ms), not one write per decode. Which decode a dead server was working on comes
// from a progress page both processes map (progress.go): before every decode the server
// stores there the index of the answer it is working on, the input mode of that decode and its
// CPU clock at the start. The page survives the server: after a death the worker reads which
// decode was running (the culprit), re-sends the decodes whose answers were still buffered
// and goes on behind the culprit. The CPU watchdog reads the same page.
//
// WC04_PROF=<path> (development aid): every server writes a CPU profile to <path>.<pid>.
//
// Input modes (inmode.go): every buffer-mode (sub-)request carries a mask of extra input modes;
// the server decodes the input once per mode and reports outcome, result fingerprint
// comparison and writes outside the input per mode.
//
// Request kinds (mode): modeHostile — one input, deep decode; modeAdmit — one input, strict
// decode; modeTrunc — one valid encoding and a list of cut offsets, one answer per prefix;
// modeNet — one valid encoding and a list of connection scenarios, one answer per scenario
// (net.go).

import (
	"bufio"
	"encoding/binary"
	"fmt"
	"io"
	"os"
	"os/exec"
	"path/filepath"
	"runtime"
	"runtime/debug"
	"runtime/pprof"
	"strconv"
	"strings"
	"sync/atomic"
	"syscall"
	"time"
)

const (
	cpuLimit       = 20 * time.Second  // CPU budget of one decode
	cpuAbandon     = 1 * time.Second   // CPU after which a decode is abandoned once the process has paid ntFullPrice budgets (main.go)
	stallLimit     = 180 * time.Second // wall time without an answer and without CPU use ⇒ inconclusive
	reqHeaderLen   = 16
	respLen        = 1 + 8 + 8 + 8 + 8 + 2*nIModes
	maxBatchBytes  = 40 << 10
	flushEvery     = 1024
	flushAfter     = 300 * time.Millisecond
	retireAfter    = 128 << 20 // a server that allocated this much in one decode is replaced
	serverHeadroom = 1 << 30   // address space a decode server may add to what it starts with
)

const (
	modeHostile = 0 // one input, deep decode
	modeAdmit   = 1 // one input, strict decode
	modeTrunc   = 2 // valid encoding + cut offsets: strict decode of every listed prefix
	modeNet     = 3 // valid encoding + scenarios: strict decode over a connection (net.go)
)

// selfVMSize is the mapped address space of this process in bytes (0 if unknown).
func selfVMSize() uint64 {
	b, err := os.ReadFile("/proc/self/statm")
	if err != nil {
		return 0
	}
	f := strings.Fields(string(b))
	if len(f) < 1 {
		return 0
	}
	pages, err := strconv.ParseUint(f[0], 10, 64)
	if err != nil {
		return 0
	}
	return pages * uint64(os.Getpagesize())
}

func selfCPU() time.Duration {
	var ru syscall.Rusage
	syscall.Getrusage(syscall.RUSAGE_SELF, &ru)
	return time.Duration(ru.Utime.Nano() + ru.Stime.Nano())
}

// one measured decode
type measure struct {
	Panicked  bool
	Consumed  bool // strict decodes: the stream reported no unread byte after a normal return
	ViewInput bool // the result refers to memory of the (exact-copy) input
	Alloc     uint64
	CPU       time.Duration
}

// cpuMark: the server's CPU clock taken at the start of the last measured decode (the start
// of the (sub-)request all of whose input modes share one CPU budget)
var cpuMark time.Duration

func measuredDecode(d *decoder, deep bool, b []byte) (measure, outcome) {
	var m0, m1 runtime.MemStats
	c0 := cpuMark
	runtime.ReadMemStats(&m0)
	o := runDecode(d, deep, b)
	runtime.ReadMemStats(&m1)
	return measure{Panicked: o.Panicked, Consumed: o.Consumed, Alloc: m1.TotalAlloc - m0.TotalAlloc, CPU: selfCPU() - c0}, o
}

func serverMain() {
	debug.SetMaxStack(512 << 20)
	// Address-space limit of the decode server: what the process has mapped at start plus
	// serverHeadroom (never more than the limit the driver put on the worker). A request of
	// hundreds of megabytes still succeeds and is measured by the allocation meter; a
	// 2^31-byte request, or a second giant block (a copy of the first), fails as "out of
	// memory" before gigabytes are touched. That keeps 24 concurrent servers from exhausting
	// the machine on a tree that allocates and copies hostile-length buffers.
	var rl syscall.Rlimit
	if vm := selfVMSize(); vm > 0 && syscall.Getrlimit(syscall.RLIMIT_AS, &rl) == nil && rl.Cur > vm+serverHeadroom {
		rl.Cur = vm + serverHeadroom
		syscall.Setrlimit(syscall.RLIMIT_AS, &rl)
	}
	if pf := os.Getenv("WC04_PROF"); pf != "" {
		f, _ := os.Create(fmt.Sprintf("%s.%d", pf, os.Getpid()))
		pprof.StartCPUProfile(f)
		defer pprof.StopCPUProfile()
	}
	pg := openProgress(os.Getenv("WC04_PROGRESS"))
	ms := newModeState()
	br := bufio.NewReaderSize(os.Stdin, 1<<17)
	bw := bufio.NewWriterSize(os.Stdout, 1<<16)
	hdr := make([]byte, reqHeaderLen)
	resp := make([]byte, respLen)
	var seq uint64 // index of the answer being worked on
	pending, lastFlush := 0, time.Now()
	flush := func() {
		bw.Flush()
		pending, lastFlush = 0, time.Now()
	}
	// the progress page says which decode is running; answers are flushed in bulk (before the
	// server waits for more input)
	begin := func() {
		cpuMark = selfCPU()
		pg.start(seq, cpuMark)
	}
	prog := func(im int) { pg.mode(im) }
	answer := func(fr fullResult) {
		m := fr.m
		resp[0] = 0
		if m.Panicked {
			resp[0] |= 1
		}
		if m.Consumed {
			resp[0] |= 4
		}
		if m.ViewInput {
			resp[0] |= 8
		}
		binary.BigEndian.PutUint64(resp[1:], m.Alloc)
		binary.BigEndian.PutUint64(resp[9:], uint64(m.CPU))
		binary.BigEndian.PutUint64(resp[17:], uint64(selfCPU()))
		binary.BigEndian.PutUint64(resp[25:], fr.fp)
		for i := 0; i < nIModes; i++ {
			binary.BigEndian.PutUint16(resp[33+2*i:], fr.x[i])
		}
		seq++
		pg.idle(seq)
		if m.Alloc > retireAfter {
			// A giant block was handed out. Reusing its address range would make the runtime
			// zero (and so touch) gigabytes on every later giant request; a fresh process gets
			// untouched zero pages from the OS. Answer, then let the worker start a new server.
			resp[0] |= 2
			bw.Write(resp)
			bw.Flush()
			os.Exit(0)
		}
		bw.Write(resp)
		// bulk, but never stale: the worker sees progress at least every flushEvery answers
		// and every flushAfter of wall time (its stall watch looks at the answers)
		if pending++; pending >= flushEvery || time.Since(lastFlush) > flushAfter {
			flush()
		}
	}
	for {
		if br.Buffered() < reqHeaderLen {
			flush()
		}
		if _, err := io.ReadFull(br, hdr); err != nil {
			bw.Flush()
			return
		}
		di := int(binary.BigEndian.Uint32(hdr[0:4]))
		mode := int(binary.BigEndian.Uint32(hdr[4:8]))
		n := int(binary.BigEndian.Uint32(hdr[8:12]))
		tail := int(binary.BigEndian.Uint32(hdr[12:16]))
		mask := mode >> 8 & 0xff
		mode &= 0xff
		if br.Buffered() < n {
			flush()
		}
		buf := make([]byte, n)
		if _, err := io.ReadFull(br, buf); err != nil {
			return
		}
		d := &decoders[di]
		switch mode {
		case modeHostile, modeAdmit:
			begin()
			redo := func() { ms.canC.reset(); ms.canD.reset() }
			answer(decodeModes(d, mode == modeHostile, buf, mask, func(im int) *staged { return ms.stageComplete(im, buf, tail) }, redo, prog))
		case modeTrunc:
			k := int(binary.BigEndian.Uint32(buf))
			cuts, enc := buf[4:4+4*k], buf[4+4*k:]
			ts := ms.newTruncStage(enc)
			for i := 0; i < k; i++ {
				cw := binary.BigEndian.Uint32(cuts[4*i:])
				cut, mask := int(cw&0xffffff), int(cw>>24) // per-cut mask of extra input modes
				exact := make([]byte, cut)
				copy(exact, enc)
				begin()
				answer(decodeModes(d, false, exact, mask, func(im int) *staged { return ts.stage(im, cut) }, ts.dirty, prog))
			}
		case modeNet:
			k := int(binary.BigEndian.Uint32(buf))
			sc, enc := buf[4:4+netScenLen*k], buf[4+netScenLen*k:]
			for i := 0; i < k; i++ {
				begin()
				answer(fullResult{m: netDecode(d, enc, parseNetScen(sc[netScenLen*i:]))})
			}
		}
	}
}

// ---- client side ----------------------------------------------------------------------

type srvResp struct {
	fr     fullResult
	retire bool
	err    error
}

type server struct {
	cmd      *exec.Cmd
	in       io.WriteCloser
	ch       chan srvResp
	errPath  string
	progPath string
	prog     *progress
	n        uint64 // answers received from this server
}

var serverSeq int64

func startServer(outDir string) (*server, error) {
	seq := atomic.AddInt64(&serverSeq, 1)
	s := &server{errPath: filepath.Join(outDir, fmt.Sprintf("server-%d.stderr", seq)),
		progPath: filepath.Join(outDir, fmt.Sprintf("server-%d.progress", seq))}
	exe, err := os.Executable()
	if err != nil {
		return nil, err
	}
	if s.prog, err = createProgress(s.progPath); err != nil {
		return nil, err
	}
	s.cmd = exec.Command(exe)
	// one P: the decoding goroutine and the collector take turns. (With two Ps every
	// runtime.ReadMemStats — two per measured decode — woke the second one up: a third of the
	// server's time went into futex calls.) Keeps start-up and crash dumps small, too
	s.cmd.Env = append(os.Environ(), "WC04_SERVER=1", "GOMAXPROCS=1", "WC04_PROGRESS="+s.progPath)
	ef, err := os.Create(s.errPath)
	if err != nil {
		return nil, err
	}
	s.cmd.Stderr = ef
	if s.in, err = s.cmd.StdinPipe(); err != nil {
		return nil, err
	}
	out, err := s.cmd.StdoutPipe()
	if err != nil {
		return nil, err
	}
	if err = s.cmd.Start(); err != nil {
		return nil, err
	}
	ef.Close()
	s.ch = make(chan srvResp, 8192)
	go func() {
		br := bufio.NewReaderSize(out, 1<<16)
		for {
			buf := make([]byte, respLen)
			if _, err := io.ReadFull(br, buf); err != nil {
				s.ch <- srvResp{err: err}
				return
			}
			r := srvResp{retire: buf[0]&2 != 0}
			r.fr.m = measure{Panicked: buf[0]&1 == 1, Consumed: buf[0]&4 != 0, ViewInput: buf[0]&8 != 0,
				Alloc: binary.BigEndian.Uint64(buf[1:]), CPU: time.Duration(binary.BigEndian.Uint64(buf[9:]))}
			r.fr.fp = binary.BigEndian.Uint64(buf[25:])
			for i := 0; i < nIModes; i++ {
				r.fr.x[i] = binary.BigEndian.Uint16(buf[33+2*i:])
			}
			s.ch <- r
		}
	}()
	return s, nil
}

// procCPU reads utime+stime of a process from /proc (clock ticks of 10 ms).
func procCPU(pid int) (time.Duration, bool) {
	b, err := os.ReadFile("/proc/" + strconv.Itoa(pid) + "/stat")
	if err != nil {
		return 0, false
	}
	s := string(b)
	i := strings.LastIndexByte(s, ')')
	if i < 0 {
		return 0, false
	}
	f := strings.Fields(s[i+1:])
	if len(f) < 13 {
		return 0, false
	}
	ut, e1 := strconv.ParseInt(f[11], 10, 64)
	st, e2 := strconv.ParseInt(f[12], 10, 64)
	if e1 != nil || e2 != nil {
		return 0, false
	}
	return time.Duration(ut+st) * 10 * time.Millisecond, true
}

func (s *server) cleanup() {
	os.Remove(s.errPath)
	os.Remove(s.progPath)
	s.prog.close()
}

func (s *server) kill() {
	if s.cmd.Process != nil {
		s.cmd.Process.Kill()
	}
	s.in.Close()
	s.cmd.Wait()
	go func() { // drain the reader goroutine
		for r := range s.ch {
			if r.err != nil {
				return
			}
		}
	}()
}

func (s *server) stop() {
	s.in.Close()
	done := make(chan struct{})
	go func() { s.cmd.Wait(); close(done) }()
	select {
	case <-done:
	case <-time.After(5 * time.Second):
		s.cmd.Process.Kill()
		<-done
	}
	s.cleanup()
}

type death struct {
	Kind   string // fatal | nonterminating | abandoned | stall | lost
	Reason string
	Stderr string
	Mode   int // input mode of the decode that was running (imExact …)
}

// diedHow inspects the stderr of a server that went away by itself.
func (s *server) diedHow() death {
	err := s.cmd.Wait()
	b, _ := os.ReadFile(s.errPath)
	txt := string(b)
	if len(txt) > 6000 {
		txt = txt[:3000] + "\n…\n" + txt[len(txt)-3000:]
	}
	first := ""
	for _, ln := range strings.Split(txt, "\n") {
		if strings.HasPrefix(ln, "fatal error:") || strings.HasPrefix(ln, "runtime:") || strings.HasPrefix(ln, "panic:") {
			first = ln
			if strings.HasPrefix(ln, "fatal error:") {
				break
			}
		}
	}
	if first != "" {
		return death{Kind: "fatal", Reason: first, Stderr: txt}
	}
	return death{Kind: "lost", Reason: fmt.Sprintf("decode server ended without a runtime message (%v)", err), Stderr: txt}
}

// one request of a batch. modeHostile / modeAdmit: b is the input, one answer. modeTrunc: b is
// the valid encoding, one answer per entry of cuts. modeNet: b is the valid encoding, one
// answer per entry of scen.
type req struct {
	dec  int
	mode int
	b    []byte
	cuts []int
	scen []netScen
	// extra input modes (mask of 1<<imResliced …; modeTrunc: one mask per cut) and the number of
	// bytes laid out behind a complete input (modeHostile / modeAdmit)
	imask    int
	cutMasks []int
	tail     int
	// multi-answer requests: after this many deaths of the server inside this request the
	// remaining sub-requests are not sent any more (res.skipped); 0 = no limit
	maxDeaths int
}

func (q *req) answers() int {
	switch q.mode {
	case modeTrunc:
		return len(q.cuts)
	case modeNet:
		return len(q.scen)
	}
	return 1
}

// wire serialises the request with its sub-requests from..to.
func (q *req) wire(from, to int) []byte {
	var payload []byte
	switch q.mode {
	case modeTrunc:
		cs := q.cuts[from:to]
		payload = make([]byte, 0, 4+4*len(cs)+len(q.b))
		payload = binary.BigEndian.AppendUint32(payload, uint32(len(cs)))
		for i, k := range cs {
			payload = binary.BigEndian.AppendUint32(payload, uint32(k)|uint32(q.cutMasks[from+i])<<24)
		}
		payload = append(payload, q.b...)
	case modeNet:
		ss := q.scen[from:to]
		payload = make([]byte, 0, 4+netScenLen*len(ss)+len(q.b))
		payload = binary.BigEndian.AppendUint32(payload, uint32(len(ss)))
		for _, sc := range ss {
			payload = sc.append(payload)
		}
		payload = append(payload, q.b...)
	default:
		payload = q.b
	}
	out := make([]byte, 0, reqHeaderLen+len(payload))
	out = binary.BigEndian.AppendUint32(out, uint32(q.dec))
	out = binary.BigEndian.AppendUint32(out, uint32(q.mode|q.imask<<8))
	out = binary.BigEndian.AppendUint32(out, uint32(len(payload)))
	out = binary.BigEndian.AppendUint32(out, uint32(q.tail))
	return append(out, payload...)
}

// result of one (sub-)request: a measurement, the way the server died on it, or skipped
type res struct {
	m       measure
	fp      uint64
	x       [nIModes]uint16
	died    *death
	skipped bool
}

// runBatch performs the requests in order and returns, per request, one result per answer.
// Answers arrive in bulk. When the server goes away, the progress page names the decode that
// was running: that (sub-)request is the culprit and gets the death as its result; the
// (sub-)requests before it whose answers were lost in the server's output buffer are sent
// again to a fresh server, and the batch goes on behind the culprit. The CPU one (sub-)request
// (all its input modes together) may burn before the server is killed is cpuBudget(): cpuLimit
// (⇒ death kind "nonterminating") or, when the process has already paid for its share of
// non-terminating decodes, cpuAbandon (⇒ death kind "abandoned", not a verdict).
func runBatch(sp **server, outDir string, reqs []req) ([][]res, error) {
	out := make([][]res, len(reqs))
	type pos struct{ r, s int }
	var flat []pos
	for i := range reqs {
		out[i] = make([]res, reqs[i].answers())
		for j := range out[i] {
			flat = append(flat, pos{i, j})
		}
	}
	done := make([]bool, len(flat))
	deaths := make([]int, len(reqs))
	cur := 0
	for cur < len(flat) {
		if done[cur] {
			cur++
			continue
		}
		p := flat[cur]
		if q := &reqs[p.r]; q.maxDeaths > 0 && deaths[p.r] >= q.maxDeaths {
			for ; cur < len(flat) && flat[cur].r == p.r; cur++ {
				if !done[cur] {
					out[p.r][flat[cur].s] = res{skipped: true}
					done[cur] = true
				}
			}
			continue
		}
		if *sp == nil {
			s, err := startServer(outDir)
			if err != nil {
				return nil, err
			}
			*sp = s
		}
		s := *sp
		limit := cpuBudget()
		// send the open (sub-)requests from cur on, as many as fit the pipe (or a single large
		// one), stopping in front of the first one that already has its result
		var buf []byte
		end := cur
		for end < len(flat) && !done[end] {
			r := flat[end].r
			from := flat[end].s
			to := from
			for end+(to-from) < len(flat) && flat[end+(to-from)].r == r && !done[end+(to-from)] {
				to++
			}
			w := reqs[r].wire(from, to)
			if end > cur && len(buf)+len(w) > maxBatchBytes {
				break
			}
			buf = append(buf, w...)
			end += to - from
			if to < len(out[r]) {
				break // stopped in front of a decided sub-request
			}
		}
		werr := make(chan error, 1)
		go func() { _, e := s.in.Write(buf); werr <- e }()
		tick := time.NewTicker(100 * time.Millisecond)
		lastAnswer := time.Now()
		dead := false
		// culprit: the server died (or was killed) on the decode the progress page names
		culprit := func(d death) {
			st := s.prog.read()
			at := cur // fallback: the first unanswered
			if st.seq >= s.n {
				lost := int(st.seq - s.n)
				if cur+lost < end {
					at = cur + lost
					if st.decoding {
						d.Mode = st.mode
					}
				}
			}
			dd := d
			out[flat[at].r][flat[at].s] = res{died: &dd}
			done[at] = true
			deaths[flat[at].r]++
			if at > cur {
				c.Count("decodes_repeated_after_server_death", int64(at-cur))
			}
		}
		for cur < end && !dead {
			select {
			case r := <-s.ch:
				if r.err != nil {
					s.in.Close()
					t0 := time.Now()
					d := s.diedHow()
					if dbg {
						fmt.Fprintf(os.Stderr, "DBG death after %v since last answer; diedHow %v; %s\n", t0.Sub(lastAnswer), time.Since(t0), d.Reason)
					}
					culprit(d)
					c.Count("decode_servers_lost", 1)
					dead = true
					break
				}
				out[flat[cur].r][flat[cur].s] = res{m: r.fr.m, fp: r.fr.fp, x: r.fr.x}
				done[cur] = true
				cur++
				s.n++
				lastAnswer = time.Now()
				if r.retire {
					// answered, and the server is leaving: the rest goes to a new one
					s.in.Close()
					s.cmd.Wait()
					c.Count("decode_servers_replaced_after_giant_allocation", 1)
					dead = true
				}
			case <-tick.C:
				st := s.prog.read()
				cpu, ok := procCPU(s.cmd.Process.Pid)
				if ok && st.decoding && cpu-st.cpuStart > limit+limit/20 {
					s.kill()
					if limit >= cpuLimit {
						ntMu.Lock()
						ntPaid++
						ntMu.Unlock()
						culprit(death{Kind: "nonterminating", Reason: fmt.Sprintf("decode consumed more than %v of CPU without returning", cpuLimit)})
					} else {
						culprit(death{Kind: "abandoned", Reason: fmt.Sprintf("decode abandoned after %v of CPU (this process had already paid for %d non-terminating decodes)", limit, ntFullPrice)})
					}
					c.Count("decode_servers_lost", 1)
					dead = true
				} else if time.Since(lastAnswer) > stallLimit {
					s.kill()
					culprit(death{Kind: "stall", Reason: fmt.Sprintf("no answer for %v of wall time while consuming less than %v of CPU", stallLimit, limit)})
					c.Count("decode_servers_lost", 1)
					dead = true
				}
			}
		}
		tick.Stop()
		if dead {
			*sp = nil
			s.cleanup()
			continue
		}
		<-werr
	}
	return out, nil
}
