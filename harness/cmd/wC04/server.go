package main

// The decode server: a second process of this same binary (WC04_SERVER=1) that performs
// EVERY decode of this check — the admission decode of a corpus element, the prefixes of
// fault space 1, the hostile mutants of fault space 2 and the connection-mode scenarios — one
// at a time and reports, per decode, whether the call returned or panicked, whether the
// stream was consumed, the exact number of bytes allocated (runtime.MemStats.TotalAlloc
// around the call, single decoding goroutine) and the CPU time the process burnt.
//
// Why a process of its own: a decode of a damaged input can end the decoding process with an
// unrecoverable runtime error ("out of memory", "stack overflow") or never return. The worker
// that owns the evidence counters must survive that, name the exact input, and go on: a
// goroutine cannot be killed, a process can. The worker streams requests over a pipe; when
// the server dies the first unanswered (sub-)request is the culprit, its stderr says how it
// died, and a fresh server takes over. The server inherits the address space limit
// (ulimit -v) the driver put on the worker.
//
// Termination is decided on CPU time: the worker polls the server's consumed CPU
// (/proc/<pid>/stat) while an answer is outstanding; 20 s of CPU for one input of at most
// 64 KiB is a violation ("nonterminating"), a stall without CPU consumption is inconclusive.
//
// Request kinds (mode): modeHostile — one input, deep decode; modeAdmit — one input, strict
// decode; modeTrunc — one valid encoding and a list of cut offsets, one answer per prefix;
// modeNet — one valid encoding and a list of connection scenarios, one answer per scenario
// (net.go).

import (
	"bufio"
	"encoding/binary"
	"fmt"
	"io"
	"os"
	"os/exec"
	"path/filepath"
	"runtime"
	"runtime/debug"
	"strconv"
	"strings"
	"syscall"
	"time"
)

const (
	cpuLimit       = 20 * time.Second  // CPU budget of one decode
	cpuAbandon     = 1 * time.Second   // CPU after which a decode is abandoned once the process has paid ntFullPrice budgets (main.go)
	stallLimit     = 180 * time.Second // wall time without an answer and without CPU use ⇒ inconclusive
	reqHeaderLen   = 12
	respLen        = 1 + 8 + 8 + 8
	maxBatchBytes  = 40 << 10
	retireAfter    = 128 << 20 // a server that allocated this much in one decode is replaced
	serverHeadroom = 1 << 30   // address space a decode server may add to what it starts with
)

const (
	modeHostile = 0 // one input, deep decode
	modeAdmit   = 1 // one input, strict decode
	modeTrunc   = 2 // valid encoding + cut offsets: strict decode of every listed prefix
	modeNet     = 3 // valid encoding + scenarios: strict decode over a connection (net.go)
)

// selfVMSize is the mapped address space of this process in bytes (0 if unknown).
func selfVMSize() uint64 {
	b, err := os.ReadFile("/proc/self/statm")
	if err != nil {
		return 0
	}
	f := strings.Fields(string(b))
	if len(f) < 1 {
		return 0
	}
	pages, err := strconv.ParseUint(f[0], 10, 64)
	if err != nil {
		return 0
	}
	return pages * uint64(os.Getpagesize())
}

func selfCPU() time.Duration {
	var ru syscall.Rusage
	syscall.Getrusage(syscall.RUSAGE_SELF, &ru)
	return time.Duration(ru.Utime.Nano() + ru.Stime.Nano())
}

// one measured decode
type measure struct {
	Panicked bool
	Consumed bool // strict decodes: the stream reported no unread byte after a normal return
	Alloc    uint64
	CPU      time.Duration
}

func measuredDecode(d *decoder, deep bool, b []byte) measure {
	var m0, m1 runtime.MemStats
	c0 := selfCPU()
	runtime.ReadMemStats(&m0)
	o := runDecode(d, deep, b)
	runtime.ReadMemStats(&m1)
	return measure{o.Panicked, o.Consumed, m1.TotalAlloc - m0.TotalAlloc, selfCPU() - c0}
}

func serverMain() {
	debug.SetMaxStack(512 << 20)
	// Address-space limit of the decode server: what the process has mapped at start plus
	// serverHeadroom (never more than the limit the driver put on the worker). A request of
	// hundreds of megabytes still succeeds and is measured by the allocation meter; a
	// 2^31-byte request, or a second giant block (a copy of the first), fails as "out of
	// memory" before gigabytes are touched. That keeps 24 concurrent servers from exhausting
	// the machine on a tree that allocates and copies hostile-length buffers.
	var rl syscall.Rlimit
	if vm := selfVMSize(); vm > 0 && syscall.Getrlimit(syscall.RLIMIT_AS, &rl) == nil && rl.Cur > vm+serverHeadroom {
		rl.Cur = vm + serverHeadroom
		syscall.Setrlimit(syscall.RLIMIT_AS, &rl)
	}
	br := bufio.NewReaderSize(os.Stdin, 1<<17)
	bw := bufio.NewWriterSize(os.Stdout, 1<<16)
	hdr := make([]byte, reqHeaderLen)
	resp := make([]byte, respLen)
	// every answer leaves the process before the next decode starts: the first unanswered
	// (sub-)request is then exactly the one that ended the process
	answer := func(m measure) {
		resp[0] = 0
		if m.Panicked {
			resp[0] |= 1
		}
		if m.Consumed {
			resp[0] |= 4
		}
		binary.BigEndian.PutUint64(resp[1:], m.Alloc)
		binary.BigEndian.PutUint64(resp[9:], uint64(m.CPU))
		binary.BigEndian.PutUint64(resp[17:], uint64(selfCPU()))
		if m.Alloc > retireAfter {
			// A giant block was handed out. Reusing its address range would make the runtime
			// zero (and so touch) gigabytes on every later giant request; a fresh process gets
			// untouched zero pages from the OS. Answer, then let the worker start a new server.
			resp[0] |= 2
			bw.Write(resp)
			bw.Flush()
			os.Exit(0)
		}
		bw.Write(resp)
		bw.Flush()
	}
	for {
		if _, err := io.ReadFull(br, hdr); err != nil {
			bw.Flush()
			return
		}
		di := int(binary.BigEndian.Uint32(hdr[0:4]))
		mode := int(binary.BigEndian.Uint32(hdr[4:8]))
		n := int(binary.BigEndian.Uint32(hdr[8:12]))
		buf := make([]byte, n)
		if _, err := io.ReadFull(br, buf); err != nil {
			return
		}
		d := &decoders[di]
		switch mode {
		case modeHostile:
			answer(measuredDecode(d, true, buf))
		case modeAdmit:
			answer(measuredDecode(d, false, buf))
		case modeTrunc:
			k := int(binary.BigEndian.Uint32(buf))
			cuts, enc := buf[4:4+4*k], buf[4+4*k:]
			for i := 0; i < k; i++ {
				cut := int(binary.BigEndian.Uint32(cuts[4*i:]))
				answer(measuredDecode(d, false, enc[:cut]))
			}
		case modeNet:
			k := int(binary.BigEndian.Uint32(buf))
			sc, enc := buf[4:4+netScenLen*k], buf[4+netScenLen*k:]
			for i := 0; i < k; i++ {
				answer(netDecode(d, enc, parseNetScen(sc[netScenLen*i:])))
			}
		}
	}
}

// ---- client side ----------------------------------------------------------------------

type srvResp struct {
	m      measure
	cumCPU time.Duration
	retire bool
	err    error
}

type server struct {
	cmd     *exec.Cmd
	in      io.WriteCloser
	ch      chan srvResp
	errPath string
	lastCPU time.Duration // server's cumulative CPU at its last answer
	n       int
}

var serverSeq int

func startServer(outDir string) (*server, error) {
	serverSeq++
	s := &server{errPath: filepath.Join(outDir, fmt.Sprintf("server-%d.stderr", serverSeq))}
	exe, err := os.Executable()
	if err != nil {
		return nil, err
	}
	s.cmd = exec.Command(exe)
	// two Ps: one decoding goroutine plus the collector; keeps start-up and crash dumps small
	s.cmd.Env = append(os.Environ(), "WC04_SERVER=1", "GOMAXPROCS=2")
	ef, err := os.Create(s.errPath)
	if err != nil {
		return nil, err
	}
	s.cmd.Stderr = ef
	if s.in, err = s.cmd.StdinPipe(); err != nil {
		return nil, err
	}
	out, err := s.cmd.StdoutPipe()
	if err != nil {
		return nil, err
	}
	if err = s.cmd.Start(); err != nil {
		return nil, err
	}
	ef.Close()
	s.ch = make(chan srvResp, 1024)
	go func() {
		br := bufio.NewReaderSize(out, 1<<16)
		for {
			buf := make([]byte, respLen)
			if _, err := io.ReadFull(br, buf); err != nil {
				s.ch <- srvResp{err: err}
				return
			}
			s.ch <- srvResp{m: measure{buf[0]&1 == 1, buf[0]&4 != 0, binary.BigEndian.Uint64(buf[1:]), time.Duration(binary.BigEndian.Uint64(buf[9:]))},
				cumCPU: time.Duration(binary.BigEndian.Uint64(buf[17:])), retire: buf[0]&2 != 0}
		}
	}()
	return s, nil
}

// procCPU reads utime+stime of a process from /proc (clock ticks of 10 ms).
func procCPU(pid int) (time.Duration, bool) {
	b, err := os.ReadFile("/proc/" + strconv.Itoa(pid) + "/stat")
	if err != nil {
		return 0, false
	}
	s := string(b)
	i := strings.LastIndexByte(s, ')')
	if i < 0 {
		return 0, false
	}
	f := strings.Fields(s[i+1:])
	if len(f) < 13 {
		return 0, false
	}
	ut, e1 := strconv.ParseInt(f[11], 10, 64)
	st, e2 := strconv.ParseInt(f[12], 10, 64)
	if e1 != nil || e2 != nil {
		return 0, false
	}
	return time.Duration(ut+st) * 10 * time.Millisecond, true
}

func (s *server) kill() {
	if s.cmd.Process != nil {
		s.cmd.Process.Kill()
	}
	s.in.Close()
	s.cmd.Wait()
	go func() { // drain the reader goroutine
		for r := range s.ch {
			if r.err != nil {
				return
			}
		}
	}()
}

func (s *server) stop() {
	s.in.Close()
	done := make(chan struct{})
	go func() { s.cmd.Wait(); close(done) }()
	select {
	case <-done:
	case <-time.After(5 * time.Second):
		s.cmd.Process.Kill()
		<-done
	}
	os.Remove(s.errPath)
}

type death struct {
	Kind   string // fatal | nonterminating | abandoned | stall | lost
	Reason string
	Stderr string
}

// diedHow inspects the stderr of a server that went away by itself.
func (s *server) diedHow() death {
	err := s.cmd.Wait()
	b, _ := os.ReadFile(s.errPath)
	txt := string(b)
	if len(txt) > 6000 {
		txt = txt[:3000] + "\n…\n" + txt[len(txt)-3000:]
	}
	first := ""
	for _, ln := range strings.Split(txt, "\n") {
		if strings.HasPrefix(ln, "fatal error:") || strings.HasPrefix(ln, "runtime:") || strings.HasPrefix(ln, "panic:") {
			first = ln
			if strings.HasPrefix(ln, "fatal error:") {
				break
			}
		}
	}
	if first != "" {
		return death{"fatal", first, txt}
	}
	return death{"lost", fmt.Sprintf("decode server ended without a runtime message (%v)", err), txt}
}

// one request of a batch. modeHostile / modeAdmit: b is the input, one answer. modeTrunc: b is
// the valid encoding, one answer per entry of cuts. modeNet: b is the valid encoding, one
// answer per entry of scen.
type req struct {
	dec  int
	mode int
	b    []byte
	cuts []int
	scen []netScen
	// multi-answer requests: after this many deaths of the server inside this request the
	// remaining sub-requests are not sent any more (res.skipped); 0 = no limit
	maxDeaths int
}

func (q *req) answers() int {
	switch q.mode {
	case modeTrunc:
		return len(q.cuts)
	case modeNet:
		return len(q.scen)
	}
	return 1
}

// wire serialises the request with its sub-requests from..end.
func (q *req) wire(from int) []byte {
	var payload []byte
	switch q.mode {
	case modeTrunc:
		cs := q.cuts[from:]
		payload = make([]byte, 0, 4+4*len(cs)+len(q.b))
		payload = binary.BigEndian.AppendUint32(payload, uint32(len(cs)))
		for _, k := range cs {
			payload = binary.BigEndian.AppendUint32(payload, uint32(k))
		}
		payload = append(payload, q.b...)
	case modeNet:
		ss := q.scen[from:]
		payload = make([]byte, 0, 4+netScenLen*len(ss)+len(q.b))
		payload = binary.BigEndian.AppendUint32(payload, uint32(len(ss)))
		for _, sc := range ss {
			payload = sc.append(payload)
		}
		payload = append(payload, q.b...)
	default:
		payload = q.b
	}
	out := make([]byte, 0, reqHeaderLen+len(payload))
	out = binary.BigEndian.AppendUint32(out, uint32(q.dec))
	out = binary.BigEndian.AppendUint32(out, uint32(q.mode))
	out = binary.BigEndian.AppendUint32(out, uint32(len(payload)))
	return append(out, payload...)
}

// result of one (sub-)request: a measurement, the way the server died on it, or skipped
type res struct {
	m       measure
	died    *death
	skipped bool
}

// runBatch performs the requests in order and returns, per request, one result per answer. A
// server death is attributed to the first unanswered (sub-)request; what remains is re-sent to
// a fresh server. The CPU one decode may burn before the server is killed is cpuBudget():
// cpuLimit (⇒ death kind "nonterminating") or, when the process has already paid for its
// share of non-terminating decodes, cpuAbandon (⇒ death kind "abandoned", not a verdict).
func runBatch(sp **server, outDir string, reqs []req) ([][]res, error) {
	out := make([][]res, len(reqs))
	for i := range reqs {
		out[i] = make([]res, reqs[i].answers())
	}
	deaths := make([]int, len(reqs))
	next, sub := 0, 0 // first unanswered request / answer within it
	// skip over requests without answers
	norm := func() {
		for next < len(reqs) && sub >= len(out[next]) {
			next++
			sub = 0
		}
	}
	norm()
	for next < len(reqs) {
		if q := &reqs[next]; q.maxDeaths > 0 && deaths[next] >= q.maxDeaths {
			for ; sub < len(out[next]); sub++ {
				out[next][sub] = res{skipped: true}
			}
			norm()
			continue
		}
		if *sp == nil {
			s, err := startServer(outDir)
			if err != nil {
				return nil, err
			}
			*sp = s
		}
		s := *sp
		limit := cpuBudget()
		// send a slice of the remaining requests that fits the pipe (or a single large one)
		var buf []byte
		end := next
		for end < len(reqs) {
			from := 0
			if end == next {
				from = sub
			}
			w := reqs[end].wire(from)
			if end > next && len(buf)+len(w) > maxBatchBytes {
				break
			}
			buf = append(buf, w...)
			end++
		}
		werr := make(chan error, 1)
		go func() { _, e := s.in.Write(buf); werr <- e }()
		tick := time.NewTicker(100 * time.Millisecond)
		lastAnswer := time.Now()
		dead, retired := false, false
		for next < end && !dead {
			select {
			case r := <-s.ch:
				if r.err != nil {
					s.in.Close()
					t0 := time.Now()
					d := s.diedHow()
					if dbg {
						fmt.Fprintf(os.Stderr, "DBG death after %v since last answer; diedHow %v; %s\n", t0.Sub(lastAnswer), time.Since(t0), d.Reason)
					}
					out[next][sub] = res{died: &d}
					dead = true
					break
				}
				out[next][sub] = res{m: r.m}
				s.lastCPU = r.cumCPU
				s.n++
				lastAnswer = time.Now()
				if r.retire {
					// answered, and the server is leaving: the rest goes to a new one
					s.in.Close()
					s.cmd.Wait()
					retired = true
					dead = true
					break
				}
				sub++
				norm()
			case <-tick.C:
				if cpu, ok := procCPU(s.cmd.Process.Pid); ok && cpu-s.lastCPU > limit+limit/20 {
					s.kill()
					if limit >= cpuLimit {
						ntPaid++
						out[next][sub] = res{died: &death{Kind: "nonterminating", Reason: fmt.Sprintf("decode consumed more than %v of CPU without returning", cpuLimit)}}
					} else {
						out[next][sub] = res{died: &death{Kind: "abandoned", Reason: fmt.Sprintf("decode abandoned after %v of CPU (this process had already paid for %d non-terminating decodes)", limit, ntFullPrice)}}
					}
					dead = true
				} else if time.Since(lastAnswer) > stallLimit {
					s.kill()
					out[next][sub] = res{died: &death{Kind: "stall", Reason: fmt.Sprintf("no answer for %v of wall time while consuming less than %v of CPU", stallLimit, limit)}}
					dead = true
				}
			}
		}
		tick.Stop()
		if dead {
			*sp = nil
			os.Remove(s.errPath)
			if retired {
				c.Count("decode_servers_replaced_after_giant_allocation", 1)
			} else {
				c.Count("decode_servers_lost", 1)
				deaths[next]++
			}
			sub++ // this (sub-)request has its result; continue after it
			norm()
			continue
		}
		<-werr
	}
	return out, nil
}
