package main

func regSM() {}
func famSM() {}
