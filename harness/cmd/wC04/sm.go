package main

// Pack types that have their own Write/Read but are not in pack.CreatePack (the
// server-monitoring packs and the transaction-statistics records): decoded through their own
// Read after the type short. Reference encodings written from the layout, as in refpacks.go.

import (
	gio "github.com/whatap/golib/io"
	"github.com/whatap/golib/lang/pack"

	"verif/refcodec"
	"verif/valgen"
	"verif/vlib"
)

func regSM() {
	own := func(name string, mk func() pack.Pack, deep func(p pack.Pack) interface{}) {
		strict := func(in *gio.DataInputX) interface{} {
			in.ReadShort()
			p := mk()
			p.Read(in)
			return p
		}
		var dp func(in *gio.DataInputX) interface{}
		if deep != nil {
			dp = func(in *gio.DataInputX) interface{} {
				in.ReadShort()
				p := mk()
				p.Read(in)
				return []interface{}{p, deep(p)}
			}
		}
		reg("Read/"+name, strict, dp)
	}
	own("SMBasePack", func() pack.Pack { return pack.NewSMBasePack() }, nil)
	own("SMDiskPerfPack", func() pack.Pack { return pack.NewSMDiskPerfPack() }, nil)
	own("SMNetPerfPack", func() pack.Pack { return pack.NewSMNetPerfPack() }, nil)
	own("SMProcPerfPack", func() pack.Pack { return pack.NewSMProcPerfPack() }, nil)
	own("SMTCPPerfPack", func() pack.Pack { return pack.NewSMTCPPerfPack() }, nil)
	own("SMLogEventPack", func() pack.Pack { return pack.NewSMLogEventPack() }, nil)
	own("SMDownCheckPack", func() pack.Pack { return pack.NewSMDownCheckPack() }, func(p pack.Pack) interface{} { return p.(*pack.SMDownCheckPack).GetRecords() })
	own("SMPingPack", func() pack.Pack { return pack.NewSMPingPack() }, nil)
	own("SMExtension", func() pack.Pack { return pack.NewSMExtensionPack() }, nil)
	own("StatTransactionPack1", func() pack.Pack { return pack.NewStatTransactionPack1() }, func(p pack.Pack) interface{} { return p.(*pack.StatTransactionPack1).GetRecords() })
}

func floats(o *W, r *vlib.Rand, n int) {
	for i := 0; i < n; i++ {
		o.F32(r.F32())
	}
}

func decs(o *W, r *vlib.Rand, n int) {
	for i := 0; i < n; i++ {
		o.Decimal(r.I64())
	}
}

func encSMBasePack(r *vlib.Rand) *W {
	w := refcodec.NewW()
	packType(w, 0x3008)
	o := refcodec.NewW()
	packHeader(o, r)
	o.I32(r.I32())
	linux := r.Bool()
	cpu := func() {
		c := refcodec.NewW()
		if linux {
			floats(c, r, 11)
		} else {
			floats(c, r, 4)
		}
		blobOf(o, c)
	}
	if linux {
		o.I16([]int16{1, 3, 4, 5}[r.Intn(4)])
	} else {
		o.I16(2)
	}
	cpu()
	n := smallN(r, 6)
	byteCount(o, n, "smbase-core-count")
	for i := 0; i < n; i++ {
		cpu()
	}
	m := refcodec.NewW()
	if linux {
		decs(m, r, 4)
		floats(m, r, 1)
		decs(m, r, 1)
		floats(m, r, 1)
		decs(m, r, 3)
		floats(m, r, 1)
		decs(m, r, 1)
		floats(m, r, 1)
		decs(m, r, 3)
	} else {
		decs(m, r, 4)
		floats(m, r, 1)
		decs(m, r, 1)
		floats(m, r, 2)
		decs(m, r, 1)
		floats(m, r, 1)
		decs(m, r, 3)
	}
	blobOf(o, m)
	o.Decimal(r.I64()).I64(r.I64())
	switch r.Intn(3) {
	case 0: // the older form ends here
	case 1:
		o.Mark(0, kEnd, "smbase-without-extra")
		o.Mark(1, kTag, "smbase-extra-present")
		o.U8(0)
	default:
		o.Mark(0, kEnd, "smbase-without-extra")
		o.Mark(1, kTag, "smbase-extra-present")
		o.U8(1)
		o.Value(mapValue(r, 1, 4))
	}
	blobOf(w, o)
	return w
}

// listPack: type, header, [int16 os], decimal count, count × blob{element}
func listPack(r *vlib.Rand, code int16, withOS bool, name string, max int, elem func(o *W, r *vlib.Rand)) *W {
	w := refcodec.NewW()
	packType(w, code)
	packHeader(w, r)
	if withOS {
		w.I16(int16(1 + r.Intn(8)))
	}
	n := smallN(r, max)
	decCount(w, n, name)
	for i := 0; i < n; i++ {
		o := refcodec.NewW()
		elem(o, r)
		blobOf(w, o)
	}
	return w
}

func encSMDiskPerfPack(r *vlib.Rand) *W {
	return listPack(r, 0x3001, true, "smdisk-count", 5, func(o *W, r *vlib.Rand) {
		o.I32(r.I32()).I32(r.I32()).I32(r.I32())
		decs(o, r, 3)
		floats(o, r, 2)
		o.I32(r.I32()).F64(r.F64()).F64(r.F64()).F64(r.F64()).F64(r.F64())
		floats(o, r, 1)
		o.I32(r.I32())
		floats(o, r, 1)
		decs(o, r, 2)
		floats(o, r, 1)
		o.I32(r.I32())
	})
}

func encSMNetPerfPack(r *vlib.Rand) *W {
	return listPack(r, 0x3002, true, "smnet-count", 5, func(o *W, r *vlib.Rand) {
		o.I32(r.I32()).Blob(r.Blob(20)).Text(shortStr(r))
		for i := 0; i < 8; i++ {
			o.F64(r.F64())
		}
		o.I32(r.I32())
	})
}

func encSMProcPerfPack(r *vlib.Rand) *W {
	return listPack(r, 0x3003, true, "smproc-count", 4, func(o *W, r *vlib.Rand) {
		o.I32(r.I32()).I32(r.I32())
		floats(o, r, 1)
		decs(o, r, 1)
		floats(o, r, 3)
		o.I32(r.I32()).I32(r.I32())
		floats(o, r, 2)
		o.I32(r.I32()).I32(r.I32()).I64(r.I64())
		decs(o, r, 1)
		n := smallN(r, 3)
		decCount(o, n, "smproc-net-count")
		for i := 0; i < n; i++ {
			e := refcodec.NewW()
			e.I32(r.I32()).I16(r.I16()).I32(r.I32())
			blobOf(o, e)
		}
		n = smallN(r, 3)
		decCount(o, n, "smproc-file-count")
		for i := 0; i < n; i++ {
			e := refcodec.NewW()
			e.I32(r.I32()).I64(r.I64())
			blobOf(o, e)
		}
		decs(o, r, 2)
	})
}

func encSMTCPPerfPack(r *vlib.Rand) *W {
	return listPack(r, 0x3004, false, "smtcp-count", 8, func(o *W, r *vlib.Rand) {
		o.I32(r.I32()).Bool(r.Bool())
	})
}

func encSMLogEventPack(r *vlib.Rand) *W {
	return listPack(r, 0x3005, false, "smlogevent-count", 4, func(o *W, r *vlib.Rand) {
		o.U8(byte(1 + r.Intn(3))).U8(byte(r.U64()))
		o.Text(shortStr(r)).Text(r.Str(300)).Text(shortStr(r))
		o.I32(r.I32()).Text(shortStr(r)).I32(r.I32()).I64(r.I64())
		o.Text(shortStr(r)).Text(shortStr(r))
	})
}

func encSMDownCheckPack(r *vlib.Rand) *W {
	w := refcodec.NewW()
	packType(w, 0x3006)
	packHeader(w, r)
	version(w, byte(r.Intn(2)), "smdowncheck-version")
	o := refcodec.NewW()
	n := smallN(r, 6)
	shortCount(o, n, "smdowncheck-records-count")
	for i := 0; i < n; i++ {
		o.Text(shortStr(r)).Text(shortStr(r)).I32(r.I32()).Bool(r.Bool())
	}
	blobOf(w, o)
	w.Decimal(int64(n))
	return w
}

func encSMPingPack(r *vlib.Rand) *W {
	w := refcodec.NewW()
	packType(w, 0x3012)
	o := refcodec.NewW()
	packHeader(o, r)
	o.I32(r.I32()).I16(r.I16()).I16(r.I16())
	blobOf(w, o)
	return w
}

// SMExtension as its reader takes it: header, version byte, bool, int-map body, one byte,
// int-map body, int-map body.
func encSMExtension(r *vlib.Rand) *W {
	w := refcodec.NewW()
	packType(w, 0x1600)
	packHeader(w, r)
	version(w, 1, "smextension-version")
	w.Bool(r.Bool())
	w.ValueBody(valgen.GenTag(r, refcodec.TIntMap, 1, 4))
	w.Mark(1, kTag, "value-tag")
	w.U8(refcodec.TIntMap)
	w.ValueBody(valgen.GenTag(r, refcodec.TIntMap, 1, 4))
	w.ValueBody(valgen.GenTag(r, refcodec.TIntMap, 1, 4))
	return w
}

func encStatTransactionPack1(r *vlib.Rand) *W {
	w := refcodec.NewW()
	packType(w, 0x0901)
	packHeader(w, r)
	o := refcodec.NewW()
	n := smallN(r, 4)
	shortCount(o, n, "stattx-records-count")
	for i := 0; i < n; i++ {
		o.I32(r.I32())
		ver := byte(2 + r.Intn(3))
		version(o, ver, "transactionrec-version")
		decs(o, r, 12)
		timeCountMap(o, r, "transactionrec-sqlmap-count")
		timeCountMap(o, r, "transactionrec-httpcmap-count")
		if ver > 2 {
			decs(o, r, 2)
		}
		if ver > 3 {
			decs(o, r, 2)
		}
	}
	blobOf(w, o)
	w.Decimal(int64(n))
	version(w, 0, "stattx-version")
	w.Decimal(int64(r.I32()))
	return w
}

func famSM() {
	pk := func(name string, g func(r *vlib.Rand) *W) {
		fam("pack/"+name, func(r *vlib.Rand) *enc { return fromW("Read/"+name, g(r)) })
	}
	pk("SMBasePack", encSMBasePack)
	pk("SMDiskPerfPack", encSMDiskPerfPack)
	pk("SMNetPerfPack", encSMNetPerfPack)
	pk("SMProcPerfPack", encSMProcPerfPack)
	pk("SMTCPPerfPack", encSMTCPPerfPack)
	pk("SMLogEventPack", encSMLogEventPack)
	pk("SMDownCheckPack", encSMDownCheckPack)
	pk("SMPingPack", encSMPingPack)
	pk("SMExtension", encSMExtension)
	pk("StatTransactionPack1", encStatTransactionPack1)
}
