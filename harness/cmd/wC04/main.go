// wC04 — decoders fail closed: no fabricated data, bounded memory on bad input.
//
// Corpus: valid encodings (≤ 64 KiB) produced by the independent reference encoder
// (refcodec + refpacks.go) for tagged values, steps and step streams, transaction and
// service records, every registered pack type (plus the unregistered step-split pack and the
// server-monitoring packs, see sm.go) and the DataInputX primitives. An encoding is admitted
// when the golib decoder under test accepts it and consumes every byte of it; where golib can
// build the same object its own writer output is compared with the reference bytes.
//
// Every decode below is performed by the decode server (server.go), a child process that can
// be killed: the worker process itself never calls a golib decoder.
//
// Fault space 1 — truncation: every strict prefix of every admitted encoding is decoded
// (encodings > 4 KiB: every offset of the first and last KiB, ±8 around every field-map
// entry, a stride through the rest). Oracle: the decode must panic (recoverably). A normal
// return is `<decoder>:prefix-accepted@<field>` unless the reference encoder marks the cut
// offset as the end of a complete older/shorter message. A prefix decode that ends the
// process, burns 20 s of CPU or allocates beyond the bound is `…:fatal@cut-in-<field>`,
// `…:nonterminating@cut-in-<field>`, `…:alloc-from-count@cut-in-<field>`.
//
// Fault space 2 — hostile fields: every length, count, type-tag, version and decimal-class
// entry of the field map is overwritten with hostile values (0, 1, −1, 0x7f…, 0x80…,
// all-ones, blob markers 253/254/255, 2^31−1 and lengths just below it / around
// 2^31−(read position), 2^31, 2^62, unknown and foreign tags; decimal counts and blob
// prefixes are also replaced by longer hostile forms); encodings ≤ 256 bytes additionally get
// every byte position overwritten with six hostile byte values; encodings with two or more
// element counts get five multi-field mutants (every count at once, allCounts). Oracles: no
// process-fatal event (`…:fatal@…`), allocation ≤ 64·len(input) + 1 MiB
// (`…:alloc-from-count@…`), CPU of one decode ≤ 20 s (`…:nonterminating@…`).
//
// Input modes (inmode.go): every buffer-mode decode — the valid encoding, every prefix, every
// mutant — is performed once per way of handing the bytes over: (a) an exactly sized private
// copy, (b) re-sliced from a longer buffer that holds the rest of the message (complete
// inputs: the same message again) behind the end, (c) the same with stale foreign bytes (a
// canary pattern) behind the end, (d) a sub-slice at an odd offset inside a larger buffer.
// Allocation and CPU are measured in mode (a). Oracles: a strict prefix panics in every mode
// (`…:prefix-accepted/resliced-input@…`), outcome and decoded result (fingerprint of
// everything returned) are the same in all modes
// (`…:result-depends-on-bytes-beyond-input@…`), the buffer outside the input is not written
// (`…:wrote-beyond-input@…`). The corpus holds blobs/texts of every class of the length prefix
// (1 byte, 255+2 bytes for 253…65535, 254+4 bytes above) inside packs, steps, values and
// records, so that prefixes end inside a blob of every class.
//
// Connection mode (net.go): a sample of strict prefixes and the complete encoding are
// delivered in fragments over a net.Pipe to the decoder reading with io.NewDataInputNet; the
// peer then closes or stays silent until the decoder's read deadline expires. Oracles:
// `…:prefix-accepted/net-mode@…`, `…:nonterminating/net-mode@…`, `…:fatal/net-mode@…`.
package main

import (
	"bytes"
	"encoding/hex"
	"fmt"
	"os"
	"sort"
	"strings"
	"sync"
	"time"

	"verif/refcodec"
	"verif/vlib"
)

var c *vlib.Ctx

// WC04_DEBUG=1: per-case timing on stderr (development aid; wall time is never used in a verdict)
var dbg = os.Getenv("WC04_DEBUG") == "1"

const (
	allocSlope = 64
	allocConst = 1 << 20
	smallFull  = 4 << 10 // encodings up to this size: every strict prefix
	byteEnum   = 256     // encodings up to this size: every byte position overwritten
)

func hexCap(b []byte, max int) string {
	if len(b) <= max {
		return hex.EncodeToString(b)
	}
	return fmt.Sprintf("%s…(%d bytes in all)", hex.EncodeToString(b[:max]), len(b))
}

// fieldAt classifies an offset by the field-map entry it falls in: "<kind>/<name>" of the
// widest entry covering it, or "payload".
func fieldAt(fields []refcodec.Field, off int) string {
	best := -1
	for i, f := range fields {
		if f.Width > 0 && f.Off <= off && off < f.Off+f.Width {
			if best < 0 || f.Width > fields[best].Width {
				best = i
			}
		}
	}
	if best < 0 {
		return "payload"
	}
	return fields[best].Kind + "/" + fields[best].Name
}

func endAt(fields []refcodec.Field, off int) (string, bool) {
	for _, f := range fields {
		if f.Kind == kEnd && f.Off == off {
			return f.Name, true
		}
	}
	return "", false
}

// reported: build the (large) replay detail only for the first occurrence of a key
var reported = map[string]bool{}

func fail(key, what string, detail func() map[string]interface{}) {
	if c.IsKnown(key) || reported[key] {
		c.Fail(key, what, nil)
		return
	}
	reported[key] = true
	c.Fail(key, what, detail())
}

// ---- fault space 1 ----------------------------------------------------------------------

func cutOffsets(e *enc) []int {
	n := len(e.B)
	if n <= smallFull {
		out := make([]int, n)
		for i := range out {
			out[i] = i
		}
		return out
	}
	seen := make(map[int]bool)
	add := func(k int) {
		if k >= 0 && k < n {
			seen[k] = true
		}
	}
	for k := 0; k < 1024; k++ {
		add(k)
		add(n - 1 - k)
	}
	fs := e.Fields
	step := 1
	if len(fs) > 600 {
		step = len(fs) / 600
	}
	for i := 0; i < len(fs); i += step {
		for k := fs[i].Off - 8; k <= fs[i].Off+fs[i].Width+8; k++ {
			add(k)
		}
	}
	for k := 1024; k < n-1024; k += 61 {
		add(k)
	}
	out := make([]int, 0, len(seen))
	for k := range seen {
		out = append(out, k)
	}
	sort.Ints(out)
	return out
}

// ---- non-termination budget ---------------------------------------------------------------
//
// A decode that does not terminate costs cpuLimit of CPU before it is a verdict. A tree that
// breaks termination in a shared routine would make thousands of decodes spin; the verdict
// is reached after the first few, the rest would only burn the budget. Rules (all of them
// act only after a non-terminating decode, i.e. never on a tree that holds the property; all
// skipped work is counted in the evidence):
//   - (decoder, field) class: after one hung decode the class is not run again;
//   - decoder: after ntDecoderLimit hung decodes no further decode of that decoder;
//   - process: after ntFullPrice non-terminating decodes (each a verdict) every further hung
//     decode is abandoned at cpuAbandon of CPU ("abandoned": counted, neither a violation nor
//     an evaluation); after ntHungMax hung decodes in all the rest of the corpus is not
//     evaluated by this process;
//   - connection mode: after netNTLimit hung scenarios the pass is over for the process.
//
// "hung" = non-terminating (cpuLimit reached) or abandoned (cpuAbandon reached).
const (
	ntFullPrice    = 2
	ntHungMax      = 12
	ntDecoderLimit = 3
	netNTLimit     = 2
)

var (
	ntPaid      int // decodes that cost a full cpuLimit in this process
	ntHung      int // ntPaid + abandoned decodes
	ntByDecoder = map[string]int{}
	netNT       int
)

// ntMu guards ntPaid, which the lanes of runBatch read and write at the same time
var ntMu sync.Mutex

func cpuBudget() time.Duration {
	ntMu.Lock()
	defer ntMu.Unlock()
	if ntPaid >= ntFullPrice {
		return cpuAbandon
	}
	return cpuLimit
}

// classes that already cost a CPU budget in this process are not run again
var expensive = map[string]int{}

func decoderSpent(d *decoder) bool { return ntByDecoder[d.Name] >= ntDecoderLimit }

// died handles the death of the server on one decode: cls is the (decoder, field) class for
// the skip rules, suffix/where make the finding key, what describes the decode.
func died(id string, d *decoder, dt *death, cls, suffix, where, what string, detail func(extra map[string]interface{}) func() map[string]interface{}) {
	if dt.Mode != imExact {
		// the decode that was running had its input handed over in one of the extra input modes
		suffix += "/resliced-input"
		what += " [input mode: " + imName[dt.Mode] + "]"
		inner := detail
		detail = func(extra map[string]interface{}) func() map[string]interface{} {
			x := map[string]interface{}{"input_mode": imName[dt.Mode]}
			for k, v := range extra {
				x[k] = v
			}
			return inner(x)
		}
	}
	switch dt.Kind {
	case "fatal":
		c.Count("process_fatal_decodes", 1)
		costly[cls]++
		fail(d.Name+":fatal"+suffix+"@"+where, fmt.Sprintf("%s ended the process: %s", what, dt.Reason), detail(map[string]interface{}{"stderr": dt.Stderr}))
	case "nonterminating":
		expensive[cls]++
		ntByDecoder[d.Name]++
		ntHung++
		c.Count("nonterminating_decodes", 1)
		fail(d.Name+":nonterminating"+suffix+"@"+where, fmt.Sprintf("%s: %s", what, dt.Reason), detail(nil))
	case "abandoned":
		expensive[cls]++
		ntByDecoder[d.Name]++
		ntHung++
		c.Count("decodes_abandoned_after_nonterminating_budget", 1)
	default:
		c.Inconclusive(id, dt.Kind+": "+dt.Reason)
	}
}

// answeredLate: the decode did return, but only after more than cpuLimit of CPU
func answeredLate(d *decoder, cls string) {
	expensive[cls]++
	ntByDecoder[d.Name]++
	ntPaid++
	ntHung++
	c.Count("nonterminating_decodes", 1)
}

func truncation(id string, e *enc) {
	d := &decoders[e.Dec]
	cuts := cutOffsets(e)
	if decoderSpent(d) {
		c.Count("truncation_points_skipped_decoder_nonterminating", int64(len(cuts)))
		return
	}
	if len(expensive) > 0 {
		keep := cuts[:0:0]
		for _, k := range cuts {
			if expensive[d.Name+"|cut-in-"+fieldAt(e.Fields, k)] >= 1 {
				c.Count("truncation_points_skipped_after_nonterminating_same_field", 1)
				continue
			}
			keep = append(keep, k)
		}
		cuts = keep
	}
	if len(cuts) == 0 {
		return
	}
	masks := make([]int, len(cuts))
	for j := range masks {
		masks[j] = extraModes(e, len(e.B), j+e.Index)
	}
	// long prefix lists are cut into contiguous parts, one per lane
	parts := 1
	if len(cuts) >= 256 {
		parts = lanes
	}
	partOut := make([][]res, parts)
	partErr := make([]error, parts)
	bounds := func(g int) (int, int) { return g * len(cuts) / parts, (g + 1) * len(cuts) / parts }
	inLanes(parts, func(g int) {
		lo, hi := bounds(g)
		o, err := runBatch(&srvs[g], c.Out, []req{{dec: e.Dec, mode: modeTrunc, b: e.B, cuts: cuts[lo:hi], cutMasks: masks[lo:hi], maxDeaths: 3}})
		if err != nil {
			partErr[g] = err
			return
		}
		partOut[g] = o[0]
	})
	var allOut []res
	for g := 0; g < parts; g++ {
		if partErr[g] != nil {
			c.Inconclusive(id, "decode server could not be started: "+partErr[g].Error())
			return
		}
		allOut = append(allOut, partOut[g]...)
	}
	out := [][]res{allOut}
	var panicked, kend, done int64
	var byMode, byModePanicked [nIModes]int64
	answered := make([]int, 0, len(cuts))
	var ranMask [nIModes][]int
	for j, rs := range out[0] {
		k := cuts[j]
		if rs.skipped {
			c.Count("truncation_points_skipped_after_server_deaths", 1)
			continue
		}
		detail := func(extra map[string]interface{}) func() map[string]interface{} {
			return func() map[string]interface{} {
				x := map[string]interface{}{"decoder": d.Name, "family": e.Family, "case": id, "cut_offset": k, "encoding_len": len(e.B),
					"cut_in": fieldAt(e.Fields, k), "prefix_hex": hexCap(e.B[:k], 2048), "encoding_hex": hexCap(e.B, 2048)}
				for kk, v := range extra {
					x[kk] = v
				}
				return x
			}
		}
		if rs.died != nil {
			where := "cut-in-" + fieldAt(e.Fields, k)
			died(id, d, rs.died, d.Name+"|"+where, "", where,
				fmt.Sprintf("decoding the first %d of %d bytes of a valid encoding (cut falls in %s)", k, len(e.B), fieldAt(e.Fields, k)), detail)
			if rs.died.Kind == "fatal" || rs.died.Kind == "nonterminating" {
				done++ // decided; abandoned / stalled decodes are not evaluations
			}
			continue
		}
		done++
		answered = append(answered, k)
		byMode[imExact]++
		if rs.m.Panicked {
			byModePanicked[imExact]++
		}
		_, isEnd := endAt(e.Fields, k)
		for im := 1; im < nIModes; im++ {
			fl := rs.x[im]
			if fl&xRan == 0 {
				continue
			}
			byMode[im]++
			ranMask[im] = append(ranMask[im], k)
			if fl&xPanicked != 0 {
				byModePanicked[im]++
			}
			modeDetail := detail(map[string]interface{}{"input_mode": imName[im], "input_mode_flags": flagNames(fl),
				"exact_copy_outcome": outcomeName(rs.m.Panicked), "this_mode_outcome": outcomeName(fl&xPanicked != 0)})
			where := fieldAt(e.Fields, k)
			switch {
			case fl&xPanicked == 0 && rs.m.Panicked:
				// the exactly sized copy fails closed, the same prefix with spare capacity behind it does not
				c.Count("trunc_accepted_resliced", 1)
				fail(d.Name+":prefix-accepted/resliced-input@"+where,
					fmt.Sprintf("%s returned an object for the first %d of %d bytes of a valid encoding (cut falls in %s) when the prefix was handed over as %s; an exactly sized copy of the same prefix fails", d.Name, k, len(e.B), where, imName[im]), modeDetail)
			case fl&xPanicked == 0 && !isEnd:
				// accepted in mode (a) too: reported below under the plain key
			case fl&xDiffers != 0:
				c.Count("results_depending_on_bytes_beyond_input", 1)
				fail(d.Name+":result-depends-on-bytes-beyond-input@cut-in-"+where,
					fmt.Sprintf("decoding the first %d of %d bytes of a valid encoding gives a different result when the prefix is handed over as %s than for an exactly sized copy", k, len(e.B), imName[im]), modeDetail)
			}
			if fl&xUnstable != 0 {
				c.Count("mode_differences_not_reproduced", 1)
			}
			if fl&(xWroteBehind|xWroteBefore) != 0 {
				c.Count("writes_outside_input", 1)
				fail(d.Name+":wrote-beyond-input@cut-in-"+where,
					fmt.Sprintf("decoding the first %d of %d bytes of a valid encoding (handed over as %s) changed bytes of the caller's buffer outside the input", k, len(e.B), imName[im]), modeDetail)
			}
			observeViews(d, id, fl, im, len(e.B), k)
		}
		if rs.m.ViewInput {
			c.Count("results_viewing_input_exact_copy", 1)
			c.SetAdd("decoders_returning_views_of_input", d.Name)
		}
		c.Max("max_cpu_ms_one_decode", rs.m.CPU.Milliseconds())
		if bound := uint64(allocSlope*k + allocConst); rs.m.Alloc > bound {
			where := "cut-in-" + fieldAt(e.Fields, k)
			c.Count("alloc_bound_exceeded", 1)
			fail(d.Name+":alloc-from-count@"+where,
				fmt.Sprintf("decoding the first %d of %d bytes of a valid encoding allocated %d bytes (bound 64·len+1 MiB = %d)", k, len(e.B), rs.m.Alloc, bound),
				detail(map[string]interface{}{"allocated": rs.m.Alloc, "bound": bound, "panicked": rs.m.Panicked}))
		}
		if rs.m.CPU > cpuLimit {
			where := "cut-in-" + fieldAt(e.Fields, k)
			answeredLate(d, d.Name+"|"+where)
			fail(d.Name+":nonterminating@"+where, fmt.Sprintf("decoding the first %d of %d bytes of a valid encoding consumed %v of CPU", k, len(e.B), rs.m.CPU), detail(nil))
		}
		if rs.m.Panicked {
			panicked++
			continue
		}
		if name, ok := endAt(e.Fields, k); ok {
			kend++
			c.SetAdd("older_version_ends_accepted", d.Name+"@"+name)
			continue
		}
		where := fieldAt(e.Fields, k)
		fail(d.Name+":prefix-accepted@"+where, fmt.Sprintf("%s returned an object for the first %d of %d bytes of a valid encoding (cut falls in %s) instead of failing", d.Name, k, len(e.B), where), detail(nil))
		c.Count("trunc_accepted", 1)
	}
	c.Count("truncation_points", done)
	c.Count("trunc_panicked", panicked)
	c.Count("trunc_older_version_exceptions", kend)
	var extra int64
	blobs := blobSpans(e)
	for im := 0; im < nIModes; im++ {
		c.Count("trunc_decodes_"+imShort[im], byMode[im])
		c.Count("trunc_panicked_"+imShort[im], byModePanicked[im])
		ks := answered
		if im > 0 {
			extra += byMode[im]
			ks = ranMask[im]
		}
		// prefixes that end inside the payload of a blob / text, per class of its length prefix
		for _, bs := range blobs {
			if n := int64(cutsIn(ks, bs.lo, bs.hi)); n > 0 {
				c.Count("trunc_inside_"+bs.class+"_"+imShort[im], n)
			}
		}
	}
	c.Count("truncation_decodes_extra_input_modes", extra)
	c.DistinctEnum(done + extra)
	c.Eval(done + extra)
	if len(e.B) <= smallFull {
		c.Count("encodings_every_prefix", 1)
	} else {
		c.Count("encodings_sampled_prefixes", 1)
	}
}

// ---- input modes: helpers ----------------------------------------------------------------

func outcomeName(panicked bool) string {
	if panicked {
		return "recoverable panic"
	}
	return "returned an object"
}

func flagNames(fl uint16) []string {
	var out []string
	for _, f := range []struct {
		bit  uint16
		name string
	}{{xPanicked, "panicked"}, {xWroteBehind, "wrote-behind-the-input"}, {xWroteBefore, "wrote-in-front-of-the-input"},
		{xDiffers, "outcome-or-result-differs-from-exact-copy(reproduced)"}, {xUnstable, "difference-not-reproduced"},
		{xViewBeyond, "result-refers-to-buffer-memory-outside-the-input"}, {xViewInput, "result-refers-to-input-memory"},
		{xViewMutable, "result-changed-when-buffer-was-overwritten"}, {xInputModified, "input-bytes-modified"}} {
		if fl&f.bit != 0 {
			out = append(out, f.name)
		}
	}
	return out
}

var viewSampled = map[string]bool{}

// observeViews: a result that refers to memory of the caller's buffer is an observation here
// (result ownership is the subject of C01/C02/C03), counted and sampled with a witness.
func observeViews(d *decoder, id string, fl uint16, im, encLen, inputLen int) {
	if fl&xInputModified != 0 {
		c.Count("decodes_that_modified_their_input", 1)
		c.SetAdd("decoders_modifying_input", d.Name)
	}
	if fl&(xViewInput|xViewBeyond) == 0 {
		return
	}
	c.Count("results_viewing_caller_buffer", 1)
	c.SetAdd("decoders_returning_views_of_input", d.Name)
	if fl&xViewMutable != 0 {
		c.Count("results_changed_by_buffer_reuse", 1)
	}
	if !viewSampled[d.Name] && fl&xViewMutable != 0 {
		viewSampled[d.Name] = true
		c.Sample(map[string]interface{}{"observation": "the decoded object is a view of the caller's input buffer: its content changed when the buffer was overwritten after the decode",
			"decoder": d.Name, "case": id, "input_mode": imName[im], "input_len": inputLen, "encoding_len": encLen, "flags": flagNames(fl)})
	}
}

type blobSpan struct {
	lo, hi int
	class  string
}

// blobSpans: payload ranges of the blobs / texts of an encoding with the class of their length
// prefix (blob-len: 1 byte, blob-len16: 255 + 2 bytes, blob-len32: 254 + 4 bytes)
func blobSpans(e *enc) []blobSpan {
	var out []blobSpan
	for _, f := range e.Fields {
		if f.Kind != kLen || !strings.HasPrefix(f.Name, "blob-len") || f.Off+f.Width > len(e.B) {
			continue
		}
		var n int
		var class string
		switch {
		case f.Name == "blob-len" && f.Width == 1:
			n, class = int(e.B[f.Off]), "blob8"
		case f.Name == "blob-len16" && f.Width == 3:
			n, class = int(e.B[f.Off+1])<<8|int(e.B[f.Off+2]), "blob16"
		case f.Name == "blob-len32" && f.Width == 5:
			n, class = int(e.B[f.Off+1])<<24|int(e.B[f.Off+2])<<16|int(e.B[f.Off+3])<<8|int(e.B[f.Off+4]), "blob32"
		default:
			continue
		}
		if n > 0 && f.Off+f.Width+n <= len(e.B) {
			out = append(out, blobSpan{f.Off + f.Width, f.Off + f.Width + n, class})
		}
	}
	return out
}

// cutsIn: how many of the ascending cuts lie in [lo, hi)
func cutsIn(ks []int, lo, hi int) int {
	return sort.SearchInts(ks, hi) - sort.SearchInts(ks, lo)
}

// extraModes: the input modes a decode is repeated in, besides the exactly sized copy.
//   - encodings (prefix list) and mutants of up to allModesMax bytes: all three, for every
//     prefix / mutant (plain build; the
//     checkptr build, where the reflection walk of the fingerprint is several times as
//     expensive, treats them like the longer ones);
//   - longer inputs: one, taken in rotation — consecutive prefixes / mutants of one encoding
//     get (b), (c), (d), (b), … so that every field of the encoding meets every mode;
//   - encodings whose field map has more than heavyFields entries (thousands of elements: one
//     decode costs a millisecond, and there are tens of thousands of prefixes and mutants of
//     it): one in rotation for every fourth prefix / mutant.
//
// seq numbers the prefixes / mutants of one encoding, offset by the case index.
const (
	allModesMax = 512
	heavyFields = 200
)

func extraModes(e *enc, inputLen, seq int) int {
	switch {
	case inputLen <= allModesMax && c.Flavour != "checkptr":
		return imAll
	case len(e.Fields) <= heavyFields:
		return 1 << (1 + seq%3)
	case seq%4 == 0:
		return 1 << (1 + seq/4%3)
	}
	return 0
}

// tailFor: how many bytes are laid out behind a hostile input. What matters is whether a
// length (or count × element size) the mutant announces fits into the capacity: announcements
// up to a few KiB fit into the short tail, those beyond 65536 + 4 KiB into neither, so the
// long tail (room for every 16-bit length and for 65536) is laid out exactly when the bytes
// the mutant puts into a length / count field, read as a big-endian number with or without
// their first byte (blob prefixes and decimals start with a class byte), fall in between.
func tailFor(e *enc, m *mutant) int {
	if m.full != nil {
		return tailLong
	}
	if !strings.Contains(m.where, "len/") && !strings.Contains(m.where, "count/") {
		return tailShort
	}
	fb := m.ins
	if strings.HasPrefix(m.where, "byte-in-") {
		// the whole field after the overwrite of one of its bytes
		for _, f := range e.Fields {
			if f.Width > 1 && f.Width <= 9 && f.Off <= m.off && m.off < f.Off+f.Width && f.Off+f.Width <= len(e.B) && (f.Kind == kLen || f.Kind == kCount) {
				fb = append([]byte(nil), e.B[f.Off:f.Off+f.Width]...)
				fb[m.off-f.Off] = m.ins[0]
				if announces(fb) {
					return tailLong
				}
			}
		}
		return tailShort
	}
	if announces(fb) {
		return tailLong
	}
	return tailShort
}

func announces(fb []byte) bool {
	in := func(b []byte) bool {
		if len(b) == 0 || len(b) > 8 {
			return false
		}
		var v uint64
		for _, x := range b {
			v = v<<8 | uint64(x)
		}
		return v > 128 && v <= tailLong
	}
	return in(fb) || (len(fb) > 1 && in(fb[1:]))
}

// modeVerdicts judges the extra input modes of one complete input (hostile mutant or valid
// encoding): same outcome and result as the exact copy, nothing written outside the input.
func modeVerdicts(id string, d *decoder, rs *res, where, what string, inputLen, encLen int, prefix string, detail func(extra map[string]interface{}) func() map[string]interface{}) {
	for im := 1; im < nIModes; im++ {
		fl := rs.x[im]
		if fl&xRan == 0 {
			continue
		}
		c.Count(prefix+"_decodes_"+imShort[im], 1)
		if fl&xPanicked == 0 {
			c.Count(prefix+"_returned_"+imShort[im], 1)
			if !rs.m.Panicked {
				c.Count("results_compared_with_exact_copy", 1)
				if fl&(xDiffers|xUnstable) == 0 {
					c.Count("results_identical_to_exact_copy", 1)
				}
			}
		}
		md := func() func() map[string]interface{} {
			return detail(map[string]interface{}{"input_mode": imName[im], "input_mode_flags": flagNames(fl),
				"exact_copy_outcome": outcomeName(rs.m.Panicked), "this_mode_outcome": outcomeName(fl&xPanicked != 0)})
		}
		if fl&xDiffers != 0 {
			c.Count("results_depending_on_bytes_beyond_input", 1)
			fail(d.Name+":result-depends-on-bytes-beyond-input@"+where,
				fmt.Sprintf("%s: with the input handed over as %s the decode %s, with an exactly sized copy of the same bytes it %s%s", what, imName[im],
					outcomeVerb(fl&xPanicked != 0), outcomeVerb(rs.m.Panicked), sameOutcomeNote(fl&xPanicked != 0, rs.m.Panicked)), md())
		}
		if fl&xUnstable != 0 {
			c.Count("mode_differences_not_reproduced", 1)
		}
		if fl&(xWroteBehind|xWroteBefore) != 0 {
			c.Count("writes_outside_input", 1)
			fail(d.Name+":wrote-beyond-input@"+where, fmt.Sprintf("%s (handed over as %s) changed bytes of the caller's buffer outside the input", what, imName[im]), md())
		}
		observeViews(d, id, fl, im, encLen, inputLen)
	}
	if rs.m.ViewInput {
		c.Count("results_viewing_input_exact_copy", 1)
		c.SetAdd("decoders_returning_views_of_input", d.Name)
	}
}

func outcomeVerb(panicked bool) string {
	if panicked {
		return "fails (recoverable panic)"
	}
	return "returns an object"
}

func sameOutcomeNote(a, b bool) string {
	if a == b {
		return " — a different one"
	}
	return ""
}

// ---- connection mode (net.go) -----------------------------------------------------------

const netCuts = 16

func netScenarios(e *enc, r *vlib.Rand) []netScen {
	n := len(e.B)
	var out []netScen
	// encodings above 16 KiB are delivered in fragments of up to 16 … 65536 bytes (seed%6 ≥ 3 in
	// fragSizes): single-byte fragments of a 90 KiB message would only burn time
	fragSeed := func() uint32 {
		f := r.U32()
		if n > 16<<10 {
			f = f - f%6 + 3 + f%3
		}
		return f
	}
	add := func(k int) { out = append(out, netScen{cut: k, frag: fragSeed(), end: byte(r.Intn(3))}) }
	if n <= netCuts {
		for k := 0; k < n; k++ {
			add(k)
		}
	} else {
		// half of the cuts strictly inside a multi-byte field-map entry, half anywhere
		var wide []refcodec.Field
		for _, f := range e.Fields {
			if f.Width >= 2 && f.Off+f.Width <= n {
				wide = append(wide, f)
			}
		}
		for i := 0; i < netCuts; i++ {
			if i%2 == 0 && len(wide) > 0 {
				f := wide[r.Intn(len(wide))]
				add(f.Off + 1 + r.Intn(f.Width-1))
			} else {
				add(r.Intn(n))
			}
		}
	}
	// the complete encoding, fragmented, both endings
	out = append(out, netScen{cut: n, frag: fragSeed(), end: netEndStall}, netScen{cut: n, frag: fragSeed(), end: netEndClose}, netScen{cut: n, frag: fragSeed(), end: netEndCloseWithData})
	return out
}

func netPass(id string, e *enc, r *vlib.Rand) {
	d := &decoders[e.Dec]
	if d.NoNet {
		return
	}
	scen := netScenarios(e, r)
	if netNT >= netNTLimit || decoderSpent(d) {
		c.Count("net_scenarios_skipped_after_nonterminating", int64(len(scen)))
		return
	}
	out, err := runBatch(&srvs[0], c.Out, []req{{dec: e.Dec, mode: modeNet, b: e.B, scen: scen, maxDeaths: 2}})
	if err != nil {
		c.Inconclusive(id, "decode server could not be started: "+err.Error())
		return
	}
	var done int64
	for j, rs := range out[0] {
		sc := scen[j]
		if rs.skipped {
			c.Count("net_scenarios_skipped_after_server_deaths", 1)
			continue
		}
		where := "complete"
		if sc.cut < len(e.B) {
			where = fieldAt(e.Fields, sc.cut)
		}
		what := fmt.Sprintf("decoding from a connection that delivered the first %d of %d bytes of a valid encoding (cut falls in %s; %s)", sc.cut, len(e.B), where, sc.endName())
		detail := func(extra map[string]interface{}) func() map[string]interface{} {
			return func() map[string]interface{} {
				x := map[string]interface{}{"decoder": d.Name, "family": e.Family, "case": id, "mode": "connection (io.NewDataInputNet over net.Pipe)",
					"delivered_bytes": sc.cut, "encoding_len": len(e.B), "cut_in": where, "then": sc.endName(),
					"fragment_sizes": capInts(fragSizes(sc.frag, sc.cut), 64), "delivered_hex": hexCap(e.B[:sc.cut], 2048), "encoding_hex": hexCap(e.B, 2048)}
				for kk, v := range extra {
					x[kk] = v
				}
				return x
			}
		}
		c.SetAdd("net_decoders_covered", d.Name)
		if rs.died == nil || rs.died.Kind == "fatal" || rs.died.Kind == "nonterminating" {
			done++ // decided; abandoned / stalled decodes are not evaluations
		}
		if rs.died != nil {
			if rs.died.Kind == "nonterminating" || rs.died.Kind == "abandoned" {
				netNT++
			}
			died(id, d, rs.died, d.Name+"|net|"+where, "/net-mode", where, what, detail)
			continue
		}
		c.Max("max_cpu_ms_one_decode", rs.m.CPU.Milliseconds())
		if rs.m.CPU > cpuLimit {
			netNT++
			answeredLate(d, d.Name+"|net|"+where)
			fail(d.Name+":nonterminating/net-mode@"+where, fmt.Sprintf("%s consumed %v of CPU", what, rs.m.CPU), detail(nil))
		}
		switch {
		case sc.cut == len(e.B) && rs.m.Panicked:
			// not judged here (a complete message that fails over a connection is C02's subject)
			c.Count("net_complete_panicked", 1)
			c.SetAdd("net_complete_panicked_decoders", d.Name)
		case sc.cut == len(e.B):
			c.Count("net_complete_returned", 1)
		case rs.m.Panicked:
			c.Count("net_prefix_panicked", 1)
			if sc.end == netEndClose {
				c.Count("net_prefix_then_close", 1)
			} else if sc.end == netEndCloseWithData {
				c.Count("net_prefix_then_eof_with_data", 1)
			} else {
				c.Count("net_prefix_then_deadline", 1)
			}
		default:
			if name, ok := endAt(e.Fields, sc.cut); ok {
				c.Count("net_older_version_exceptions", 1)
				c.SetAdd("older_version_ends_accepted", d.Name+"@"+name)
				break
			}
			c.Count("net_prefix_accepted", 1)
			fail(d.Name+":prefix-accepted/net-mode@"+where, fmt.Sprintf("%s returned an object instead of failing", what), detail(nil))
		}
	}
	c.Count("net_scenarios", done)
	c.DistinctEnum(done)
	c.Eval(done)
}

func capInts(v []int, max int) []int {
	if len(v) > max {
		return v[:max]
	}
	return v
}

// ---- fault space 2 ----------------------------------------------------------------------

// mutant: the valid encoding with del bytes at off replaced by ins (materialised per chunk)
type mutant struct {
	where string // "<kind>/<name>" of the field hit
	what  string // the hostile value, for the replay file
	off   int
	del   int
	ins   []byte
	full  []byte // multi-field mutants: the whole input
}

func (m *mutant) bytes(valid []byte) []byte {
	if m.full != nil {
		return m.full
	}
	return splice(valid, m.off, m.del, m.ins)
}

func be(width int, v uint64) []byte {
	out := make([]byte, width)
	for i := 0; i < width; i++ {
		out[width-1-i] = byte(v >> (8 * uint(i)))
	}
	return out
}

func decimalBytes(v int64) []byte {
	w := refcodec.NewW()
	w.Decimal(v)
	return w.B
}

func decimalForced(class byte, v int64) []byte {
	return append([]byte{class}, be(int(class), uint64(v))...)
}

var hostileTags1 = func() []byte {
	m := map[byte]bool{}
	for _, t := range refcodec.ValueTags {
		m[t] = true
	}
	for _, t := range []byte{1, 2, 3, 5, 6, 7, 8, 9, 13, 15, 17, 18, 19, 22, 47, 99, 0x7f, 0x80, 0xfe, 0xff} {
		m[t] = true
	}
	var out []byte
	for t := range m {
		out = append(out, t)
	}
	sort.Slice(out, func(i, j int) bool { return out[i] < out[j] })
	return out
}()

func splice(b []byte, off, del int, ins []byte) []byte {
	out := make([]byte, 0, len(b)-del+len(ins))
	out = append(out, b[:off]...)
	out = append(out, ins...)
	return append(out, b[off+del:]...)
}

// mutantsOf lists the hostile variants of one field-map entry.
func mutantsOf(b []byte, f refcodec.Field, isDecimalCount bool) []mutant {
	where := f.Kind + "/" + f.Name
	var out []mutant
	add := func(what string, del int, ins []byte) {
		if f.Off+del > len(b) {
			return
		}
		if del == len(ins) && bytes.Equal(b[f.Off:f.Off+del], ins) {
			return // the valid encoding itself
		}
		out = append(out, mutant{where: where, what: what, off: f.Off, del: del, ins: ins})
	}
	raw := func(vals ...uint64) {
		for _, v := range vals {
			add(fmt.Sprintf("raw %d-byte 0x%x", f.Width, be(f.Width, v)), f.Width, be(f.Width, v))
		}
	}
	w := f.Width
	ones := ^uint64(0)
	top := uint64(1) << (8*uint(w) - 1)
	if w >= 8 {
		top = 1 << 63
	}
	switch {
	case isDecimalCount:
		for _, v := range []int64{0, 1, -1, 127, 128, 32767, 32768, 1<<31 - 1, 1 << 31, 1<<39 - 1, 1 << 62, -1 << 63, 1<<63 - 1} {
			add(fmt.Sprintf("decimal %d", v), w, decimalBytes(v))
		}
		add("decimal class 8 holding 2^31-1", w, decimalForced(8, 1<<31-1))
		add("decimal class 4 holding -1", w, decimalForced(4, -1))
		add("decimal class byte 9 + 8 bytes 0x7f…", w, append([]byte{9}, be(8, 1<<63-1)...))
	case f.Kind == kLen && strings.HasPrefix(f.Name, "blob-len"):
		for _, v := range []byte{0, 1, 0x7f, 0x80, 253} {
			add(fmt.Sprintf("blob prefix %d", v), w, []byte{v})
		}
		for _, v := range []uint64{0, 1, 0x7fff, 0x8000, 0xffff} {
			add(fmt.Sprintf("blob prefix 255+0x%04x", v), w, append([]byte{255}, be(2, v)...))
		}
		for _, v := range []uint64{0, 1, 0x10000, 0x7fffff00, 0x7fffffff, 0x80000000, 0xffffffff} {
			add(fmt.Sprintf("blob prefix 254+0x%08x", v), w, append([]byte{254}, be(4, v)...))
		}
		for _, v := range near31(f.Off + 5) {
			add(fmt.Sprintf("blob prefix 254+0x%08x", v), w, append([]byte{254}, be(4, v)...))
		}
		// marker only: the bytes that follow become the length
		add("blob marker 254 over the first byte", 1, []byte{254})
		add("blob marker 255 over the first byte", 1, []byte{255})
	case f.Kind == kTag && w == 1:
		for _, t := range hostileTags1 {
			add(fmt.Sprintf("tag %d", t), 1, []byte{t})
		}
	case f.Kind == kTag && w == 2:
		for _, code := range packCodes {
			add(fmt.Sprintf("pack type 0x%04x", uint16(code)), 2, be(2, uint64(uint16(code))))
		}
		raw(0, 1, ones, 0x7fff, 0x8000, 0x3008, 0x0901, 0x0302)
	case f.Kind == kDec:
		for _, v := range []uint64{0, 1, 2, 3, 4, 5, 6, 7, 8, 9, 0x7f, 0x80, 0xfe, 0xff} {
			raw(v)
		}
	case f.Kind == kVer && w == 1:
		for _, v := range []uint64{0, 1, 2, 3, 4, 5, 8, 9, 10, 11, 0x7f, 0x80, 0xfe, 0xff} {
			raw(v)
		}
	default: // fixed-width lengths and counts (and multi-byte versions): raw integers
		vals := []uint64{0, 1, ones, top - 1, top}
		if w == 1 {
			vals = append(vals, 253, 254)
		}
		if w >= 4 {
			vals = append(vals, 1<<31-1, 1<<31, 0x7fffff00, 65536)
			vals = append(vals, near31(f.Off+w)...)
		}
		if w >= 8 {
			vals = append(vals, 1<<62)
		}
		raw(vals...)
	}
	return out
}

// near31: lengths just below 2^31 for a 4-byte length field whose payload starts at read
// position pos (> 0): 2^31−2 … 2^31−9 and the values around 2^31−pos, where position + length
// crosses 2^31 (a bound check done in 32-bit position arithmetic wraps exactly there;
// 2^31−1 itself is in every list).
func near31(pos int) []uint64 {
	out := []uint64{1<<31 - 2, 1<<31 - 3, 1<<31 - 5, 1<<31 - 9}
	if pos > 9 && pos < 1<<30 {
		out = append(out, 1<<31-uint64(pos)-1, 1<<31-uint64(pos), 1<<31-uint64(pos)+1)
	}
	return out
}

// allCountsWhere: the field name of the multi-field mutants
const allCountsWhere = "count/all-counts"

// allCounts builds the multi-field mutants of one encoding: EVERY element count of the field
// map is overwritten at once. A single hostile count is stopped by the first check it meets;
// counts that each pass their own check (≤ the unread rest, or ≤ what the field can hold) can
// still add up when containers nest, because a container sizes its table before it reads its
// elements. Variants: every count := the number of bytes that follow it in the mutated input
// (the most any "fits into the rest" check lets through), := a half / a quarter / an eighth of
// that, and := the largest positive value of the field (decimal counts: 32767).
func allCounts(e *enc) []mutant {
	decAt := map[int]bool{}
	for _, f := range e.Fields {
		if f.Kind == kDec {
			decAt[f.Off] = true
		}
	}
	type cf struct {
		off, w int
		dec    bool
	}
	var cs []cf
	for _, f := range e.Fields {
		if f.Kind != kCount || f.Width <= 0 || f.Off+f.Width > len(e.B) {
			continue
		}
		isDec := decAt[f.Off] && f.Width == 1+int(e.B[f.Off])
		cs = append(cs, cf{f.Off, f.Width, isDec})
	}
	if len(cs) < 2 {
		return nil
	}
	sort.Slice(cs, func(i, j int) bool { return cs[i].off < cs[j].off })
	keep := cs[:0]
	end := 0
	for _, x := range cs { // drop entries overlapping an earlier one
		if x.off >= end {
			keep = append(keep, x)
			end = x.off + x.w
		}
	}
	cs = keep
	build := func(val func(rest int, x cf) uint64) []byte {
		// from the last count to the first: what follows a count is final when it is written
		var rev [][]byte
		tail := 0
		hi := len(e.B)
		for i := len(cs) - 1; i >= 0; i-- {
			x := cs[i]
			seg := e.B[x.off+x.w : hi]
			rev = append(rev, seg)
			tail += len(seg)
			v := val(tail, x)
			var enc []byte
			if x.dec {
				enc = decimalBytes(int64(v))
			} else {
				if max := uint64(1)<<(8*uint(x.w)-1) - 1; x.w < 8 && v > max {
					v = max
				}
				enc = be(x.w, v)
			}
			rev = append(rev, enc)
			tail += len(enc)
			hi = x.off
		}
		out := make([]byte, 0, tail+hi)
		out = append(out, e.B[:hi]...)
		for i := len(rev) - 1; i >= 0; i-- {
			out = append(out, rev[i]...)
		}
		return out
	}
	var out []mutant
	for _, div := range []int{1, 2, 4, 8} {
		div := div
		out = append(out, mutant{where: allCountsWhere, what: fmt.Sprintf("every element count := (bytes that follow it)/%d", div),
			full: build(func(rest int, x cf) uint64 { return uint64(rest / div) })})
	}
	out = append(out, mutant{where: allCountsWhere, what: "every element count := the largest positive value of its field (decimal counts: 32767)",
		full: build(func(rest int, x cf) uint64 {
			if x.dec {
				return 32767
			}
			return 1<<63 - 1 // clipped to the field
		})})
	keepM := out[:0]
	for _, m := range out {
		if len(m.full) <= 2*e.limit() && !bytes.Equal(m.full, e.B) {
			keepM = append(keepM, m)
		}
	}
	return keepM
}

func isTarget(k string) bool {
	return k == kLen || k == kCount || k == kTag || k == kVer || k == kDec
}

// corruptions builds all mutants of one encoding (sampling the entries of very large field maps).
func corruptions(e *enc, r *vlib.Rand) []mutant {
	decAt := map[int]bool{}
	for _, f := range e.Fields {
		if f.Kind == kDec {
			decAt[f.Off] = true
		}
	}
	var targets []refcodec.Field
	for _, f := range e.Fields {
		if isTarget(f.Kind) && f.Width > 0 {
			targets = append(targets, f)
		}
	}
	const maxTargets = 240
	if len(targets) > maxTargets {
		c.Count("field_maps_sampled", 1)
		pick := make([]refcodec.Field, 0, maxTargets)
		pick = append(pick, targets[:80]...)
		pick = append(pick, targets[len(targets)-80:]...)
		mid := targets[80 : len(targets)-80]
		for i := 0; i < 80; i++ {
			pick = append(pick, mid[r.Intn(len(mid))])
		}
		targets = pick
	}
	var out []mutant
	for _, f := range targets {
		// a count (or record version) written as a decimal: the entry spans class byte + payload
		isDecCount := (f.Kind == kCount || f.Kind == kVer) && decAt[f.Off] && f.Off < len(e.B) && f.Width == 1+int(e.B[f.Off])
		out = append(out, mutantsOf(e.B, f, isDecCount)...)
	}
	if len(e.B) <= byteEnum {
		for p := range e.B {
			where := fieldAt(e.Fields, p)
			if where != "payload" {
				where = "byte-in-" + where
			} else {
				where = "byte/payload"
			}
			for _, v := range []byte{0x00, 0x01, 0x7f, 0x80, 0xfe, 0xff} {
				if e.B[p] == v {
					continue
				}
				out = append(out, mutant{where: where, what: fmt.Sprintf("byte at offset %d := 0x%02x", p, v), off: p, del: 1, ins: []byte{v}})
			}
		}
		c.Count("encodings_every_byte_overwritten", 1)
	}
	if ac := allCounts(e); len(ac) > 0 {
		out = append(out, ac...)
		c.Count("encodings_all_counts_overwritten", 1)
	}
	return out
}

// Decode servers of this worker process. Admission and connection scenarios use lane 0; the
// prefix list and the mutant list of one encoding are spread over all lanes (parallel decode
// servers), the results are judged afterwards in their order — a shard that drew one of the
// rare encodings with thousands of elements would otherwise decide the wall time of the run.
const lanes = 4

var srvs [lanes]*server

// inLanes runs the jobs on the decode servers of lanes 0, 1, … at the same time
func inLanes(n int, job func(g int)) {
	if n == 1 {
		job(0)
		return
	}
	var wg sync.WaitGroup
	for g := 0; g < n; g++ {
		wg.Add(1)
		go func(g int) { defer wg.Done(); job(g) }(g)
	}
	wg.Wait()
}

// (decoder, field) pairs that were fatal or allocated beyond the bound, with their count
var costly = map[string]int{}

const costlyLimit = 3

func hostile(id string, e *enc, r *vlib.Rand) {
	d := &decoders[e.Dec]
	muts := corruptions(e, r)
	if len(muts) == 0 {
		return
	}
	// the culprit of a death of THIS process (not expected) is found through the journal
	c.Journal(id, d.Name+":fatal@worker-process")
	var panicked, returned, done, extra int64
	seq := 0
	const chunk = 24
	// waves of up to `lanes` chunks: the skip rules are applied when a chunk is prepared, the
	// chunks of a wave are decoded at the same time, their results judged in order
	for lo := 0; lo < len(muts); {
		var jobs []*hostileJob
		for g := 0; g < lanes && lo < len(muts); g++ {
			hi := lo + chunk
			if hi > len(muts) {
				hi = len(muts)
			}
			if j := hostilePrep(e, d, muts[lo:hi], &seq); j != nil {
				jobs = append(jobs, j)
			}
			lo = hi
		}
		if len(jobs) == 0 {
			continue
		}
		inLanes(len(jobs), func(g int) { jobs[g].results, jobs[g].err = runBatch(&srvs[g], c.Out, jobs[g].reqs) })
		for _, j := range jobs {
			if j.err != nil {
				c.Inconclusive(id, "decode server could not be started: "+j.err.Error())
				continue
			}
			hostileJudge(id, e, d, j, &panicked, &returned, &done, &extra)
		}
	}
	c.Count("corruptions", done)
	c.Count("corr_panicked", panicked)
	c.Count("corr_returned", returned)
	c.Count("corruption_decodes_extra_input_modes", extra)
	c.DistinctEnum(done + extra)
	c.Eval(done + extra)
}

type hostileJob struct {
	muts    []mutant
	reqs    []req
	idx     []int
	results [][]res
	err     error
}

func hostilePrep(e *enc, d *decoder, muts []mutant, pSeq *int) *hostileJob {
	var reqs []req
	var idx []int
	for i, m := range muts {
		cls := d.Name + "|" + m.where
		if expensive[cls] >= 1 || decoderSpent(d) {
			c.Count("corruptions_skipped_after_nonterminating_same_field", 1)
			continue
		}
		if costly[cls] >= costlyLimit {
			// this decoder+field already produced a beyond-the-bound allocation or a
			// process-fatal event costlyLimit times in this process: the finding is reported;
			// repeating it hundreds of times would only burn the budget of a broken tree
			c.Count("corruptions_skipped_field_already_violating", 1)
			continue
		}
		mb := m.bytes(e.B)
		reqs = append(reqs, req{dec: e.Dec, mode: modeHostile, b: mb, imask: extraModes(e, len(mb), *pSeq+e.Index), tail: tailFor(e, &muts[i])})
		*pSeq++
		idx = append(idx, i)
	}
	if len(reqs) == 0 {
		return nil
	}
	return &hostileJob{muts: muts, reqs: reqs, idx: idx}
}

func hostileJudge(id string, e *enc, d *decoder, job *hostileJob, pPanicked, pReturned, pDone, pExtra *int64) {
	muts, reqs, idx, results := job.muts, job.reqs, job.idx, job.results
	for j := range results {
		rs := results[j][0]
		if rs.died == nil || rs.died.Kind == "fatal" || rs.died.Kind == "nonterminating" {
			*pDone++ // decided; abandoned / stalled decodes are not evaluations
		}
		m := muts[idx[j]]
		mb := reqs[j].b
		cls := d.Name + "|" + m.where
		c.SetAdd("corruption_pairs", cls)
		detail := func(extra map[string]interface{}) func() map[string]interface{} {
			return func() map[string]interface{} {
				x := map[string]interface{}{"decoder": d.Name, "family": e.Family, "case": id, "field": m.where, "hostile_value": m.what,
					"input_len": len(mb), "input_hex": hexCap(mb, 2048), "valid_encoding_hex": hexCap(e.B, 2048)}
				for k, v := range extra {
					x[k] = v
				}
				return x
			}
		}
		if rs.died != nil {
			died(id, d, rs.died, cls, "", m.where, fmt.Sprintf("decoding a %d-byte input with a hostile %s (%s)", len(mb), m.where, m.what), detail)
			continue
		}
		if rs.m.Panicked {
			*pPanicked++
		} else {
			*pReturned++
		}
		c.Count("hostile_decodes_"+imShort[imExact], 1)
		if strings.HasSuffix(m.where, "/blob-len32") {
			c.Count("corruptions_of_blob_len32_fields", 1)
		}
		rsc := rs
		modeVerdicts(id, d, &rsc, m.where, fmt.Sprintf("decoding a %d-byte input with a hostile %s (%s)", len(mb), m.where, m.what), len(mb), len(e.B), "hostile", detail)
		for im := 1; im < nIModes; im++ {
			if rs.x[im]&xRan != 0 {
				*pExtra++
			}
		}
		bound := uint64(allocSlope*len(mb) + allocConst)
		c.Max("max_alloc_bytes_one_decode", int64(rs.m.Alloc))
		c.Max("max_alloc_permille_of_bound", int64(rs.m.Alloc*1000/bound))
		c.Max("max_cpu_ms_one_decode", rs.m.CPU.Milliseconds())
		if rs.m.Alloc > bound {
			c.Count("alloc_bound_exceeded", 1)
			costly[cls]++
			fail(d.Name+":alloc-from-count@"+m.where,
				fmt.Sprintf("decoding a %d-byte input with a hostile %s (%s) allocated %d bytes (bound 64·len+1 MiB = %d)", len(mb), m.where, m.what, rs.m.Alloc, bound),
				detail(map[string]interface{}{"allocated": rs.m.Alloc, "bound": bound, "panicked": rs.m.Panicked}))
		}
		if rs.m.CPU > cpuLimit {
			answeredLate(d, cls)
			fail(d.Name+":nonterminating@"+m.where, fmt.Sprintf("decoding a %d-byte input with a hostile %s (%s) consumed %v of CPU", len(mb), m.where, m.what, rs.m.CPU), detail(nil))
		}
	}
}

// ---- corpus admission ---------------------------------------------------------------------

// admit: the reference encoding enters the corpus when the decoder under test accepts it.
// For the families whose layout golib's own writer and reader disagree about (e.Alt: both
// forms are generated) it must also be consumed completely — that is how the form the reader
// defines is told from the other. Everywhere else the reference encoding IS the valid
// encoding: a decoder that returns with bytes left over has accepted a strict prefix of it,
// and the truncation pass that follows reports exactly that prefix.
func admit(id string, e *enc) bool {
	d := &decoders[e.Dec]
	if len(e.B) == 0 || len(e.B) > e.limit() {
		c.Count("corpus_skipped_size", 1)
		return false
	}
	if decoderSpent(d) {
		c.Count("encodings_skipped_decoder_nonterminating", 1)
		return false
	}
	out, err := runBatch(&srvs[0], c.Out, []req{{dec: e.Dec, mode: modeAdmit, b: e.B, imask: imAll, tail: tailLong}})
	if err != nil {
		c.Inconclusive(id, "decode server could not be started: "+err.Error())
		return false
	}
	rs := out[0][0]
	detail := func(extra map[string]interface{}) func() map[string]interface{} {
		return func() map[string]interface{} {
			x := map[string]interface{}{"decoder": d.Name, "family": e.Family, "case": id, "encoding_len": len(e.B), "encoding_hex": hexCap(e.B, 2048)}
			for k, v := range extra {
				x[k] = v
			}
			return x
		}
	}
	if rs.died != nil {
		died(id, d, rs.died, d.Name+"|valid-encoding", "", "valid-encoding", fmt.Sprintf("decoding a valid %d-byte encoding", len(e.B)), detail)
		return false
	}
	if rs.m.Panicked || (e.Alt && !rs.m.Consumed) {
		// the reference encoding is not what this decoder reads: not a valid encoding for
		// C04's purposes (writer/reader disagreements belong to C03/C05)
		c.Count("corpus_not_admitted", 1)
		c.SetAdd("not_admitted_families", e.Family)
		return false
	}
	if !rs.m.Consumed {
		c.Count("encodings_returned_with_unread_bytes", 1)
		c.SetAdd("unread_bytes_families", e.Family)
	}
	c.Count("valid_decodes_"+imShort[imExact], 1)
	modeVerdicts(id, d, &rs, "valid-encoding", fmt.Sprintf("decoding a valid %d-byte encoding", len(e.B)), len(e.B), len(e.B), "valid", detail)
	if dbg {
		fmt.Fprintf(os.Stderr, "DBG admit %s len=%d alloc=%d bound=%d\n", id, len(e.B), rs.m.Alloc, allocSlope*len(e.B)+allocConst)
	}
	if bound := uint64(allocSlope*len(e.B) + allocConst); rs.m.Alloc > bound {
		c.Count("alloc_bound_exceeded", 1)
		fail(d.Name+":alloc-from-count@valid-encoding", fmt.Sprintf("decoding a valid %d-byte encoding allocated %d bytes (bound 64·len+1 MiB = %d)", len(e.B), rs.m.Alloc, bound),
			detail(map[string]interface{}{"allocated": rs.m.Alloc, "bound": bound}))
		// reported once, here: its prefixes and mutants would repeat the same finding under
		// hundreds of field keys
		c.Count("encodings_not_expanded_valid_form_beyond_bound", 1)
		return false
	}
	if rs.m.CPU > cpuLimit {
		answeredLate(d, d.Name+"|valid-encoding")
		fail(d.Name+":nonterminating@valid-encoding", fmt.Sprintf("decoding a valid %d-byte encoding consumed %v of CPU", len(e.B), rs.m.CPU), detail(nil))
		return false
	}
	if e.Golib != nil {
		if bytes.Equal(e.Golib, e.B) {
			c.Count("reference_equals_golib_writer", 1)
		} else {
			c.Count("reference_differs_from_golib_writer", 1)
			c.SetAdd("reference_differs_families", e.Family)
		}
	}
	return true
}

var sampledFam = map[string]bool{}

func main() {
	if os.Getenv("WC04_SERVER") == "1" {
		serverMain()
		return
	}
	c = vlib.Start("C04")
	n := c.N(2000, 40000)
	// behind the n regular encodings: nBig encodings of the big/* families (one blob or text
	// above 65535 bytes each)
	nBig := n * 9 / 250
	c.Cases("enc", n+nBig, func(i int, r *vlib.Rand) {
		f := families[i%len(families)]
		if i >= n {
			f = bigFamilies[(i-n)%len(bigFamilies)]
		}
		var e *enc
		for try := 0; try < 6; try++ {
			altForm = false
			e = f.Gen(r)
			if len(e.B) <= e.limit() {
				break
			}
		}
		e.Family = f.Name
		e.Index = i
		e.Alt = altForm
		id := fmt.Sprintf("enc#%d", i)
		if ntHung >= ntHungMax {
			c.Count("encodings_skipped_process_nonterminating_budget", 1)
			return
		}
		if !admit(id, e) {
			return
		}
		d := &decoders[e.Dec]
		c.Count("encodings", 1)
		c.SetAdd("decoders_covered", d.Name)
		c.SetAdd("families_covered", f.Name)
		c.DistinctBytes(e.B)
		c.Max("max_encoding_len", int64(len(e.B)))
		nt := 0
		for _, fl := range e.Fields {
			if isTarget(fl.Kind) {
				nt++
			}
		}
		c.Count("field_map_entries_targeted", int64(nt))
		spans := blobSpans(e)
		var nb [3]int64
		for _, bs := range spans {
			switch bs.class {
			case "blob8":
				nb[0]++
			case "blob16":
				nb[1]++
			default:
				nb[2]++
			}
		}
		c.Count("corpus_blobs_len_1_byte", nb[0])
		c.Count("corpus_blobs_len_255_2_bytes", nb[1])
		c.Count("corpus_blobs_len_254_4_bytes", nb[2])
		if nb[2] > 0 {
			c.Count("encodings_with_blob_above_65535", 1)
			c.SetAdd("decoders_with_blob_above_65535", d.Name)
		}
		if e.Big && !sampledFam[f.Name+"/"+d.Name] && c.WantSample() {
			sampledFam[f.Name+"/"+d.Name] = true
			var sp []map[string]int
			for _, bs := range spans {
				if bs.class == "blob32" {
					sp = append(sp, map[string]int{"payload_from": bs.lo, "payload_to": bs.hi})
				}
			}
			c.Sample(map[string]interface{}{"case": id, "family": f.Name, "decoder": d.Name, "encoding_len": len(e.B),
				"blobs_with_4_byte_length": sp, "strict_prefixes_decoded": len(cutOffsets(e)), "head_hex": hexCap(e.B, 48)})
		}

		c.Journal(id, d.Name+":fatal@truncation")
		t0 := time.Now()
		truncation(id, e)
		t1 := time.Now()
		rh := r.Fork("hostile")
		rn := r.Fork("net")
		netPass(id, e, rn)
		t2 := time.Now()
		hostile(id, e, rh)
		if dbg {
			fmt.Fprintf(os.Stderr, "DBG %s %s len=%d fields=%d trunc=%v net=%v hostile=%v servers=%d\n", id, f.Name, len(e.B), len(e.Fields), t1.Sub(t0), t2.Sub(t1), time.Since(t2), serverSeq)
		}

		if !sampledFam[f.Name] && c.WantSample() && len(e.B) <= 160 && i%7 == 3 {
			sampledFam[f.Name] = true
			c.Sample(map[string]interface{}{"case": id, "family": f.Name, "decoder": d.Name, "encoding_hex": hex.EncodeToString(e.B),
				"field_map": e.Fields, "strict_prefixes_decoded": len(e.B)})
		}
	})
	scalingSection()
	for g := range srvs {
		if srvs[g] != nil {
			srvs[g].stop()
		}
	}
	c.Exhaustive("every strict prefix of every corpus encoding ≤ 4 KiB")
	c.Exhaustive("every listed hostile value at every length/count/tag/version/decimal-class entry of the field map (field maps with more than 240 such entries: first 80, last 80 and 80 drawn)")
	c.Exhaustive("connection mode: every strict prefix of every corpus encoding ≤ 16 bytes, each with one drawn fragmentation and ending")
	c.Exhaustive("six hostile byte values at every byte position of every corpus encoding ≤ 256 bytes")
	if c.Flavour != "checkptr" {
		c.Exhaustive("input modes: every strict prefix and every hostile mutant of at most 512 bytes is decoded in all four input modes (exact copy, re-sliced with the rest of the message behind it, re-sliced with stale bytes behind it, sub-slice at an odd offset)")
	}
	per := int64(n / c.NShards)
	c.Floor("encodings", per/10, c.Counter("encodings"))
	c.Floor("truncation_points", per*10, c.Counter("truncation_points"))
	c.Floor("corruptions", per*30, c.Counter("corruptions"))
	c.Floor("net_scenarios", per, c.Counter("net_scenarios"))
	// per input mode: prefixes, mutants and valid encodings decoded in it, results compared
	for im := 1; im < nIModes; im++ {
		c.Floor("trunc_decodes_"+imShort[im], per*10, c.Counter("trunc_decodes_"+imShort[im]))
		c.Floor("hostile_decodes_"+imShort[im], per*20, c.Counter("hostile_decodes_"+imShort[im]))
		c.Floor("valid_decodes_"+imShort[im], per/10, c.Counter("valid_decodes_"+imShort[im]))
	}
	c.Floor("results_compared_with_exact_copy", per*30, c.Counter("results_compared_with_exact_copy"))
	// per class of the blob length prefix and input mode: prefixes that end inside such a blob
	for im := 0; im < nIModes; im++ {
		f8, f16, f32 := per, per, per*2
		if im == imExact {
			f8, f16, f32 = per*4, per*4, per*8
		}
		c.Floor("trunc_inside_blob8_"+imShort[im], f8, c.Counter("trunc_inside_blob8_"+imShort[im]))
		c.Floor("trunc_inside_blob16_"+imShort[im], f16, c.Counter("trunc_inside_blob16_"+imShort[im]))
		c.Floor("trunc_inside_blob32_"+imShort[im], f32, c.Counter("trunc_inside_blob32_"+imShort[im]))
	}
	c.Floor("corruptions_of_blob_len32_fields", per/10, c.Counter("corruptions_of_blob_len32_fields"))
	c.Finish()
}
