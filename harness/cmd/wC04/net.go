package main

// Connection mode. golib's decoders read either from a byte slice (io.NewDataInputX) or from
// a net.Conn (io.NewDataInputNet); the byte-fetch routine has one branch for each. In
// connection mode the size of the input is unknown, so nothing can be checked against it: a
// read whose announced bytes never arrive is ended only by the error the connection reports
// (end of stream, or the read deadline of the connection expiring). "Decoding terminates" and
// "a strict prefix reports failure" therefore mean here: when the peer has delivered a strict
// prefix of a valid encoding and then closes, or stays silent until the read deadline of the
// decoder's side expires, the decode ends in a recoverable panic — it neither returns an
// object nor keeps running.
//
// One scenario = (cut, fragmentation, end). The server side of it (netDecode): a net.Pipe;
// a read deadline is armed on the decoder's end; a writer goroutine delivers enc[:cut] in
// fragments (net.Pipe hands a fragment over only when the reader asks, so a field is
// regularly split over several Reads), then either closes its end or lets the deadline of
// the decoder's end expire (SetReadDeadline to a past instant: the deterministic form of
// "time passes and nothing arrives" — no wall-clock wait is involved, and every later Read
// returns the timeout error at once, exactly as after a real expiry). The decoder runs on the
// server's main goroutine under recover.
//
// Verdicts (main.go): the worker's CPU watchdog on the server decides termination, as for
// every other decode: a decoder that keeps burning CPU after its connection has failed is
// `…:nonterminating/net-mode@<field>`; a normal return on a strict prefix is
// `…:prefix-accepted/net-mode@<field>`; a process-fatal event is `…:fatal/net-mode@<field>`.
// The allocation bound is NOT applied in connection mode (a length field cannot be compared
// with an input of unknown size; the property's bound is stated for the input at hand, and
// the size-limited ReadIntBytesLimit is what golib offers for frames from a connection).

import (
	"encoding/binary"
	stdio "io"
	"net"
	"time"

	gio "github.com/whatap/golib/io"
)

const (
	netEndStall = 0 // the peer stays silent, the decoder's read deadline expires
	netEndClose = 1 // the peer closes the connection
	// the peer closes, and the connection hands the last delivered bytes to the reader TOGETHER
	// with io.EOF (n > 0, err == io.EOF in one Read — which the io.Reader contract allows and
	// TLS, buffered and proxied connections do)
	netEndCloseWithData = 2
	netScenLen          = 9
)

type netScen struct {
	cut  int    // bytes of the encoding that are delivered (== len(enc): the complete encoding)
	frag uint32 // seed of the fragment sizes
	end  byte
}

func (s netScen) append(b []byte) []byte {
	b = binary.BigEndian.AppendUint32(b, uint32(s.cut))
	b = binary.BigEndian.AppendUint32(b, s.frag)
	return append(b, s.end)
}

func parseNetScen(b []byte) netScen {
	return netScen{int(binary.BigEndian.Uint32(b)), binary.BigEndian.Uint32(b[4:]), b[8]}
}

func (s netScen) endName() string {
	if s.end == netEndClose {
		return "peer closes"
	}
	if s.end == netEndCloseWithData {
		return "peer closes; the last fragment is returned by the same Read as io.EOF"
	}
	return "peer silent until the read deadline expires"
}

// fragment sizes: a splitmix stream from the seed; the seed also picks the scale
func fragSizes(seed uint32, total int) []int {
	x := uint64(seed)*0x9e3779b97f4a7c15 + 0x1234567
	next := func() uint64 {
		x += 0x9e3779b97f4a7c15
		z := x
		z = (z ^ (z >> 30)) * 0xbf58476d1ce4e5b9
		z = (z ^ (z >> 27)) * 0x94d049bb133111eb
		return z ^ (z >> 31)
	}
	scale := []int{1, 2, 4, 16, 256, 1 << 16}[seed%6]
	var out []int
	for total > 0 {
		n := 1 + int(next()%uint64(scale))
		if n > total {
			n = total
		}
		out = append(out, n)
		total -= n
	}
	return out
}

// eofConn is a net.Conn whose Read serves the prepared fragments and returns the last one
// together with io.EOF.
type eofConn struct {
	data  []byte
	frags []int
}

func (c *eofConn) Read(p []byte) (int, error) {
	if len(c.data) == 0 {
		return 0, stdio.EOF
	}
	n := len(c.data)
	if len(c.frags) > 0 {
		n = c.frags[0]
	}
	if n > len(p) {
		n = len(p)
	}
	if n > len(c.data) {
		n = len(c.data)
	}
	copy(p, c.data[:n])
	c.data = c.data[n:]
	if len(c.frags) > 0 {
		if c.frags[0] -= n; c.frags[0] <= 0 {
			c.frags = c.frags[1:]
		}
	}
	if len(c.data) == 0 {
		return n, stdio.EOF
	}
	return n, nil
}
func (c *eofConn) Write(p []byte) (int, error)      { return len(p), nil }
func (c *eofConn) Close() error                     { return nil }
func (c *eofConn) LocalAddr() net.Addr              { return &net.TCPAddr{} }
func (c *eofConn) RemoteAddr() net.Addr             { return &net.TCPAddr{} }
func (c *eofConn) SetDeadline(time.Time) error      { return nil }
func (c *eofConn) SetReadDeadline(time.Time) error  { return nil }
func (c *eofConn) SetWriteDeadline(time.Time) error { return nil }

func netDecode(d *decoder, enc []byte, sc netScen) (m measure) {
	c0 := selfCPU()
	if sc.end == netEndCloseWithData {
		conn := &eofConn{data: append([]byte(nil), enc[:sc.cut]...), frags: fragSizes(sc.frag, sc.cut)}
		func() {
			defer func() {
				if e := recover(); e != nil {
					m.Panicked = true
				}
			}()
			d.Strict(gio.NewDataInputNet(conn))
		}()
		m.CPU = selfCPU() - c0
		return
	}
	rd, wr := net.Pipe()
	// the decoder's side has a read deadline, as a collector/agent connection has
	rd.SetReadDeadline(time.Now().Add(time.Hour))
	b := enc[:sc.cut]
	done := make(chan struct{})
	go func() {
		defer close(done)
		off := 0
		for _, n := range fragSizes(sc.frag, len(b)) {
			if _, err := wr.Write(b[off : off+n]); err != nil {
				return // the decoder gave up and its end was closed
			}
			off += n
		}
		if sc.end == netEndClose {
			wr.Close()
		} else {
			rd.SetReadDeadline(time.Unix(1, 0)) // the deadline is over; nothing more arrives
		}
	}()
	func() {
		defer func() {
			if e := recover(); e != nil {
				m.Panicked = true
			}
		}()
		d.Strict(gio.NewDataInputNet(rd))
	}()
	rd.Close()
	wr.Close()
	<-done
	m.CPU = selfCPU() - c0
	return
}
