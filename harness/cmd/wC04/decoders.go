package main

// The decoders under test. Every decoder is a function of one golib input stream; a decode
// of a byte string b is run(io.NewDataInputX(b)) — which is literally what pack.ToPack(b),
// TxRecord.ToObject(b) … do. Failure is reported by golib through panic.
//
// Strict is what fault space 1 (truncation) runs: the top-level decode only, so that an
// object returned for a strict prefix is seen as such. Deep additionally invokes the
// accessor that decodes a lazily kept record blob (GetRecords / GetDataTable): fault space 2
// (hostile fields) runs Deep so that counts inside those blobs are exercised too.

import (
	gio "github.com/whatap/golib/io"
	"github.com/whatap/golib/lang/pack"
	"github.com/whatap/golib/lang/service"
	"github.com/whatap/golib/lang/step"
	"github.com/whatap/golib/lang/value"
)

type decoder struct {
	Name string
	// both return what was decoded (everything the call handed back), so that the decode server
	// can fingerprint it: the result must not depend on how the input bytes were handed over
	Strict func(in *gio.DataInputX) interface{}
	Deep   func(in *gio.DataInputX) interface{} // nil: same as Strict
	// NoNet: the decoder as run here is defined through Available() of the outer stream (the
	// step stream: "until the input is used up"), which a connection cannot answer
	NoNet bool
}

var decoders []decoder
var decoderIdx = map[string]int{}

func reg(name string, strict func(in *gio.DataInputX) interface{}, deep func(in *gio.DataInputX) interface{}) {
	if _, dup := decoderIdx[name]; dup {
		panic("duplicate decoder " + name)
	}
	decoderIdx[name] = len(decoders)
	decoders = append(decoders, decoder{Name: name, Strict: strict, Deep: deep})
}

func dec(name string) int {
	i, ok := decoderIdx[name]
	if !ok {
		panic("unknown decoder " + name)
	}
	return i
}

// packNames: the Go type name of every pack type pack.CreatePack knows (the registered
// types), by wire code.
var packNames = map[int16]string{
	0x0100: "ParamPack", 0x0201: "CounterPack1", 0x0300: "ProfilePack", 0x0401: "ActiveStackPack",
	0x0700: "TextPack", 0x0801: "ErrorSnapPack1", 0x0f00: "RealtimeUserPack",
	0x0900: "StatServicePack", 0x0910: "StatGeneralPack", 0x0a00: "StatSqlPack", 0x0b00: "StatHttpcPack",
	0x0c00: "StatErrorPack", 0x1100: "StatRemoteIpPack", 0x1200: "StatUserAgentPack",
	0x1400: "EventPack", 0x1501: "HitMapPack1", 0x1600: "ExtensionPack", 0x1601: "TagCountPack",
	0x1602: "TagLogPack", 0x1700: "CompositePack", 0x170a: "LogSinkPack", 0x170b: "ZipPack",
	0x170d: "LogSinkZipPack", 0x6500: "ServerInfoPack",
}

var packCodes []int16

// deepPack invokes the accessor that decodes the record blob a pack keeps undecoded and
// returns the pack together with what the accessor handed back.
func deepPack(p pack.Pack) interface{} {
	var rec interface{}
	switch q := p.(type) {
	case *pack.StatErrorPack:
		rec = q.GetRecords()
	case *pack.StatSqlPack:
		rec = q.GetRecords()
	case *pack.StatHttpcPack:
		rec = q.GetRecords()
	case *pack.StatGeneralPack:
		rec = q.GetDataTable()
	case *pack.StatServicePack:
		// the record blob has no accessor on the pack; the package-level reader is the decoder
		if q.Records != nil {
			in := gio.NewDataInputX(q.Records)
			n := int(in.ReadShort()) & 0xffff
			var recs []interface{}
			for i := 0; i < n; i++ {
				recs = append(recs, pack.ReadRec(in))
			}
			rec = recs
		}
	case *pack.ZipPack:
		rec = q.GetRecords()
	case *pack.LogSinkZipPack:
		rec = q.GetRecords()
	}
	return []interface{}{p, rec}
}

func init() {
	reg("ReadValue", func(in *gio.DataInputX) interface{} { return value.ReadValue(in) }, nil)

	for code := range packNames {
		packCodes = append(packCodes, code)
	}
	for i := range packCodes { // deterministic order
		for j := i + 1; j < len(packCodes); j++ {
			if packCodes[j] < packCodes[i] {
				packCodes[i], packCodes[j] = packCodes[j], packCodes[i]
			}
		}
	}
	for _, code := range packCodes {
		reg("ToPack/"+packNames[code],
			func(in *gio.DataInputX) interface{} { return pack.ReadPack(in) },
			func(in *gio.DataInputX) interface{} { return deepPack(pack.ReadPack(in)) })
	}
	// not in the factory: decoded through its own Read after the type short
	reg("Read/ProfileStepSplitPack", func(in *gio.DataInputX) interface{} {
		in.ReadShort()
		p := pack.NewProfileStepSplitPack()
		p.Read(in)
		return p
	}, nil)

	for _, n := range []string{"MethodStepX", "SqlStepX", "ResultSetStep", "SocketStep", "HttpcStepX",
		"ActiveStackStep", "MessageStep", "SecureMsgStep", "DBCStep"} {
		reg("ReadStep/"+n, func(in *gio.DataInputX) interface{} { return step.ReadStep(in) }, nil)
	}
	// the step stream: steps back to back until the input is used up (what a profile blob is)
	reg("ReadStep/stream", func(in *gio.DataInputX) interface{} {
		var out []interface{}
		for in.Available() > 0 {
			out = append(out, step.ReadStep(in))
		}
		return out
	}, nil)
	decoders[dec("ReadStep/stream")].NoNet = true
	reg("Read/MessageStepX", func(in *gio.DataInputX) interface{} {
		in.ReadByte()
		p := step.NewMessageStepX()
		p.Read(in)
		return p
	}, nil)
	reg("Read/SqlStep_3", func(in *gio.DataInputX) interface{} {
		p := step.NewSqlStep_3()
		p.Read(in)
		return p
	}, nil)

	reg("TxRecord", func(in *gio.DataInputX) interface{} {
		p := service.NewTxRecord()
		p.Read(in)
		return p
	}, nil)
	for _, n := range []string{"WasService", "AppService", "WasService2"} {
		reg("Service/"+n, func(in *gio.DataInputX) interface{} { return service.ToObject(in) }, nil)
	}

	// primitives
	prim := func(name string, f func(in *gio.DataInputX) interface{}) { reg("DataInputX."+name, f, nil) }
	prim("ReadBool", func(in *gio.DataInputX) interface{} { return in.ReadBool() })
	prim("ReadByte", func(in *gio.DataInputX) interface{} { return in.ReadByte() })
	prim("ReadShort", func(in *gio.DataInputX) interface{} { return in.ReadShort() })
	prim("ReadUShort", func(in *gio.DataInputX) interface{} { return in.ReadUShort() })
	prim("ReadShortLittle", func(in *gio.DataInputX) interface{} { return in.ReadShortLittle() })
	prim("ReadInt3", func(in *gio.DataInputX) interface{} { return in.ReadInt3() })
	prim("ReadInt", func(in *gio.DataInputX) interface{} { return in.ReadInt() })
	prim("ReadUnsignedInt", func(in *gio.DataInputX) interface{} { return in.ReadUnsignedInt() })
	prim("ReadIntLittle", func(in *gio.DataInputX) interface{} { return in.ReadIntLittle() })
	prim("ReadLong5", func(in *gio.DataInputX) interface{} { return in.ReadLong5() })
	prim("ReadLong", func(in *gio.DataInputX) interface{} { return in.ReadLong() })
	prim("ReadFloat", func(in *gio.DataInputX) interface{} { return in.ReadFloat() })
	prim("ReadDouble", func(in *gio.DataInputX) interface{} { return in.ReadDouble() })
	prim("ReadDecimal", func(in *gio.DataInputX) interface{} { return in.ReadDecimal() })
	prim("ReadBlob", func(in *gio.DataInputX) interface{} { return in.ReadBlob() })
	prim("ReadText", func(in *gio.DataInputX) interface{} { return in.ReadText() })
	prim("ReadIntBytes", func(in *gio.DataInputX) interface{} { return in.ReadIntBytes() })
	prim("ReadIntBytesLimit", func(in *gio.DataInputX) interface{} { return in.ReadIntBytesLimit(1 << 20) })
	prim("ReadShortBytes", func(in *gio.DataInputX) interface{} { return in.ReadShortBytes() })
	prim("ReadTextShortLength", func(in *gio.DataInputX) interface{} { return in.ReadTextShortLength() })
	prim("ReadShortArray", func(in *gio.DataInputX) interface{} { return in.ReadShortArray() })
	prim("ReadIntArray", func(in *gio.DataInputX) interface{} { return in.ReadIntArray() })
	prim("ReadLongArray", func(in *gio.DataInputX) interface{} { return in.ReadLongArray() })
	prim("ReadFloatArray", func(in *gio.DataInputX) interface{} { return in.ReadFloatArray() })
	prim("ReadDoubleArray", func(in *gio.DataInputX) interface{} { return in.ReadDoubleArray() })
	prim("ReadTextArray", func(in *gio.DataInputX) interface{} { return in.ReadTextArray() })
	prim("ReadDecimalArray", func(in *gio.DataInputX) interface{} { return in.ReadDecimalArray() })
	prim("ReadDecimalArrayInt", func(in *gio.DataInputX) interface{} { return in.ReadDecimalArrayInt() })

	regSM()
}

// outcome of one decode
type outcome struct {
	Panicked bool
	Consumed bool        // the stream reports no unread byte (meaningful after a normal return)
	Result   interface{} // what the decoder handed back (nil after a panic)
}

// runDecode decodes the byte string b exactly as it is handed over: the stream is created on
// b itself, spare capacity behind len(b) included (inmode.go decides what lies there).
func runDecode(d *decoder, deep bool, b []byte) (o outcome) {
	in := gio.NewDataInputX(b)
	defer func() {
		if e := recover(); e != nil {
			o.Panicked = true
			o.Result = nil
		}
	}()
	if deep && d.Deep != nil {
		o.Result = d.Deep(in)
	} else {
		o.Result = d.Strict(in)
	}
	o.Consumed = in.Available() == 0
	return
}
