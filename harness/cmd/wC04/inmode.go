package main

// Input modes: HOW the bytes are handed to the decoder is a dimension of every buffer-mode
// decode (admission of the valid encoding, every strict prefix, every hostile mutant).
//
// A decoder sees its input as a []byte. The same bytes can arrive
//
//	(a) exact     as an exactly sized private copy (len == cap);
//	(b) resliced  as buf[:k] of a longer buffer: behind the end lies the REST of the original
//	              message (truncation), or the same message again, as in a receive buffer that
//	              holds a stream of messages (complete inputs);
//	(c) stale     as buf[:k] of a buffer whose spare capacity holds stale foreign bytes (a
//	              recognisable canary pattern);
//	(d) subslice  as buf[h:h+k] in the middle of a larger buffer (offset ≠ 0, odd alignment):
//	              canary in front, behind it the rest of the message and canary.
//
// len(input) is the input; what lies in the capacity behind it is NOT input. Go checks slice
// expressions against the capacity, so a decoder that bounds a read by a slice expression (or
// by cap) instead of by the length reads on into whatever the caller's buffer holds there.
// Oracles (decided in the decode server, which owns the buffers; reported by main.go):
//
//   - a strict prefix must end in a recoverable panic in EVERY mode
//     (`…:prefix-accepted/resliced-input@<field>` when only modes b–d return an object);
//   - for every input, outcome (panic / return) and decoded result must be identical in all
//     modes: the result is fingerprinted (reflection walk over everything the decoder
//     returned, private fields included) and compared with mode (a)
//     (`…:result-depends-on-bytes-beyond-input@<field>`); a difference is re-run once, and is
//     only judged when mode (a) reproduces itself (else counted as unstable);
//   - the buffer outside the input (in front of it and behind it) must not be written
//     (`…:wrote-beyond-input@<field>`).
//
// Observed, not judged here (result ownership belongs to C01/C02/C03): a returned object that
// refers to memory of the input buffer (a view), confirmed by overwriting the buffer after the
// decode and fingerprinting the object again.

import (
	"bytes"
	"math"
	"reflect"
	"sort"
	"unsafe"
)

const (
	imExact    = 0
	imResliced = 1
	imStale    = 2
	imSub      = 3
	nIModes    = 4
	imAll      = 1<<imResliced | 1<<imStale | 1<<imSub // mask of the extra modes
)

var imName = [nIModes]string{"exact-copy", "resliced+rest-of-message", "resliced+stale-bytes", "subslice-at-offset"}

// counters-friendly short names
var imShort = [nIModes]string{"exact", "resliced_rest", "resliced_stale", "subslice"}

// per extra mode result flags (uint16 on the wire)
const (
	xRan           = 1 << 0
	xPanicked      = 1 << 1
	xWroteBehind   = 1 << 2
	xWroteBefore   = 1 << 3
	xDiffers       = 1 << 4 // outcome or result differs from mode (a), reproduced
	xUnstable      = 1 << 5 // a difference that did not reproduce (or mode (a) does not reproduce itself)
	xViewBeyond    = 1 << 6 // the result refers to buffer memory outside the input
	xViewInput     = 1 << 7 // the result refers to memory of the input region
	xViewMutable   = 1 << 8 // … and its content changed when the buffer was overwritten afterwards
	xInputModified = 1 << 9 // the decoder changed bytes of its input
)

// tail sizes: what lies behind a complete (hostile / valid) input. Large enough for every
// 16-bit length and for 65536 to fit into the capacity, so that a length check done on the
// capacity lets them through.
const (
	tailLong  = 65536 + 4096
	tailShort = 4096
	tailTrunc = 512 // canary behind the rest of the message (truncation)
	canSize   = 512 << 10
)

// canary pattern: position dependent, recognisable (0xEE every third byte), with small
// numbers in between so that integers read from it are not all negative
var canPat = func() []byte {
	p := make([]byte, canSize)
	for i := range p {
		switch i % 3 {
		case 0:
			p[i] = 0xEE
		case 1:
			p[i] = 0
		default:
			p[i] = byte((i / 3) % 7)
		}
	}
	return p
}()

// canBuf: a working buffer that equals canPat everywhere except in [dlo,dhi)
type canBuf struct {
	b        []byte
	dlo, dhi int
}

func newCanBuf() *canBuf { return &canBuf{b: append([]byte(nil), canPat...)} }

// place puts content at offset off and restores the pattern everywhere else
func (cb *canBuf) place(off int, content []byte) {
	copy(cb.b[cb.dlo:cb.dhi], canPat[cb.dlo:cb.dhi])
	copy(cb.b[off:], content)
	cb.dlo, cb.dhi = off, off+len(content)
}

func (cb *canBuf) reset() {
	copy(cb.b, canPat)
	cb.dlo, cb.dhi = 0, 0
}

// staged: one input laid out for one mode. in = buf[lo:hi] with the capacity running to the
// end of buf. verify reports writes outside the input and changes of the input, and repairs
// the buffer.
type staged struct {
	buf    []byte
	lo, hi int
	verify func() (before, behind, input bool)
}

func (s *staged) input() []byte { return s.buf[s.lo:s.hi] }

// ---- fingerprint -------------------------------------------------------------------------

type visitKey struct {
	p unsafe.Pointer
	t reflect.Type
}

type walker struct {
	h     uint64
	seen  map[visitKey]uint64
	nodes int
	// buffer geometry for view detection (0 = none)
	bufLo, inLo, inHi, bufHi uintptr
	viewIn, viewOut          bool
}

const walkBudget = 4 << 20

var typeIDs = map[reflect.Type]uint64{}

func typeID(t reflect.Type) uint64 {
	id, ok := typeIDs[t]
	if !ok {
		id = uint64(len(typeIDs) + 1)
		typeIDs[t] = id
	}
	return id
}

func (w *walker) mix(x uint64) {
	w.h ^= x
	w.h *= 0x100000001b3
	w.h ^= w.h >> 29
}

func (w *walker) bytes(b []byte) {
	w.mix(uint64(len(b)))
	i := 0
	for ; i+8 <= len(b); i += 8 {
		w.mix(uint64(b[i]) | uint64(b[i+1])<<8 | uint64(b[i+2])<<16 | uint64(b[i+3])<<24 | uint64(b[i+4])<<32 | uint64(b[i+5])<<40 | uint64(b[i+6])<<48 | uint64(b[i+7])<<56)
	}
	var t uint64
	for s := uint(0); i < len(b); i, s = i+1, s+8 {
		t |= uint64(b[i]) << s
	}
	w.mix(t)
}

// mem notes a memory range [p, p+n) held by the result
func (w *walker) mem(p uintptr, n int) {
	if w.bufHi == 0 || n <= 0 || p == 0 {
		return
	}
	e := p + uintptr(n)
	if e <= w.bufLo || p >= w.bufHi {
		return
	}
	if p < w.inHi && e > w.inLo {
		w.viewIn = true
	}
	if p < w.inLo || e > w.inHi {
		w.viewOut = true
	}
}

func (w *walker) walk(v reflect.Value) {
	w.nodes++
	if w.nodes > walkBudget {
		return
	}
	if !v.IsValid() {
		w.mix(0xdead)
		return
	}
	k := v.Kind()
	w.mix(uint64(k))
	switch k {
	case reflect.Bool:
		if v.Bool() {
			w.mix(1)
		} else {
			w.mix(0)
		}
	case reflect.Int, reflect.Int8, reflect.Int16, reflect.Int32, reflect.Int64:
		w.mix(uint64(v.Int()))
	case reflect.Uint, reflect.Uint8, reflect.Uint16, reflect.Uint32, reflect.Uint64, reflect.Uintptr:
		w.mix(v.Uint())
	case reflect.Float32, reflect.Float64:
		w.mix(math.Float64bits(v.Float()))
	case reflect.Complex64, reflect.Complex128:
		c := v.Complex()
		w.mix(math.Float64bits(real(c)))
		w.mix(math.Float64bits(imag(c)))
	case reflect.String:
		s := v.String()
		if len(s) > 0 {
			w.mem(uintptr(unsafe.Pointer(unsafe.StringData(s))), len(s))
		}
		w.bytes(unsafe.Slice(unsafe.StringData(s), len(s)))
	case reflect.Slice:
		if v.IsNil() {
			w.mix(0x5111)
			return
		}
		n := v.Len()
		et := v.Type().Elem()
		if n > 0 {
			w.mem(v.Pointer(), n*int(et.Size()))
		}
		if et.Kind() == reflect.Uint8 {
			w.bytes(v.Bytes())
			return
		}
		w.mix(uint64(n))
		for i := 0; i < n; i++ {
			w.walk(v.Index(i))
		}
	case reflect.Array:
		n := v.Len()
		for i := 0; i < n; i++ {
			w.walk(v.Index(i))
		}
	case reflect.Ptr:
		if v.IsNil() {
			w.mix(0x9111)
			return
		}
		key := visitKey{v.UnsafePointer(), v.Type()}
		if id, ok := w.seen[key]; ok {
			w.mix(0x4ef)
			w.mix(id)
			return
		}
		w.seen[key] = uint64(len(w.seen) + 1)
		w.walk(v.Elem())
	case reflect.Interface:
		if v.IsNil() {
			w.mix(0x1f11)
			return
		}
		e := v.Elem()
		w.mix(typeID(e.Type()))
		w.walk(e)
	case reflect.Map:
		if v.IsNil() {
			w.mix(0x3a11)
			return
		}
		key := visitKey{v.UnsafePointer(), v.Type()}
		if id, ok := w.seen[key]; ok {
			w.mix(0x4ef)
			w.mix(id)
			return
		}
		w.seen[key] = uint64(len(w.seen) + 1)
		keys := v.MapKeys()
		w.mix(uint64(len(keys)))
		// iteration order: by the key's own fingerprint (keys are strings / integers in golib)
		type kv struct {
			h uint64
			k reflect.Value
		}
		ks := make([]kv, len(keys))
		for i, kk := range keys {
			sub := walker{h: 0xcbf29ce484222325, seen: map[visitKey]uint64{}}
			sub.walk(kk)
			ks[i] = kv{sub.h, kk}
		}
		sort.Slice(ks, func(i, j int) bool { return ks[i].h < ks[j].h })
		for _, e := range ks {
			w.mix(e.h)
			w.walk(v.MapIndex(e.k))
		}
	case reflect.Struct:
		n := v.NumField()
		for i := 0; i < n; i++ {
			w.walk(v.Field(i))
		}
	case reflect.Chan, reflect.Func, reflect.UnsafePointer:
		if v.IsNil() {
			w.mix(0)
		} else {
			w.mix(1)
		}
	}
}

// fingerprint of a decode result; st (may be nil) gives the buffer the input lay in
func fingerprint(res interface{}, st *staged) (fp uint64, viewIn, viewOut bool) {
	w := walker{h: 0xcbf29ce484222325, seen: map[visitKey]uint64{}}
	if st != nil && len(st.buf) > 0 {
		base := uintptr(unsafe.Pointer(unsafe.SliceData(st.buf)))
		w.bufLo, w.bufHi = base, base+uintptr(len(st.buf))
		w.inLo, w.inHi = base+uintptr(st.lo), base+uintptr(st.hi)
	}
	w.walk(reflect.ValueOf(&res).Elem())
	if w.nodes > walkBudget {
		w.mix(0x7a11)
	}
	if w.h == 0 {
		w.h = 1
	}
	return w.h, w.viewIn, w.viewOut
}

// ---- the server's buffers --------------------------------------------------------------------

type modeState struct {
	canC, canD *canBuf
	rb         []byte
}

func newModeState() *modeState { return &modeState{canC: newCanBuf(), canD: newCanBuf()} }

func subOffset(n int) int { return 1 + (n*7+3)%29 }

// stageComplete lays out a complete input (hostile mutant / valid encoding) for mode im.
func (ms *modeState) stageComplete(im int, in []byte, tail int) *staged {
	n := len(in)
	switch im {
	case imResliced:
		// the same message again and again behind the input (a stream of messages)
		if n == 0 {
			return nil
		}
		tot := n + tail
		if cap(ms.rb) < tot {
			ms.rb = make([]byte, tot+tot/4)
		}
		rb := ms.rb[:tot:tot]
		copy(rb, in)
		for f := n; f < tot; {
			f += copy(rb[f:], rb[:f])
		}
		return &staged{buf: rb, lo: 0, hi: n, verify: func() (bool, bool, bool) {
			if !bytes.Equal(rb[:n], in) {
				return false, false, true
			}
			return false, !bytes.Equal(rb[n:], rb[:tail]), false
		}}
	case imStale, imSub:
		cb, off := ms.canC, 0
		if im == imSub {
			cb, off = ms.canD, subOffset(n)
		}
		end := off + n + tail
		if end > canSize {
			return nil
		}
		cb.place(off, in)
		buf := cb.b[:end:end]
		return &staged{buf: buf, lo: off, hi: off + n, verify: func() (before, behind, input bool) {
			before = !bytes.Equal(buf[:off], canPat[:off])
			behind = !bytes.Equal(buf[off+n:], canPat[off+n:end])
			input = !bytes.Equal(buf[off:off+n], in)
			if before || behind {
				copy(buf[:off], canPat[:off])
				copy(buf[off+n:], canPat[off+n:end])
			}
			return
		}}
	}
	return nil
}

// truncStage lays out the prefixes of one valid encoding.
type truncStage struct {
	ms      *modeState
	enc     []byte
	full    []byte // mode (b): a private copy of the whole encoding
	dPlaced bool
}

func (ms *modeState) newTruncStage(enc []byte) *truncStage {
	return &truncStage{ms: ms, enc: enc}
}

func (ts *truncStage) stage(im, k int) *staged {
	enc, n := ts.enc, len(ts.enc)
	switch im {
	case imResliced:
		if ts.full == nil {
			ts.full = make([]byte, n)
			copy(ts.full, enc)
		}
		full := ts.full
		return &staged{buf: full, lo: 0, hi: k, verify: func() (before, behind, input bool) {
			behind = !bytes.Equal(full[k:], enc[k:])
			input = !bytes.Equal(full[:k], enc[:k])
			if behind || input {
				copy(full, enc)
			}
			return
		}}
	case imStale:
		end := n + tailTrunc
		if end > canSize {
			return nil
		}
		cb := ts.ms.canC
		cb.place(0, enc[:k])
		buf := cb.b[:end:end]
		return &staged{buf: buf, lo: 0, hi: k, verify: func() (before, behind, input bool) {
			behind = !bytes.Equal(buf[k:], canPat[k:end])
			input = !bytes.Equal(buf[:k], enc[:k])
			if behind {
				copy(buf[k:], canPat[k:end])
			}
			return
		}}
	case imSub:
		off := subOffset(n)
		end := off + n + tailTrunc
		if end > canSize {
			return nil
		}
		cb := ts.ms.canD
		if !ts.dPlaced {
			cb.place(off, enc)
			ts.dPlaced = true
		}
		buf := cb.b[:end:end]
		return &staged{buf: buf, lo: off, hi: off + k, verify: func() (before, behind, input bool) {
			before = !bytes.Equal(buf[:off], canPat[:off])
			behind = !bytes.Equal(buf[off+k:off+n], enc[k:]) || !bytes.Equal(buf[off+n:], canPat[off+n:end])
			input = !bytes.Equal(buf[off:off+k], enc[:k])
			if before || behind || input {
				cb.place(off, enc)
			}
			return
		}}
	}
	return nil
}

func (ts *truncStage) dirty() {
	ts.full = nil
	ts.dPlaced = false
	ts.ms.canC.reset()
	ts.ms.canD.reset()
}

// ---- one input, all modes ----------------------------------------------------------------

type fullResult struct {
	m  measure
	fp uint64 // fingerprint of the mode-(a) result (0 after a panic)
	x  [nIModes]uint16
}

// decodeModes: the measured decode of the exact copy (mode a), then the extra modes in mask.
// stage(im) lays the input out; redo() is called after a buffer was overwritten on purpose.
func decodeModes(d *decoder, deep bool, exact []byte, mask int, stage func(im int) *staged, redo func(), prog func(im int)) fullResult {
	var fr fullResult
	prog(imExact)
	var oA outcome
	fr.m, oA = measuredDecode(d, deep, exact)
	stA := &staged{buf: exact, lo: 0, hi: len(exact)}
	var viewA bool
	if !oA.Panicked && mask != 0 {
		fr.fp, viewA, _ = fingerprint(oA.Result, stA)
		if viewA {
			fr.m.ViewInput = true
		}
	}
	for im := 1; im < nIModes; im++ {
		if mask&(1<<im) == 0 {
			continue
		}
		st := stage(im)
		if st == nil {
			continue
		}
		prog(im)
		fl := uint16(xRan)
		o := runDecode(d, deep, st.input())
		var fp uint64
		var vIn, vOut bool
		if o.Panicked {
			fl |= xPanicked
		} else {
			fp, vIn, vOut = fingerprint(o.Result, st)
		}
		before, behind, input := st.verify()
		if before {
			fl |= xWroteBefore
		}
		if behind {
			fl |= xWroteBehind
		}
		if input {
			fl |= xInputModified
		}
		if vIn {
			fl |= xViewInput
		}
		if vOut {
			fl |= xViewBeyond
		}
		if vIn || vOut {
			// does the object change when the caller reuses the buffer?
			for i := range st.buf {
				st.buf[i] = 0xA5
			}
			fp2, _, _ := fingerprint(o.Result, nil)
			if fp2 != fp {
				fl |= xViewMutable
			}
			redo()
		}
		if o.Panicked != oA.Panicked || (!o.Panicked && fp != fr.fp) {
			// re-run both: judged only when mode (a) reproduces itself and the difference stays
			cp := make([]byte, len(exact))
			copy(cp, exact)
			a2 := runDecode(d, deep, cp)
			var fa2 uint64
			if !a2.Panicked {
				fa2, _, _ = fingerprint(a2.Result, nil)
			}
			redo()
			var fx2 uint64
			x2 := outcome{Panicked: true}
			if st2 := stage(im); st2 != nil {
				x2 = runDecode(d, deep, st2.input())
				if !x2.Panicked {
					fx2, _, _ = fingerprint(x2.Result, nil)
				}
				st2.verify()
			}
			stableA := a2.Panicked == oA.Panicked && fa2 == fr.fp
			still := x2.Panicked != oA.Panicked || (!x2.Panicked && fx2 != fr.fp)
			if stableA && still {
				fl |= xDiffers
			} else {
				fl |= xUnstable
			}
		}
		fr.x[im] = fl
	}
	return fr
}
