// Value GRAPHS: golib values whose sub-objects are shared, next to a model with the same sharing.
//
// The generator (valgen) builds trees of distinct objects. A caller of golib can do more: put
// the SAME list / map / scalar object at two positions of one value (twice into a list, under
// two keys of a map, at different depths), into two values that are written one after the
// other into one output, and keep a handle to a nested container and change it later. The
// value format has no references: what is written for such a graph is the encoding of its
// tree unfolding, and a change made through any handle shows at every position.
//
// mnode is one object of the model graph; it carries the golib object (g) that was built for
// it, so that the same *mnode at two positions means the same golib object at two positions.
// tree() is the unfolding — a plain refcodec.V the reference encoder and valgen.Equal work on.
// Cycles are never built (a value of the model is finite): an object is only inserted into a
// container that is not reachable from it.
package main

import (
	"fmt"

	"github.com/whatap/golib/lang/value"

	"verif/refcodec"
	"verif/valgen"
	"verif/vlib"
)

type mnode struct {
	id    int
	tag   byte
	leaf  V        // payload of a non-container (private to the model)
	items []*mnode // TList
	keys  []string // TMap
	ikeys []int32  // TIntMap
	vals  []*mnode // TMap, TIntMap
	g     value.Value
	born  string // built | decoded | AddString | NewList …: how the golib object came to be
}

func (n *mnode) name() string {
	return fmt.Sprintf("#%d(%s)", n.id, refcodec.ValueTagName(n.tag))
}

func (n *mnode) kids() []*mnode {
	switch n.tag {
	case refcodec.TList:
		return n.items
	case refcodec.TMap, refcodec.TIntMap:
		return n.vals
	}
	return nil
}

func (n *mnode) container() bool { return valgen.IsContainer(n.tag) }

// tree is the tree unfolding of the graph below n.
func (n *mnode) tree() V {
	switch n.tag {
	case refcodec.TList:
		v := V{Tag: n.tag}
		if len(n.items) > 0 {
			v.List = make([]V, len(n.items))
			for i, k := range n.items {
				v.List[i] = k.tree()
			}
		}
		return v
	case refcodec.TMap:
		v := V{Tag: n.tag}
		if len(n.keys) > 0 {
			v.Keys = append([]string(nil), n.keys...)
			v.Vals = make([]V, len(n.vals))
			for i, k := range n.vals {
				v.Vals[i] = k.tree()
			}
		}
		return v
	case refcodec.TIntMap:
		v := V{Tag: n.tag}
		if len(n.ikeys) > 0 {
			v.IntKeys = append([]int32(nil), n.ikeys...)
			v.Vals = make([]V, len(n.vals))
			for i, k := range n.vals {
				v.Vals[i] = k.tree()
			}
		}
		return v
	}
	return n.leaf
}

// usize is the number of nodes of the tree unfolding below n.
func usize(n *mnode, memo map[*mnode]int) int {
	if s, ok := memo[n]; ok {
		return s
	}
	s := 1
	for _, k := range n.kids() {
		s += usize(k, memo)
	}
	memo[n] = s
	return s
}

// udepth is the number of container levels of the unfolding below n.
func udepth(n *mnode, memo map[*mnode]int) int {
	if d, ok := memo[n]; ok {
		return d
	}
	d := 0
	if n.container() {
		d = 1
		for _, k := range n.kids() {
			if x := udepth(k, memo) + 1; x > d {
				d = x
			}
		}
	}
	memo[n] = d
	return d
}

// mult is the number of positions target takes in the unfolding of root.
func mult(root, target *mnode, memo map[*mnode]int) int {
	if root == target {
		return 1
	}
	if m, ok := memo[root]; ok {
		return m
	}
	m := 0
	for _, k := range root.kids() {
		m += mult(k, target, memo)
	}
	memo[root] = m
	return m
}

func reaches(from, target *mnode, seen map[*mnode]bool) bool {
	if from == target {
		return true
	}
	if seen[from] {
		return false
	}
	seen[from] = true
	for _, k := range from.kids() {
		if reaches(k, target, seen) {
			return true
		}
	}
	return false
}

// sharedPositions counts the objects below root that take more than one position in its
// unfolding (containers separately), and whether one of them sits at two different depths.
func sharedPositions(root *mnode) (objects, containers int, depths bool) {
	at := map[*mnode]map[int]int{}
	var walk func(n *mnode, d int)
	walk = func(n *mnode, d int) {
		if at[n] == nil {
			at[n] = map[int]int{}
		}
		at[n][d]++
		for _, k := range n.kids() {
			walk(k, d+1)
		}
	}
	walk(root, 0)
	for n, ds := range at {
		total := 0
		for _, c := range ds {
			total += c
		}
		if total > 1 {
			objects++
			if n.container() {
				containers++
				if len(ds) > 1 {
					depths = true
				}
			}
		}
	}
	return
}

func cloneLeaf(v V) V {
	w := v
	if v.B != nil {
		w.B = append(make([]byte, 0, len(v.B)), v.B...)
	}
	if v.Ints != nil {
		w.Ints = append(make([]int32, 0, len(v.Ints)), v.Ints...)
	}
	if v.Longs != nil {
		w.Longs = append(make([]int64, 0, len(v.Longs)), v.Longs...)
	}
	if v.Floats != nil {
		w.Floats = append(make([]float32, 0, len(v.Floats)), v.Floats...)
	}
	if v.Texts != nil {
		w.Texts = append(make([]string, 0, len(v.Texts)), v.Texts...)
	}
	if v.DS != nil {
		d := *v.DS
		w.DS = &d
	}
	if v.LS != nil {
		d := *v.LS
		w.LS = &d
	}
	return w
}

// ---- a world: the objects one case owns ---------------------------------------------------------

type world struct {
	r     *vlib.Rand
	nodes []*mnode // every object of the case, attached to a root or only held by the caller
	roots []*mnode
	limit int // bound on the unfolded size of a root
	share int // chance in 100 that a position is filled with an object that exists already
	log   []string
	cnt   map[string]int64
}

func newWorld(r *vlib.Rand, limit, share int) *world {
	return &world{r: r, limit: limit, share: share, cnt: map[string]int64{}}
}

func (w *world) logf(f string, a ...interface{}) {
	if len(w.log) < 300 {
		w.log = append(w.log, fmt.Sprintf(f, a...))
	}
}

func (w *world) add(n *mnode) *mnode {
	n.id = len(w.nodes)
	w.nodes = append(w.nodes, n)
	return n
}

// leafNode makes a new non-container object from its model.
func (w *world) leafNode(v V, born string) *mnode {
	v = cloneLeaf(v)
	return w.add(&mnode{tag: v.Tag, leaf: v, g: valgen.ToGolib(v), born: born})
}

// fromTree builds distinct objects for a tree the generator drew.
func (w *world) fromTree(v V) *mnode {
	switch v.Tag {
	case refcodec.TList:
		l := value.NewListValue(nil)
		n := &mnode{tag: v.Tag, g: l, born: "built"}
		for i := range v.List {
			k := w.fromTree(v.List[i])
			n.items = append(n.items, k)
			l.Add(k.g)
		}
		return w.add(n)
	case refcodec.TMap:
		m := value.NewMapValue()
		n := &mnode{tag: v.Tag, g: m, born: "built"}
		for i := range v.Keys {
			k := w.fromTree(v.Vals[i])
			n.keys = append(n.keys, v.Keys[i])
			n.vals = append(n.vals, k)
			m.Put(v.Keys[i], k.g)
		}
		return w.add(n)
	case refcodec.TIntMap:
		m := value.NewIntMapValue()
		n := &mnode{tag: v.Tag, g: m, born: "built"}
		for i := range v.IntKeys {
			k := w.fromTree(v.Vals[i])
			n.ikeys = append(n.ikeys, v.IntKeys[i])
			n.vals = append(n.vals, k)
			m.Put(v.IntKeys[i], k.g)
		}
		return w.add(n)
	}
	return w.leafNode(v, "built")
}

// adopt walks a golib value the library made (a decoded one, the list a helper returned) and
// makes model objects for the objects it consists of. The caller compares adopt(x).tree()
// with what x must hold.
func (w *world) adopt(x value.Value, born string) *mnode {
	switch t := x.(type) {
	case *value.ListValue:
		n := &mnode{tag: refcodec.TList, g: x, born: born}
		for i := 0; i < t.Size(); i++ {
			n.items = append(n.items, w.adopt(t.Get(i), born))
		}
		return w.add(n)
	case *value.MapValue:
		n := &mnode{tag: refcodec.TMap, g: x, born: born}
		for en := t.Keys(); en.HasMoreElements(); {
			k := en.NextString()
			n.keys = append(n.keys, k)
			n.vals = append(n.vals, w.adopt(t.Get(k), born))
		}
		return w.add(n)
	case *value.IntMapValue:
		n := &mnode{tag: refcodec.TIntMap, g: x, born: born}
		for en := t.Keys(); en.HasMoreElements(); {
			k := en.NextInt()
			n.ikeys = append(n.ikeys, k)
			n.vals = append(n.vals, w.adopt(t.Get(k), born))
		}
		return w.add(n)
	}
	v := cloneLeaf(valgen.FromGolib(x))
	return w.add(&mnode{tag: v.Tag, leaf: v, g: x, born: born})
}

// candidate draws an existing object that may take one more position: below the size left.
func (w *world) candidate(room int, wantContainer bool) *mnode {
	if len(w.nodes) == 0 {
		return nil
	}
	memo := map[*mnode]int{}
	for try := 0; try < 6; try++ {
		x := w.nodes[w.r.Intn(len(w.nodes))]
		if wantContainer && !x.container() {
			continue
		}
		if usize(x, memo) <= room {
			return x
		}
	}
	return nil
}

// grow draws the object for one position: an existing one (shared) or a new one.
func (w *world) grow(depth, width int, budget *int) *mnode {
	r := w.r
	if r.Intn(100) < w.share {
		if x := w.candidate(*budget, r.Chance(2, 3)); x != nil {
			*budget -= usize(x, map[*mnode]int{})
			w.cnt["graph_positions_shared"]++
			return x
		}
	}
	*budget--
	if depth > 0 && *budget > 0 && r.Chance(1, 2) {
		n := r.Intn(width + 1)
		if n > *budget {
			n = *budget
		}
		switch contTags[r.Intn(3)] {
		case refcodec.TList:
			l := value.NewListValue(nil)
			x := &mnode{tag: refcodec.TList, g: l, born: "built"}
			for i := 0; i < n; i++ {
				k := w.grow(depth-1, width, budget)
				// the same object twice in a row: the plainest sharing there is
				x.items = append(x.items, k)
				l.Add(k.g)
				if r.Chance(1, 6) && usize(k, map[*mnode]int{}) <= *budget {
					*budget -= usize(k, map[*mnode]int{})
					x.items = append(x.items, k)
					l.Add(k.g)
					w.cnt["graph_positions_shared"]++
				}
			}
			return w.add(x)
		case refcodec.TMap:
			m := value.NewMapValue()
			x := &mnode{tag: refcodec.TMap, g: m, born: "built"}
			for i, key := range valgen.StrKeys(r, n) {
				var k *mnode
				if i > 0 && r.Chance(1, 6) && usize(x.vals[i-1], map[*mnode]int{}) <= *budget {
					k = x.vals[i-1] // one object under two keys
					*budget -= usize(k, map[*mnode]int{})
					w.cnt["graph_positions_shared"]++
				} else {
					k = w.grow(depth-1, width, budget)
				}
				x.keys = append(x.keys, key)
				x.vals = append(x.vals, k)
				m.Put(key, k.g)
			}
			return w.add(x)
		default:
			m := value.NewIntMapValue()
			x := &mnode{tag: refcodec.TIntMap, g: m, born: "built"}
			for i, key := range valgen.IntKeys(r, n) {
				var k *mnode
				if i > 0 && r.Chance(1, 6) && usize(x.vals[i-1], map[*mnode]int{}) <= *budget {
					k = x.vals[i-1]
					*budget -= usize(k, map[*mnode]int{})
					w.cnt["graph_positions_shared"]++
				} else {
					k = w.grow(depth-1, width, budget)
				}
				x.ikeys = append(x.ikeys, key)
				x.vals = append(x.vals, k)
				m.Put(key, k.g)
			}
			return w.add(x)
		}
	}
	if r.Chance(1, 8) {
		return w.fromTree(V{Tag: contTags[r.Intn(3)]}) // an empty container
	}
	return w.leafNode(valgen.Leaf(r, 3), "built")
}

// root draws one more top-level value of the case (sharing with what exists already).
func (w *world) root(depth, width int) *mnode {
	budget := w.limit
	var n *mnode
	if w.r.Chance(3, 4) {
		if depth < 1 {
			depth = 1
		}
		n = w.growTop(depth, width, &budget)
	} else {
		n = w.grow(depth, width, &budget)
	}
	w.roots = append(w.roots, n)
	return n
}

// growTop: a new non-empty container at the top; its positions are drawn by grow.
func (w *world) growTop(depth, width int, budget *int) *mnode {
	n := w.r.Range(1, width+1)
	*budget--
	switch tag := contTags[w.r.Intn(3)]; tag {
	case refcodec.TList:
		l := value.NewListValue(nil)
		x := &mnode{tag: tag, g: l, born: "built"}
		for i := 0; i < n && *budget > 0; i++ {
			k := w.grow(depth-1, width, budget)
			x.items = append(x.items, k)
			l.Add(k.g)
		}
		return w.add(x)
	case refcodec.TMap:
		m := value.NewMapValue()
		x := &mnode{tag: tag, g: m, born: "built"}
		for _, key := range valgen.StrKeys(w.r, n) {
			if *budget <= 0 {
				break
			}
			k := w.grow(depth-1, width, budget)
			x.keys = append(x.keys, key)
			x.vals = append(x.vals, k)
			m.Put(key, k.g)
		}
		return w.add(x)
	default:
		m := value.NewIntMapValue()
		x := &mnode{tag: tag, g: m, born: "built"}
		for _, key := range valgen.IntKeys(w.r, n) {
			if *budget <= 0 {
				break
			}
			k := w.grow(depth-1, width, budget)
			x.ikeys = append(x.ikeys, key)
			x.vals = append(x.vals, k)
			m.Put(key, k.g)
		}
		return w.add(x)
	}
}

// fits tells whether x may take one more position inside container y: no cycle, and every
// root stays below the size bound.
func (w *world) fits(y, x *mnode) bool {
	if reaches(x, y, map[*mnode]bool{}) {
		return false
	}
	sx := usize(x, map[*mnode]int{})
	if sx > w.limit {
		return false
	}
	dx := udepth(x, map[*mnode]int{})
	for _, root := range w.roots {
		m := mult(root, y, map[*mnode]int{})
		if m == 0 {
			continue
		}
		if usize(root, map[*mnode]int{})+m*sx > w.limit {
			return false
		}
		if udepth(root, map[*mnode]int{})+dx > 40 {
			return false
		}
	}
	// y may be held by the caller only and put back later: bound it on its own as well
	return usize(y, map[*mnode]int{})+sx <= w.limit
}
