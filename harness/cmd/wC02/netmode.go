// Connection-backed decoding. golib's DataInputX has two input modes: a byte buffer
// (io.NewDataInputX) and a net.Conn (io.NewDataInputNet), where every primitive read loops over
// conn.Read until it has its bytes and Available() is not meaningful (it stays 0). The property
// quantifies over all values, not over one input mode, so the same encoding is decoded a
// second time from one end of a net.Pipe while a goroutine writes encoding+sentinel into the
// other end in fragments of random size (1 byte … the whole encoding).
//
// Nothing here can hang: the writer closes its end when everything is written (a decoder that
// asks for more bytes than were sent gets io.EOF at once), both ends carry a deadline, the
// decode runs in its own goroutine under a watchdog that closes the pipe. A deadline or the
// watchdog firing is an inconclusive case, never a pass or a failure.
package main

import (
	"errors"
	"fmt"
	stdio "io"
	"net"
	"os"
	"time"

	gio "github.com/whatap/golib/io"
	"github.com/whatap/golib/lang/value"

	"verif/vlib"
)

// backstops only (wall clock never decides pass/fail; it can only make a case inconclusive)
const (
	netDeadline = 120 * time.Second
	netWatchdog = 150 * time.Second
)

// tapConn is the reader's end: it forwards to the pipe and records what the decoder saw.
type tapConn struct {
	net.Conn
	reads   int64 // Read calls made by the decoder
	short   int64 // Read calls that returned fewer bytes than the decoder's buffer had room for
	got     int64 // bytes handed to the decoder
	lastErr error // last error returned to the decoder
}

func (t *tapConn) Read(b []byte) (int, error) {
	n, err := t.Conn.Read(b)
	t.reads++
	t.got += int64(n)
	if n < len(b) {
		t.short++
	}
	if err != nil {
		t.lastErr = err
	}
	return n, err
}

type netOutcome struct {
	d            value.Value
	panicked     interface{} // panic of value.ReadValue
	readErr      error       // last error the connection returned to the decoder
	inconclusive string      // non-empty: a deadline/watchdog fired (reason)
	consumed     int64       // bytes the decoder took from the connection
	after        []byte      // the bytes read from the connection right after the decode
	afterErr     error
	reads, short int64
	fragments    int
	plan         string
}

func isTimeout(err error) bool {
	if err == nil {
		return false
	}
	if errors.Is(err, os.ErrDeadlineExceeded) {
		return true
	}
	var ne net.Error
	return errors.As(err, &ne) && ne.Timeout()
}

// fragmentPlan returns the sizes of the successive writes for a payload of n bytes.
func fragmentPlan(n int, fr *vlib.Rand) (sizes []int, plan string) {
	if n == 0 {
		return nil, "empty"
	}
	const maxFragments = 16384
	emit := func(next func(left int) int) {
		for left := n; left > 0; {
			k := next(left)
			if k < 1 {
				k = 1
			}
			if len(sizes) >= maxFragments-1 || k > left {
				k = left
			}
			sizes = append(sizes, k)
			left -= k
		}
	}
	mode := fr.Intn(7)
	if mode == 1 && n > 4096 {
		mode = 2
	}
	if mode == 2 && n > 65536 {
		mode = 4
	}
	switch mode {
	case 0:
		plan = "whole"
		sizes = []int{n}
	case 1:
		plan = "1-byte"
		emit(func(int) int { return 1 })
	case 2:
		plan = "1..8"
		emit(func(int) int { return 1 + fr.Intn(8) })
	case 3:
		plan = "uniform-1..rest"
		emit(func(left int) int { return 1 + fr.Intn(left) })
	case 4:
		plan = "powers-of-two"
		bits := 1
		for 1<<bits < n {
			bits++
		}
		emit(func(int) int { return 1<<fr.Intn(bits+1) - fr.Intn(2) })
	case 5:
		plan = "two-pieces"
		cut := fr.Intn(n + 1)
		if cut > 0 {
			sizes = append(sizes, cut)
		}
		if n-cut > 0 {
			sizes = append(sizes, n-cut)
		}
	default:
		plan = "1..64"
		lim := 64
		if n > 1<<18 {
			lim = n / 4096
		}
		emit(func(int) int { return 1 + fr.Intn(lim) })
	}
	return sizes, plan
}

// netDecode decodes enc through a connection-backed DataInputX. sentinel follows the encoding
// on the wire; after the decode exactly len(sentinel) bytes are read from the connection.
func netDecode(enc, sentinel []byte, fr *vlib.Rand) *netOutcome {
	o := &netOutcome{}
	payload := append(append(make([]byte, 0, len(enc)+len(sentinel)), enc...), sentinel...)
	sizes, plan := fragmentPlan(len(payload), fr)
	o.fragments, o.plan = len(sizes), plan

	rd, wr := net.Pipe()
	deadline := time.Now().Add(netDeadline)
	rd.SetDeadline(deadline)
	wr.SetDeadline(deadline)

	var wErr error
	wDone := make(chan struct{})
	go func() {
		defer close(wDone)
		defer wr.Close() // everything sent: a further read of the decoder ends with io.EOF, it does not block
		off := 0
		for _, k := range sizes {
			if _, err := wr.Write(payload[off : off+k]); err != nil {
				wErr = err
				return
			}
			off += k
		}
	}()

	tap := &tapConn{Conn: rd}
	dDone := make(chan struct{})
	go func() {
		defer close(dDone)
		o.panicked = vlib.Catch(func() { o.d = value.ReadValue(gio.NewDataInputNet(tap)) })
		if o.panicked == nil {
			o.consumed = tap.got
			o.after = make([]byte, len(sentinel))
			n, err := stdio.ReadFull(rd, o.after)
			o.after, o.afterErr = o.after[:n], err
		}
	}()
	wd := time.NewTimer(netWatchdog)
	select {
	case <-dDone:
		wd.Stop()
	case <-wd.C:
		rd.Close()
		wr.Close()
		o.inconclusive = fmt.Sprintf("connection-backed decode of %d bytes (%s fragments) did not return within the %s watchdog", len(enc), plan, netWatchdog)
		return o // the decode goroutine is abandoned; the closed pipe fails any further read
	}
	rd.Close() // releases a writer still blocked because the decoder stopped early
	<-wDone
	o.reads, o.short, o.readErr = tap.reads, tap.short, tap.lastErr
	switch {
	case isTimeout(tap.lastErr) || isTimeout(o.afterErr):
		o.inconclusive = fmt.Sprintf("the %s deadline of the pipe fired during the connection-backed decode of %d bytes (%s fragments)", netDeadline, len(enc), plan)
	case isTimeout(wErr):
		o.inconclusive = fmt.Sprintf("the %s deadline of the pipe fired in the writer (%d bytes, %s fragments)", netDeadline, len(enc), plan)
	}
	return o
}
