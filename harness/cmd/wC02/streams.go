// Streams: many values through ONE output and ONE input.
//
// The round trips of main.go give every value a fresh DataOutputX and a fresh DataInputX.
// A writer or a reader that keeps state in the output / input object — a counter, a set, a
// scratch buffer, a depth — and carries it from one value to the next is right for every
// first value and wrong later. Here 100 … 3000 values are written one after the other into one
// DataOutputX (the bytes must be the concatenation of the reference encodings) and read back
// one after the other from ONE DataInputX over the byte buffer and from ONE connection-backed
// DataInputX fed in fragments; after each value the decoded value is compared with its model
// and the bytes consumed so far with the length of the reference encodings so far.
//
// The wide-nested shapes put the same load inside a single value: wide lists / maps / int maps
// (600 … 5000 entries) whose entries are empty and non-empty containers of every container
// type, followed by a nested tail.
package main

import (
	"bytes"
	"fmt"
	stdio "io"
	"net"
	"time"

	gio "github.com/whatap/golib/io"
	"github.com/whatap/golib/lang/value"

	"verif/refcodec"
	"verif/valgen"
	"verif/vlib"
)

// streamFailure names the value of the stream the failure belongs to.
type streamFailure struct {
	failure
	index int
}

func sfail(i int, kind, what string, detail map[string]interface{}) *streamFailure {
	return &streamFailure{failure{kind, what, detail}, i}
}

type streamInfo struct {
	bytes      int
	netDecoded bool
	netReads   int64
	netShort   int64
	fragments  int
	plan       string
}

// streamRoundTrip writes objs[i] (whose models are models[i]) into one output and reads them
// back from one input per mode. sameOutput objects may repeat (the same object written twice).
func streamRoundTrip(models []V, objs []value.Value, fr *vlib.Rand, withNet bool) (*streamFailure, *streamInfo) {
	n := len(models)
	refs := make([][]byte, n)
	cum := make([]int, n+1)
	for i := range models {
		refs[i] = refcodec.EncodeValue(models[i])
		cum[i+1] = cum[i] + len(refs[i])
	}
	around := func(i int) map[string]interface{} {
		m := map[string]interface{}{"values_in_stream": n, "index": i, "value": valgen.Render(models[i], 1500),
			"reference_encoding_hex": vlib.Hex(refs[i]), "stream_offset": cum[i]}
		var prev []string
		for j := i - 3; j < i; j++ {
			if j >= 0 {
				prev = append(prev, valgen.Render(models[j], 200))
			}
		}
		m["previous_values"] = prev
		kinds := map[string]int{}
		for j := 0; j < i; j++ {
			k := refcodec.ValueTagName(models[j].Tag)
			if valgen.IsContainer(models[j].Tag) && len(valgen.Children(&models[j])) == 0 {
				k += ":empty"
			}
			kinds[k]++
		}
		m["values_before_it_by_kind"] = kinds
		return m
	}

	// ---- one output ------------------------------------------------------------------------
	out := gio.NewDataOutputX()
	for i := range objs {
		before := len(out.ToByteArray())
		if p := vlib.Catch(func() { value.WriteValue(out, objs[i]) }); p != nil {
			return sfail(i, "encode-panics/stream", fmt.Sprintf("WriteValue of value %d of %d into one output panics: %v", i, n, p), around(i)), nil
		}
		all := out.ToByteArray()
		if before != cum[i] || !bytes.Equal(all[before:], refs[i]) {
			got := all[before:]
			off := firstDiff(got, refs[i])
			d := around(i)
			d["golib_hex"] = vlib.Hex(got)
			d["first_diff"] = off
			return sfail(i, "bytes-differ/stream",
				fmt.Sprintf("value %d of %d written into one output (after %d bytes of earlier values): bytes differ from the reference encoding at offset %d (golib %d bytes, reference %d bytes); the same value written into a fresh output: %s",
					i, n, before, off, len(got), len(refs[i]), freshVerdict(objs[i], refs[i])), d), nil
		}
	}
	stream := append([]byte(nil), out.ToByteArray()...)
	if !bytes.Equal(stream[:cum[n]], bytes.Join(refs, nil)) || len(stream) != cum[n] {
		return sfail(0, "bytes-differ/stream", "after all values were written the output no longer holds the concatenation of their encodings (earlier bytes changed)", nil), nil
	}
	info := &streamInfo{bytes: len(stream)}

	// ---- one buffer-backed input -----------------------------------------------------------
	input := append(append(make([]byte, 0, len(stream)+len(canary)), stream...), canary...)
	in := gio.NewDataInputX(input)
	decoded := make([]value.Value, n)
	for i := 0; i < n; i++ {
		var d value.Value
		if p := vlib.Catch(func() { d = value.ReadValue(in) }); p != nil {
			return sfail(i, "decode-panics/stream",
				fmt.Sprintf("ReadValue of value %d of %d from one input panics: %v — %s", i, n, p, aloneVerdict(refs[i], models[i])), around(i)), nil
		}
		if left := int(in.Available()); left != len(input)-cum[i+1] {
			d := around(i)
			d["available"] = left
			return sfail(i, "not-consumed/stream",
				fmt.Sprintf("after value %d of %d was read from one input %d bytes are consumed, want %d (the reference encodings so far)", i, n, len(input)-left, cum[i+1]), d), nil
		}
		if f := compareDecoded(i, n, models[i], d, "one byte-buffer input", refs[i], around); f != nil {
			return f, nil
		}
		decoded[i] = d
	}
	var rest []byte
	if p := vlib.Catch(func() { rest = in.ReadBytes(int32(len(canary))) }); p != nil || !bytes.Equal(rest, canary) {
		return sfail(n-1, "not-consumed/stream", fmt.Sprintf("the bytes following the last value of the stream are %x, want the canary %x", rest, canary), nil), nil
	}
	// the decoded values written again into one output reproduce the stream
	out2 := gio.NewDataOutputX()
	for i := range decoded {
		before := len(out2.ToByteArray())
		if p := vlib.Catch(func() { value.WriteValue(out2, decoded[i]) }); p != nil {
			return sfail(i, "reencode-panics/stream", fmt.Sprintf("WriteValue of decoded value %d of %d into one output panics: %v", i, n, p), around(i)), nil
		}
		if got := out2.ToByteArray()[before:]; !bytes.Equal(got, refs[i]) {
			d := around(i)
			d["reencoded_hex"] = vlib.Hex(got)
			return sfail(i, "reencode-differs/stream", fmt.Sprintf("decoded value %d of %d written again into one output differs from its encoding at offset %d", i, n, firstDiff(got, refs[i])), d), nil
		}
	}
	// the first decode still holds after everything else was decoded and written
	for i := range decoded {
		var dv V
		p := vlib.Catch(func() { dv = valgen.FromGolib(decoded[i]) })
		if ok, path := valgen.Equal(models[i], dv); p != nil || !ok {
			d := around(i)
			d["path"] = path
			return sfail(i, "not-restored@"+lastSegments(valgen.PathKind(path), 1)+"/stream-later",
				fmt.Sprintf("value %d of %d equalled its model when it was decoded and differs at %s after the rest of the stream was decoded and written (panic %v)", i, n, path, p), d), nil
		}
	}
	if !withNet {
		return nil, info
	}

	// ---- one connection-backed input -------------------------------------------------------
	o := netDecodeStream(stream, cum, canary, fr)
	info.fragments, info.plan = o.fragments, o.plan
	if o.inconclusive != "" {
		return sfail(0, kindInconclusive, o.inconclusive, nil), nil
	}
	netDetail := func(i int) map[string]interface{} {
		d := around(i)
		d["input_mode"] = "one io.NewDataInputNet(net.Pipe end) for the whole stream"
		d["fragment_plan"] = o.plan
		d["fragments"] = o.fragments
		return d
	}
	for i := 0; i < len(o.values); i++ {
		if o.consumed[i] != int64(cum[i+1]) {
			d := netDetail(i)
			d["consumed"] = o.consumed[i]
			return sfail(i, "not-consumed/stream-net-mode",
				fmt.Sprintf("after value %d of %d was read from one connection %d bytes were taken from it, want %d", i, n, o.consumed[i], cum[i+1]), d), nil
		}
		if f := compareDecoded(i, n, models[i], o.values[i], "one connection-backed input", refs[i], netDetail); f != nil {
			f.kind += "-net-mode"
			return f, nil
		}
	}
	if o.panicked != nil {
		i := len(o.values)
		d := netDetail(i)
		d["last_conn_read_error"] = fmt.Sprint(o.readErr)
		return sfail(i, "decode-panics/stream-net-mode",
			fmt.Sprintf("ReadValue of value %d of %d from one connection panics (the same stream decodes from a byte buffer): %v", i, n, o.panicked), d), nil
	}
	if !bytes.Equal(o.after, canary) {
		return sfail(n-1, "not-consumed/stream-net-mode", fmt.Sprintf("after the %d values of the stream the next bytes on the connection are %x (err %v), want the sentinel %x", n, o.after, o.afterErr, canary), nil), nil
	}
	info.netDecoded, info.netReads, info.netShort = true, o.reads, o.short
	return nil, info
}

func compareDecoded(i, n int, model V, d value.Value, from string, ref []byte, detail func(int) map[string]interface{}) *streamFailure {
	if d == nil {
		return sfail(i, "not-restored@nil/stream", fmt.Sprintf("ReadValue of value %d of %d from %s returned nil", i, n, from), detail(i))
	}
	if gt := d.GetValueType(); gt != model.Tag {
		return sfail(i, "not-restored@type/stream", fmt.Sprintf("value %d of %d read from %s reports type code %d, want %d", i, n, from, gt, model.Tag), detail(i))
	}
	var dv V
	if p := vlib.Catch(func() { dv = valgen.FromGolib(d) }); p != nil {
		return sfail(i, "not-restored@walk-panics/stream", fmt.Sprintf("walking value %d of %d read from %s panics: %v", i, n, from, p), detail(i))
	}
	if ok, path := valgen.Equal(model, dv); !ok {
		m := detail(i)
		m["path"] = path
		m["decoded"] = valgen.Render(dv, 1500)
		return sfail(i, "not-restored@"+lastSegments(valgen.PathKind(path), 1)+"/stream",
			fmt.Sprintf("value %d of %d read from %s differs from its model at %s — %s", i, n, from, path, aloneVerdict(ref, model)), m)
	}
	return nil
}

// freshVerdict: what the same object gives in an output of its own (for the message only).
func freshVerdict(g value.Value, ref []byte) string {
	var enc []byte
	if p := vlib.Catch(func() {
		o := gio.NewDataOutputX()
		value.WriteValue(o, g)
		enc = o.ToByteArray()
	}); p != nil {
		return fmt.Sprintf("panics (%v)", p)
	}
	if bytes.Equal(enc, ref) {
		return "equals the reference encoding"
	}
	return "differs too"
}

// aloneVerdict: what the same bytes give when they are decoded from an input of their own.
func aloneVerdict(ref []byte, model V) string {
	var dv V
	if p := vlib.Catch(func() { dv = valgen.FromGolib(value.ReadValue(gio.NewDataInputX(append([]byte(nil), ref...)))) }); p != nil {
		return fmt.Sprintf("the same bytes decoded from an input of their own panic too (%v)", p)
	}
	if ok, _ := valgen.Equal(model, dv); ok {
		return "the same bytes decoded from an input of their own give the model"
	}
	return "the same bytes decoded from an input of their own differ too"
}

// ---- connection-backed stream decode ---------------------------------------------------------

type netStreamOutcome struct {
	values       []value.Value
	consumed     []int64 // bytes taken from the connection after each value
	panicked     interface{}
	readErr      error
	inconclusive string
	after        []byte
	afterErr     error
	reads, short int64
	fragments    int
	plan         string
}

func netDecodeStream(stream []byte, cum []int, sentinel []byte, fr *vlib.Rand) *netStreamOutcome {
	n := len(cum) - 1
	o := &netStreamOutcome{}
	payload := append(append(make([]byte, 0, len(stream)+len(sentinel)), stream...), sentinel...)
	sizes, plan := fragmentPlan(len(payload), fr)
	o.fragments, o.plan = len(sizes), plan

	rd, wr := net.Pipe()
	deadline := time.Now().Add(netDeadline)
	rd.SetDeadline(deadline)
	wr.SetDeadline(deadline)
	var wErr error
	wDone := make(chan struct{})
	go func() {
		defer close(wDone)
		defer wr.Close()
		off := 0
		for _, k := range sizes {
			if _, err := wr.Write(payload[off : off+k]); err != nil {
				wErr = err
				return
			}
			off += k
		}
	}()
	tap := &tapConn{Conn: rd}
	dDone := make(chan struct{})
	go func() {
		defer close(dDone)
		in := gio.NewDataInputNet(tap) // ONE input for the whole stream
		for i := 0; i < n; i++ {
			var d value.Value
			if o.panicked = vlib.Catch(func() { d = value.ReadValue(in) }); o.panicked != nil {
				return
			}
			o.values = append(o.values, d)
			o.consumed = append(o.consumed, tap.got)
		}
		o.after = make([]byte, len(sentinel))
		k, err := stdio.ReadFull(rd, o.after)
		o.after, o.afterErr = o.after[:k], err
	}()
	wd := time.NewTimer(netWatchdog)
	select {
	case <-dDone:
		wd.Stop()
	case <-wd.C:
		rd.Close()
		wr.Close()
		o.inconclusive = fmt.Sprintf("connection-backed decode of a stream of %d values (%d bytes, %s fragments) did not return within the %s watchdog", n, len(stream), plan, netWatchdog)
		return &netStreamOutcome{inconclusive: o.inconclusive, plan: plan, fragments: len(sizes)}
	}
	rd.Close()
	<-wDone
	o.reads, o.short, o.readErr = tap.reads, tap.short, tap.lastErr
	switch {
	case isTimeout(tap.lastErr) || isTimeout(o.afterErr):
		o.inconclusive = fmt.Sprintf("the %s deadline of the pipe fired during the connection-backed decode of a stream of %d values", netDeadline, n)
	case isTimeout(wErr):
		o.inconclusive = fmt.Sprintf("the %s deadline of the pipe fired in the writer of a stream of %d values", netDeadline, n)
	}
	return o
}

// ---- the stream cases -------------------------------------------------------------------------

var streamProfiles = []string{"mixed", "mostly-empty-containers", "empty-lists", "empty-maps", "empty-int-maps", "leaves", "small-values", "one-type"}

// streamValue draws value j of a stream of the given profile.
func streamValue(r *vlib.Rand, profile string, oneTag byte) V {
	empty := func() V { return V{Tag: contTags[r.Intn(3)]} }
	small := func() V { return valgen.Gen(r, 1+r.Intn(2), 3) }
	switch profile {
	case "mostly-empty-containers":
		switch r.Intn(10) {
		case 0:
			return valgen.GenTag(r, contTags[r.Intn(3)], 1+r.Intn(2), 3)
		case 1:
			return valgen.Leaf(r, 2)
		default:
			return empty()
		}
	case "empty-lists", "empty-maps", "empty-int-maps":
		tag := map[string]byte{"empty-lists": refcodec.TList, "empty-maps": refcodec.TMap, "empty-int-maps": refcodec.TIntMap}[profile]
		switch r.Intn(12) {
		case 0:
			return valgen.GenTag(r, contTags[r.Intn(3)], 1+r.Intn(2), 3) // a container with entries in between
		case 1:
			return V{Tag: refcodec.TList, List: []V{{Tag: tag}, {Tag: tag}}}
		default:
			return V{Tag: tag}
		}
	case "leaves":
		return valgen.Leaf(r, 3)
	case "small-values":
		return small()
	case "one-type":
		return valgen.GenTag(r, oneTag, r.Intn(3), 3)
	}
	switch r.Intn(6) {
	case 0, 1:
		return empty()
	case 2:
		return small()
	case 3:
		return valgen.GenTag(r, contTags[r.Intn(3)], 1+r.Intn(3), 4)
	default:
		return valgen.Leaf(r, 3)
	}
}

func streamCase(c *vlib.Ctx, i int, r *vlib.Rand) {
	id := fmt.Sprintf("stream#%d", i)
	profile := streamProfiles[i%len(streamProfiles)]
	n := []int{100, 300, 600, 1000, 1500, 2000, 3000}[(i/len(streamProfiles))%7]
	if r.Chance(1, 4) {
		n = r.Range(100, 3000)
	}
	oneTag := refcodec.ValueTags[r.Intn(len(refcodec.ValueTags))]
	models := make([]V, n)
	objs := make([]value.Value, n)
	var built interface{}
	for j := range models {
		models[j] = streamValue(r, profile, oneTag)
		j := j
		if p := vlib.Catch(func() { objs[j] = valgen.ToGolib(models[j]) }); p != nil {
			built = p
			break
		}
	}
	if built != nil {
		c.Fail("Value:build-panics/stream", fmt.Sprintf("building a value through the public constructors panics: %v", built), nil)
		return
	}
	// the stream ends with containers that have entries: state left behind by everything before
	// them shows there
	models = append(models, valgen.Deep(r, 2+r.Intn(5)), valgen.GenTag(r, refcodec.TMap, 2, 4), valgen.GenTag(r, refcodec.TIntMap, 2, 4), valgen.GenTag(r, refcodec.TList, 2, 4))
	for _, m := range models[n:] {
		objs = append(objs, valgen.ToGolib(m))
	}
	f, info := streamRoundTrip(models, objs, vlib.NewRand(r.U64()), true)
	reportStream(c, id, "stream", profile, models, f, info)
	if f != nil {
		return
	}
	emptyConts := 0
	for j := range models {
		valgen.Stats(models[j], func(x *V, _ int) {
			nodesByTag[x.Tag]++
			if valgen.IsContainer(x.Tag) && len(valgen.Children(x)) == 0 {
				emptyConts++
			}
		})
	}
	bump("stream_empty_containers", int64(emptyConts))
	top("max_stream_empty_containers", int64(emptyConts))
	c.SetAdd("stream_profiles", profile)
}

// reportStream turns the outcome of one stream into counters or a finding.
func reportStream(c *vlib.Ctx, id, section, profile string, models []V, f *streamFailure, info *streamInfo) {
	if f != nil {
		if f.inconclusive() {
			c.Inconclusive(id, f.what)
			bump("values_inconclusive", 1)
			return
		}
		typ := "Value"
		if f.index >= 0 && f.index < len(models) {
			typ = refcodec.ValueTagName(models[f.index].Tag)
		}
		if path, _ := f.detail["path"].(string); path != "" {
			typ = innerType(path) // the innermost type that differs, wherever it is nested
		}
		d := map[string]interface{}{"case": id, "profile": profile, "kind": f.kind}
		for k, x := range f.detail {
			d[k] = x
		}
		c.Fail(typ+":"+f.kind, typ+": "+f.what, d)
		bump("values_failed", 1)
		return
	}
	bump(section+"_cases", 1)
	bump(section+"_values", int64(len(models)))
	bump(section+"_bytes", int64(info.bytes))
	top("max_"+section+"_values", int64(len(models)))
	if info.netDecoded {
		bump(section+"_net_mode_cases", 1)
		bump(section+"_net_mode_values", int64(len(models)))
		bump(section+"_net_mode_short_reads", info.netShort)
	}
	c.Distinct(vlib.HashBytes(refcodec.EncodeValue(models[len(models)/2])) ^ vlib.Mix(uint64(len(models))) ^ vlib.HashStr(profile+id))
	if c.WantSample() && section == "stream" && len(models) < 400 {
		var first []string
		for j := 0; j < 6 && j < len(models); j++ {
			first = append(first, valgen.Render(models[j], 120))
		}
		c.Sample(map[string]interface{}{"section": section, "case": id, "profile": profile, "values": len(models), "stream_bytes": info.bytes,
			"first_values": first, "also_decoded_from_one_connection": info.netDecoded})
	}
}

// ---- wide containers of containers --------------------------------------------------------------

var wideNestedSizes = []int{600, 1100, 5000, 800, 2500, 1600}
var wideNestedFill = []string{"mixed", "empty-lists", "empty-maps", "empty-int-maps", "empty-and-filled", "empty-of-every-type", "lists-of-empty"}

func wideNested(r *vlib.Rand, i int) V {
	tag := contTags[i%3]
	n := wideNestedSizes[(i/3)%len(wideNestedSizes)] + r.Intn(50)
	fill := wideNestedFill[(i/3)%len(wideNestedFill)]
	filled := func() V { return valgen.GenTag(r, contTags[r.Intn(3)], 1, 1+r.Intn(3)) }
	entry := func(j int) V {
		switch fill {
		case "empty-lists":
			return V{Tag: refcodec.TList}
		case "empty-maps":
			return V{Tag: refcodec.TMap}
		case "empty-int-maps":
			return V{Tag: refcodec.TIntMap}
		case "empty-and-filled":
			if j%2 == 0 {
				return V{Tag: contTags[r.Intn(3)]}
			}
			return filled()
		case "empty-of-every-type":
			return V{Tag: contTags[j%3]}
		case "lists-of-empty":
			k := 1 + r.Intn(3)
			l := V{Tag: refcodec.TList, List: make([]V, k)}
			for x := range l.List {
				l.List[x] = V{Tag: contTags[r.Intn(3)]}
			}
			return l
		}
		switch r.Intn(8) {
		case 0, 1:
			return V{Tag: refcodec.TList}
		case 2:
			return V{Tag: refcodec.TMap}
		case 3:
			return V{Tag: refcodec.TIntMap}
		case 4, 5:
			return filled()
		default:
			return valgen.Leaf(r, 2)
		}
	}
	tail := 1 + r.Intn(3)
	items := make([]V, n+tail)
	for j := 0; j < n; j++ {
		items[j] = entry(j)
	}
	for j := n; j < n+tail; j++ {
		items[j] = valgen.Deep(r, 2+r.Intn(6))
	}
	v := V{Tag: tag}
	switch tag {
	case refcodec.TList:
		v.List = items
	case refcodec.TMap:
		v.Keys = make([]string, len(items))
		for j := range v.Keys {
			v.Keys[j] = fmt.Sprintf("%s%d", r.Ident(), j)
		}
		v.Vals = items
	default:
		v.IntKeys = valgen.IntKeys(r, len(items))
		v.Vals = items
	}
	return v
}
