// Shared sub-objects and histories: what is written is the value's CURRENT content.
//
// shared    1…4 top-level values are built over a common pool of objects (graph.go): the same
//
//	container / scalar object at several positions of one value — twice in a list,
//	under two map keys, at different depths — and in several values. Each value is
//	written on its own and all of them (some twice) into ONE output; the bytes must be
//	the reference encoding of the tree unfolding, and reading them back from one
//	input gives the unfolding:
//	     <Type>:bytes-differ/shared-object   (…/stream when only the common output shows it)
//
// history   the same objects are kept alive: they are written, changed through EVERY public
//
//	mutator of their type and of the containers nested in them (ListValue Add /
//	AddString / AddLong / Set / Clear; MapValue Put / PutString / PutLong / PutAll /
//	Clear / NewList; IntMapValue Put / PutString / PutLong / Clear / NewList; the list a
//	NewList helper returned; exported fields of scalars, arrays and summaries,
//	summaries' AddCount / Add), through handles obtained BEFORE earlier writes, and
//	written again — alone, nested in their parents, into a fresh output, into the
//	long-lived output of the case, through WriteMapValue / IntMapValue.WriteValue /
//	Write. After each step the object walked through its accessors must equal the
//	model, its encoding the reference encoding of the model, and the decode of that
//	encoding the model:
//	     <Type>.<mutator>:content-differs-from-model   the live object right after the call
//	     <Type>:bytes-differ/history                   a written-again object
//	     <Type>:not-restored@<leaf>/history …
//	Values decoded from bytes are histories' starting points as well.
//
// The <Type> of a bytes-differ key is the smallest sub-object of the written one whose own
// encoding (in a fresh output) still differs from the reference encoding of its model, all of
// whose children encode correctly on their own.
package main

import (
	"bytes"
	"fmt"

	gio "github.com/whatap/golib/io"
	"github.com/whatap/golib/lang/value"

	"verif/refcodec"
	"verif/valgen"
	"verif/vlib"
)

type hworld struct {
	*world
	c       *vlib.Ctx
	id      string
	suffix  string // "history" | "shared-object"
	out     *gio.DataOutputX
	outRef  []byte
	failed  bool
	lastMut string
}

func (h *hworld) fail(key, what string, extra map[string]interface{}) {
	h.failed = true
	d := map[string]interface{}{"case": h.id, "history": append([]string(nil), h.log...)}
	for i, root := range h.roots {
		d[fmt.Sprintf("model_of_top_level_value_%d", i)] = valgen.Render(root.tree(), 1500)
	}
	for k, x := range extra {
		d[k] = x
	}
	h.c.Fail(key, what, d)
	h.cnt["graph_failures"]++
}

func plainEncode(g value.Value) (enc []byte, p interface{}) {
	p = vlib.Catch(func() {
		o := gio.NewDataOutputX()
		value.WriteValue(o, g)
		enc = o.ToByteArray()
	})
	return
}

// culprit walks down to the smallest object below n whose own encoding differs from its model's.
func culprit(n *mnode) *mnode {
	for depth := 0; depth < 64; depth++ {
		var next *mnode
		for _, k := range n.kids() {
			if enc, p := plainEncode(k.g); p != nil || !bytes.Equal(enc, refcodec.EncodeValue(k.tree())) {
				next = k
				break
			}
		}
		if next == nil {
			break
		}
		n = next
	}
	return n
}

// every public mutator of the value types (a floor per entry: each one is met in every run)
var historyMutators = []string{
	"ListValue.Add", "ListValue.AddString", "ListValue.AddLong", "ListValue.Set", "ListValue.Clear",
	"MapValue.Put", "MapValue.PutString", "MapValue.PutLong", "MapValue.PutAll", "MapValue.Clear", "MapValue.NewList",
	"IntMapValue.Put", "IntMapValue.PutString", "IntMapValue.PutLong", "IntMapValue.Clear", "IntMapValue.NewList",
	"BoolValue.fields", "DecimalValue.fields", "IntValue.fields", "LongValue.fields", "FloatValue.fields", "DoubleValue.fields",
	"TextValue.fields", "TextHashValue.fields", "BlobValue.fields", "IP4Value.fields", "IntArray.fields", "LongArray.fields",
	"FloatArray.fields", "TextArray.fields", "LongSummary.fields", "DoubleSummary.fields",
}

var writeModes = []string{"WriteValue/fresh-output", "WriteValue/long-lived-output", "typed-writer", "Write/body-only", "twice-in-a-new-list", "under-two-keys-of-a-new-map"}

// written writes n in one of the ways a caller can and checks bytes, consumption and decode.
func (h *hworld) written(n *mnode, mode int) bool {
	model := n.tree()
	ref := refcodec.EncodeValue(model)
	want := ref
	var got []byte
	how := writeModes[mode]
	var wrapModel V
	clobbered := false
	p := vlib.Catch(func() {
		switch mode {
		case 1:
			if h.out == nil || len(h.outRef) > 1<<16 {
				h.out, h.outRef = gio.NewDataOutputX(), nil
			}
			start := len(h.out.ToByteArray())
			value.WriteValue(h.out, n.g)
			all := h.out.ToByteArray()
			if start != len(h.outRef) || !bytes.Equal(all[:start], h.outRef) {
				clobbered = true
				return
			}
			got = append([]byte(nil), all[start:]...)
			h.outRef = append(h.outRef, got...)
		case 2:
			o := gio.NewDataOutputX()
			switch t := n.g.(type) {
			case *value.MapValue:
				value.WriteMapValue(o, t)
				how = "WriteMapValue/fresh-output"
			case *value.IntMapValue:
				t.WriteValue(o)
				how = "IntMapValue.WriteValue/fresh-output"
			default:
				value.WriteValue(o, n.g)
				how = writeModes[0]
			}
			got = o.ToByteArray()
		case 3:
			o := gio.NewDataOutputX()
			n.g.Write(o)
			got = append([]byte{n.tag}, o.ToByteArray()...) // the body; the tag is the caller's
		case 4:
			l := value.NewListValue(nil)
			l.Add(n.g)
			l.AddLong(7)
			l.Add(n.g)
			wrapModel = V{Tag: refcodec.TList, List: []V{model, {Tag: refcodec.TDecimal, I: 7}, model}}
			want = refcodec.EncodeValue(wrapModel)
			o := gio.NewDataOutputX()
			value.WriteValue(o, l)
			got = o.ToByteArray()
		case 5:
			m := value.NewMapValue()
			m.Put("a", n.g)
			m.Put("b", n.g)
			wrapModel = V{Tag: refcodec.TMap, Keys: []string{"a", "b"}, Vals: []V{model, model}}
			want = refcodec.EncodeValue(wrapModel)
			o := gio.NewDataOutputX()
			value.WriteValue(o, m)
			got = o.ToByteArray()
		default:
			o := gio.NewDataOutputX()
			value.WriteValue(o, n.g)
			got = o.ToByteArray()
		}
	})
	typ := refcodec.ValueTagName(n.tag)
	h.logf("write %s: %s, %d bytes", n.name(), how, len(got))
	h.cnt["graph_writes"]++
	h.cnt["graph_writes_"+writeModes[mode]]++
	if p != nil {
		h.fail(typ+":encode-panics/"+h.suffix, fmt.Sprintf("%s: writing %s (%s) panics: %v", typ, n.name(), how, p), map[string]interface{}{"model": valgen.Render(model, 2000), "last_mutation": h.lastMut})
		return false
	}
	if clobbered {
		h.fail("DataOutputX:earlier-bytes-changed/"+h.suffix, fmt.Sprintf("writing %s into the long-lived output of the case changed the %d bytes written into it before", n.name(), len(h.outRef)), nil)
		return false
	}
	if !bytes.Equal(got, want) {
		off := firstDiff(got, want)
		cu := culprit(n)
		ctyp := refcodec.ValueTagName(cu.tag)
		obj, conts, _ := sharedPositions(n)
		h.fail(ctyp+":bytes-differ/"+h.suffix,
			fmt.Sprintf("%s: %s written by %s gives bytes that differ from the reference encoding of its current content at offset %d (golib %d bytes, reference %d bytes); smallest object whose own encoding is wrong: %s (born: %s); last change: %s; objects at more than one position below it: %d (%d containers)",
				ctyp, n.name(), how, off, len(got), len(want), cu.name(), cu.born, h.lastMut, obj, conts),
			map[string]interface{}{"written_object": n.name(), "how": how, "model": valgen.Render(model, 2000), "golib_hex": vlib.Hex(got), "reference_hex": vlib.Hex(want),
				"first_diff": off, "golib_window": window(got, off), "reference_window": window(want, off), "smallest_wrong_object": cu.name(),
				"smallest_wrong_object_model": valgen.Render(cu.tree(), 1000), "last_mutation": h.lastMut})
		return false
	}
	// decode what was written
	expect := model
	if mode == 4 || mode == 5 {
		expect = wrapModel
	}
	input := append(append(make([]byte, 0, len(got)+len(canary)), got...), canary...)
	in := gio.NewDataInputX(input)
	var d value.Value
	if p := vlib.Catch(func() { d = value.ReadValue(in) }); p != nil {
		h.fail(typ+":decode-panics/"+h.suffix, fmt.Sprintf("%s: ReadValue of the encoding of %s panics: %v", typ, n.name(), p), map[string]interface{}{"encoding_hex": vlib.Hex(got)})
		return false
	}
	if av := int(in.Available()); av != len(canary) {
		h.fail(typ+":not-consumed/"+h.suffix, fmt.Sprintf("%s: after ReadValue of the %d-byte encoding of %s Available()=%d, want %d", typ, len(got), n.name(), av, len(canary)), map[string]interface{}{"encoding_hex": vlib.Hex(got)})
		return false
	}
	var dv V
	pw := vlib.Catch(func() { dv = valgen.FromGolib(d) })
	if ok, path := valgen.Equal(expect, dv); pw != nil || !ok {
		h.fail(innerTypeOr(path, typ)+":not-restored@"+lastSegments(valgen.PathKind(path), 1)+"/"+h.suffix,
			fmt.Sprintf("%s: the value decoded from the encoding of %s differs from the model at %s (panic %v)", typ, n.name(), path, pw),
			map[string]interface{}{"encoding_hex": vlib.Hex(got), "model": valgen.Render(expect, 2000), "decoded": valgen.Render(dv, 2000), "path": path})
		return false
	}
	h.cnt["graph_decodes"]++
	return true
}

// live walks every top-level object (and n) through the accessors: equal to the model.
func (h *hworld) live(n *mnode, mutator string) bool {
	check := func(x *mnode) bool {
		var now V
		p := vlib.Catch(func() { now = valgen.FromGolib(x.g) })
		h.cnt["graph_live_walks"]++
		if ok, path := valgen.Equal(x.tree(), now); p != nil || !ok {
			typ := refcodec.ValueTagName(x.tag)
			if n != nil {
				typ = refcodec.ValueTagName(n.tag)
			}
			h.fail(typ+"."+mutator+":content-differs-from-model",
				fmt.Sprintf("%s: after %s the object %s walked through its accessors differs from the model at %s (panic %v)", typ, h.lastMut, x.name(), path, p),
				map[string]interface{}{"model": valgen.Render(x.tree(), 2000), "object_now": valgen.Render(now, 2000), "path": path, "last_mutation": h.lastMut})
			return false
		}
		return true
	}
	if n != nil && !check(n) {
		return false
	}
	for _, root := range h.roots {
		if !check(root) {
			return false
		}
	}
	return true
}

// ---- the mutators ------------------------------------------------------------------------------

// operand draws the object to insert into y: a new scalar, a new container, or an object of
// the case that exists already (a second position for it).
func (h *hworld) operand(y *mnode) *mnode {
	r := h.r
	switch r.Intn(10) {
	case 0, 1, 2:
		for try := 0; try < 6; try++ {
			x := h.nodes[r.Intn(len(h.nodes))]
			if (try < 3 && !x.container()) || !h.fits(y, x) {
				continue
			}
			h.cnt["graph_positions_shared"]++
			return x
		}
	case 3, 4:
		v := valgen.GenTag(r, contTags[r.Intn(3)], 1+r.Intn(2), 3)
		if st := valgen.Stats(v, nil); st.Nodes < h.limit/4 {
			x := h.fromTree(v)
			if h.fits(y, x) {
				return x
			}
		}
	}
	x := h.leafNode(valgen.Leaf(r, 3), "built")
	if h.fits(y, x) {
		return x
	}
	return nil
}

func (h *hworld) newStrKey(m *mnode) string {
	for {
		k := h.r.Ident()
		if h.r.Chance(1, 8) {
			k = h.r.Str(20)
		}
		dup := false
		for _, e := range m.keys {
			if e == k {
				dup = true
			}
		}
		if !dup {
			return k
		}
	}
}

func (h *hworld) newIntKey(m *mnode) int32 {
	for {
		k := h.r.I32()
		dup := false
		for _, e := range m.ikeys {
			if e == k {
				dup = true
			}
		}
		if !dup {
			return k
		}
	}
}

func putStr(m *mnode, k string, x *mnode) {
	for i, e := range m.keys {
		if e == k {
			m.vals[i] = x // an existing key keeps its place
			return
		}
	}
	m.keys = append(m.keys, k)
	m.vals = append(m.vals, x)
}

func putInt(m *mnode, k int32, x *mnode) {
	for i, e := range m.ikeys {
		if e == k {
			m.vals[i] = x
			return
		}
	}
	m.ikeys = append(m.ikeys, k)
	m.vals = append(m.vals, x)
}

// mutate changes object n through one public mutator of its type (golib object and model
// alike) and returns the mutator's name ("" when nothing applicable was drawn).
func (h *hworld) mutate(n *mnode) string {
	r := h.r
	switch t := n.g.(type) {
	case *value.ListValue:
		switch r.Intn(8) {
		case 0, 1, 2:
			x := h.operand(n)
			if x == nil {
				return ""
			}
			t.Add(x.g)
			n.items = append(n.items, x)
			h.lastMut = fmt.Sprintf("%s.Add(%s)", n.name(), x.name())
			return "Add"
		case 3:
			s := r.Str(24)
			t.AddString(s)
			x := h.adopt(t.Get(t.Size()-1), "ListValue.AddString")
			n.items = append(n.items, x)
			x.leaf = V{Tag: refcodec.TText, S: s}
			x.tag = refcodec.TText
			h.lastMut = fmt.Sprintf("%s.AddString(%q) -> %s", n.name(), s, x.name())
			return "AddString"
		case 4:
			v := r.I64()
			t.AddLong(v)
			x := h.adopt(t.Get(t.Size()-1), "ListValue.AddLong")
			n.items = append(n.items, x)
			x.leaf = V{Tag: refcodec.TDecimal, I: v}
			x.tag = refcodec.TDecimal
			h.lastMut = fmt.Sprintf("%s.AddLong(%d) -> %s", n.name(), v, x.name())
			return "AddLong"
		case 5, 6:
			if len(n.items) == 0 {
				return ""
			}
			i := r.Intn(len(n.items))
			x := h.operand(n)
			if x == nil {
				return ""
			}
			t.Set(i, x.g)
			n.items = append([]*mnode(nil), n.items...)
			n.items[i] = x
			h.lastMut = fmt.Sprintf("%s.Set(%d, %s)", n.name(), i, x.name())
			return "Set"
		default:
			t.Clear()
			n.items = nil
			h.lastMut = n.name() + ".Clear()"
			return "Clear"
		}
	case *value.MapValue:
		switch r.Intn(12) {
		case 0, 1:
			x := h.operand(n)
			if x == nil {
				return ""
			}
			k := h.newStrKey(n)
			t.Put(k, x.g)
			putStr(n, k, x)
			h.lastMut = fmt.Sprintf("%s.Put(%q, %s) [new key]", n.name(), k, x.name())
			return "Put"
		case 2, 3:
			if len(n.keys) == 0 {
				return ""
			}
			x := h.operand(n)
			if x == nil {
				return ""
			}
			k := n.keys[r.Intn(len(n.keys))]
			t.Put(k, x.g)
			putStr(n, k, x)
			h.lastMut = fmt.Sprintf("%s.Put(%q, %s) [existing key]", n.name(), k, x.name())
			return "Put"
		case 4:
			k, s := h.strKeyAny(n), r.Str(24)
			t.PutString(k, s)
			x := h.adopt(t.Get(k), "MapValue.PutString")
			x.tag, x.leaf = refcodec.TText, V{Tag: refcodec.TText, S: s}
			putStr(n, k, x)
			h.lastMut = fmt.Sprintf("%s.PutString(%q, %q) -> %s", n.name(), k, s, x.name())
			return "PutString"
		case 5:
			k, v := h.strKeyAny(n), r.I64()
			t.PutLong(k, v)
			x := h.adopt(t.Get(k), "MapValue.PutLong")
			x.tag, x.leaf = refcodec.TDecimal, V{Tag: refcodec.TDecimal, I: v}
			putStr(n, k, x)
			h.lastMut = fmt.Sprintf("%s.PutLong(%q, %d) -> %s", n.name(), k, v, x.name())
			return "PutLong"
		case 6, 7, 8:
			// PutAll from another map of the case, or from a new one; the entries' objects are
			// then held by both maps
			var src *mnode
			if r.Chance(1, 2) {
				for try := 0; try < 8 && src == nil; try++ {
					x := h.nodes[r.Intn(len(h.nodes))]
					if x.tag == refcodec.TMap && x != n {
						src = x
					}
				}
			}
			if src == nil {
				v := valgen.GenTag(r, refcodec.TMap, 1+r.Intn(2), 1+r.Intn(4))
				if r.Chance(1, 3) && len(n.keys) > 0 && len(v.Keys) > 0 {
					v.Keys[0] = n.keys[r.Intn(len(n.keys))] // one key both maps have
					for i := 1; i < len(v.Keys); i++ {
						if v.Keys[i] == v.Keys[0] {
							v.Keys[i] += "'"
						}
					}
				}
				src = h.fromTree(v)
			}
			// every entry of src gets a position in n: all of them must fit
			trial := &mnode{tag: refcodec.TList, items: src.vals}
			if !h.fits(n, trial) {
				return ""
			}
			t.PutAll(src.g.(*value.MapValue))
			for i, k := range src.keys {
				putStr(n, k, src.vals[i])
			}
			h.cnt["graph_positions_shared"] += int64(len(src.keys))
			h.lastMut = fmt.Sprintf("%s.PutAll(%s with %d entries)", n.name(), src.name(), len(src.keys))
			return "PutAll"
		case 9:
			t.Clear()
			n.keys, n.vals = nil, nil
			h.lastMut = n.name() + ".Clear()"
			return "Clear"
		default:
			k := h.strKeyAny(n)
			l := t.NewList(k)
			x := h.adopt(l, "MapValue.NewList")
			putStr(n, k, x)
			h.lastMut = fmt.Sprintf("%s.NewList(%q) -> %s", n.name(), k, x.name())
			h.fillHelperList(x)
			return "NewList"
		}
	case *value.IntMapValue:
		switch r.Intn(9) {
		case 0, 1:
			x := h.operand(n)
			if x == nil {
				return ""
			}
			k := h.newIntKey(n)
			t.Put(k, x.g)
			putInt(n, k, x)
			h.lastMut = fmt.Sprintf("%s.Put(%d, %s) [new key]", n.name(), k, x.name())
			return "Put"
		case 2, 3:
			if len(n.ikeys) == 0 {
				return ""
			}
			x := h.operand(n)
			if x == nil {
				return ""
			}
			k := n.ikeys[r.Intn(len(n.ikeys))]
			t.Put(k, x.g)
			putInt(n, k, x)
			h.lastMut = fmt.Sprintf("%s.Put(%d, %s) [existing key]", n.name(), k, x.name())
			return "Put"
		case 4:
			k, s := h.intKeyAny(n), r.Str(24)
			t.PutString(k, s)
			x := h.adopt(t.Get(k), "IntMapValue.PutString")
			x.tag, x.leaf = refcodec.TText, V{Tag: refcodec.TText, S: s}
			putInt(n, k, x)
			h.lastMut = fmt.Sprintf("%s.PutString(%d, %q) -> %s", n.name(), k, s, x.name())
			return "PutString"
		case 5:
			k, v := h.intKeyAny(n), r.I64()
			t.PutLong(k, v)
			x := h.adopt(t.Get(k), "IntMapValue.PutLong")
			x.tag, x.leaf = refcodec.TDecimal, V{Tag: refcodec.TDecimal, I: v}
			putInt(n, k, x)
			h.lastMut = fmt.Sprintf("%s.PutLong(%d, %d) -> %s", n.name(), k, v, x.name())
			return "PutLong"
		case 6:
			t.Clear()
			n.ikeys, n.vals = nil, nil
			h.lastMut = n.name() + ".Clear()"
			return "Clear"
		default:
			k := h.intKeyAny(n)
			l := t.NewList(k)
			x := h.adopt(l, "IntMapValue.NewList")
			putInt(n, k, x)
			h.lastMut = fmt.Sprintf("%s.NewList(%d) -> %s", n.name(), k, x.name())
			h.fillHelperList(x)
			return "NewList"
		}
	}
	return h.mutateLeaf(n)
}

func (h *hworld) strKeyAny(m *mnode) string {
	if len(m.keys) > 0 && h.r.Chance(1, 2) {
		return m.keys[h.r.Intn(len(m.keys))]
	}
	return h.newStrKey(m)
}

func (h *hworld) intKeyAny(m *mnode) int32 {
	if len(m.ikeys) > 0 && h.r.Chance(1, 2) {
		return m.ikeys[h.r.Intn(len(m.ikeys))]
	}
	return h.newIntKey(m)
}

// fillHelperList: the list a NewList helper returned is the caller's handle into the map.
func (h *hworld) fillHelperList(x *mnode) {
	l := x.g.(*value.ListValue)
	for k := h.r.Intn(3); k > 0; k-- {
		v := h.r.I64()
		l.AddLong(v)
		y := h.adopt(l.Get(l.Size()-1), "ListValue.AddLong")
		y.tag, y.leaf = refcodec.TDecimal, V{Tag: refcodec.TDecimal, I: v}
		x.items = append(x.items, y)
		h.lastMut += fmt.Sprintf("; %s.AddLong(%d)", x.name(), v)
	}
}

// mutateLeaf assigns the exported fields of a scalar / array / summary (or calls its adders).
func (h *hworld) mutateLeaf(n *mnode) string {
	r := h.r
	if n.tag == refcodec.TNull {
		return ""
	}
	nv := cloneLeaf(valgen.GenTag(r, n.tag, 0, 4))
	how := "Val="
	switch t := n.g.(type) {
	case *value.BoolValue:
		t.Val = nv.I != 0
	case *value.DecimalValue:
		t.Val = nv.I
	case *value.IntValue:
		t.Val = int32(nv.I)
	case *value.LongValue:
		t.Val = nv.I
	case *value.FloatValue:
		t.Val = nv.F32
	case *value.DoubleValue:
		t.Val = nv.F
	case *value.TextValue:
		t.Val = nv.S
	case *value.TextHashValue:
		t.Val = int32(nv.I)
	case *value.BlobValue:
		if len(t.Val) > 0 && r.Chance(1, 2) {
			// in place: one byte of the slice the object holds
			i := r.Intn(len(t.Val))
			t.Val[i] ^= 0x5A
			nv = cloneLeaf(n.leaf)
			nv.B[i] ^= 0x5A
			how = "Val[i]^="
		} else {
			t.Val = cloneBytesNil(nv.B)
		}
	case *value.IP4Value:
		if len(t.Val) == 4 && r.Chance(1, 2) {
			i := r.Intn(4)
			t.Val[i] ^= 0x5A
			nv = cloneLeaf(n.leaf)
			nv.B[i] ^= 0x5A
			how = "Val[i]^="
		} else {
			t.Val = cloneBytesNil(nv.B)
		}
	case *value.IntArray:
		if len(t.Val) > 0 && r.Chance(1, 2) {
			i := r.Intn(len(t.Val))
			t.Val[i] ^= 0x5A5A
			nv = cloneLeaf(n.leaf)
			nv.Ints[i] ^= 0x5A5A
			how = "Val[i]^="
		} else if nv.Ints == nil {
			t.Val = nil
		} else {
			t.Val = append([]int32{}, nv.Ints...)
		}
	case *value.LongArray:
		if len(t.Val) > 0 && r.Chance(1, 2) {
			i := r.Intn(len(t.Val))
			t.Val[i] ^= 0x5A5A
			nv = cloneLeaf(n.leaf)
			nv.Longs[i] ^= 0x5A5A
			how = "Val[i]^="
		} else if nv.Longs == nil {
			t.Val = nil
		} else {
			t.Val = append([]int64{}, nv.Longs...)
		}
	case *value.FloatArray:
		if nv.Floats == nil {
			t.Val = nil
		} else {
			t.Val = append([]float32{}, nv.Floats...)
		}
	case *value.TextArray:
		if len(t.Val) > 0 && r.Chance(1, 2) {
			i := r.Intn(len(t.Val))
			t.Val[i] += "+"
			nv = cloneLeaf(n.leaf)
			nv.Texts[i] += "+"
			how = "Val[i]+="
		} else if nv.Texts == nil {
			t.Val = nil
		} else {
			t.Val = append([]string{}, nv.Texts...)
		}
	case *value.LongSummary:
		switch r.Intn(4) {
		case 0:
			t.AddCount()
			how = "AddCount()"
		case 1:
			o := valgen.ToGolib(valgen.GenTag(r, refcodec.TLongSummary, 0, 0)).(*value.LongSummary)
			t.Add(o)
			how = "Add(LongSummary)"
		default:
			var s refcodec.LongSum
			if nv.LS != nil {
				s = *nv.LS
			}
			t.Sum, t.Count, t.Min, t.Max = s.Sum, s.Count, s.Min, s.Max
			how = "fields="
		}
		// the summary's state is what its exported fields say; the codec has to write that
		nv = V{Tag: n.tag, LS: &refcodec.LongSum{Sum: t.Sum, Count: t.Count, Min: t.Min, Max: t.Max}}
	case *value.DoubleSummary:
		switch r.Intn(4) {
		case 0:
			t.AddCount()
			how = "AddCount()"
		case 1:
			o := valgen.ToGolib(valgen.GenTag(r, refcodec.TDoubleSummary, 0, 0)).(*value.DoubleSummary)
			t.Add(o)
			how = "Add(DoubleSummary)"
		default:
			var s refcodec.DoubleSum
			if nv.DS != nil {
				s = *nv.DS
			}
			t.Sum, t.Count, t.Min, t.Max = s.Sum, s.Count, s.Min, s.Max
			how = "fields="
		}
		nv = V{Tag: n.tag, DS: &refcodec.DoubleSum{Sum: t.Sum, Count: t.Count, Min: t.Min, Max: t.Max}}
	default:
		return ""
	}
	n.leaf = nv
	h.lastMut = fmt.Sprintf("%s %s %s", n.name(), how, valgen.Render(nv, 120))
	return "fields"
}

func cloneBytesNil(b []byte) []byte {
	if b == nil {
		return nil
	}
	return append(make([]byte, 0, len(b)), b...)
}

// ---- the cases ---------------------------------------------------------------------------------

// ancestorsOf returns the top-level values n has a position in.
func (h *hworld) ancestorsOf(n *mnode) []*mnode {
	var out []*mnode
	for _, root := range h.roots {
		if reaches(root, n, map[*mnode]bool{}) {
			out = append(out, root)
		}
	}
	return out
}

func (h *hworld) flush() {
	for k, n := range h.cnt {
		h.c.Count(k, n)
	}
}

// streamOfRoots writes the top-level values (some twice) into one output and reads them back
// from one input (streams.go).
func (h *hworld) streamOfRoots(withNet bool) bool {
	var seq []*mnode
	seq = append(seq, h.roots...)
	for k := 1 + h.r.Intn(3); k > 0; k-- {
		seq = append(seq, h.roots[h.r.Intn(len(h.roots))]) // the same object once more
	}
	// and objects nested in them, on their own after their parents
	for k := h.r.Intn(3); k > 0; k-- {
		seq = append(seq, h.nodes[h.r.Intn(len(h.nodes))])
	}
	h.r.Shuffle(len(seq), func(i, j int) { seq[i], seq[j] = seq[j], seq[i] })
	models := make([]V, len(seq))
	objs := make([]value.Value, len(seq))
	names := ""
	for i, n := range seq {
		models[i], objs[i] = n.tree(), n.g
		names += " " + n.name()
	}
	h.logf("one output, one input:%s", names)
	f, info := streamRoundTrip(models, objs, vlib.NewRand(h.r.U64()), withNet)
	if f != nil {
		if f.inconclusive() {
			h.c.Inconclusive(h.id, f.what)
			h.failed = true
			return false
		}
		typ := refcodec.ValueTagName(models[f.index].Tag)
		if path, _ := f.detail["path"].(string); path != "" {
			typ = innerType(path)
		}
		kind := f.kind
		if kind == "bytes-differ/stream" {
			typ = refcodec.ValueTagName(culprit(seq[f.index]).tag)
			kind = "bytes-differ/" + h.suffix + "/stream"
		}
		extra := map[string]interface{}{"objects_in_stream": names, "last_mutation": h.lastMut}
		for k, x := range f.detail {
			extra[k] = x
		}
		h.fail(typ+":"+kind, typ+": "+f.what, extra)
		return false
	}
	h.cnt["graph_streams"]++
	h.cnt["graph_stream_values"] += int64(len(seq))
	if info.netDecoded {
		h.cnt["graph_streams_net_mode"]++
	}
	return true
}

// buildRoots draws the top-level values of a case: built over a common pool, or decoded.
func (h *hworld) buildRoots(k, depth, width int, decodedToo bool) bool {
	for i := 0; i < k; i++ {
		if decodedToo && h.r.Chance(1, 3) {
			// a value the library decoded is a starting point like any other
			v := valgen.Gen(h.r, depth, width)
			if !valgen.IsContainer(v.Tag) {
				v = valgen.GenTag(h.r, contTags[h.r.Intn(3)], depth, width)
			}
			var d value.Value
			if p := vlib.Catch(func() { d = value.ReadValue(gio.NewDataInputX(refcodec.EncodeValue(v))) }); p != nil {
				h.fail(refcodec.ValueTagName(v.Tag)+":decode-panics/"+h.suffix, fmt.Sprintf("ReadValue of a reference encoding panics: %v", p), map[string]interface{}{"model": valgen.Render(v, 2000)})
				return false
			}
			n := h.adopt(d, "decoded")
			h.roots = append(h.roots, n)
			if ok, path := valgen.Equal(v, n.tree()); !ok {
				h.fail(innerType(path)+":not-restored@"+lastSegments(valgen.PathKind(path), 1)+"/"+h.suffix, "the value decoded from a reference encoding differs from its model at "+path, map[string]interface{}{"model": valgen.Render(v, 2000)})
				return false
			}
			h.cnt["graph_roots_decoded"]++
			h.logf("top-level value %d = %s decoded from bytes: %s", i, n.name(), valgen.Render(v, 200))
			continue
		}
		var n *mnode
		if p := vlib.Catch(func() { n = h.root(depth, width) }); p != nil {
			h.fail("Value:build-panics/"+h.suffix, fmt.Sprintf("building a value with shared sub-objects through the public constructors panics: %v", p), nil)
			return false
		}
		h.cnt["graph_roots_built"]++
		h.logf("top-level value %d = %s built: %s", i, n.name(), valgen.Render(n.tree(), 200))
	}
	return true
}

func (h *hworld) evidence(section string) {
	var hash uint64
	for _, root := range h.roots {
		obj, conts, depths := sharedPositions(root)
		if obj > 0 {
			h.cnt["graph_values_with_shared_objects"]++
		}
		if conts > 0 {
			h.cnt["graph_values_with_shared_containers"]++
		}
		if depths {
			h.cnt["graph_values_with_container_at_two_depths"]++
		}
		h.cnt["graph_shared_objects"] += int64(obj)
		hash = vlib.Mix(hash ^ vlib.HashBytes(refcodec.EncodeValue(root.tree())))
	}
	if len(h.roots) > 1 {
		// an object two top-level values have in common
		seen := map[*mnode]int{}
		for i, root := range h.roots {
			var walk func(n *mnode)
			mark := map[*mnode]bool{}
			walk = func(n *mnode) {
				if mark[n] {
					return
				}
				mark[n] = true
				if prev, ok := seen[n]; ok && prev != i {
					h.cnt["graph_objects_in_two_values"]++
				}
				seen[n] = i
				for _, k := range n.kids() {
					walk(k)
				}
			}
			walk(root)
		}
	}
	h.c.Distinct(hash ^ vlib.HashStr(section))
}

func sharedCase(c *vlib.Ctx, i int, r *vlib.Rand) {
	h := &hworld{world: newWorld(r, 300, 35), c: c, id: fmt.Sprintf("shared#%d", i), suffix: "shared-object"}
	defer h.flush()
	depth := []int{1, 2, 2, 3, 4}[r.Intn(5)]
	width := []int{2, 3, 4, 6}[r.Intn(4)]
	if !h.buildRoots(1+r.Intn(4), depth, width, false) {
		return
	}
	for _, root := range h.roots {
		for _, mode := range []int{0, r.Intn(len(writeModes))} {
			if !h.written(root, mode) {
				return
			}
		}
	}
	if !h.live(nil, "build") {
		return
	}
	if !h.streamOfRoots(i%2 == 0) {
		return
	}
	// each value once more after the common output: nothing was left behind in the objects
	for _, root := range h.roots {
		if !h.written(root, 0) {
			return
		}
	}
	h.cnt["shared_cases"]++
	h.evidence("shared")
	if c.WantSample() && len(h.log) <= 14 && h.cnt["graph_positions_shared"] > 0 && r.Chance(1, 20) {
		c.Sample(map[string]interface{}{"section": "shared", "case": h.id, "history": h.log})
	}
}

func historyCase(c *vlib.Ctx, i int, r *vlib.Rand) {
	h := &hworld{world: newWorld(r, 400, 20), c: c, id: fmt.Sprintf("history#%d", i), suffix: "history"}
	defer h.flush()
	depth := []int{1, 1, 2, 2, 3}[r.Intn(5)]
	width := []int{1, 2, 3, 5}[r.Intn(4)]
	if !h.buildRoots(1+r.Intn(3), depth, width, true) {
		return
	}
	// step 0: everything is written once (whatever a writer keeps, it has it now)
	for _, root := range h.roots {
		if !h.written(root, r.Intn(3)) {
			return
		}
	}
	steps := 4 + r.Intn(13)
	for s := 0; s < steps; s++ {
		var n *mnode
		for try := 0; try < 6; try++ {
			n = h.nodes[r.Intn(len(h.nodes))]
			if n.container() || try >= 3 {
				break
			}
		}
		// sometimes the object (or a parent) is written right before the change as well
		if r.Chance(1, 3) {
			if !h.written(n, r.Intn(len(writeModes))) {
				return
			}
		}
		var mut string
		if p := vlib.Catch(func() { mut = h.mutate(n) }); p != nil {
			h.fail(refcodec.ValueTagName(n.tag)+":mutator-panics/history", fmt.Sprintf("a public mutator of %s panics: %v (after %s)", n.name(), p, h.lastMut), nil)
			return
		}
		if mut == "" {
			continue
		}
		h.logf("%s", h.lastMut)
		h.cnt["history_mutations"]++
		h.cnt["history_mutations_"+refcodec.ValueTagName(n.tag)+"."+mut]++
		if n.born != "built" {
			h.cnt["history_mutations_of_"+bornClass(n.born)+"_objects"]++
		}
		if !h.live(n, mut) {
			return
		}
		// written again: every top-level value it has a position in, and the object itself
		anc := h.ancestorsOf(n)
		for _, a := range anc {
			if !h.written(a, r.Intn(len(writeModes))) {
				return
			}
			h.cnt["history_rewrites_of_parents"]++
		}
		if len(anc) == 0 || r.Chance(1, 2) {
			if !h.written(n, r.Intn(len(writeModes))) {
				return
			}
		}
		if r.Chance(1, 4) {
			if !h.written(h.nodes[r.Intn(len(h.nodes))], r.Intn(len(writeModes))) {
				return
			}
		}
		if r.Chance(1, 8) && !h.streamOfRoots(false) {
			return
		}
	}
	if !h.streamOfRoots(i%4 == 0) {
		return
	}
	h.cnt["history_cases"]++
	h.evidence("history")
	if c.WantSample() && len(h.log) <= 24 && r.Chance(1, 30) {
		c.Sample(map[string]interface{}{"section": "history", "case": h.id, "history": h.log})
	}
}

func bornClass(b string) string {
	if b == "decoded" {
		return "decoded"
	}
	return "helper_made"
}
