// wC02 — the tagged value codec round-trips every value type, nested to any depth.
//
// For every generated value (neutral tree refcodec.V):
//
//	bytes of value.WriteValue  ==  bytes of the independent reference encoder
//	value.ReadValue(bytes+canary) consumes exactly the encoding (Available()==len(canary))
//	the decoded value, walked through its exported API (valgen.FromGolib), is structurally
//	equal to the original (valgen.Equal: type, payload by bits, order of items/entries)
//	re-encoding the decoded value reproduces the bytes
//	decoding is a pure function of the bytes: a second decode of the same bytes gives the same
//	tree, the first tree is unchanged by it, by overwriting the caller's input slice, and by
//	the round trips of later values (purity.go)
//	the same encoding arriving in random fragments over a connection (io.NewDataInputNet on a
//	net.Pipe) decodes to the same tree and leaves the sentinel as the next byte (netmode.go)
//
// A failing value is first reduced to its smallest failing sub-value, so the finding key
// names the innermost type that breaks: "<ValueType>:<kind>".
package main

import (
	"bytes"
	"fmt"
	"math"
	"reflect"
	"strings"

	gio "github.com/whatap/golib/io"
	"github.com/whatap/golib/lang/value"

	"verif/refcodec"
	"verif/valgen"
	"verif/vlib"
)

type V = refcodec.V

var canary = []byte{0xCA, 0xFE, 0x5A}

type failure struct {
	kind   string // bytes-differ | decode-panics | not-consumed | not-restored@… | reencode-differs | … (+ "/net-mode" …)
	what   string
	detail map[string]interface{}
}

// kindInconclusive marks a case in which a watchdog or deadline fired: neither pass nor fail.
const kindInconclusive = "<inconclusive>"

func (f *failure) inconclusive() bool { return f.kind == kindInconclusive }

// opts selects the optional parts of the oracle for one round trip.
type opts struct {
	net      bool   // decode a second time through a connection-backed input
	netForce bool   // … whatever the size of the encoding (minimisation of a net-mode failure)
	salt     uint64 // with the hash of the encoding: stream of the fragment sizes
}

// encodings up to this size always take the connection-backed decode too, larger ones for one
// salt in three (they cost one conn.Read per primitive)
const netAlwaysBelow = 1 << 16

// result of one successful round trip (used for evidence)
type okInfo struct {
	enc     []byte
	decoded []value.Value // every tree decoded from enc (buffer, second buffer decode, connection)
	net     *netOutcome   // nil: the connection-backed decode was not taken
}

func firstDiff(a, b []byte) int {
	n := len(a)
	if len(b) < n {
		n = len(b)
	}
	for i := 0; i < n; i++ {
		if a[i] != b[i] {
			return i
		}
	}
	if len(a) != len(b) {
		return n
	}
	return -1
}

func window(b []byte, off int) string {
	lo, hi := off-8, off+16
	if lo < 0 {
		lo = 0
	}
	if hi > len(b) {
		hi = len(b)
	}
	if lo > hi {
		lo = hi
	}
	return fmt.Sprintf("[%d:%d]=%x", lo, hi, b[lo:hi])
}

func lastSegments(p string, n int) string {
	segs := strings.Split(p, "/")
	if len(segs) > n {
		segs = segs[len(segs)-n:]
	}
	return strings.Join(segs, "/")
}

// roundTrip runs the whole oracle on one value and returns the first failure (nil = held).
func roundTrip(v V, o opts) (*failure, *okInfo) {
	var g value.Value
	if p := vlib.Catch(func() { g = valgen.ToGolib(v) }); p != nil {
		return &failure{"build-panics", fmt.Sprintf("building the value through the public constructors panics: %v", p), nil}, nil
	}
	var enc []byte
	if p := vlib.Catch(func() {
		out := gio.NewDataOutputX()
		value.WriteValue(out, g)
		raw := out.ToByteArray()
		enc = append([]byte(nil), raw...)
		ringVerify("WriteValue of a " + refcodec.ValueTagName(v.Tag))
		ringHold("DataOutputX.ToByteArray", "the encoding of a "+refcodec.ValueTagName(v.Tag), raw) // kept as returned; the oracle goes on with its copy
	}); p != nil {
		return &failure{"encode-panics", fmt.Sprintf("WriteValue panics: %v", p), nil}, nil
	}
	ref := refcodec.EncodeValue(v)
	if !bytes.Equal(enc, ref) {
		off := firstDiff(enc, ref)
		return &failure{"bytes-differ",
			fmt.Sprintf("WriteValue bytes differ from the reference encoding at offset %d (golib %d bytes, reference %d bytes)", off, len(enc), len(ref)),
			map[string]interface{}{"golib_hex": vlib.Hex(enc), "reference_hex": vlib.Hex(ref), "first_diff": off,
				"golib_window": window(enc, off), "reference_window": window(ref, off)}}, nil
	}
	input := append(append(make([]byte, 0, len(enc)+len(canary)), enc...), canary...)
	in := gio.NewDataInputX(input)
	var d value.Value
	if p := vlib.Catch(func() { d = value.ReadValue(in) }); p != nil {
		return &failure{"decode-panics", fmt.Sprintf("ReadValue panics on the library's own encoding: %v", p),
			map[string]interface{}{"encoding_hex": vlib.Hex(enc)}}, nil
	}
	ringVerify("ReadValue of a " + refcodec.ValueTagName(v.Tag))
	if av := in.Available(); int(av) != len(canary) {
		return &failure{"not-consumed",
			fmt.Sprintf("after ReadValue Available()=%d, want %d (encoding %d bytes + %d canary bytes)", av, len(canary), len(enc), len(canary)),
			map[string]interface{}{"encoding_hex": vlib.Hex(enc), "available": av}}, nil
	}
	var rest []byte
	if p := vlib.Catch(func() { rest = in.ReadBytes(int32(len(canary))) }); p != nil || !bytes.Equal(rest, canary) {
		return &failure{"not-consumed", fmt.Sprintf("the bytes following the decoded value are %x, want the canary %x", rest, canary),
			map[string]interface{}{"encoding_hex": vlib.Hex(enc)}}, nil
	}
	if d == nil {
		return &failure{"not-restored@nil", "ReadValue returned nil", nil}, nil
	}
	if gt := d.GetValueType(); gt != v.Tag {
		return &failure{"not-restored@type", fmt.Sprintf("decoded value reports type code %d, want %d", gt, v.Tag),
			map[string]interface{}{"encoding_hex": vlib.Hex(enc)}}, nil
	}
	var dv V
	if p := vlib.Catch(func() { dv = valgen.FromGolib(d) }); p != nil {
		return &failure{"not-restored@walk-panics", fmt.Sprintf("walking the decoded value through its accessors panics: %v", p),
			map[string]interface{}{"encoding_hex": vlib.Hex(enc)}}, nil
	}
	if ok, path := valgen.Equal(v, dv); !ok {
		return &failure{"not-restored@" + lastSegments(valgen.PathKind(path), 3),
			"decoded value differs from the original at " + path,
			map[string]interface{}{"encoding_hex": vlib.Hex(enc), "path": path, "decoded": valgen.Render(dv, 2000)}}, nil
	}
	var enc2 []byte
	if p := vlib.Catch(func() {
		out := gio.NewDataOutputX()
		value.WriteValue(out, d)
		raw := out.ToByteArray()
		enc2 = append([]byte(nil), raw...)
		ringVerify("WriteValue of a decoded " + refcodec.ValueTagName(v.Tag))
		ringHold("DataOutputX.ToByteArray", "the re-encoding of a decoded "+refcodec.ValueTagName(v.Tag), raw)
	}); p != nil {
		return &failure{"reencode-panics", fmt.Sprintf("WriteValue of the decoded value panics: %v", p), nil}, nil
	}
	if !bytes.Equal(enc, enc2) {
		off := firstDiff(enc, enc2)
		return &failure{"reencode-differs", fmt.Sprintf("re-encoding the decoded value differs at offset %d (%d vs %d bytes)", off, len(enc), len(enc2)),
			map[string]interface{}{"encoding_hex": vlib.Hex(enc), "reencoded_hex": vlib.Hex(enc2), "first_diff": off,
				"first_window": window(enc, off), "second_window": window(enc2, off)}}, nil
	}
	info := &okInfo{enc: enc, decoded: []value.Value{d}}
	if f := purity(v, enc, input, d, info); f != nil {
		return f, nil
	}
	if o.net && (o.netForce || len(enc) <= netAlwaysBelow || o.salt%3 == 0) {
		if f := netRoundTrip(v, enc, o, info); f != nil {
			return f, nil
		}
	}
	ringVerify("the second decode, the overwritten input and the connection-backed decode of a " + refcodec.ValueTagName(v.Tag))
	return nil, info
}

// netRoundTrip: the encoding arrives over a connection in fragments; same tree, exact consumption.
func netRoundTrip(v V, enc []byte, o opts, info *okInfo) *failure {
	out := netDecode(enc, canary, vlib.NewRand(vlib.Mix(o.salt^vlib.HashBytes(enc))))
	if out.inconclusive != "" {
		return &failure{kind: kindInconclusive, what: out.inconclusive}
	}
	det := func(extra map[string]interface{}) map[string]interface{} {
		m := map[string]interface{}{"encoding_hex": vlib.Hex(enc), "input_mode": "io.NewDataInputNet(net.Pipe end)",
			"fragment_plan": out.plan, "fragments": out.fragments, "conn_reads": out.reads, "conn_short_reads": out.short}
		for k, x := range extra {
			m[k] = x
		}
		return m
	}
	if out.panicked != nil {
		return &failure{kind: "decode-panics/net-mode", what: fmt.Sprintf("ReadValue panics when the encoding (which decodes from a byte buffer) is read from a connection: %v", out.panicked),
			detail: det(map[string]interface{}{"last_conn_read_error": fmt.Sprint(out.readErr)})}
	}
	if !bytes.Equal(out.after, canary) {
		return &failure{kind: "not-consumed/net-mode",
			what:   fmt.Sprintf("connection-backed ReadValue took %d bytes of the %d-byte encoding: the next bytes on the connection are %x (err %v), want the sentinel %x", out.consumed, len(enc), out.after, out.afterErr, canary),
			detail: det(map[string]interface{}{"consumed": out.consumed})}
	}
	d := out.d
	if d == nil {
		return &failure{kind: "not-restored@nil/net-mode", what: "connection-backed ReadValue returned nil", detail: det(nil)}
	}
	if gt := d.GetValueType(); gt != v.Tag {
		return &failure{kind: "not-restored@type/net-mode", what: fmt.Sprintf("value decoded from a connection reports type code %d, want %d", gt, v.Tag), detail: det(nil)}
	}
	var dv V
	if p := vlib.Catch(func() { dv = valgen.FromGolib(d) }); p != nil {
		return &failure{kind: "not-restored@walk-panics/net-mode", what: fmt.Sprintf("walking the value decoded from a connection panics: %v", p), detail: det(nil)}
	}
	if ok, path := valgen.Equal(v, dv); !ok {
		return &failure{kind: "not-restored@" + lastSegments(valgen.PathKind(path), 3) + "/net-mode",
			what:   "value decoded from a connection differs from the original at " + path + " (the byte-buffer decode of the same bytes is equal)",
			detail: det(map[string]interface{}{"path": path, "decoded": valgen.Render(dv, 2000)})}
	}
	var enc2 []byte
	if p := vlib.Catch(func() {
		w := gio.NewDataOutputX()
		value.WriteValue(w, d)
		enc2 = w.ToByteArray()
	}); p != nil {
		return &failure{kind: "reencode-panics/net-mode", what: fmt.Sprintf("WriteValue of the value decoded from a connection panics: %v", p), detail: det(nil)}
	}
	if !bytes.Equal(enc, enc2) {
		off := firstDiff(enc, enc2)
		return &failure{kind: "reencode-differs/net-mode", what: fmt.Sprintf("re-encoding the value decoded from a connection differs at offset %d (%d vs %d bytes)", off, len(enc), len(enc2)),
			detail: det(map[string]interface{}{"reencoded_hex": vlib.Hex(enc2), "first_diff": off})}
	}
	info.decoded = append(info.decoded, d)
	info.net = out
	return nil
}

func baseKind(k string) string {
	if i := strings.IndexByte(k, '@'); i >= 0 {
		return k[:i]
	}
	return k
}

// without returns the container v without entries [i, i+n).
func without(v V, i, n int) V {
	w := v
	cutV := func(s []V) []V { return append(append([]V(nil), s[:i]...), s[i+n:]...) }
	switch v.Tag {
	case refcodec.TList:
		w.List = cutV(v.List)
	case refcodec.TMap:
		w.Keys = append(append([]string(nil), v.Keys[:i]...), v.Keys[i+n:]...)
		w.Vals = cutV(v.Vals)
	case refcodec.TIntMap:
		w.IntKeys = append(append([]int32(nil), v.IntKeys[:i]...), v.IntKeys[i+n:]...)
		w.Vals = cutV(v.Vals)
	}
	return w
}

// minimize walks down to the smallest failing sub-value and then drops container entries
// that are not needed for the failure (same base kind), within a bounded number of trials.
func minimize(v V, f *failure) (V, *failure) {
	// the optional connection-backed decode is repeated only when it is what failed
	o := opts{}
	if strings.HasSuffix(f.kind, "/net-mode") {
		o = opts{net: true, netForce: true, salt: 1}
	}
	trials := 200000
	for trials > 0 {
		moved := false
		kids := valgen.Children(&v)
		for i := range kids {
			trials--
			if cf, _ := roundTrip(kids[i], o); cf != nil && !cf.inconclusive() {
				v, f, moved = kids[i], cf, true
				break
			}
			if trials <= 0 {
				break
			}
		}
		if !moved {
			break
		}
	}
	if valgen.IsContainer(v.Tag) {
		trials = 400
		n := len(valgen.Children(&v))
		for chunk := n / 2; chunk >= 1 && trials > 0; chunk /= 2 {
			for i := 0; i+chunk <= n && trials > 0; {
				trials--
				w := without(v, i, chunk)
				if wf, _ := roundTrip(w, o); wf != nil && !wf.inconclusive() && baseKind(wf.kind) == baseKind(f.kind) {
					v, f = w, wf
					n -= chunk
				} else {
					i += chunk
				}
			}
		}
	}
	return v, f
}

// ---- reflection probes of the backing tables (evidence only, never a verdict) -----------

// chains returns the bucket count and the longest hash chain of the linked map behind a
// decoded MapValue / IntMapValue.
func chains(x value.Value) (buckets, longest int) {
	defer func() { recover() }()
	var next string
	switch x.(type) {
	case *value.MapValue:
		next = "hash_next"
	case *value.IntMapValue:
		next = "next"
	default:
		return 0, 0
	}
	tab := reflect.ValueOf(x).Elem().FieldByName("table").Elem().FieldByName("table")
	buckets = tab.Len()
	for i := 0; i < buckets; i++ {
		n := 0
		for e := tab.Index(i); !e.IsNil(); e = e.Elem().FieldByName(next) {
			n++
		}
		if n > longest {
			longest = n
		}
	}
	return
}

// ---- evidence accumulators (single goroutine; flushed once) -------------------------------

var (
	nodesByTag [256]int64
	topByTag   [256]int64
	// the same, for values that also went through the connection-backed decode
	netNodesByTag [256]int64
	netTopByTag   [256]int64
	netPlans      = map[string]bool{}
	stat          = map[string]int64{}
	maxes         = map[string]int64{}
	shapes        = map[string]bool{}
)

func bump(k string, n int64) { stat[k] += n }
func top(k string, v int64) {
	if v > maxes[k] {
		maxes[k] = v
	}
}

func observe(c *vlib.Ctx, section string, v V, ok *okInfo) valgen.Stat {
	st := valgen.Stats(v, func(n *V, depth int) {
		nodesByTag[n.Tag]++
		if valgen.IsContainer(n.Tag) {
			name := refcodec.ValueTagName(n.Tag)
			k := len(valgen.Children(n))
			switch {
			case k == 0:
				bump("containers_empty", 1)
				shapes[name+":empty"] = true
			case k == 1:
				bump("containers_singleton", 1)
				shapes[name+":singleton"] = true
			case k > 75:
				bump("containers_grown", 1) // more than 75 entries: the 101-bucket table has grown
				shapes[name+":wide"] = true
			default:
				shapes[name+":small"] = true
			}
			if k >= 2 {
				kids := valgen.Children(n)
				for i := 1; i < k; i++ {
					if kids[i].Tag != kids[0].Tag {
						bump("containers_mixed_types", 1)
						shapes[name+":mixed"] = true
						break
					}
				}
			}
		}
	})
	topByTag[v.Tag]++
	bump("values_checked", 1)
	bump("nodes_total", int64(st.Nodes))
	bump("bytes_total", int64(len(ok.enc)))
	bump("canary_checks", 1)
	bump("reencodes_compared", 1)
	bump("purity_second_decodes", 1)
	bump("purity_input_overwrites", 1)
	if n := ok.net; n != nil {
		bump("net_mode_decodes", 1)
		bump("net_mode_nodes", int64(st.Nodes))
		bump("net_mode_bytes", int64(len(ok.enc)))
		bump("net_mode_fragments", int64(n.fragments))
		bump("net_mode_conn_reads", n.reads)
		bump("net_mode_short_reads", n.short) // the decoder had to loop for the rest of a primitive
		bump("net_mode_sentinel_checks", 1)
		top("max_net_mode_bytes", int64(len(ok.enc)))
		top("max_net_mode_fragments", int64(n.fragments))
		netTopByTag[v.Tag]++
		netPlans[n.plan] = true
		valgen.Stats(v, func(x *V, _ int) { netNodesByTag[x.Tag]++ })
	}
	top("max_depth", int64(st.Depth))
	top("max_width", int64(st.MaxWidth))
	top("max_encoding_bytes", int64(len(ok.enc)))
	if st.Depth >= 8 {
		bump("values_depth_ge8", 1)
	}
	if st.Depth >= 64 {
		bump("values_depth_ge64", 1)
	}
	if st.MaxWidth >= 10000 {
		bump("values_width_ge10000", 1)
	}
	if b, l := chains(ok.decoded[0]); b > 0 {
		which := "str"
		if v.Tag == refcodec.TIntMap {
			which = "int"
		}
		top("max_chain_"+which, int64(l))
		top("max_buckets_"+which, int64(b))
		if l >= 8 {
			bump("maps_chain_ge8_"+which, 1)
		}
		if b > 101 {
			bump("maps_table_grown_"+which, 1)
		}
	}
	if len(ok.enc) > 1 {
		c.DistinctBytes(ok.enc)
	}
	if c.WantSample() && st.Nodes >= 3 && st.Nodes <= 12 && len(ok.enc) <= 96 {
		c.Sample(map[string]interface{}{"section": section, "value": valgen.Render(v, 400), "encoding_hex": vlib.Hex(ok.enc),
			"nodes": st.Nodes, "depth": st.Depth, "also_decoded_from_connection": ok.net != nil})
	}
	return st
}

// check is the per-case entry: oracle, minimisation, reporting, evidence. r is the case's
// stream after the value was generated from it (it only salts the fragment sizes).
func check(c *vlib.Ctx, section string, i int, r *vlib.Rand, v V) {
	id := fmt.Sprintf("%s#%d", section, i)
	f, ok := roundTrip(v, opts{net: true, salt: r.U64()})
	if f == nil {
		st := observe(c, section, v, ok)
		laterValues(c, id, v, st.Nodes, ok)
		return
	}
	if f.inconclusive() {
		c.Inconclusive(id, f.what)
		bump("values_inconclusive", 1)
		return
	}
	mv, mf := minimize(v, f)
	key := refcodec.ValueTagName(mv.Tag) + ":" + mf.kind
	detail := map[string]interface{}{
		"minimal_failing_value": valgen.Render(mv, 4000),
		"generated_value":       valgen.Render(v, 1500),
		"kind":                  mf.kind,
	}
	for k, x := range mf.detail {
		detail[k] = x
	}
	c.Fail(key, refcodec.ValueTagName(mv.Tag)+": "+mf.what, detail)
	bump("values_failed", 1)
}

// ---- deterministic edge list ----------------------------------------------------------------

func edgeCases() []func() V {
	var out []func() V
	add := func(v V) { out = append(out, func() V { return v }) }
	lazy := func(f func() V) { out = append(out, f) }

	add(V{Tag: refcodec.TNull})
	add(V{Tag: refcodec.TBool})
	add(V{Tag: refcodec.TBool, I: 1})

	// integers: every decimal class edge ±2, every power of two ±1, extremes
	var ints []int64
	for _, e := range []int64{0, 127, 128, 32767, 32768, 8388607, 8388608, 2147483647, 2147483648, 549755813887, 549755813888} {
		for d := int64(-2); d <= 2; d++ {
			ints = append(ints, e+d, -e+d)
		}
	}
	for k := uint(0); k < 63; k++ {
		p := int64(1) << k
		ints = append(ints, p-1, p, p+1, -p-1, -p, -p+1)
	}
	ints = append(ints, math.MinInt64, math.MinInt64+1, math.MaxInt64, math.MaxInt64-1)
	for _, x := range ints {
		add(V{Tag: refcodec.TDecimal, I: x})
		add(V{Tag: refcodec.TLong, I: x})
		if x >= math.MinInt32 && x <= math.MaxInt32 {
			add(V{Tag: refcodec.TInt, I: x})
			add(V{Tag: refcodec.TTextHash, I: x})
		}
	}
	// floats: special bit patterns (kept as bits all the way)
	f64 := []uint64{0, 0x8000000000000000, 1, 0x8000000000000001, 0x000fffffffffffff, 0x0010000000000000,
		0x7fefffffffffffff, 0xffefffffffffffff, 0x7ff0000000000000, 0xfff0000000000000, 0x7ff8000000000000,
		0xfff8000000000000, 0x7ff0000000000001, 0x7ff4000000000000, 0xfff0000000000001, 0x7fffffffffffffff,
		0xffffffffffffffff, 0x3ff0000000000000, 0xbff0000000000000, 0x0102030405060708, 0x8070605040302010}
	for _, b := range f64 {
		add(V{Tag: refcodec.TDouble, F: math.Float64frombits(b)})
	}
	f32 := []uint32{0, 0x80000000, 1, 0x80000001, 0x007fffff, 0x00800000, 0x7f7fffff, 0xff7fffff, 0x7f800000,
		0xff800000, 0x7fc00000, 0xffc00000, 0x7f800001, 0x7fa00000, 0xff800001, 0x7fffffff, 0xffffffff,
		0x3f800000, 0xbf800000, 0x01020304, 0x80706050}
	for _, b := range f32 {
		add(V{Tag: refcodec.TFloat, F32: math.Float32frombits(b)})
	}
	// summaries: all-zero (nil), distinct fields (a swap of two fields shows), extremes, NaN payloads
	add(V{Tag: refcodec.TDoubleSummary})
	add(V{Tag: refcodec.TLongSummary})
	add(V{Tag: refcodec.TLongSummary, LS: &refcodec.LongSum{Sum: 0x0102030405060708, Count: 0x090a0b0c, Min: 0x1112131415161718, Max: 0x2122232425262728}})
	add(V{Tag: refcodec.TDoubleSummary, DS: &refcodec.DoubleSum{Sum: math.Float64frombits(0x0102030405060708), Count: 0x090a0b0c,
		Min: math.Float64frombits(0x1112131415161718), Max: math.Float64frombits(0x2122232425262728)}})
	for _, x := range []int64{math.MinInt64, -1, 1, math.MaxInt64} {
		for _, n := range []int32{math.MinInt32, -1, 0, 1, math.MaxInt32} {
			add(V{Tag: refcodec.TLongSummary, LS: &refcodec.LongSum{Sum: x, Count: n, Min: -x, Max: x ^ 0x55}})
		}
	}
	for _, b := range f64 {
		add(V{Tag: refcodec.TDoubleSummary, DS: &refcodec.DoubleSum{Sum: math.Float64frombits(b), Count: int32(b), Min: math.Float64frombits(^b), Max: math.Float64frombits(b ^ 0xff)}})
	}
	// text and blob: every length 0..300 and the 16/32-bit prefix thresholds; nil vs empty
	add(V{Tag: refcodec.TBlob, B: nil})
	add(V{Tag: refcodec.TBlob, B: []byte{}})
	lens := []int{}
	for n := 0; n <= 300; n++ {
		lens = append(lens, n)
	}
	lens = append(lens, 32767, 32768, 65534, 65535, 65536, 65537, 1<<20)
	for _, n := range lens {
		n := n
		lazy(func() V { return V{Tag: refcodec.TText, S: string(pattern(n, 'a'))} })
		lazy(func() V { return V{Tag: refcodec.TBlob, B: pattern(n, 0)} })
	}
	for _, s := range []string{"\x00", "\xff", "\xff\xfe\xfd", "한국어", "é", "😀", "a\x00b", "\xed\xa0\x80", "\xc0\x80"} {
		add(V{Tag: refcodec.TText, S: s})
	}
	for _, ip := range [][]byte{{0, 0, 0, 0}, {255, 255, 255, 255}, {127, 0, 0, 1}, {1, 2, 3, 4}, {192, 168, 0, 1}, {0, 0, 0, 1}, {1, 0, 0, 0}, {128, 129, 130, 131}} {
		add(V{Tag: refcodec.TIP4, B: ip})
	}
	// arrays: nil, empty, and the lengths around every byte boundary of the 16-bit count
	add(V{Tag: refcodec.TIntArray})
	add(V{Tag: refcodec.TIntArray, Ints: []int32{}})
	add(V{Tag: refcodec.TLongArray})
	add(V{Tag: refcodec.TLongArray, Longs: []int64{}})
	add(V{Tag: refcodec.TFloatArray})
	add(V{Tag: refcodec.TFloatArray, Floats: []float32{}})
	add(V{Tag: refcodec.TTextArray})
	add(V{Tag: refcodec.TTextArray, Texts: []string{}})
	for _, n := range []int{1, 2, 3, 127, 128, 129, 255, 256, 257, 1000, 32766, 32767} {
		n := n
		lazy(func() V {
			v := V{Tag: refcodec.TIntArray, Ints: make([]int32, n)}
			for i := range v.Ints {
				v.Ints[i] = int32(i*0x01010101) ^ int32(n)
			}
			return v
		})
		lazy(func() V {
			v := V{Tag: refcodec.TLongArray, Longs: make([]int64, n)}
			for i := range v.Longs {
				v.Longs[i] = int64(i)*0x0101010101010101 ^ int64(n)<<40
			}
			return v
		})
		lazy(func() V {
			v := V{Tag: refcodec.TFloatArray, Floats: make([]float32, n)}
			for i := range v.Floats {
				v.Floats[i] = math.Float32frombits(uint32(i)*0x9e3779b1 ^ uint32(n))
			}
			return v
		})
		lazy(func() V {
			v := V{Tag: refcodec.TTextArray, Texts: make([]string, n)}
			for i := range v.Texts {
				v.Texts[i] = string(pattern(i%7, byte('a'+i%26)))
			}
			return v
		})
	}
	lazy(func() V { // text array whose elements sit at the blob prefix thresholds
		return V{Tag: refcodec.TTextArray, Texts: []string{"", string(pattern(253, 'x')), string(pattern(254, 'y')), "", string(pattern(65535, 'z')), string(pattern(65536, 'w')), "end"}}
	})
	// containers: sizes around the growth thresholds of the backing tables (75 % of 101, 203, 407, 815)
	for _, n := range []int{0, 1, 2, 3, 74, 75, 76, 77, 100, 101, 102, 151, 152, 153, 202, 203, 204, 304, 305, 306, 610, 611, 612, 127, 128, 255, 256, 32767, 32768} {
		n := n
		lazy(func() V {
			v := V{Tag: refcodec.TList, List: make([]V, n)}
			for i := range v.List {
				v.List[i] = V{Tag: refcodec.TDecimal, I: int64(i)}
			}
			return v
		})
		lazy(func() V {
			v := V{Tag: refcodec.TMap, Keys: make([]string, n), Vals: make([]V, n)}
			for i := range v.Keys {
				v.Keys[i] = fmt.Sprintf("key-%d", n-i) // descending: insertion order ≠ sorted order
				v.Vals[i] = V{Tag: refcodec.TInt, I: int64(i)}
			}
			return v
		})
		lazy(func() V {
			v := V{Tag: refcodec.TIntMap, IntKeys: make([]int32, n), Vals: make([]V, n)}
			for i := range v.IntKeys {
				v.IntKeys[i] = int32(n-i) * 7919 // descending
				v.Vals[i] = V{Tag: refcodec.TText, S: fmt.Sprint(i)}
			}
			return v
		})
	}
	// one container holding one value of every type (mixed element types), in each container kind
	every := func() []V {
		var l []V
		for _, t := range refcodec.ValueTags {
			switch t {
			case refcodec.TList:
				l = append(l, V{Tag: t, List: []V{{Tag: refcodec.TNull}}})
			case refcodec.TMap:
				l = append(l, V{Tag: t, Keys: []string{""}, Vals: []V{{Tag: refcodec.TBool, I: 1}}})
			case refcodec.TIntMap:
				l = append(l, V{Tag: t, IntKeys: []int32{-1}, Vals: []V{{Tag: refcodec.TText, S: "x"}}})
			case refcodec.TIP4:
				l = append(l, V{Tag: t, B: []byte{10, 0, 0, 1}})
			case refcodec.TIntArray:
				l = append(l, V{Tag: t, Ints: []int32{1, -1}})
			case refcodec.TLongArray:
				l = append(l, V{Tag: t, Longs: []int64{1, -1}})
			case refcodec.TFloatArray:
				l = append(l, V{Tag: t, Floats: []float32{1.5, -0.25}})
			case refcodec.TTextArray:
				l = append(l, V{Tag: t, Texts: []string{"a", ""}})
			default:
				l = append(l, V{Tag: t, I: 5, F: 2.5, F32: -7.25, S: "text", B: []byte{1, 2, 3},
					LS: &refcodec.LongSum{Sum: 1, Count: 2, Min: 3, Max: 4}, DS: &refcodec.DoubleSum{Sum: 1.5, Count: 2, Min: -3, Max: 4}})
			}
		}
		return l
	}
	lazy(func() V { return V{Tag: refcodec.TList, List: every()} })
	lazy(func() V {
		l := every()
		v := V{Tag: refcodec.TMap, Vals: l}
		for i := range l {
			v.Keys = append(v.Keys, refcodec.ValueTagName(l[i].Tag))
		}
		return v
	})
	lazy(func() V {
		l := every()
		v := V{Tag: refcodec.TIntMap, Vals: l}
		for i := range l {
			v.IntKeys = append(v.IntKeys, int32(l[i].Tag)-40)
		}
		return v
	})
	// map keys at the text prefix thresholds, the empty key, int keys at the extremes
	lazy(func() V {
		ks := []string{"", "a", string(pattern(253, 'k')), string(pattern(254, 'k')), string(pattern(255, 'k')), string(pattern(65535, 'k')), string(pattern(65536, 'k')), "\xff\x00"}
		v := V{Tag: refcodec.TMap, Keys: ks}
		for i := range ks {
			v.Vals = append(v.Vals, V{Tag: refcodec.TDecimal, I: int64(i)})
		}
		return v
	})
	lazy(func() V {
		ks := []int32{0, -1, 1, math.MaxInt32, math.MinInt32, math.MinInt32 + 1, 101, 202, -101, 0x7fffff9b}
		v := V{Tag: refcodec.TIntMap, IntKeys: ks}
		for i := range ks {
			v.Vals = append(v.Vals, V{Tag: refcodec.TDecimal, I: int64(i)})
		}
		return v
	})
	return out
}

func pattern(n int, first byte) []byte {
	b := make([]byte, n)
	for i := range b {
		b[i] = first + byte(i%23)
	}
	return b
}

var wideSizes = []int{76, 153, 306, 612, 1224, 2448, 5000, 13056, 26112, 40000}
var arrayTags = []byte{refcodec.TIntArray, refcodec.TLongArray, refcodec.TFloatArray, refcodec.TTextArray}
var contTags = []byte{refcodec.TList, refcodec.TMap, refcodec.TIntMap}

func main() {
	c := vlib.Start("C02")
	// one held-results case written out as a sample, before the round trips use the sample quota up
	c.Section("held-sample", false, func() {
		heldSample = true
		heldCase(c, "held-sample#0", c.Rand("held-sample#0"))
		heldSample = false
	})
	heldRingCtx = c

	edges := edgeCases()
	c.Cases("edge", len(edges), func(i int, r *vlib.Rand) {
		check(c, "edge", i, r, edges[i]())
	})

	nRandom := c.N(24000, 560000)
	c.Cases("random", nRandom, func(i int, r *vlib.Rand) {
		depth := []int{0, 1, 1, 2, 2, 3, 3, 4, 5, 6, 8}[r.Intn(11)]
		width := []int{0, 1, 2, 3, 3, 5, 8, 12, 20, 40}[r.Intn(10)]
		check(c, "random", i, r, valgen.Gen(r, depth, width))
	})

	nPerType := c.N(3000, 24000)
	c.Cases("per-type", nPerType, func(i int, r *vlib.Rand) {
		tag := refcodec.ValueTags[int(vlib.Mix(uint64(i))%uint64(len(refcodec.ValueTags)))] // independent of the shard stride
		depth := r.Intn(5)
		width := []int{0, 1, 2, 4, 8, 16, 100}[r.Intn(7)]
		check(c, "per-type", i, r, valgen.GenTag(r, tag, depth, width))
	})

	// deep nesting: every depth 1…64 (quick); thorough continues to 2000
	maxDeep := c.N(64, 2000)
	nDeep := c.N(64, 64+242)
	c.Cases("deep", nDeep, func(i int, r *vlib.Rand) {
		depth := i + 1
		if i >= 64 {
			depth = 64 + (i-63)*8 // 72, 80, … 2000
		}
		if depth > maxDeep {
			depth = maxDeep
		}
		v := valgen.Deep(r, depth)
		if st := valgen.Stats(v, nil); st.Depth < depth {
			panic(fmt.Sprintf("generator: wanted depth %d, built %d", depth, st.Depth))
		}
		check(c, "deep", i, r, v)
	})

	// wide containers (several table growths, up to 40 000 entries) and full-length arrays
	nWide := c.N(60, 360)
	c.Cases("wide", nWide, func(i int, r *vlib.Rand) {
		if i%6 == 5 {
			tag := arrayTags[(i/6)%4]
			n := []int{32767, 32766, 16384, 4097}[(i/24)%4]
			check(c, "wide", i, r, valgen.Wide(r, tag, n))
			return
		}
		k := i - i/6 - 0 // index among the container cases
		tag := contTags[k%3]
		n := wideSizes[len(wideSizes)-1-(k/3)%len(wideSizes)] // largest first: 40 000 is always reached
		check(c, "wide", i, r, valgen.Wide(r, tag, n))
	})

	// keys that collide in the backing tables
	nCollide := c.N(1500, 20000)
	c.Cases("collide", nCollide, func(i int, r *vlib.Rand) {
		n := []int{2, 3, 8, 30, 74, 75, 76, 77, 150, 257, 400}[r.Intn(11)]
		var v V
		if i%2 == 0 {
			ks := valgen.CollidingStrKeys(r, n)
			v = V{Tag: refcodec.TMap, Keys: ks, Vals: make([]V, len(ks))}
		} else {
			ks := valgen.CollidingIntKeys(r, n)
			v = V{Tag: refcodec.TIntMap, IntKeys: ks, Vals: make([]V, len(ks))}
		}
		for j := range v.Vals {
			if r.Chance(1, 20) {
				v.Vals[j] = valgen.Gen(r, 2, 3)
			} else {
				v.Vals[j] = valgen.Leaf(r, 3)
			}
		}
		check(c, "collide", i, r, v)
	})

	// wide containers whose entries are empty and non-empty containers of every type, with a
	// nested tail (streams.go); a few depths beyond the quick range of the deep section
	nWideNested := c.N(42, 252)
	c.Cases("wide-nested", nWideNested, func(i int, r *vlib.Rand) {
		v := wideNested(r, i)
		empties := 0
		for _, k := range valgen.Children(&v) {
			if valgen.IsContainer(k.Tag) && len(valgen.Children(&k)) == 0 {
				empties++
			}
		}
		bump("wide_nested_values", 1)
		bump("wide_nested_empty_entries", int64(empties))
		top("max_wide_nested_empty_entries", int64(empties))
		check(c, "wide-nested", i, r, v)
	})
	deepExtra := []int{128, 256, 511, 512, 513, 514, 768, 1024}
	c.Cases("deep-extra", len(deepExtra), func(i int, r *vlib.Rand) {
		check(c, "deep-extra", i, r, valgen.Deep(r, deepExtra[i]))
	})

	recheckElders(c, "end-of-run", nil) // the long-lived decoded values, after everything else
	ringVerify("the end of the round-trip sections")
	heldRingCtx = nil // the sections below hold their results themselves

	// held results, live objects, multi-object order (held.go): sequentially …
	nHeld := c.N(6000, 90000)
	c.Section("held-fixed", false, func() { heldFixedProbes(c) })
	c.Cases("held", nHeld, func(i int, r *vlib.Rand) {
		heldCase(c, fmt.Sprintf("held#%d", i), r)
	})
	// … and the same cases from 8 goroutines at once: concurrent callers own their objects
	nHeldPar := c.N(6000, 60000)
	before := c.Counter("held_cases")
	c.ParallelCases("held-parallel", nHeldPar, 8, func(i int, r *vlib.Rand) {
		heldCase(c, fmt.Sprintf("held-parallel#%d", i), r)
	})
	c.Count("held_parallel_cases", c.Counter("held_cases")-before)
	// independent encoders at the same time, every text / blob / key in the long length classes (parlong.go)
	nParLong := c.N(6400, 64000)
	c.ParallelCases("parallel-long", nParLong, 8, func(i int, r *vlib.Rand) { parallelLongCase(c, i, r) })

	// many values through one output and one input; shared sub-objects; histories
	nStream := c.N(96, 960)
	c.Cases("stream", nStream, func(i int, r *vlib.Rand) { streamCase(c, i, r) })
	nShared := c.N(5000, 80000)
	c.Cases("shared", nShared, func(i int, r *vlib.Rand) { sharedCase(c, i, r) })
	nHistory := c.N(5000, 80000)
	c.Cases("history", nHistory, func(i int, r *vlib.Rand) { historyCase(c, i, r) })
	// histories of containers grown over the table-size thresholds (histgrow.go)
	nGrown := c.N(2100, 21000)
	c.Cases("history-grown", nGrown, func(i int, r *vlib.Rand) { grownHistoryCase(c, i, r) })

	// ---- flush evidence ---------------------------------------------------------------------
	for k, n := range stat {
		c.Count(k, n)
	}
	for k, n := range maxes {
		c.Max(k, n)
	}
	for k := range shapes {
		c.SetAdd("shapes", k)
	}
	for k := range netPlans {
		c.SetAdd("net_mode_fragment_plans", k)
	}
	var typesSeen int64
	for _, t := range refcodec.ValueTags {
		name := refcodec.ValueTagName(t)
		if nodesByTag[t] > 0 {
			typesSeen++
			c.SetAdd("types_covered", name)
			c.Count("nodes_"+name, nodesByTag[t])
		}
		if topByTag[t] > 0 {
			c.Count("toplevel_"+name, topByTag[t])
		}
		if netNodesByTag[t] > 0 {
			c.SetAdd("net_mode_types_covered", name)
			c.Count("net_mode_nodes_"+name, netNodesByTag[t])
		}
	}
	if c.Only == "" {
		// Floors are totals over all shards (the driver sums min and got): shard 0 carries the
		// minimum, the others contribute what they saw. All are ≤ 10 % of a healthy run.
		floor := func(name string, minTotal, got int64) {
			if c.Shard != 0 {
				minTotal = 0
			}
			c.Floor(name, minTotal, got)
		}
		total := int64(len(edges) + nRandom + nPerType + nDeep + nWide + nCollide + nWideNested + len(deepExtra))
		floor("values_checked", total/10, stat["values_checked"])
		c.Floor("types_seen_per_shard", 20, typesSeen) // every shard meets all 20 implemented types
		for _, t := range refcodec.ValueTags {
			floor("nodes_"+refcodec.ValueTagName(t), int64(nRandom+nPerType)/20, nodesByTag[t])
		}
		// connection-backed decodes: most values take it; every type is met nested and fragmented
		floor("net_mode_decodes", total/10, stat["net_mode_decodes"])
		floor("net_mode_short_reads", total/10, stat["net_mode_short_reads"])
		floor("net_mode_sentinel_checks", total/10, stat["net_mode_sentinel_checks"])
		for _, t := range refcodec.ValueTags {
			floor("net_mode_nodes_"+refcodec.ValueTagName(t), int64(nRandom+nPerType)/40, netNodesByTag[t])
		}
		floor("purity_second_decodes", total/10, stat["purity_second_decodes"])
		floor("purity_later_rewalks", total/10, stat["purity_later_rewalks"])
		floor("purity_long_lived_values", 16, stat["purity_long_lived_values"])
		// held results and live objects (counted through the Ctx: the parallel section adds to them)
		nh := int64(nHeld + nHeldPar)
		floor("held_cases", nh/10, c.Counter("held_cases"))
		floor("held_parallel_cases", int64(nHeldPar)/10, c.Counter("held_parallel_cases"))
		floor("held_results", nh/2, c.Counter("held_results"))
		floor("held_results_DataOutputX.ToByteArray", nh/2, c.Counter("held_results_DataOutputX.ToByteArray"))
		floor("held_reverifications", nh*5, c.Counter("held_reverifications"))
		floor("held_object_rewalks", nh*5, c.Counter("held_object_rewalks"))
		floor("held_objects_built", nh/4, c.Counter("held_objects_built"))
		floor("held_objects_decoded", nh/4, c.Counter("held_objects_decoded"))
		floor("held_multi_object_histories", nh/10, c.Counter("held_multi_object_histories"))
		floor("held_multi_object_decodes", nh/4, c.Counter("held_multi_object_decodes"))
		floor("held_input_overwrites", nh/10, c.Counter("held_input_overwrites"))
		floor("held_ctor_probes", nh/40, c.Counter("held_ctor_probes"))
		floor("held_ring_results", total/10, stat["held_ring_results"])
		floor("held_ring_reverifications", total/2, stat["held_ring_reverifications"])
		floor("values_depth_ge8", int64(nRandom/2000+nDeep/8), stat["values_depth_ge8"])
		d64 := int64(nDeep-63) / 10
		if d64 < 1 {
			d64 = 1
		}
		floor("values_depth_ge64", d64, stat["values_depth_ge64"])
		floor("containers_grown", int64(nWide), stat["containers_grown"])
		floor("values_width_ge10000", int64(nWide/30), stat["values_width_ge10000"])
		floor("containers_empty", int64(nRandom/10), stat["containers_empty"])
		floor("containers_singleton", int64(nRandom/20), stat["containers_singleton"])
		floor("containers_mixed_types", int64(nRandom/10), stat["containers_mixed_types"])
		// streams, shared sub-objects, histories
		floor("wide_nested_values", int64(nWideNested)/2, stat["wide_nested_values"])
		floor("wide_nested_empty_entries", int64(nWideNested)*60, stat["wide_nested_empty_entries"])
		floor("stream_cases", int64(nStream)/10, stat["stream_cases"])
		floor("stream_values", int64(nStream)*100, stat["stream_values"])
		floor("stream_net_mode_values", int64(nStream)*100, stat["stream_net_mode_values"])
		floor("stream_empty_containers", int64(nStream)*50, stat["stream_empty_containers"])
		floor("shared_cases", int64(nShared)/10, c.Counter("shared_cases"))
		floor("graph_values_with_shared_containers", int64(nShared)/20, c.Counter("graph_values_with_shared_containers"))
		floor("graph_values_with_container_at_two_depths", int64(nShared)/40, c.Counter("graph_values_with_container_at_two_depths"))
		floor("graph_objects_in_two_values", int64(nShared)/10, c.Counter("graph_objects_in_two_values"))
		floor("graph_streams", int64(nShared+nHistory)/10, c.Counter("graph_streams"))
		floor("graph_writes", int64(nShared+nHistory), c.Counter("graph_writes"))
		for _, wm := range writeModes {
			floor("graph_writes_"+wm, int64(nShared+nHistory)/10, c.Counter("graph_writes_"+wm))
		}
		floor("history_cases", int64(nHistory)/10, c.Counter("history_cases"))
		floor("history_mutations", int64(nHistory)/2, c.Counter("history_mutations"))
		floor("history_rewrites_of_parents", int64(nHistory)/2, c.Counter("history_rewrites_of_parents"))
		floor("history_mutations_of_decoded_objects", int64(nHistory)/10, c.Counter("history_mutations_of_decoded_objects"))
		floor("history_mutations_of_helper_made_objects", int64(nHistory)/20, c.Counter("history_mutations_of_helper_made_objects"))
		for _, mu := range historyMutators {
			floor("history_mutations_"+mu, int64(nHistory)/200, c.Counter("history_mutations_"+mu))
		}
		grownFloors(floor, c, nGrown)
		parallelLongFloors(floor, c, nParLong)
		for _, w := range []string{"str", "int"} {
			floor("maps_chain_ge8_"+w, int64(nCollide/40), stat["maps_chain_ge8_"+w])
			floor("maps_table_grown_"+w, int64(nCollide/50), stat["maps_table_grown_"+w])
		}
	}
	c.Finish()
	fmt.Println("done")
}
