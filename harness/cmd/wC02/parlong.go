// Independent encoders at the same time, long length classes.
//
// Concurrent callers own their objects and their outputs (held-parallel, held.go). Texts, blobs,
// map keys and text-array elements longer than 253 bytes take the two long length forms
// (marker 255 + 16-bit length, marker 254 + 32-bit length); the values the other sections draw
// hold few of them, so two goroutines are seldom inside a long-form write at the same moment.
// Here every case is a value made of such elements only, with lengths particular to the case,
// and 8 goroutines of the shard encode their own values over and over into fresh outputs:
// the bytes must be the reference encoding each time, the decode the model, the re-encoding the
// same bytes. Nothing is shared by the callers, so whatever one goroutine writes cannot depend
// on what another one writes.
//
//	<Type>:bytes-differ/parallel-long      <Type>:encode-panics/parallel-long
//	<Type>:decode-panics/parallel-long     <Type>:not-consumed/parallel-long
//	<Type>:not-restored/parallel-long      <Type>:reencode-differs/parallel-long
package main

import (
	"bytes"
	"fmt"

	gio "github.com/whatap/golib/io"
	"github.com/whatap/golib/lang/value"

	"verif/refcodec"
	"verif/valgen"
	"verif/vlib"
)

const parallelLongRounds = 24

// longValue: a value whose texts / blobs / keys are all in the long length classes.
func longValue(r *vlib.Rand, i int) (v V, short2, int4 int) {
	huge := r.Chance(1, 30)
	length := func() int {
		if huge {
			huge = false
			int4++
			return 65536 + (i*131)%5000 + r.Intn(64)
		}
		short2++
		switch r.Intn(12) {
		case 0:
			return 254
		case 1:
			return 255
		case 2:
			return 256
		case 3:
			return 65535 - r.Intn(3)
		}
		return 257 + (i*37)%3000 + r.Intn(200)
	}
	text := func() V { return V{Tag: refcodec.TText, S: r.AsciiN(length())} }
	blob := func() V { return V{Tag: refcodec.TBlob, B: r.Bytes(length())} }
	either := func() V {
		if r.Bool() {
			return text()
		}
		return blob()
	}
	key := func(j int) string { return fmt.Sprintf("%d:", j) + r.AsciiN(length()) }
	switch i % 6 {
	case 0:
		v = text()
	case 1:
		v = blob()
	case 2:
		v = V{Tag: refcodec.TTextArray}
		for j := 2 + r.Intn(4); j > 0; j-- {
			v.Texts = append(v.Texts, r.AsciiN(length()))
		}
	case 3:
		v = V{Tag: refcodec.TMap}
		for j := 0; j < 2+r.Intn(3); j++ {
			v.Keys = append(v.Keys, key(j))
			v.Vals = append(v.Vals, either())
		}
	case 4:
		v = V{Tag: refcodec.TList}
		for j := 3 + r.Intn(4); j > 0; j-- {
			v.List = append(v.List, either())
		}
	default:
		v = V{Tag: refcodec.TIntMap}
		for j := 0; j < 2+r.Intn(3); j++ {
			v.IntKeys = append(v.IntKeys, int32(j*101+i))
			if j == 1 {
				v.Vals = append(v.Vals, V{Tag: refcodec.TMap, Keys: []string{key(0)}, Vals: []V{either()}})
			} else {
				v.Vals = append(v.Vals, either())
			}
		}
	}
	return
}

func parallelLongCase(c *vlib.Ctx, i int, r *vlib.Rand) {
	v, short2, int4 := longValue(r, i)
	typ := refcodec.ValueTagName(v.Tag)
	id := fmt.Sprintf("parallel-long#%d", i)
	ref := refcodec.EncodeValue(v)
	fail := func(kind, what string, extra map[string]interface{}) {
		d := map[string]interface{}{"case": id, "model": valgen.Render(v, 600), "reference_bytes": len(ref),
			"note": "the value, its golib object and every output belong to this goroutine alone; 7 other goroutines encode their own values at the same time"}
		for k, x := range extra {
			d[k] = x
		}
		c.Fail(typ+":"+kind+"/parallel-long", typ+": "+what, d)
	}
	var g value.Value
	if p := vlib.Catch(func() { g = valgen.ToGolib(v) }); p != nil {
		fail("build-panics", fmt.Sprintf("building the value panics: %v", p), nil)
		return
	}
	for k := 0; k < parallelLongRounds; k++ {
		var enc []byte
		if p := vlib.Catch(func() {
			o := gio.NewDataOutputX()
			value.WriteValue(o, g)
			enc = o.ToByteArray()
		}); p != nil {
			fail("encode-panics", fmt.Sprintf("WriteValue (round %d) panics: %v", k, p), nil)
			return
		}
		if !bytes.Equal(enc, ref) {
			off := firstDiff(enc, ref)
			fail("bytes-differ", fmt.Sprintf("round %d: the bytes WriteValue put into a fresh output differ from the reference encoding at offset %d (golib %d bytes, reference %d bytes)", k, off, len(enc), len(ref)),
				map[string]interface{}{"first_diff": off, "golib_window": window(enc, off), "reference_window": window(ref, off), "round": k})
			return
		}
		c.Count("parallel_long_encodes", 1)
		if k%4 != 0 {
			continue
		}
		input := append(append(make([]byte, 0, len(enc)+len(canary)), enc...), canary...)
		in := gio.NewDataInputX(input)
		var d value.Value
		if p := vlib.Catch(func() { d = value.ReadValue(in) }); p != nil {
			fail("decode-panics", fmt.Sprintf("ReadValue of the encoding (round %d) panics: %v", k, p), nil)
			return
		}
		if av := int(in.Available()); av != len(canary) {
			fail("not-consumed", fmt.Sprintf("round %d: after ReadValue Available()=%d, want %d", k, av, len(canary)), nil)
			return
		}
		var dv V
		pw := vlib.Catch(func() { dv = valgen.FromGolib(d) })
		if ok, path := valgen.Equal(v, dv); pw != nil || !ok {
			fail("not-restored", fmt.Sprintf("round %d: the decoded value differs from the model at %s (panic %v)", k, path, pw), map[string]interface{}{"path": path})
			return
		}
		var enc2 []byte
		if p := vlib.Catch(func() {
			o := gio.NewDataOutputX()
			value.WriteValue(o, d)
			enc2 = o.ToByteArray()
		}); p != nil || !bytes.Equal(enc2, ref) {
			off := firstDiff(enc2, ref)
			fail("reencode-differs", fmt.Sprintf("round %d: re-encoding the decoded value differs from the encoding at offset %d (panic %v)", k, off, p),
				map[string]interface{}{"first_diff": off, "golib_window": window(enc2, off), "reference_window": window(ref, off)})
			return
		}
		c.Count("parallel_long_decodes", 1)
	}
	c.Count("parallel_long_cases", 1)
	c.Count("parallel_long_elements_16bit_length", int64(short2))
	c.Count("parallel_long_elements_32bit_length", int64(int4))
	c.Distinct(vlib.HashBytes(ref))
}

func parallelLongFloors(floor func(name string, minTotal, got int64), c *vlib.Ctx, n int) {
	floor("parallel_long_cases", int64(n)/10, c.Counter("parallel_long_cases"))
	floor("parallel_long_encodes", int64(n)*parallelLongRounds/10, c.Counter("parallel_long_encodes"))
	floor("parallel_long_decodes", int64(n)*parallelLongRounds/40, c.Counter("parallel_long_decodes"))
	floor("parallel_long_elements_16bit_length", int64(n)/5, c.Counter("parallel_long_elements_16bit_length"))
	floor("parallel_long_elements_32bit_length", int64(n)/400, c.Counter("parallel_long_elements_32bit_length"))
}
