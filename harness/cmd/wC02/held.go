// Held results: what the library hands out stays what it was.
//
// A round trip that compares every result at once cannot see an encoder that returns a slice
// of a buffer it will use again, a decoder that hands out slices of a scratch buffer or of
// the caller's input, or a constructor that returns an instance it also gives to others: the
// result is right when it is returned and changes LATER, when another object is built,
// written or read. Here several objects are alive at the same time:
//
//	held results   every slice the library returns in the scope of the value codec — the
//	               DataOutputX.ToByteArray result after WriteValue / WriteMapValue /
//	               IntMapValue.WriteValue (own output, or one output shared by several values),
//	               and the payload slices of decoded values (BlobValue.Val, IP4Value.Val,
//	               IntArray/LongArray/FloatArray/TextArray.Val) — is kept AS RETURNED next to a
//	               private copy and compared with it after every later library call of the case
//	               and at its end:            <Func>:result-altered-later
//	live objects   values built through the constructors and values decoded from bytes are
//	               walked again (exported API) after every later call — other values of the
//	               same type and the same size, of other types, smaller and larger ones being
//	               built, written and read, their own input slice overwritten — and must equal
//	               the generator's private model:
//	                                          <Type>:built-object-altered-later
//	                                          <Type>:decoded-object-altered-later
//	multi-object   all values of a round are written first; only then are the results decoded,
//	order          in a drawn order, and compared with the models:
//	                                          <Type>:bytes-differ/multi-object
//	                                          <Type>:not-restored@<leaf>/multi-object …
//	constructors   a second instance built from the same model is changed through its exported
//	               fields / Add / Put; a third one built afterwards must hold the model:
//	                                          <Type>:constructor-result-shared
//
// The same cases also run on 8 goroutines at once (section held-parallel): every goroutine
// owns its objects, so concurrent callers must not disturb each other.
//
// Independently of these cases, every encoding the ordinary round trips obtain is kept as
// returned in a small ring (ringHold) and re-verified after the following decodes and encodes.
package main

import (
	"bytes"
	"fmt"
	"math"

	gio "github.com/whatap/golib/io"
	"github.com/whatap/golib/lang/value"

	"verif/refcodec"
	"verif/valgen"
	"verif/vlib"
)

// ---- a slice kept as returned, next to a private copy ------------------------------------------

type held struct {
	fn   string // the library function / field that handed the slice out
	what string // which object, when
	n    int
	// differs compares the slice as returned with the private copy taken at that moment; ""
	// when they still agree
	differs func() string
	dead    bool
}

func holdOf[T any](fn, what string, s []T, eq func(a, b T) bool) *held {
	cp := append(make([]T, 0, len(s)), s...)
	return &held{fn: fn, what: what, n: len(s), differs: func() string {
		for i := range cp {
			if !eq(s[i], cp[i]) {
				lo, hi := i-4, i+12
				if lo < 0 {
					lo = 0
				}
				if hi > len(cp) {
					hi = len(cp)
				}
				return fmt.Sprintf("element %d of %d: was %v, is now %v (elements %d..%d were %v, are now %v)", i, len(cp), cp[i], s[i], lo, hi-1, cp[lo:hi], s[lo:hi])
			}
		}
		return ""
	}}
}

func holdBytes(fn, what string, b []byte) *held {
	return holdOf(fn, what, b, func(a, b byte) bool { return a == b })
}

// payloads collects the slices a decoded value hands out through its exported fields, at any
// depth (at most max of them).
func payloads(x value.Value, path string, max int, out *[]*held) {
	if len(*out) >= max {
		return
	}
	switch t := x.(type) {
	case *value.BlobValue:
		if len(t.Val) > 0 {
			*out = append(*out, holdBytes("BlobValue.Val", path, t.Val))
		}
	case *value.IP4Value:
		if len(t.Val) > 0 {
			*out = append(*out, holdBytes("IP4Value.Val", path, t.Val))
		}
	case *value.IntArray:
		if len(t.Val) > 0 {
			*out = append(*out, holdOf("IntArray.Val", path, t.Val, func(a, b int32) bool { return a == b }))
		}
	case *value.LongArray:
		if len(t.Val) > 0 {
			*out = append(*out, holdOf("LongArray.Val", path, t.Val, func(a, b int64) bool { return a == b }))
		}
	case *value.FloatArray:
		if len(t.Val) > 0 {
			*out = append(*out, holdOf("FloatArray.Val", path, t.Val, func(a, b float32) bool { return math.Float32bits(a) == math.Float32bits(b) }))
		}
	case *value.TextArray:
		if len(t.Val) > 0 {
			*out = append(*out, holdOf("TextArray.Val", path, t.Val, func(a, b string) bool { return a == b }))
		}
	case *value.ListValue:
		for i := 0; i < t.Size() && len(*out) < max; i++ {
			payloads(t.Get(i), fmt.Sprintf("%s[%d]", path, i), max, out)
		}
	case *value.MapValue:
		en := t.Keys()
		for en.HasMoreElements() && len(*out) < max {
			k := en.NextString()
			payloads(t.Get(k), fmt.Sprintf("%s{%q}", path, k), max, out)
		}
	case *value.IntMapValue:
		en := t.Keys()
		for en.HasMoreElements() && len(*out) < max {
			k := en.NextInt()
			payloads(t.Get(k), fmt.Sprintf("%s{%d}", path, k), max, out)
		}
	}
}

// ---- the ring behind the ordinary round trips (single goroutine) -------------------------------

const heldRingSize = 6

var (
	heldRing     [heldRingSize]*held
	heldRingNext int
	heldRingCtx  *vlib.Ctx
	heldRingCase string
)

// ringHold keeps b as returned; the caller goes on with its own copy.
func ringHold(fn, what string, b []byte) {
	if heldRingCtx == nil || len(b) == 0 {
		return
	}
	heldRing[heldRingNext] = holdBytes(fn, what, b)
	heldRingNext = (heldRingNext + 1) % heldRingSize
	bump("held_ring_results", 1)
}

// ringVerify compares every kept result with its copy, after the library call named by after.
func ringVerify(after string) {
	c := heldRingCtx
	if c == nil {
		return
	}
	for i, h := range heldRing {
		if h == nil {
			continue
		}
		bump("held_ring_reverifications", 1)
		if d := h.differs(); d != "" {
			heldRing[i] = nil
			c.Fail(h.fn+":result-altered-later",
				fmt.Sprintf("%s: the %d bytes returned for %s were kept as returned and have changed after %s: %s", h.fn, h.n, h.what, after, d),
				map[string]interface{}{"function": h.fn, "result_of": h.what, "changed_after": after, "difference": d, "case": heldRingCase})
			bump("values_failed", 1)
		}
	}
}

// ---- one case: several objects alive at once ------------------------------------------------------

type watched struct {
	kind string // "built" | "decoded"
	what string
	v    V // the generator's private model
	g    value.Value
	dead bool
}

type hcase struct {
	c      *vlib.Ctx
	id     string
	log    []string
	held   []*held
	objs   []*watched
	cnt    map[string]int64
	failed bool
}

func (h *hcase) logf(f string, a ...interface{}) {
	if len(h.log) < 400 {
		h.log = append(h.log, fmt.Sprintf(f, a...))
	}
}

func (h *hcase) detail(extra map[string]interface{}) map[string]interface{} {
	m := map[string]interface{}{"case": h.id, "history": append([]string(nil), h.log...)}
	for k, x := range extra {
		m[k] = x
	}
	return m
}

func (h *hcase) fail(key, what string, extra map[string]interface{}) {
	h.failed = true
	h.cnt["held_failures"]++
	h.c.Fail(key, what, h.detail(extra))
}

func (h *hcase) hold(x *held) {
	h.held = append(h.held, x)
	h.cnt["held_results"]++
	h.cnt["held_results_"+x.fn]++
}

func (h *hcase) watch(kind, what string, v V, g value.Value) {
	h.objs = append(h.objs, &watched{kind: kind, what: what, v: v, g: g})
	h.cnt["held_objects_"+kind]++
}

// after re-verifies everything that is alive, after the library call described by step.
func (h *hcase) after(step string) {
	h.logf("%s", step)
	for _, x := range h.held {
		if x.dead {
			continue
		}
		h.cnt["held_reverifications"]++
		if d := x.differs(); d != "" {
			x.dead = true
			h.fail(x.fn+":result-altered-later",
				fmt.Sprintf("%s: the result for %s was kept as returned and has changed after a later call (%s): %s", x.fn, x.what, step, d),
				map[string]interface{}{"function": x.fn, "result_of": x.what, "changed_after": step, "difference": d})
		}
	}
	for _, o := range h.objs {
		if o.dead {
			continue
		}
		h.cnt["held_object_rewalks"]++
		var now V
		if p := vlib.Catch(func() { now = valgen.FromGolib(o.g) }); p != nil {
			o.dead = true
			h.fail(refcodec.ValueTagName(o.v.Tag)+":"+o.kind+"-object-altered-later",
				fmt.Sprintf("walking %s panics after a later call (%s): %v", o.what, step, p),
				map[string]interface{}{"object": o.what, "model": valgen.Render(o.v, 2000), "changed_after": step})
			continue
		}
		if ok, path := valgen.Equal(o.v, now); !ok {
			o.dead = true
			typ := innerType(path)
			h.fail(typ+":"+o.kind+"-object-altered-later",
				fmt.Sprintf("%s: %s equalled its model when it was %s and differs at %s after a later call on another object (%s)", typ, o.what, o.kind, path, step),
				map[string]interface{}{"object": o.what, "model": valgen.Render(o.v, 2000), "now": valgen.Render(now, 2000), "path": path, "changed_after": step})
		}
	}
}

// sibling returns a value of the same type and the same shape and sizes with other payloads:
// its encoding has (nearly always) the same length and differs in most bytes.
func sibling(r *vlib.Rand, v V) V {
	w := v
	x := int64(1 + r.Intn(127))
	switch v.Tag {
	case refcodec.TNull:
	case refcodec.TBool:
		w.I = 1 - v.I
	case refcodec.TDecimal, refcodec.TLong, refcodec.TInt, refcodec.TTextHash:
		w.I = v.I ^ x
	case refcodec.TFloat:
		w.F32 = math.Float32frombits(math.Float32bits(v.F32) ^ uint32(x))
	case refcodec.TDouble:
		w.F = math.Float64frombits(math.Float64bits(v.F) ^ uint64(x))
	case refcodec.TDoubleSummary:
		if v.DS != nil {
			d := *v.DS
			d.Sum = math.Float64frombits(math.Float64bits(d.Sum) ^ uint64(x))
			d.Count ^= int32(x)
			d.Max = math.Float64frombits(math.Float64bits(d.Max) ^ uint64(x)<<8)
			w.DS = &d
		}
	case refcodec.TLongSummary:
		if v.LS != nil {
			d := *v.LS
			d.Sum ^= x
			d.Count ^= int32(x)
			d.Min ^= x << 8
			w.LS = &d
		}
	case refcodec.TText:
		b := []byte(v.S)
		for i := range b {
			b[i] = 'a' + byte(r.Intn(26))
		}
		w.S = string(b)
	case refcodec.TBlob, refcodec.TIP4:
		if v.B != nil {
			w.B = r.Bytes(len(v.B))
		}
	case refcodec.TIntArray:
		if v.Ints != nil {
			w.Ints = make([]int32, len(v.Ints))
			for i := range w.Ints {
				w.Ints[i] = r.I32()
			}
		}
	case refcodec.TLongArray:
		if v.Longs != nil {
			w.Longs = make([]int64, len(v.Longs))
			for i := range w.Longs {
				w.Longs[i] = r.I64()
			}
		}
	case refcodec.TFloatArray:
		if v.Floats != nil {
			w.Floats = make([]float32, len(v.Floats))
			for i := range w.Floats {
				w.Floats[i] = r.F32()
			}
		}
	case refcodec.TTextArray:
		if v.Texts != nil {
			w.Texts = make([]string, len(v.Texts))
			for i, s := range v.Texts {
				b := []byte(s)
				for j := range b {
					b[j] = 'A' + byte(r.Intn(26))
				}
				w.Texts[i] = string(b)
			}
		}
	case refcodec.TList:
		if v.List != nil {
			w.List = make([]V, len(v.List))
			for i := range v.List {
				w.List[i] = sibling(r, v.List[i])
			}
		}
	case refcodec.TMap, refcodec.TIntMap:
		if v.Vals != nil {
			w.Vals = make([]V, len(v.Vals))
			for i := range v.Vals {
				w.Vals[i] = sibling(r, v.Vals[i])
			}
		}
	}
	return w
}

// family draws the values of one round around base: same type and size, same type of any
// size, other types, smaller and larger ones, in a drawn order.
func family(r *vlib.Rand, base V, depth, width, k int) []V {
	out := make([]V, 0, k)
	for len(out) < k {
		switch r.Intn(7) {
		case 0, 1:
			out = append(out, sibling(r, base))
		case 2:
			out = append(out, valgen.GenTag(r, base.Tag, depth, width))
		case 3:
			out = append(out, valgen.Leaf(r, 2)) // small, any leaf type
		case 4:
			out = append(out, valgen.Gen(r, depth+1, width*2+4)) // usually larger
		case 5:
			// a payload longer than everything else in the round
			if r.Bool() {
				out = append(out, V{Tag: refcodec.TBlob, B: r.Bytes(len(refcodec.EncodeValue(base)) + r.Range(1, 600))})
			} else {
				out = append(out, V{Tag: refcodec.TText, S: r.AsciiN(len(refcodec.EncodeValue(base)) + r.Range(1, 600))})
			}
		default:
			out = append(out, valgen.Gen(r, depth, width))
		}
	}
	r.Shuffle(len(out), func(i, j int) { out[i], out[j] = out[j], out[i] })
	return out
}

// scribble changes a value the caller built through what the type exports.
func scribble(g value.Value) bool {
	switch t := g.(type) {
	case *value.BoolValue:
		t.Val = !t.Val
	case *value.DecimalValue:
		t.Val ^= 0x5555
	case *value.IntValue:
		t.Val ^= 0x5555
	case *value.LongValue:
		t.Val ^= 0x5555
	case *value.FloatValue:
		t.Val = math.Float32frombits(math.Float32bits(t.Val) ^ 0x5555)
	case *value.DoubleValue:
		t.Val = math.Float64frombits(math.Float64bits(t.Val) ^ 0x5555)
	case *value.DoubleSummary:
		t.Count ^= 0x5555
		t.Sum = math.Float64frombits(math.Float64bits(t.Sum) ^ 0x5555)
	case *value.LongSummary:
		t.Count ^= 0x5555
		t.Sum ^= 0x5555
	case *value.TextValue:
		t.Val += "+scribbled"
	case *value.TextHashValue:
		t.Val ^= 0x5555
	case *value.BlobValue:
		t.Val = append(append([]byte(nil), t.Val...), 0xEE)
	case *value.IP4Value:
		t.Val = []byte{0xEE, 0xEE, 0xEE, 0xEE}
	case *value.IntArray:
		t.Val = append(append([]int32(nil), t.Val...), 0x5555)
	case *value.LongArray:
		t.Val = append(append([]int64(nil), t.Val...), 0x5555)
	case *value.FloatArray:
		t.Val = append(append([]float32(nil), t.Val...), 5.5)
	case *value.TextArray:
		t.Val = append(append([]string(nil), t.Val...), "+scribbled")
	case *value.ListValue:
		// every element the constructors made for this instance, then the container itself
		for i := 0; i < t.Size(); i++ {
			scribble(t.Get(i))
		}
		t.Add(value.NewTextValue("+scribbled"))
	case *value.MapValue:
		var keys []string
		for en := t.Keys(); en.HasMoreElements(); {
			keys = append(keys, en.NextString())
		}
		for _, k := range keys {
			scribble(t.Get(k))
		}
		t.Put("+scribbled\x00key", value.NewDecimalValue(0x5555))
	case *value.IntMapValue:
		var keys []int32
		for en := t.Keys(); en.HasMoreElements(); {
			keys = append(keys, en.NextInt())
		}
		for _, k := range keys {
			scribble(t.Get(k))
		}
		t.Put(0x55555555, value.NewDecimalValue(0x5555))
	default:
		return false
	}
	return true
}

type hobj struct {
	v      V
	name   string
	g      value.Value
	ref    []byte // reference encoding of the model
	raw    []byte // the library's encoding, as returned
	cp     []byte // … copied when it was returned
	d      value.Value
	stream bool
}

func short(v V) string { return valgen.Render(v, 160) }

// heldCase runs one case; everything it touches is its own (so it can run on many goroutines).
func heldCase(c *vlib.Ctx, id string, r *vlib.Rand) {
	h := &hcase{c: c, id: id, cnt: map[string]int64{}}
	defer func() {
		for k, n := range h.cnt {
			c.Count(k, n)
		}
	}()
	depth := []int{0, 0, 1, 1, 2, 3}[r.Intn(6)]
	width := []int{0, 1, 2, 3, 5, 8, 12}[r.Intn(7)]
	base := valgen.Gen(r, depth, width)
	if r.Chance(1, 3) {
		base = valgen.GenTag(r, refcodec.ValueTags[r.Intn(len(refcodec.ValueTags))], depth, width)
	}
	var all []*hobj
	rounds := 1 + r.Intn(2)
	hash := uint64(0)
	for round := 0; round < rounds && !h.failed; round++ {
		k := 3 + r.Intn(3)
		if round > 0 {
			k = 2 + r.Intn(2)
		}
		vals := family(r, base, depth, width, k)
		if round == 0 {
			vals[r.Intn(len(vals))] = base
		}
		objs := make([]*hobj, len(vals))
		for i, v := range vals {
			objs[i] = &hobj{v: v, name: fmt.Sprintf("object %d.%d (%s)", round, i, refcodec.ValueTagName(v.Tag)), ref: refcodec.EncodeValue(v)}
			hash = vlib.Mix(hash ^ vlib.HashBytes(objs[i].ref))
		}
		all = append(all, objs...)

		// A. build all of them through the constructors
		for _, o := range objs {
			o := o
			if p := vlib.Catch(func() { o.g = valgen.ToGolib(o.v) }); p != nil {
				h.fail(refcodec.ValueTagName(o.v.Tag)+":build-panics/multi-object", fmt.Sprintf("building %s panics: %v", o.name, p), map[string]interface{}{"model": valgen.Render(o.v, 2000)})
				return
			}
			h.watch("built", o.name+" "+short(o.v), o.v, o.g)
			h.after("built " + o.name + " = " + short(o.v))
		}
		// constructor results are the caller's: changing one instance leaves the next one alone
		for pi, probes := 0, r.Intn(3); pi < probes; pi++ {
			o := objs[r.Intn(len(objs))]
			typ := refcodec.ValueTagName(o.v.Tag)
			var second, third value.Value
			if p := vlib.Catch(func() {
				second = valgen.ToGolib(o.v)
				if !scribble(second) {
					return
				}
				third = valgen.ToGolib(o.v)
			}); p == nil && third != nil {
				h.cnt["held_ctor_probes"]++
				var now V
				p := vlib.Catch(func() { now = valgen.FromGolib(third) })
				if ok, path := valgen.Equal(o.v, now); p != nil || !ok {
					h.fail(innerTypeOr(path, typ)+":constructor-result-shared",
						fmt.Sprintf("%s: a second instance built from the model of %s was changed through its exported fields / Add / Put; a third instance built afterwards does not hold the model (differs at %s, panic %v)", typ, o.name, path, p),
						map[string]interface{}{"model": valgen.Render(o.v, 2000), "third_instance": valgen.Render(now, 2000), "path": path})
				}
				h.after("a second instance of " + o.name + " built and changed by the caller, a third one built")
			}
		}

		// B. write all of them, each result kept as returned
		var shared *gio.DataOutputX
		order := r.Intn(2)
		for n := range objs {
			o := objs[n]
			if order == 1 {
				o = objs[len(objs)-1-n]
			}
			mode := r.Intn(4)
			how := ""
			if p := vlib.Catch(func() {
				switch {
				case mode == 0:
					// one output shared by several values of the round: the result is the part written now
					if shared == nil {
						shared = gio.NewDataOutputX()
					}
					start := len(shared.ToByteArray())
					value.WriteValue(shared, o.g)
					whole := shared.ToByteArray()
					o.raw, o.stream = whole[start:], true
					how = fmt.Sprintf("WriteValue into the shared output (bytes %d..%d of it)", start, len(whole))
					h.cnt["held_shared_output_writes"]++
				case mode == 1 && o.v.Tag == refcodec.TMap:
					out := gio.NewDataOutputX()
					value.WriteMapValue(out, o.g.(*value.MapValue))
					o.raw = out.ToByteArray()
					how = "WriteMapValue into its own output"
				case mode == 1 && o.v.Tag == refcodec.TIntMap:
					out := gio.NewDataOutputX()
					o.g.(*value.IntMapValue).WriteValue(out)
					o.raw = out.ToByteArray()
					how = "IntMapValue.WriteValue into its own output"
				default:
					out := gio.NewDataOutputX()
					value.WriteValue(out, o.g)
					o.raw = out.ToByteArray()
					how = "WriteValue into its own output"
				}
			}); p != nil {
				h.fail(refcodec.ValueTagName(o.v.Tag)+":encode-panics/multi-object", fmt.Sprintf("writing %s panics: %v", o.name, p), map[string]interface{}{"model": valgen.Render(o.v, 2000)})
				return
			}
			o.cp = append([]byte(nil), o.raw...)
			h.hold(holdBytes("DataOutputX.ToByteArray", "the encoding of "+o.name, o.raw))
			if !bytes.Equal(o.cp, o.ref) {
				off := firstDiff(o.cp, o.ref)
				h.fail(refcodec.ValueTagName(o.v.Tag)+":bytes-differ/multi-object",
					fmt.Sprintf("%s written after other objects: the bytes differ from the reference encoding at offset %d (golib %d bytes, reference %d bytes)", o.name, off, len(o.cp), len(o.ref)),
					map[string]interface{}{"model": valgen.Render(o.v, 2000), "golib_hex": vlib.Hex(o.cp), "reference_hex": vlib.Hex(o.ref), "first_diff": off})
				return
			}
			h.after(fmt.Sprintf("%s: %s, %d bytes", o.name, how, len(o.raw)))
		}
		if len(objs) >= 3 {
			h.cnt["held_multi_object_histories"]++
		}
		for i := range objs {
			for j := i + 1; j < len(objs); j++ {
				if objs[i].v.Tag == objs[j].v.Tag && len(objs[i].ref) == len(objs[j].ref) && len(objs[i].ref) > 1 && !bytes.Equal(objs[i].ref, objs[j].ref) {
					h.cnt["held_same_type_same_size_pairs"]++
				}
			}
		}

		// C. only now decode the results, in a drawn order
		perm := make([]int, len(objs))
		for i := range perm {
			perm[i] = i
		}
		r.Shuffle(len(perm), func(i, j int) { perm[i], perm[j] = perm[j], perm[i] })
		for _, i := range perm {
			o := objs[i]
			typ := refcodec.ValueTagName(o.v.Tag)
			direct := r.Intn(3) == 0 // read straight from the slice the encoder returned
			var input []byte
			if direct {
				input = o.raw
			} else {
				input = append(append(make([]byte, 0, len(o.cp)+len(canary)), o.cp...), canary...)
			}
			in := gio.NewDataInputX(input)
			if p := vlib.Catch(func() { o.d = value.ReadValue(in) }); p != nil {
				h.fail(typ+":decode-panics/multi-object", fmt.Sprintf("ReadValue of the encoding of %s panics: %v", o.name, p), map[string]interface{}{"model": valgen.Render(o.v, 2000), "encoding_hex": vlib.Hex(o.cp)})
				return
			}
			left := len(canary)
			if direct {
				left = 0
			}
			if av := int(in.Available()); av != left {
				h.fail(typ+":not-consumed/multi-object", fmt.Sprintf("after ReadValue of the %d-byte encoding of %s Available()=%d, want %d", len(o.cp), o.name, av, left), map[string]interface{}{"model": valgen.Render(o.v, 2000), "encoding_hex": vlib.Hex(o.cp)})
				return
			}
			var dv V
			p := vlib.Catch(func() { dv = valgen.FromGolib(o.d) })
			if ok, path := valgen.Equal(o.v, dv); p != nil || !ok {
				kind := "not-restored@walk-panics/multi-object"
				if p == nil {
					kind = "not-restored@" + lastSegments(valgen.PathKind(path), 1) + "/multi-object"
				}
				h.fail(innerTypeOr(path, typ)+":"+kind,
					fmt.Sprintf("%s decoded after all objects of the round were written (and others decoded): differs from its model at %s (panic %v)", o.name, path, p),
					map[string]interface{}{"model": valgen.Render(o.v, 2000), "decoded": valgen.Render(dv, 2000), "path": path, "encoding_hex": vlib.Hex(o.cp)})
				return
			}
			h.cnt["held_multi_object_decodes"]++
			h.watch("decoded", "the value decoded from the encoding of "+o.name+" "+short(o.v), o.v, o.d)
			var ps []*held
			payloads(o.d, "the value decoded from the encoding of "+o.name, 6, &ps)
			for _, x := range ps {
				h.hold(x)
			}
			h.after(fmt.Sprintf("ReadValue of the encoding of %s (directly from the returned slice: %v)", o.name, direct))
			if !direct {
				for j := range input {
					input[j] = byte(0xA5 + j*7)
				}
				h.cnt["held_input_overwrites"]++
				h.after("the input slice " + o.name + " was decoded from overwritten by the caller")
			}
		}

		// D. the decoded values written again, in another order
		r.Shuffle(len(perm), func(i, j int) { perm[i], perm[j] = perm[j], perm[i] })
		for _, i := range perm {
			o := objs[i]
			var again []byte
			if p := vlib.Catch(func() {
				out := gio.NewDataOutputX()
				value.WriteValue(out, o.d)
				again = out.ToByteArray()
			}); p != nil {
				h.fail(refcodec.ValueTagName(o.v.Tag)+":reencode-panics/multi-object", fmt.Sprintf("writing the value decoded from %s panics: %v", o.name, p), nil)
				return
			}
			acp := append([]byte(nil), again...)
			h.hold(holdBytes("DataOutputX.ToByteArray", "the re-encoding of the value decoded from "+o.name, again))
			if !bytes.Equal(acp, o.ref) {
				h.fail(refcodec.ValueTagName(o.v.Tag)+":reencode-differs/multi-object",
					fmt.Sprintf("re-encoding the value decoded from %s differs at offset %d from the encoding", o.name, firstDiff(acp, o.ref)),
					map[string]interface{}{"model": valgen.Render(o.v, 2000), "encoding_hex": vlib.Hex(o.ref), "reencoded_hex": vlib.Hex(acp)})
				return
			}
			h.after("the value decoded from " + o.name + " written again")
		}
	}
	if h.failed {
		return
	}
	// end of the case: every result as returned still decodes to its model
	h.after("end of the case")
	for _, o := range all {
		var d value.Value
		var dv V
		p := vlib.Catch(func() { d = value.ReadValue(gio.NewDataInputX(o.raw)); dv = valgen.FromGolib(d) })
		if ok, path := valgen.Equal(o.v, dv); p != nil || !ok {
			// the bytes themselves were compared with their copy just above: they are what they were
			typ, leafName := refcodec.ValueTagName(o.v.Tag), "decode-panics"
			if path != "" {
				leafName = lastSegments(valgen.PathKind(path), 1)
			}
			h.fail(innerTypeOr(path, typ)+":not-restored@"+leafName+"/multi-object",
				fmt.Sprintf("at the end of the case the (unchanged) encoding of %s no longer decodes to its model (differs at %s, panic %v)", o.name, path, p),
				map[string]interface{}{"model": valgen.Render(o.v, 2000), "decoded_now": valgen.Render(dv, 2000), "encoding_hex": vlib.Hex(o.cp)})
			return
		}
		h.cnt["held_final_decodes"]++
	}
	h.cnt["held_cases"]++
	h.cnt["held_objects_per_case_total"] += int64(len(all))
	c.Distinct(hash)
	if heldSample || (c.WantSample() && len(all) <= 5 && len(h.log) <= 40 && r.Chance(1, 50)) {
		c.Sample(map[string]interface{}{"section": "held", "case": id, "history": h.log})
	}
}

// heldSample: write the history of the case out as an evidence sample (set around one case only)
var heldSample bool

func innerTypeOr(path, typ string) string {
	if path == "" {
		return typ
	}
	return innerType(path)
}

// fixed probes of constructors that make up the payload themselves
func heldFixedProbes(c *vlib.Ctx) {
	a := value.NewIP4Value(nil)
	for i := range a.Val {
		a.Val[i] = 0xEE
	}
	b := value.NewIP4Value(nil)
	if !bytes.Equal(b.Val, []byte{0, 0, 0, 0}) {
		c.Fail("IP4Value:constructor-result-shared", fmt.Sprintf("NewIP4Value(nil).Val was filled with 0xEE by the caller; the next NewIP4Value(nil) holds %x, want 00000000", b.Val), nil)
	}
	x := value.CreateValue(refcodec.TIP4).(*value.IP4Value)
	for i := range x.Val {
		x.Val[i] = 0xDD
	}
	y := value.CreateValue(refcodec.TIP4).(*value.IP4Value)
	if !bytes.Equal(y.Val, []byte{0, 0, 0, 0}) {
		c.Fail("IP4Value:constructor-result-shared", fmt.Sprintf("CreateValue(IP4).Val was filled by the caller; the next CreateValue(IP4) holds %x, want 00000000", y.Val), nil)
	}
	c.Count("held_ctor_probes", 2)
}
