// "Decoding is a pure function of the bytes": the value ReadValue yields has the content of
// the encoding — and keeps it. Three probes, all comparing a fresh walk of a decoded golib
// value (valgen.FromGolib, exported API only) with the generator's private neutral tree:
//
//	second decode    the same bytes decoded again give an equal tree, and the first tree is
//	                 still equal afterwards
//	input reuse      every byte of the caller's input slice is overwritten after the decode;
//	                 both trees are still equal (a decoded blob/text/array must own its bytes)
//	later values     decoded values of earlier cases are kept (the last few of any shape and one
//	                 per top-level type) and walked again after the round trips of later values:
//	                 no state is shared between decoded values, at top level or nested
package main

import (
	"fmt"
	"strings"

	gio "github.com/whatap/golib/io"
	"github.com/whatap/golib/lang/value"

	"verif/refcodec"
	"verif/valgen"
	"verif/vlib"
)

// rewalk walks d again and compares with v; the failure kind is not-restored@<path>/<when>.
func rewalk(v V, d value.Value, when, what string, enc []byte) *failure {
	var dv V
	if p := vlib.Catch(func() { dv = valgen.FromGolib(d) }); p != nil {
		return &failure{kind: "not-restored@walk-panics/" + when, what: fmt.Sprintf("walking the decoded value %s panics: %v", what, p),
			detail: map[string]interface{}{"encoding_hex": vlib.Hex(enc)}}
	}
	if ok, path := valgen.Equal(v, dv); !ok {
		return &failure{kind: "not-restored@" + lastSegments(valgen.PathKind(path), 3) + "/" + when,
			what:   "the decoded value " + what + " differs from the original at " + path,
			detail: map[string]interface{}{"encoding_hex": vlib.Hex(enc), "path": path, "decoded_now": valgen.Render(dv, 2000)}}
	}
	return nil
}

// purity runs the second-decode and input-reuse probes. input is the slice the first decode
// read from (encoding + canary); it is overwritten here.
func purity(v V, enc, input []byte, d value.Value, info *okInfo) *failure {
	input2 := append(append(make([]byte, 0, len(enc)+len(canary)), enc...), canary...)
	in2 := gio.NewDataInputX(input2)
	var d2 value.Value
	if p := vlib.Catch(func() { d2 = value.ReadValue(in2) }); p != nil {
		return &failure{kind: "decode-panics/second-decode", what: fmt.Sprintf("ReadValue panics when the same bytes are decoded a second time: %v", p),
			detail: map[string]interface{}{"encoding_hex": vlib.Hex(enc)}}
	}
	if av := in2.Available(); int(av) != len(canary) {
		return &failure{kind: "not-consumed/second-decode", what: fmt.Sprintf("after decoding the same bytes a second time Available()=%d, want %d", av, len(canary)),
			detail: map[string]interface{}{"encoding_hex": vlib.Hex(enc)}}
	}
	if d2 == nil {
		return &failure{kind: "not-restored@nil/second-decode", what: "the second ReadValue of the same bytes returned nil"}
	}
	if f := rewalk(v, d2, "second-decode", "from a second decode of the same bytes", enc); f != nil {
		return f
	}
	if f := rewalk(v, d, "after-second-decode", "(first decode, walked again after the same bytes were decoded a second time)", enc); f != nil {
		return f
	}
	for i := range input {
		input[i] ^= 0xff
	}
	for i := range input2 {
		input2[i] = ^input2[i] + 1
	}
	if f := rewalk(v, d, "after-input-reuse", "(walked again after the caller overwrote the input slice it was decoded from)", enc); f != nil {
		return f
	}
	if f := rewalk(v, d2, "after-input-reuse", "(second decode, walked again after the caller overwrote the input slice it was decoded from)", enc); f != nil {
		return f
	}
	info.decoded = append(info.decoded, d2)
	return nil
}

// ---- decoded values of earlier cases, re-checked after later round trips ---------------------

type kept struct {
	id      string
	v       V
	decoded []value.Value
}

const (
	ringSize       = 4
	ringMaxNodes   = 4000
	elderMaxNodes  = 400
	elderEveryCase = 32
)

var (
	ring      [ringSize]*kept
	ringNext  int
	elders    = map[byte]*kept{} // first small decoded value per top-level type; lives to the end
	sinceElds int
)

// innerType names the value type a difference path ends in ("ListValue[3]/IP4Value.Val" -> IP4Value).
func innerType(path string) string {
	seg := path[strings.LastIndexByte(path, '/')+1:]
	if i := strings.IndexAny(seg, ".[{"); i >= 0 {
		seg = seg[:i]
	}
	if seg == "" {
		return "Value"
	}
	return seg
}

// recheck walks every decoded tree of k again; a difference is reported (and true returned).
func recheck(c *vlib.Ctx, k *kept, laterID string, later *V) bool {
	for n, d := range k.decoded {
		f := rewalk(k.v, d, "after-other-value", "", nil)
		bump("purity_later_rewalks", 1)
		if f == nil {
			continue
		}
		path, _ := f.detail["path"].(string)
		typ := innerType(path)
		if path == "" {
			typ = refcodec.ValueTagName(k.v.Tag)
		}
		detail := map[string]interface{}{
			"earlier_case": k.id, "earlier_value": valgen.Render(k.v, 3000), "which_decode_of_it": []string{"byte buffer", "byte buffer (second decode)", "connection"}[n%3],
			"encoding_hex": vlib.Hex(refcodec.EncodeValue(k.v)), "later_case": laterID, "kind": f.kind,
		}
		if later != nil {
			detail["later_value"] = valgen.Render(*later, 1500)
		}
		for key, x := range f.detail {
			if key != "encoding_hex" {
				detail[key] = x
			}
		}
		key := typ + ":" + f.kind
		if path != "" { // the innermost segment only: one key per leaf, wherever it is nested
			key = typ + ":not-restored@" + lastSegments(valgen.PathKind(path), 1) + "/after-other-value"
		}
		c.Fail(key, fmt.Sprintf("%s: the value decoded in case %s was equal to the original then, and differs at %s after the round trips of later values (last: %s) — decoded values share state",
			typ, k.id, path, laterID), detail)
		bump("values_failed", 1)
		return true
	}
	return false
}

// laterValues is called after the round trip of case id held: earlier decoded values are
// walked again, then this one is kept.
func laterValues(c *vlib.Ctx, id string, v V, nodes int, ok *okInfo) {
	for i, k := range ring {
		if k != nil && recheck(c, k, id, &v) {
			ring[i] = nil
		}
	}
	sinceElds++
	if sinceElds >= elderEveryCase {
		sinceElds = 0
		recheckElders(c, id, &v)
	}
	if nodes > ringMaxNodes {
		return
	}
	k := &kept{id: id, v: v, decoded: ok.decoded}
	ring[ringNext] = k
	ringNext = (ringNext + 1) % ringSize
	if _, have := elders[v.Tag]; !have && nodes <= elderMaxNodes && len(ok.enc) > 1 {
		elders[v.Tag] = k
		bump("purity_long_lived_values", 1)
	}
}

func recheckElders(c *vlib.Ctx, id string, later *V) {
	for _, t := range refcodec.ValueTags { // fixed order
		if k := elders[t]; k != nil && recheck(c, k, id, later) {
			delete(elders, t)
		}
	}
}
