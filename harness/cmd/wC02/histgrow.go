// Histories of GROWN containers: table-size classes × whole-container / replace-style mutators.
//
// The history section (history.go) changes small objects. The insertion-ordered tables below
// MapValue and IntMapValue start with 101 slots and grow when the 76th, 153rd, 306th, 612th,
// 1224th … entry is put (load 0.75: 101/75, 203/152, 407/305, 815/611, 1631/1223, 3263/2447);
// what a mutator does may depend on how far the table has grown. Here ONE container object
// (ListValue, MapValue, IntMapValue — built through the public adders, through PutAll, or
// decoded from bytes; on its own or nested in a parent) is first brought to a size just
// below, at, and beyond each of these thresholds, written, and then
//
//	changed through one public mutator at that size        (ListValue Clear / Set / Add;
//	        MapValue Clear / PutAll / Put / PutString / PutLong / NewList on keys it holds;
//	        IntMapValue Clear / Put / PutString / PutLong / NewList on keys it holds)
//	written again at once (fresh output, then a drawn way; its parent too),
//	refilled to a small size (old keys in the old order / shuffled / new keys), written,
//	refilled beyond a threshold again (another size class), written,
//	cleared once more at that size, written, refilled small (and sometimes large), written.
//
// After every step the bytes are the reference encoding of the model (hworld.written: bytes,
// consumption, decode) and the live object equals the model (hworld.live). The value types
// offer no Remove. The keys are those of the history section:
//
//	<Type>:encode-panics/history      <Type>:bytes-differ/history     <Type>:not-consumed/history
//	<Type>:not-restored@<leaf>/history    <Type>.<mutator>:content-differs-from-model
//	<Type>:mutator-panics/history
//
// The (type, mutator) pair and the size class of a case are taken from its index, so every
// pair × class is met a fixed number of times whatever the seed; sizes, keys, entries, the
// refill policy and the ways of writing are drawn.
package main

import (
	"fmt"

	gio "github.com/whatap/golib/io"
	"github.com/whatap/golib/lang/value"

	"verif/refcodec"
	"verif/valgen"
	"verif/vlib"
)

type growClass struct {
	name  string
	sizes []int
	next  int // entries at which the table has grown once more
}

var growClasses = []growClass{
	{"at75", []int{74, 75}, 76},
	{"gt75", []int{76, 77, 78, 101, 120, 151, 152}, 153},
	{"gt152", []int{153, 154, 203, 250, 300, 304, 305}, 306},
	{"gt305", []int{306, 307, 310, 407, 500, 610, 611}, 612},
	{"gt611", []int{612, 613, 815, 1000, 1001, 1100, 1222, 1223}, 1224},
	{"gt1223", []int{1224, 1225, 1300, 1350, 1631, 1700}, 2448},
}

// one cycle of classes: the large ones are a share of the cases (weights 2,4,3,3,2,1)
var growSlots = []int{0, 1, 2, 3, 1, 4, 2, 1, 3, 0, 5, 1, 2, 4, 3}

type growPair struct {
	tag byte
	mut string
}

var growPairs = []growPair{
	{refcodec.TList, "Clear"}, {refcodec.TList, "Set"}, {refcodec.TList, "Add"},
	{refcodec.TMap, "Clear"}, {refcodec.TMap, "PutAll"}, {refcodec.TMap, "Put"}, {refcodec.TMap, "PutString"}, {refcodec.TMap, "PutLong"}, {refcodec.TMap, "NewList"},
	{refcodec.TIntMap, "Clear"}, {refcodec.TIntMap, "Put"}, {refcodec.TIntMap, "PutString"}, {refcodec.TIntMap, "PutLong"}, {refcodec.TIntMap, "NewList"},
}

func growClassOf(n int) string {
	switch {
	case n < 74:
		return "lt74"
	case n <= 75:
		return "at75"
	case n <= 152:
		return "gt75"
	case n <= 305:
		return "gt152"
	case n <= 611:
		return "gt305"
	case n <= 1223:
		return "gt611"
	}
	return "gt1223"
}

func growWeight(ci int) int {
	w := 0
	for _, s := range growSlots {
		if s == ci {
			w++
		}
	}
	return w
}

// grownFloors: every (type, mutator) × size class is exercised nGrown/(pairs·slots)·weight
// times by construction; a tenth of that (at least one) is the floor.
func grownFloors(floor func(name string, minTotal, got int64), c *vlib.Ctx, nGrown int) {
	cycle := len(growPairs) * len(growSlots)
	for _, p := range growPairs {
		typ := refcodec.ValueTagName(p.tag)
		for ci, cl := range growClasses {
			per := int64(nGrown/cycle) * int64(growWeight(ci))
			min := per / 10
			if min < 1 && per > 0 {
				min = 1
			}
			name := "hist_grown_" + typ + "." + p.mut + "_at_" + cl.name
			floor(name, min, c.Counter(name))
		}
	}
	for _, tag := range contTags {
		typ := refcodec.ValueTagName(tag)
		for _, cl := range growClasses[1:4] {
			// the second Clear, after the refill beyond a threshold (drawn class)
			name := "hist_grown_" + typ + ".Clear_again_at_" + cl.name
			floor(name, int64(nGrown)/600, c.Counter(name))
		}
		floor("hist_grown_refills_small_"+typ, int64(nGrown)/60, c.Counter("hist_grown_refills_small_"+typ))
		floor("hist_grown_refills_beyond_threshold_"+typ, int64(nGrown)/60, c.Counter("hist_grown_refills_beyond_threshold_"+typ))
		floor("hist_grown_written_right_after_mutator_"+typ, int64(nGrown)/60, c.Counter("hist_grown_written_right_after_mutator_"+typ))
		floor("hist_grown_written_empty_after_Clear_"+typ, int64(nGrown)/100, c.Counter("hist_grown_written_empty_after_Clear_"+typ))
	}
	floor("hist_grown_cases", int64(nGrown)/10, c.Counter("hist_grown_cases"))
	floor("hist_grown_starts_decoded", int64(nGrown)/40, c.Counter("hist_grown_starts_decoded"))
	floor("hist_grown_starts_built", int64(nGrown)/20, c.Counter("hist_grown_starts_built"))
	floor("hist_grown_starts_PutAll", int64(nGrown)/200, c.Counter("hist_grown_starts_PutAll"))
	floor("hist_grown_nested_in_parent", int64(nGrown)/40, c.Counter("hist_grown_nested_in_parent"))
	floor("hist_grown_refills_with_old_keys", int64(nGrown)/20, c.Counter("hist_grown_refills_with_old_keys"))
	floor("hist_grown_size_ge1000", int64(nGrown)/200, c.Counter("hist_grown_size_ge1000"))
	floor("hist_grown_size_ge1300", int64(nGrown)/400, c.Counter("hist_grown_size_ge1300"))
}

type grown struct {
	*hworld
	n       *mnode
	root    *mnode
	typ     string
	curStr  map[string]bool
	curInt  map[int32]bool
	everStr map[string]bool
	everInt map[int32]bool
	pastStr []string // what the container held before its last Clear, in that order
	pastInt []int32
	seq     int
}

func (g *grown) size() int {
	if g.n.tag == refcodec.TList {
		return len(g.n.items)
	}
	return len(g.n.vals)
}

// leafV is a small scalar; now and then any leaf the generator knows.
func (g *grown) leafV() V {
	r := g.r
	switch r.Intn(14) {
	case 0:
		return valgen.Leaf(r, 2)
	case 1:
		return V{Tag: refcodec.TNull}
	case 2:
		return V{Tag: refcodec.TBool, I: int64(r.Intn(2))}
	case 3, 4, 5:
		return V{Tag: refcodec.TDecimal, I: r.I64()}
	case 6:
		return V{Tag: refcodec.TInt, I: int64(r.I32())}
	case 7:
		return V{Tag: refcodec.TLong, I: r.I64()}
	case 8:
		return V{Tag: refcodec.TDouble, F: r.F64()}
	case 9:
		return V{Tag: refcodec.TIP4, B: r.Bytes(4)}
	case 10:
		return V{Tag: refcodec.TTextHash, I: int64(r.I32())}
	}
	return V{Tag: refcodec.TText, S: r.Str(12)}
}

// entry draws the object for one more position of the container: a new scalar, rarely a small
// new container, or an object the container holds already (a second position).
func (g *grown) entry() *mnode {
	r := g.r
	if r.Chance(1, 40) {
		return g.fromTree(valgen.GenTag(r, contTags[r.Intn(3)], 1, 2))
	}
	if kids := g.n.kids(); len(kids) > 0 && r.Chance(1, 30) {
		g.cnt["graph_positions_shared"]++
		return kids[r.Intn(len(kids))]
	}
	return g.leafNode(g.leafV(), "built")
}

func (g *grown) newStr() string {
	for try := 0; ; try++ {
		var k string
		switch {
		case try > 8:
			k = fmt.Sprintf("u%d-%s", g.seq, g.r.AsciiN(6))
		case g.r.Chance(1, 8):
			k = g.r.Str(14)
		case g.r.Chance(1, 6):
			k = fmt.Sprintf("key%d", g.seq)
		default:
			k = g.r.Ident()
		}
		g.seq++
		if !g.everStr[k] {
			g.everStr[k] = true
			return k
		}
	}
}

func (g *grown) newInt(base int32) int32 {
	for try := 0; ; try++ {
		var k int32
		switch {
		case try > 8:
			k = int32(g.r.U32())
		case g.r.Chance(1, 3):
			k = base + int32(g.seq)
		default:
			k = g.r.I32()
		}
		g.seq++
		if !g.everInt[k] {
			g.everInt[k] = true
			return k
		}
	}
}

var refillPolicies = []string{"new keys", "old keys in their old order", "old keys shuffled", "old and new keys alternating"}

// strKeys draws k keys the container does not hold now.
func (g *grown) strKeys(k, policy int) []string {
	var old []string
	if policy > 0 {
		seen := map[string]bool{}
		for _, e := range g.pastStr {
			if !g.curStr[e] && !seen[e] {
				seen[e] = true
				old = append(old, e)
			}
		}
		if policy == 2 {
			g.r.Shuffle(len(old), func(i, j int) { old[i], old[j] = old[j], old[i] })
		}
	}
	out := make([]string, 0, k)
	for len(out) < k {
		if len(old) > 0 && (policy != 3 || len(out)%2 == 0) {
			out = append(out, old[0])
			old = old[1:]
			g.cnt["hist_grown_old_keys_put_again"]++
			continue
		}
		out = append(out, g.newStr())
	}
	return out
}

func (g *grown) intKeys(k, policy int) []int32 {
	var old []int32
	if policy > 0 {
		seen := map[int32]bool{}
		for _, e := range g.pastInt {
			if !g.curInt[e] && !seen[e] {
				seen[e] = true
				old = append(old, e)
			}
		}
		if policy == 2 {
			g.r.Shuffle(len(old), func(i, j int) { old[i], old[j] = old[j], old[i] })
		}
	}
	base := g.r.I32()
	out := make([]int32, 0, k)
	for len(out) < k {
		if len(old) > 0 && (policy != 3 || len(out)%2 == 0) {
			out = append(out, old[0])
			old = old[1:]
			g.cnt["hist_grown_old_keys_put_again"]++
			continue
		}
		out = append(out, g.newInt(base))
	}
	return out
}

// the model side of a put
func (g *grown) putStrM(k string, x *mnode) {
	n := g.n
	if g.curStr[k] {
		putStr(n, k, x)
		return
	}
	g.curStr[k], g.everStr[k] = true, true
	n.keys = append(n.keys, k)
	n.vals = append(n.vals, x)
}

func (g *grown) putIntM(k int32, x *mnode) {
	n := g.n
	if g.curInt[k] {
		putInt(n, k, x)
		return
	}
	g.curInt[k], g.everInt[k] = true, true
	n.ikeys = append(n.ikeys, k)
	n.vals = append(n.vals, x)
}

func (g *grown) textNode(x *mnode, s string) *mnode {
	x.tag, x.leaf = refcodec.TText, V{Tag: refcodec.TText, S: s}
	return x
}

func (g *grown) decNode(x *mnode, v int64) *mnode {
	x.tag, x.leaf = refcodec.TDecimal, V{Tag: refcodec.TDecimal, I: v}
	return x
}

// putStrKey puts one entry under k through the drawn (or the given) adder of MapValue.
func (g *grown) putStrKey(t *value.MapValue, k string, how string) {
	r := g.r
	if how == "" {
		switch r.Intn(10) {
		case 0:
			how = "PutString"
		case 1:
			how = "PutLong"
		default:
			how = "Put"
		}
	}
	switch how {
	case "PutString":
		s := r.Str(16)
		t.PutString(k, s)
		g.putStrM(k, g.textNode(g.adopt(t.Get(k), "MapValue.PutString"), s))
	case "PutLong":
		v := r.I64()
		t.PutLong(k, v)
		g.putStrM(k, g.decNode(g.adopt(t.Get(k), "MapValue.PutLong"), v))
	case "NewList":
		l := t.NewList(k)
		x := g.adopt(l, "MapValue.NewList")
		g.putStrM(k, x)
		g.fillHelperList(x)
	default:
		x := g.entry()
		t.Put(k, x.g)
		g.putStrM(k, x)
	}
}

func (g *grown) putIntKey(t *value.IntMapValue, k int32, how string) {
	r := g.r
	if how == "" {
		switch r.Intn(10) {
		case 0:
			how = "PutString"
		case 1:
			how = "PutLong"
		default:
			how = "Put"
		}
	}
	switch how {
	case "PutString":
		s := r.Str(16)
		t.PutString(k, s)
		g.putIntM(k, g.textNode(g.adopt(t.Get(k), "IntMapValue.PutString"), s))
	case "PutLong":
		v := r.I64()
		t.PutLong(k, v)
		g.putIntM(k, g.decNode(g.adopt(t.Get(k), "IntMapValue.PutLong"), v))
	case "NewList":
		l := t.NewList(k)
		x := g.adopt(l, "IntMapValue.NewList")
		g.putIntM(k, x)
		g.fillHelperList(x)
	default:
		x := g.entry()
		t.Put(k, x.g)
		g.putIntM(k, x)
	}
}

// putAll puts the entries (keys ks, new objects) through PutAll from a map built for it.
func (g *grown) putAll(t *value.MapValue, ks []string) {
	src := value.NewMapValue()
	xs := make([]*mnode, len(ks))
	for i, k := range ks {
		xs[i] = g.entry()
		src.Put(k, xs[i].g)
	}
	t.PutAll(src)
	idx := make(map[string]int, len(g.n.keys))
	for i, k := range g.n.keys {
		idx[k] = i
	}
	for i, k := range ks {
		if j, ok := idx[k]; ok {
			g.n.vals[j] = xs[i] // a key the map holds keeps its place
			continue
		}
		idx[k] = len(g.n.keys)
		g.curStr[k], g.everStr[k] = true, true
		g.n.keys = append(g.n.keys, k)
		g.n.vals = append(g.n.vals, xs[i])
	}
}

// fill adds k entries through the public adders.
func (g *grown) fill(k, policy int, why string) {
	r := g.r
	from := g.size()
	oldBefore := g.cnt["hist_grown_old_keys_put_again"]
	via := "Put/PutString/PutLong"
	switch t := g.n.g.(type) {
	case *value.ListValue:
		via = "Add/AddString/AddLong"
		for j := 0; j < k; j++ {
			switch r.Intn(8) {
			case 0:
				s := r.Str(16)
				t.AddString(s)
				g.n.items = append(g.n.items, g.textNode(g.adopt(t.Get(t.Size()-1), "ListValue.AddString"), s))
			case 1:
				v := r.I64()
				t.AddLong(v)
				g.n.items = append(g.n.items, g.decNode(g.adopt(t.Get(t.Size()-1), "ListValue.AddLong"), v))
			default:
				x := g.entry()
				t.Add(x.g)
				g.n.items = append(g.n.items, x)
			}
		}
	case *value.MapValue:
		ks := g.strKeys(k, policy)
		if r.Chance(1, 4) {
			via = "PutAll"
			g.putAll(t, ks)
			g.cnt["hist_grown_fills_PutAll"]++
		} else {
			for _, key := range ks {
				g.putStrKey(t, key, "")
			}
		}
	case *value.IntMapValue:
		for _, key := range g.intKeys(k, policy) {
			g.putIntKey(t, key, "")
		}
	}
	if policy > 0 && g.n.tag != refcodec.TList {
		via += ", " + refillPolicies[policy]
	}
	if g.cnt["hist_grown_old_keys_put_again"] > oldBefore {
		g.cnt["hist_grown_refills_with_old_keys"]++
	}
	g.lastMut = fmt.Sprintf("%s: %d entries added to %s through %s (%d -> %d entries)", why, k, g.n.name(), via, from, g.size())
	g.logf("%s", g.lastMut)
}

func (g *grown) clear() {
	switch t := g.n.g.(type) {
	case *value.ListValue:
		t.Clear()
		g.n.items = nil
	case *value.MapValue:
		t.Clear()
		g.pastStr = g.n.keys
		g.n.keys, g.n.vals = nil, nil
		g.curStr = map[string]bool{}
	case *value.IntMapValue:
		t.Clear()
		g.pastInt = g.n.ikeys
		g.n.ikeys, g.n.vals = nil, nil
		g.curInt = map[int32]bool{}
	}
}

// spots are the positions a replace-style mutator is applied to: the ends, the entries put
// around the first growth, and a few drawn ones.
func (g *grown) spots(k int) []int {
	sz := g.size()
	if sz == 0 {
		return nil
	}
	out := []int{0, sz - 1}
	for _, i := range []int{74, 75, 76} {
		if i < sz-1 && g.r.Chance(1, 2) {
			out = append(out, i)
		}
	}
	for len(out) < k+2 {
		out = append(out, g.r.Intn(sz))
	}
	return out
}

// apply changes the container through mutator mut at its present size.
func (g *grown) apply(mut string, cl growClass) {
	r := g.r
	from := g.size()
	what := ""
	switch t := g.n.g.(type) {
	case *value.ListValue:
		switch mut {
		case "Clear":
			g.clear()
		case "Set":
			for _, i := range g.spots(3) {
				x := g.entry()
				t.Set(i, x.g)
				g.n.items = append([]*mnode(nil), g.n.items...)
				g.n.items[i] = x
				what += fmt.Sprintf(" Set(%d, %s)", i, x.name())
			}
		case "Add":
			k := cl.next + r.Intn(2) - from
			g.fill(k, 0, "Add beyond the next threshold")
			return
		}
	case *value.MapValue:
		switch mut {
		case "Clear":
			g.clear()
		case "PutAll":
			// keys the map holds (in another order) and new ones: none, one, a few, or as many
			// as take the table over its next growth
			var ks []string
			for _, i := range g.spots(r.Intn(6)) {
				ks = append(ks, g.n.keys[i])
			}
			ks = dedupStr(ks)
			r.Shuffle(len(ks), func(i, j int) { ks[i], ks[j] = ks[j], ks[i] })
			fresh := []int{0, 1, 1 + r.Intn(5), cl.next - from, cl.next + 1 - from}[r.Intn(5)]
			held := len(ks)
			for j := 0; j < fresh; j++ {
				k := g.newStr()
				at := len(ks)
				if r.Chance(1, 2) {
					at = r.Intn(len(ks) + 1)
				}
				ks = append(ks, "")
				copy(ks[at+1:], ks[at:])
				ks[at] = k
			}
			g.putAll(t, ks)
			what = fmt.Sprintf(" PutAll(a new map with %d keys it holds and %d new keys)", held, fresh)
		default: // Put, PutString, PutLong, NewList on keys it holds, and one new key
			sp := g.spots(3)
			if mut == "NewList" {
				sp = g.spots(1)
			}
			for _, i := range sp {
				k := g.n.keys[i]
				g.putStrKey(t, k, mut)
				what += fmt.Sprintf(" %s(%q [entry %d])", mut, k, i)
			}
			if r.Chance(1, 2) {
				k := g.newStr()
				g.putStrKey(t, k, mut)
				what += fmt.Sprintf(" %s(%q [new key])", mut, k)
			}
		}
	case *value.IntMapValue:
		switch mut {
		case "Clear":
			g.clear()
		default:
			sp := g.spots(3)
			if mut == "NewList" {
				sp = g.spots(1)
			}
			for _, i := range sp {
				k := g.n.ikeys[i]
				g.putIntKey(t, k, mut)
				what += fmt.Sprintf(" %s(%d [entry %d])", mut, k, i)
			}
			if r.Chance(1, 2) {
				k := g.newInt(r.I32())
				g.putIntKey(t, k, mut)
				what += fmt.Sprintf(" %s(%d [new key])", mut, k)
			}
		}
	}
	if mut == "Clear" {
		what = " Clear()"
	}
	if len(what) > 400 {
		what = what[:400] + " …"
	}
	g.lastMut = fmt.Sprintf("%s holding %d entries:%s (-> %d entries)", g.n.name(), from, what, g.size())
	g.logf("%s", g.lastMut)
}

func dedupStr(ks []string) []string {
	seen := map[string]bool{}
	out := ks[:0]
	for _, k := range ks {
		if !seen[k] {
			seen[k] = true
			out = append(out, k)
		}
	}
	return out
}

// rewritten: the container in a fresh output at once, then in a drawn way, then its parent;
// then the live object.
func (g *grown) rewritten(mut string) bool {
	if !g.written(g.n, 0) {
		return false
	}
	if !g.written(g.n, g.r.Intn(len(writeModes))) {
		return false
	}
	if g.root != g.n && !g.written(g.root, g.r.Intn(len(writeModes))) {
		return false
	}
	return g.live(g.n, mut)
}

// step runs fn (library calls that change the container); a panic in it is a finding.
func (g *grown) step(what string, fn func()) bool {
	if p := vlib.Catch(fn); p != nil {
		g.fail(g.typ+":mutator-panics/history", fmt.Sprintf("%s: %s of %s panics: %v (after %s)", g.typ, what, g.n.name(), p, g.lastMut), nil)
		return false
	}
	return true
}

func grownHistoryCase(c *vlib.Ctx, i int, r *vlib.Rand) {
	pair := growPairs[i%len(growPairs)]
	ci := growSlots[(i/len(growPairs))%len(growSlots)]
	cl := growClasses[ci]
	h := &hworld{world: newWorld(r, 1<<30, 0), c: c, id: fmt.Sprintf("history-grown#%d", i), suffix: "history"}
	defer h.flush()
	g := &grown{hworld: h, typ: refcodec.ValueTagName(pair.tag), curStr: map[string]bool{}, curInt: map[int32]bool{}, everStr: map[string]bool{}, everInt: map[int32]bool{}}
	size := cl.sizes[r.Intn(len(cl.sizes))]

	// ---- the container at its size: built, filled by PutAll, or decoded ---------------------
	start := r.Intn(4)
	switch pair.tag {
	case refcodec.TList:
		g.n = h.add(&mnode{tag: pair.tag, g: value.NewListValue(nil), born: "built"})
	case refcodec.TMap:
		g.n = h.add(&mnode{tag: pair.tag, g: value.NewMapValue(), born: "built"})
	default:
		g.n = h.add(&mnode{tag: pair.tag, g: value.NewIntMapValue(), born: "built"})
	}
	g.root = g.n
	ok := g.step("filling", func() {
		// keys that fall into one bucket of the table, now and then
		switch t := g.n.g.(type) {
		case *value.MapValue:
			if r.Chance(1, 5) {
				ks := valgen.CollidingStrKeys(r, size)
				for _, k := range ks {
					g.everStr[k] = true
				}
				if start == 1 {
					g.putAll(t, ks)
				} else {
					for _, k := range ks {
						g.putStrKey(t, k, "")
					}
				}
				h.cnt["hist_grown_colliding_keys"]++
			}
		case *value.IntMapValue:
			if r.Chance(1, 3) {
				for _, k := range valgen.IntKeys(r, size) {
					g.everInt[k] = true
					g.putIntKey(t, k, "")
				}
				h.cnt["hist_grown_generator_int_keys"]++
			}
		}
		if left := size - g.size(); left > 0 {
			g.fill(left, 0, "built")
		}
	})
	if !ok {
		return
	}
	if g.size() != size {
		panic(fmt.Sprintf("harness: wanted %d entries, built %d", size, g.size()))
	}
	if start == 0 {
		// the starting point is what the library decodes from the reference encoding
		model := g.n.tree()
		var d value.Value
		if p := vlib.Catch(func() { d = value.ReadValue(gio.NewDataInputX(refcodec.EncodeValue(model))) }); p != nil {
			h.fail(g.typ+":decode-panics/history", fmt.Sprintf("ReadValue of a reference encoding (%d entries) panics: %v", size, p), map[string]interface{}{"model": valgen.Render(model, 2000)})
			return
		}
		h.nodes = nil
		g.n = h.adopt(d, "decoded")
		g.root = g.n
		if ok, path := valgen.Equal(model, g.n.tree()); !ok {
			h.fail(innerType(path)+":not-restored@"+lastSegments(valgen.PathKind(path), 1)+"/history", "the value decoded from a reference encoding differs from its model at "+path, map[string]interface{}{"model": valgen.Render(model, 2000)})
			return
		}
		h.cnt["hist_grown_starts_decoded"]++
		h.logf("%s with %d entries decoded from bytes", g.n.name(), size)
	} else if start == 1 && pair.tag == refcodec.TMap {
		h.cnt["hist_grown_starts_PutAll"]++
	} else {
		h.cnt["hist_grown_starts_built"]++
	}
	// on its own, or nested in a parent that is written as well
	if r.Chance(1, 3) {
		var p *mnode
		switch r.Intn(3) {
		case 0:
			l := value.NewListValue(nil)
			x := h.leafNode(g.leafV(), "built")
			l.Add(x.g)
			l.Add(g.n.g)
			p = &mnode{tag: refcodec.TList, g: l, born: "built", items: []*mnode{x, g.n}}
		case 1:
			m := value.NewMapValue()
			m.Put("grown", g.n.g)
			m.PutLong("n", int64(size))
			p = &mnode{tag: refcodec.TMap, g: m, born: "built", keys: []string{"grown", "n"}, vals: []*mnode{g.n, g.decNode(h.adopt(m.Get("n"), "MapValue.PutLong"), int64(size))}}
		default:
			m := value.NewIntMapValue()
			m.Put(-1, g.n.g)
			p = &mnode{tag: refcodec.TIntMap, g: m, born: "built", ikeys: []int32{-1}, vals: []*mnode{g.n}}
		}
		g.root = h.add(p)
		h.cnt["hist_grown_nested_in_parent"]++
		h.logf("%s is nested in %s", g.n.name(), g.root.name())
	}
	h.roots = []*mnode{g.root}
	if size >= 1000 {
		h.cnt["hist_grown_size_ge1000"]++
	}
	if size >= 1300 {
		h.cnt["hist_grown_size_ge1300"]++
	}

	// step 0: written at its size (whatever a writer keeps, it has it now)
	if !h.written(g.root, r.Intn(3)) {
		return
	}
	if r.Chance(1, 2) && !h.written(g.n, r.Intn(len(writeModes))) {
		return
	}

	// ---- the mutator at that size, and the write right after it ------------------------------
	if !g.step(pair.mut, func() { g.apply(pair.mut, cl) }) {
		return
	}
	h.cnt["history_mutations"]++
	if !g.rewritten(pair.mut) {
		return
	}
	h.cnt["hist_grown_"+g.typ+"."+pair.mut+"_at_"+cl.name]++
	h.cnt["hist_grown_written_right_after_mutator_"+g.typ]++
	if g.size() == 0 {
		h.cnt["hist_grown_written_empty_after_Clear_"+g.typ]++
	}

	// ---- refilled to a small size, written ---------------------------------------------------
	policy := r.Intn(len(refillPolicies))
	if pair.mut == "Clear" && pair.tag != refcodec.TList && r.Chance(1, 2) {
		policy = 1 + r.Intn(3)
	}
	small := []int{1, 1, 2, 3, 5, 10}[r.Intn(6)]
	if !g.step("refilling", func() { g.fill(small, policy, "refill to a small size") }) {
		return
	}
	if !g.rewritten("refill") {
		return
	}
	h.cnt["hist_grown_refills_small_"+g.typ]++

	// ---- refilled beyond a threshold again, written ------------------------------------------
	tc := growClasses[1+r.Intn(3)]
	if r.Chance(1, 4) && ci > 0 {
		tc = cl
	}
	target := tc.sizes[r.Intn(len(tc.sizes))]
	if g.size() >= target {
		// still large (the mutator was not Clear): over its next growth when that is near
		for _, x := range growClasses {
			if x.name == growClassOf(g.size()) {
				target = x.next + r.Intn(2)
			}
		}
		if target > 1400 || target <= g.size() {
			target = g.size() + 1 + r.Intn(5)
		}
	}
	policy2 := r.Intn(len(refillPolicies))
	if !g.step("refilling", func() { g.fill(target-g.size(), policy2, "refill beyond a threshold") }) {
		return
	}
	if !g.rewritten("refill") {
		return
	}
	h.cnt["hist_grown_refills_beyond_threshold_"+g.typ]++
	h.cnt["hist_grown_refilled_to_"+growClassOf(g.size())+"_"+g.typ]++

	// ---- cleared once more at that size, written, refilled, written --------------------------
	at := growClassOf(g.size())
	if !g.step("Clear", func() { g.apply("Clear", cl) }) {
		return
	}
	h.cnt["history_mutations"]++
	if !g.rewritten("Clear") {
		return
	}
	h.cnt["hist_grown_"+g.typ+".Clear_again_at_"+at]++
	h.cnt["hist_grown_written_empty_after_Clear_"+g.typ]++
	policy3 := 1 + r.Intn(3)
	again := []int{1, 2, 5, 10, 74, 75, 76, 77, 153}[r.Intn(9)]
	if !g.step("refilling", func() { g.fill(again, policy3, "refill after the second Clear") }) {
		return
	}
	if !g.rewritten("refill") {
		return
	}
	if r.Chance(1, 4) && !h.streamOfRoots(false) {
		return
	}
	h.cnt["hist_grown_cases"]++
	h.evidence("history-grown")
	if c.WantSample() && r.Chance(1, 40) {
		c.Sample(map[string]interface{}{"section": "history-grown", "case": h.id, "history": h.log})
	}
}
