package main

// ref.go — encodings that do not come from golib.
//
// The unrelated decodes of a history (history.go) are fed with the wire form of a description
// written by the independent reference encoder (verif/refcodec, which imports nothing from
// golib), not with WriteValue of a golib value: what reaches the decoder is then what the
// description says, whatever state golib's own values are in. (A decoder that hands out a
// shared instance makes every later value of that type carry the last decoded payload; fed
// only with golib's own encodings of such values it would see that one payload for ever and
// every law would hold on the one value that is left.)

import (
	"verif/refcodec"
	"verif/vlib"
)

func toRef(s *spec) refcodec.V {
	v := refcodec.V{Tag: s.code}
	switch s.code {
	case cBool:
		if s.b {
			v.I = 1
		}
	case cDecimal, cLong:
		v.I = s.i
	case cInt, cTextH:
		v.I = int64(int32(s.i))
	case cFloat:
		v.F32 = s.f32
	case cDouble:
		v.F = s.f64
	case cDSum:
		v.DS = &refcodec.DoubleSum{Sum: s.f64, Count: s.count, Min: s.dmin, Max: s.dmax}
	case cLSum:
		v.LS = &refcodec.LongSum{Sum: s.i, Count: s.count, Min: s.lmin, Max: s.lmax}
	case cText:
		v.S = s.s
	case cBlob, cIP4:
		v.B = s.blob
	case cIntArr:
		v.Ints = s.ints
	case cFltArr:
		v.Floats = s.floats
	case cTxtArr:
		v.Texts = s.texts
	case cLngArr:
		v.Longs = s.longs
	case cList:
		for _, e := range s.items {
			v.List = append(v.List, toRef(e))
		}
	case cMap:
		v.Keys = s.keys
		for _, e := range s.items {
			v.Vals = append(v.Vals, toRef(e))
		}
	case cIntMap:
		v.IntKeys = s.ikeys
		for _, e := range s.items {
			v.Vals = append(v.Vals, toRef(e))
		}
	}
	return v
}

// refWire is the reference encoding of the described value (nil if the reference encoder
// has no layout for it).
func refWire(s *spec) (b []byte) {
	vlib.Catch(func() { b = refcodec.EncodeValue(toRef(s)) })
	return
}
